(* C06 — the cut decision at length L is the Rabin fingerprint (reduction modulo P) of the
   chunker's window; for L >= min + 64 that window is exactly the last 64 bytes. *)
From Verif.Base Require Import Tactics.
From Verif.C06 Require Import Extracted Model Spec ListLemmas Proofs Gf2 Proofs5 Gf2Tables.
Local Open Scope N_scope.

Lemma Forall_firstn' {A} (Q : A -> Prop) n (l : list A) : Forall Q l -> Forall Q (firstn n l).
Proof. intros H. rewrite <- (firstn_skipn n l) in H. apply Forall_app in H. apply H. Qed.
Lemma Forall_skipn' {A} (Q : A -> Prop) n (l : list A) : Forall Q l -> Forall Q (skipn n l).
Proof. intros H. rewrite <- (firstn_skipn n l) in H. apply Forall_app in H. apply H. Qed.
Lemma Forall_ntake (Q : N -> Prop) n l : Forall Q l -> Forall Q (ntake n l).
Proof. rewrite ntake_firstn. apply Forall_firstn'. Qed.
Lemma Forall_ndrop (Q : N -> Prop) n l : Forall Q l -> Forall Q (ndrop n l).
Proof. rewrite ndrop_skipn. apply Forall_skipn'. Qed.

Lemma a_fifo_fold T : forall xs w, a_fifo w <> [] ->
  a_fifo (fold_left (a_slide T) xs w) = skipn (length xs) (a_fifo w ++ xs).
Proof.
  induction xs as [|x xs IH]; intros w Hw; cbn [fold_left length skipn].
  - rewrite app_nil_r. reflexivity.
  - unfold a_slide at 2. destruct (a_fifo w) as [|o t] eqn:E; [congruence|].
    rewrite IH by (cbn [a_fifo]; destruct t; discriminate).
    cbn [a_fifo app skipn]. rewrite <- app_assoc. reflexivity.
Qed.

Lemma wsize_is : forall P, t_wsize (rabin_tab WINDOW_BITS P) = 64.
Proof. intros P. cbn [rabin_tab t_wsize]. vm_compute. reflexivity. Qed.
Lemma prefill_is : PREFILL_SLICE = 64.
Proof. vm_compute. reflexivity. Qed.

Lemma win_start_len p (s : bytes) : PREFILL_SLICE <= c_min p -> c_min p <= nlen s ->
  nlen (ntake (t_wsize (tab_of p) - 1) (ndrop (c_min p - PREFILL_SLICE) (ntake (c_min p) s))) = 63.
Proof.
  intros H1 H2. unfold tab_of. rewrite wsize_is, nlen_ntake, nlen_ndrop, nlen_ntake.
  rewrite prefill_is in *. lia.
Qed.

(* the hash the chunker tests at length L is the fingerprint of its window *)
Lemma window_hash_is_fingerprint_lemma : forall p s L, Forall isbyte s ->
  8 <= N.log2 (c_poly p) -> N.log2 (c_poly p) <= 56 ->
  PREFILL_SLICE <= c_min p -> c_min p <= nlen s ->
  a_hash (win_at (tab_of p) p s L) = fp_direct (c_poly p) (a_fifo (win_at (tab_of p) p s L)).
Proof.
  intros p s L Hs Hlo Hhi H1 H2. unfold win_at, win_start, tab_of.
  apply (rolling_lemma (c_poly p) WINDOW_BITS Hlo Hhi).
  - apply Forall_ntake, Forall_ndrop, Forall_ntake. assumption.
  - apply Forall_ntake, Forall_ndrop. assumption.
  - pose proof (win_start_len p s H1 H2) as E. unfold tab_of, nlen in E. rewrite wsize_is in *. lia.
Qed.

(* cut_local: from min + 64 on, the window is the last 64 bytes of the chunk so far *)
Lemma cut_local_lemma : forall p s L, Forall isbyte s ->
  8 <= N.log2 (c_poly p) -> N.log2 (c_poly p) <= 56 ->
  PREFILL_SLICE <= c_min p -> c_min p + 64 <= L -> L <= nlen s ->
  a_fifo (win_at (tab_of p) p s L) = ntake 64 (ndrop (L - 64) s) /\
  a_hash (win_at (tab_of p) p s L) = fp_direct (c_poly p) (ntake 64 (ndrop (L - 64) s)).
Proof.
  intros p s L Hs Hlo Hhi H1 H2 H3.
  assert (Hf : a_fifo (win_at (tab_of p) p s L) = ntake 64 (ndrop (L - 64) s)).
  { unfold win_at. rewrite a_fifo_fold by (unfold win_start, a_init; cbn [a_fifo]; discriminate).
    unfold win_start, a_init. cbn [a_fifo].
    set (bs := ntake (t_wsize (tab_of p) - 1) (ndrop (c_min p - PREFILL_SLICE) (ntake (c_min p) s))).
    assert (Hbs : length bs = 63%nat).
    { pose proof (win_start_len p s H1 ltac:(lia)) as E. fold bs in E. unfold nlen in E. lia. }
    set (xs := ntake (L - c_min p) (ndrop (c_min p) s)).
    assert (Hxs : length xs = N.to_nat (L - c_min p)).
    { assert (E := nlen_ntake (L - c_min p) (ndrop (c_min p) s)). fold xs in E.
      rewrite nlen_ndrop in E. unfold nlen in *. lia. }
    rewrite skipn_app. cbn [length]. rewrite Hbs, Hxs.
    rewrite (skipn_all2 (0 :: bs)) by (cbn [length]; lia). cbn [app].
    unfold xs. rewrite ntake_firstn, ndrop_skipn, skipn_firstn_comm, <- skipn_plus.
    rewrite ntake_firstn, ndrop_skipn. f_equal; [|f_equal]; lia. }
  split; [assumption|]. rewrite <- Hf.
  apply window_hash_is_fingerprint_lemma; try assumption. lia.
Qed.

(* hypotheses are satisfiable: the restic default polynomial has degree 53 *)
Example default_poly_degree : 8 <= N.log2 0x3DA3358B4DC173 /\ N.log2 0x3DA3358B4DC173 <= 56.
Proof. vm_compute. split; discriminate. Qed.
Example cut_local_example :
  let p := {| c_poly := 0x3DA3358B4DC173; c_avg := 64; c_min := 64; c_max := 4096 |} in
  let s := map (fun i => (N.of_nat i * 37 + 11) mod 256) (seq 0 200) in
  a_hash (win_at (tab_of p) p s 150) = fp_direct (c_poly p) (ntake 64 (ndrop 86 s)).
Proof. vm_compute. reflexivity. Qed.
