(* C06 — deepening:
   * the window for min <= L < min + 64, explicitly (it omits the byte s[min-1]);
   * witness against the literal reading "fingerprint of the last 64 bytes" (open finding);
   * witness that for degree 57 the rolling hash is not the remainder modulo P;
   * the window hash as a function of the last 64 bytes for every degree >= 8;
   * two streams sharing a suffix cut it identically after their first common cut. *)
From Verif.Base Require Import Tactics.
From Verif.C06 Require Import Extracted Model Spec ListLemmas Proofs Proofs2 Proofs3 Proofs4
     Gf2 Proofs5 Gf2Tables Proofs6 Proofs7.
Local Open Scope N_scope.

(* ------------------------------------------------------------ the window, explicitly *)
Lemma win_start_fifo p (s : bytes) : PREFILL_SLICE <= c_min p -> c_min p <= nlen s ->
  a_fifo (win_start (tab_of p) p s) = 0 :: ntake 63 (ndrop (c_min p - 64) s).
Proof.
  intros H1 H2. unfold win_start, a_init, tab_of. cbn [a_fifo]. rewrite wsize_is. f_equal.
  rewrite prefill_is in *. change (64 - 1) with 63.
  rewrite !ntake_firstn, !ndrop_skipn, skipn_firstn_comm, firstn_firstn.
  f_equal. unfold nlen in *. lia.
Qed.

Lemma win_fifo_near p (s : bytes) L : PREFILL_SLICE <= c_min p -> c_min p <= L -> L <= c_min p + 64 -> L <= nlen s ->
  a_fifo (win_at (tab_of p) p s L)
  = skipn (N.to_nat (L - c_min p)) (0 :: ntake 63 (ndrop (c_min p - 64) s))
    ++ ntake (L - c_min p) (ndrop (c_min p) s).
Proof.
  intros H1 H2 H3 H4. unfold win_at.
  rewrite a_fifo_fold by (unfold win_start, a_init; cbn [a_fifo]; discriminate).
  rewrite (win_start_fifo p s H1) by lia.
  set (xs := ntake (L - c_min p) (ndrop (c_min p) s)).
  assert (Hxs : length xs = N.to_nat (L - c_min p)).
  { assert (E := nlen_ntake (L - c_min p) (ndrop (c_min p) s)). fold xs in E.
    rewrite nlen_ndrop in E. unfold nlen in *. lia. }
  set (f0 := 0 :: ntake 63 (ndrop (c_min p - 64) s)).
  assert (Hf0 : length f0 = 64%nat).
  { unfold f0. cbn [length]. assert (E := nlen_ntake 63 (ndrop (c_min p - 64) s)).
    rewrite nlen_ndrop in E. rewrite prefill_is in H1. unfold nlen in *. lia. }
  rewrite skipn_app, Hxs, Hf0.
  replace (N.to_nat (L - c_min p) - 64)%nat with 0%nat by lia. reflexivity.
Qed.

Lemma win_fifo_far p (s : bytes) L : PREFILL_SLICE <= c_min p -> c_min p + 64 <= L -> L <= nlen s ->
  a_fifo (win_at (tab_of p) p s L) = ntake 64 (ndrop (L - 64) s).
Proof.
  intros H1 H2 H3. unfold win_at.
  rewrite a_fifo_fold by (unfold win_start, a_init; cbn [a_fifo]; discriminate).
  rewrite (win_start_fifo p s H1) by lia.
  set (xs := ntake (L - c_min p) (ndrop (c_min p) s)).
  assert (Hxs : length xs = N.to_nat (L - c_min p)).
  { assert (E := nlen_ntake (L - c_min p) (ndrop (c_min p) s)). fold xs in E.
    rewrite nlen_ndrop in E. unfold nlen in *. lia. }
  set (f0 := 0 :: ntake 63 (ndrop (c_min p - 64) s)).
  assert (Hf0 : length f0 = 64%nat).
  { unfold f0. cbn [length]. assert (E := nlen_ntake 63 (ndrop (c_min p - 64) s)).
    rewrite nlen_ndrop in E. rewrite prefill_is in H1. unfold nlen in *. lia. }
  rewrite skipn_app, Hxs, Hf0. rewrite (skipn_all2 f0) by lia. cbn [app].
  unfold xs. rewrite ntake_firstn, ndrop_skipn, skipn_firstn_comm, <- skipn_plus.
  rewrite ntake_firstn, ndrop_skipn. f_equal; [|f_equal]; lia.
Qed.

(* every degree >= 8: the tested hash is the from-scratch fold over the chunker's window;
   from min + 64 on that window is the last 64 bytes *)
Lemma window_hash_any_degree_lemma : forall p s L, Forall isbyte s ->
  8 <= N.log2 (c_poly p) -> PREFILL_SLICE <= c_min p -> c_min p <= nlen s ->
  a_hash (win_at (tab_of p) p s L) = wfold (tab_of p) (a_fifo (win_at (tab_of p) p s L)).
Proof.
  intros p s L Hs Hlo H1 H2. unfold win_at, win_start, tab_of.
  apply (rolling_any_degree_lemma (c_poly p) WINDOW_BITS Hlo).
  - apply Forall_ntake, Forall_ndrop, Forall_ntake. assumption.
  - apply Forall_ntake, Forall_ndrop. assumption.
  - pose proof (win_start_len p s H1 H2) as E. unfold tab_of, nlen in E. rewrite wsize_is in *. lia.
Qed.

Lemma cut_local_any_degree_lemma : forall p s L, Forall isbyte s ->
  8 <= N.log2 (c_poly p) -> PREFILL_SLICE <= c_min p -> c_min p + 64 <= L -> L <= nlen s ->
  a_hash (win_at (tab_of p) p s L) = wfold (tab_of p) (ntake 64 (ndrop (L - 64) s)).
Proof.
  intros p s L Hs Hlo H1 H2 H3. rewrite <- (win_fifo_far p s L H1 H2 H3).
  apply window_hash_any_degree_lemma; try assumption. lia.
Qed.

(* ------------------------------------------------------------ literal reading refuted *)
(* accepted parameters (restic's default polynomial, avg 4096, min 4096, max 8192); the stream is
   4093 zero bytes, then 16 0 1, then 1 2 3.  The code cuts at L = min = 4096: its window there is
   0 :: s[4032..4095) - it omits s[4095] - with fingerprint 0x1000.  The last 64 bytes
   s[4032..4096) have fingerprint 0x100001, whose low 12 bits are not zero. *)
Definition prefill_witness_params : cparams :=
  {| c_poly := 0x3DA3358B4DC173; c_avg := 4096; c_min := 4096; c_max := 8192 |}.
Definition prefill_witness_stream : bytes := repeat 0 4093 ++ [16; 0; 1] ++ [1; 2; 3].

Lemma last64_refuted_lemma :
  exists p s L,
    rabin_accepts (c_avg p) (c_min p) (c_max p) = true /\
    8 <= N.log2 (c_poly p) /\ N.log2 (c_poly p) <= 56 /\ Forall isbyte s /\
    c_min p <= L /\ L < c_max p /\ L < nlen s /\
    (* the code cuts at L, because the hash of ITS window has the low bits zero ... *)
    N.of_nat (first_len (tab_of p) p s) = L /\
    N.land (a_hash (win_at (tab_of p) p s L)) (c_avg p - 1) = 0 /\
    (* ... but the Rabin fingerprint of the most recent 64 bytes has not *)
    N.land (fp_direct (c_poly p) (ntake 64 (ndrop (L - 64) s))) (c_avg p - 1) <> 0.
Proof.
  exists prefill_witness_params, prefill_witness_stream, 4096.
  split; [vm_compute; reflexivity|].
  split; [vm_compute; discriminate|]. split; [vm_compute; discriminate|].
  split.
  { unfold prefill_witness_stream. apply Forall_app. split.
    - apply Forall_forall. intros x Hx. apply repeat_spec in Hx. subst. unfold isbyte. lia.
    - repeat constructor. }
  split; [vm_compute; discriminate|]. split; [vm_compute; reflexivity|]. split; [vm_compute; reflexivity|].
  split; [vm_compute; reflexivity|]. split; [vm_compute; reflexivity|].
  vm_compute. discriminate.
Qed.

(* ------------------------------------------------------------ degree 57: not the remainder *)
(* 0x3236eb02265b1f5 has degree 57 (it is irreducible; not needed here).  After the prefill with
   51 zero bytes and 12 bytes 0xff the hash already differs from the remainder modulo P of the
   window: `hash <<= 8` dropped the bits 56 of the hash instead of reducing them. *)
Lemma degree57_refuted_lemma :
  exists P bs, N.log2 P = 57 /\ Forall isbyte bs /\ length bs = 63%nat /\
    let T := rabin_tab WINDOW_BITS P in
    let w := a_init T bs in
    a_hash w <> fp_direct P (a_fifo w) /\ a_hash w = wfold T (a_fifo w).
Proof.
  exists 0x3236eb02265b1f5, (repeat 0 51 ++ repeat 255 12)%list.
  split; [vm_compute; reflexivity|]. split.
  { apply Forall_app. split; apply Forall_forall; intros x Hx; apply repeat_spec in Hx; subst; unfold isbyte; lia. }
  split; [reflexivity|]. cbv zeta. split; [vm_compute; discriminate|vm_compute; reflexivity].
Qed.

(* ------------------------------------------------------------ shared suffix *)
Lemma shared_suffix_lemma : forall p t a1 a2 pre1 post1 pre2 post2, params_ok p = true ->
  cuts p (a1 ++ t) = pre1 ++ post1 -> concat pre1 = a1 ->
  cuts p (a2 ++ t) = pre2 ++ post2 -> concat pre2 = a2 ->
  post1 = post2 /\ post1 = cuts p t.
Proof.
  intros p t a1 a2 pre1 post1 pre2 post2 Hp C1 A1 C2 A2.
  pose proof (resync_lemma p t pre1 a1 post1 Hp C1 A1) as E1.
  pose proof (resync_lemma p t pre2 a2 post2 Hp C2 A2) as E2.
  split; congruence.
Qed.

(* the same for the iterator itself: any two schedules, hints, arithmetic modes *)
Lemma shared_suffix_impl_lemma : forall P avg mn mx t a1 a2 pre1 post1 pre2 post2 md1 md2 h1 h2 sc1 sc2,
  rabin_accepts avg mn mx = true ->
  let p := {| c_poly := P; c_avg := avg; c_min := mn; c_max := mx |} in
  chunks_impl md1 p h1 (a1 ++ t) sc1 = Ok (pre1 ++ post1) -> concat pre1 = a1 ->
  chunks_impl md2 p h2 (a2 ++ t) sc2 = Ok (pre2 ++ post2) -> concat pre2 = a2 ->
  post1 = post2.
Proof.
  intros P avg mn mx t a1 a2 pre1 post1 pre2 post2 md1 md2 h1 h2 sc1 sc2 Ha p C1 A1 C2 A2.
  pose proof (accepted_params_ok_lemma P avg mn mx Ha) as Hp. fold p in Hp.
  rewrite chunks_impl_is_cuts in C1, C2 by assumption.
  inversion C1 as [C1']. inversion C2 as [C2'].
  apply (shared_suffix_lemma p t a1 a2 pre1 post1 pre2 post2 Hp C1' A1 C2' A2).
Qed.

(* Example on real parameters (restic's default polynomial, avg 4096 / min 4096 / max 8192):
   s1 = 14500 pseudo-random bytes whose chunks are 4334 4208 4265 1693; a1 = its first two chunks,
   t = the rest; a2 = the first chunk (4173 bytes) of another pseudo-random stream.  Both a1 ++ t and
   a2 ++ t cut t as t alone is cut.  Everything is evaluated once, inside one boolean (the
   independent checker coqchk has no virtual machine). *)
Fixpoint lcg (n : nat) (x : N) : bytes :=
  match n with
  | O => []
  | S k => (x / 65536) mod 256 :: lcg k ((x * 1103515245 + 12345) mod 2147483648)
  end.
Definition ss_p : cparams := {| c_poly := 0x3DA3358B4DC173; c_avg := 4096; c_min := 4096; c_max := 8192 |}.
Definition ss_s1 : bytes := lcg 14500 4652.
Definition ss_a1 : bytes := firstn 8542 ss_s1.
Definition ss_t : bytes := skipn 8542 ss_s1.
Definition ss_a2 : bytes := firstn 4173 (lcg 4300 25).
Fixpoint lens (cs : list bytes) : list N := match cs with [] => [] | c :: r => nlen c :: lens r end.
Fixpoint lbeq (a b : list N) : bool :=
  match a, b with
  | [], [] => true
  | x :: a', y :: b' => (x =? y) && lbeq a' b'
  | _, _ => false
  end.
Fixpoint llbeq (a b : list (list N)) : bool :=
  match a, b with
  | [], [] => true
  | x :: a', y :: b' => lbeq x y && llbeq a' b'
  | _, _ => false
  end.
Lemma lbeq_eq : forall a b, lbeq a b = true -> a = b.
Proof.
  induction a as [|x a IH]; intros [|y b] H; cbn [lbeq] in H; try discriminate; [reflexivity|].
  apply andb_prop in H. destruct H as [H1 H2]. apply N.eqb_eq in H1. subst. f_equal. apply IH. assumption.
Qed.
Lemma lbeq_refl : forall a, lbeq a a = true.
Proof. induction a as [|x a IH]; cbn [lbeq]; [reflexivity|]. rewrite N.eqb_refl, IH. reflexivity. Qed.
Lemma llbeq_eq : forall a b, llbeq a b = true -> a = b.
Proof.
  induction a as [|x a IH]; intros [|y b] H; cbn [llbeq] in H; try discriminate; [reflexivity|].
  apply andb_prop in H. destruct H as [H1 H2]. apply lbeq_eq in H1. subst. f_equal. apply IH. assumption.
Qed.

Lemma nonnil_flag {A} (l : list A) : match l with [] => false | _ => true end = true -> l <> [].
Proof. destruct l; [discriminate|intros _; discriminate]. Qed.

Definition ss_checkf (acc : bool) (c1 c2 ct : list bytes) (a1 a2 : bytes) : bool :=
  acc
  && lbeq (concat (firstn 2 c1)) a1 && llbeq (skipn 2 c1) ct
  && lbeq (concat (firstn 1 c2)) a2 && llbeq (skipn 1 c2) ct
  && lbeq (lens c1) [4334; 4208; 4265; 1693] && lbeq (lens c2) [4173; 4265; 1693]
  && negb (lbeq a1 a2)
  && match ct with [] => false | _ => true end.

Lemma ss_sound acc c1 c2 ct a1 a2 : ss_checkf acc c1 c2 ct a1 a2 = true ->
  acc = true /\ a1 <> a2 /\ ct <> [] /\
  c1 = firstn 2 c1 ++ ct /\ concat (firstn 2 c1) = a1 /\
  c2 = firstn 1 c2 ++ ct /\ concat (firstn 1 c2) = a2.
Proof.
  unfold ss_checkf. intros H.
  apply andb_prop in H; destruct H as [H Hne]. apply andb_prop in H; destruct H as [H Hdiff].
  apply andb_prop in H; destruct H as [H _]. apply andb_prop in H; destruct H as [H _].
  apply andb_prop in H; destruct H as [H Hpost2]. apply andb_prop in H; destruct H as [H Hpre2].
  apply andb_prop in H; destruct H as [H Hpost1]. apply andb_prop in H; destruct H as [Hacc Hpre1].
  apply llbeq_eq in Hpost1, Hpost2. apply lbeq_eq in Hpre1, Hpre2.
  split; [assumption|].
  split; [intros E; rewrite E, lbeq_refl in Hdiff; discriminate|].
  split; [apply nonnil_flag; exact Hne|].
  split; [rewrite <- Hpost1; symmetry; apply firstn_skipn|]. split; [assumption|].
  split; [rewrite <- Hpost2; symmetry; apply firstn_skipn|]. assumption.
Qed.

Lemma ss_check_true :
  ss_checkf (rabin_accepts (c_avg ss_p) (c_min ss_p) (c_max ss_p))
            (cuts ss_p (ss_a1 ++ ss_t)) (cuts ss_p (ss_a2 ++ ss_t)) (cuts ss_p ss_t) ss_a1 ss_a2 = true.
Proof. vm_compute. reflexivity. Qed.

Example shared_suffix_example :
  exists pre1 pre2 post,
    rabin_accepts (c_avg ss_p) (c_min ss_p) (c_max ss_p) = true /\ ss_a1 <> ss_a2 /\ post <> [] /\
    cuts ss_p (ss_a1 ++ ss_t) = pre1 ++ post /\ concat pre1 = ss_a1 /\
    cuts ss_p (ss_a2 ++ ss_t) = pre2 ++ post /\ concat pre2 = ss_a2 /\
    post = cuts ss_p ss_t.
Proof.
  destruct (ss_sound _ _ _ _ _ _ ss_check_true) as [H1 [H2 [H3 [H4 [H5 [H6 H7]]]]]].
  exists (firstn 2 (cuts ss_p (ss_a1 ++ ss_t))), (firstn 1 (cuts ss_p (ss_a2 ++ ss_t))), (cuts ss_p ss_t).
  repeat (split; [assumption|]). reflexivity.
Qed.
