(* C06 — the property theorems in the form they are exported by Props.v. *)
From Verif.Base Require Import Tactics.
From Verif.C06 Require Import Extracted Model Spec ListLemmas Proofs Proofs2.
Local Open Scope N_scope.

(* the restic default polynomial with small sizes; used to show hypotheses are satisfiable *)
Definition ex_params : cparams :=
  {| c_poly := 0x3DA3358B4DC173; c_avg := 4096; c_min := 4095; c_max := 8192 |}.
Example params_ok_satisfiable : params_ok ex_params = true.
Proof. vm_compute. reflexivity. Qed.
Example default_params_ok :
  params_ok {| c_poly := 0x3DA3358B4DC173; c_avg := DEFAULT_CHUNK_SIZE;
               c_min := DEFAULT_CHUNK_MIN_SIZE; c_max := DEFAULT_CHUNK_MAX_SIZE |} = true.
Proof. vm_compute. reflexivity. Qed.

Lemma schedule_invariance_lemma : forall p s md1 md2 hint1 hint2 sched1 sched2,
  params_ok p = true ->
  chunks_impl md1 p hint1 s sched1 = chunks_impl md2 p hint2 s sched2.
Proof. intros. rewrite !chunks_impl_is_cuts by assumption. reflexivity. Qed.

Lemma chunks_concat_lemma : forall md p hint s sched,
  params_ok p = true ->
  exists cs, chunks_impl md p hint s sched = Ok cs /\ concat cs = s.
Proof.
  intros md p hint s sched Hp. exists (cuts p s). split; [apply chunks_impl_is_cuts; assumption|].
  pose proof (params_ok_hyps p Hp) as H. unfold cuts. apply cuts_fuel_concat; [apply (h_min1 _ _ H)|lia].
Qed.

Lemma cuts_bounds_ok p s : params_ok p = true -> bounds_ok (c_min p) (c_max p) (cuts p s) = true.
Proof.
  intros Hp. pose proof (params_ok_hyps p Hp) as H. unfold cuts.
  apply cuts_fuel_bounds; [apply (h_min1 _ _ H)|apply (h_minmax _ _ H)|lia].
Qed.

Lemma chunks_bounds_lemma : forall md p hint s sched,
  params_ok p = true ->
  exists cs, chunks_impl md p hint s sched = Ok cs /\
    forall pre c post, cs = pre ++ c :: post ->
      0 < nlen c /\ nlen c <= c_max p /\ (post <> [] -> c_min p <= nlen c).
Proof.
  intros md p hint s sched Hp. exists (cuts p s). split; [apply chunks_impl_is_cuts; assumption|].
  intros pre c post E.
  destruct (bounds_ok_prop _ _ _ (cuts_bounds_ok p s Hp) pre c post E) as [B1 [B2 B3]].
  pose proof (params_ok_hyps p Hp) as H. pose proof (h_min1 _ _ H).
  split; [|split; assumption].
  destruct post as [|c' post']; [apply B3; reflexivity|].
  assert (c_min p <= nlen c) by (apply B2; discriminate). lia.
Qed.
