(* C06 — refinement: the iterator (read buffer, circular window, read schedule) produces
   exactly the chunks of the declarative specification, for every read schedule. *)
From Verif.Base Require Import Tactics.
From Verif.C06 Require Import Extracted Model Spec ListLemmas.
Local Open Scope N_scope.

(* ------------------------------------------------------------ window abstraction *)
Definition wft (T : rtab) : Prop := exists bits, t_wsize T = 2 ^ bits /\ t_wmask T = 2 ^ bits - 1.
Definition wfr (T : rtab) (r : rstate) : Prop := nlen (r_win r) = t_wsize T /\ r_idx r < t_wsize T.
Definition abs (r : rstate) : awin :=
  {| a_fifo := rot (N.to_nat (r_idx r)) (r_win r); a_hash := r_hash r |}.

Lemma wft_tab bits P : wft (rabin_tab bits P).
Proof. exists bits. cbn [rabin_tab t_wsize t_wmask]. rewrite N.shiftl_1_l. auto. Qed.

Lemma wfr_init T : wft T -> wfr T (rabin_init T).
Proof.
  intros [bits [Hs Hm]]. unfold wfr, rabin_init, nlen. cbn [r_win r_idx].
  rewrite repeat_length. split; [lia|]. rewrite Hs. apply N.neq_0_lt_0, N.pow_nonzero. lia.
Qed.

Lemma idx_next T r : wft T -> wfr T r ->
  N.to_nat (N.land (r_idx r + 1) (t_wmask T)) = (S (N.to_nat (r_idx r)) mod length (r_win r))%nat
  /\ N.land (r_idx r + 1) (t_wmask T) < t_wsize T.
Proof.
  intros [bits [Hs Hm]] [Hl Hi]. rewrite Hm, N.sub_1_r, <- N.ones_equiv, N.land_ones, <- Hs.
  unfold nlen in Hl.
  assert (Hp : 0 < t_wsize T) by lia.
  split.
  - replace (length (r_win r)) with (N.to_nat (t_wsize T)) by lia.
    remember (t_wsize T) as W. remember (r_idx r) as i.
    assert (E : (i + 1) mod W = if i + 1 =? W then 0 else i + 1).
    { destruct (N.eqb_spec (i + 1) W) as [E|E].
      - rewrite E. apply N.mod_same. lia.
      - apply N.mod_small. lia. }
    rewrite E. destruct (N.eqb_spec (i + 1) W) as [E'|E'].
    + replace (S (N.to_nat i)) with (N.to_nat W) by lia. rewrite Nat.mod_same by lia. reflexivity.
    + rewrite Nat.mod_small by lia. lia.
  - apply N.mod_lt. lia.
Qed.

Lemma fifo_head T r : wfr T r ->
  a_fifo (abs r) = tbl (r_win r) (r_idx r) :: tl (a_fifo (abs r)).
Proof.
  intros [Hl Hi]. unfold abs, tbl. cbn [a_fifo]. unfold nlen in Hl.
  rewrite rot_head by lia. reflexivity.
Qed.

Lemma put_abs T r h b : wft T -> wfr T r ->
  abs (rb_put T r h b) = {| a_fifo := tl (a_fifo (abs r)) ++ [b]; a_hash := append_byte T h b |}
  /\ wfr T (rb_put T r h b).
Proof.
  intros HT Hr. destruct (idx_next T r HT Hr) as [Hn Hlt]. destruct Hr as [Hl Hi].
  unfold nlen in Hl. split.
  - unfold abs, rb_put. cbn [r_win r_idx r_hash a_fifo]. f_equal.
    rewrite Hn. rewrite <- (set_nth_length b (r_win r) (N.to_nat (r_idx r))) at 1.
    rewrite set_nth_length. rewrite rot_put by lia. rewrite rot_head by lia. reflexivity.
  - unfold wfr, rb_put, nlen. cbn [r_win r_idx]. rewrite set_nth_length. split; [lia|assumption].
Qed.

Lemma slide_abs T r b : wft T -> wfr T r ->
  abs (rb_slide T r b) = a_slide T (abs r) b /\ wfr T (rb_slide T r b).
Proof.
  intros HT Hr. unfold rb_slide.
  destruct (put_abs T r (N.lxor (r_hash r) (tbl (t_out T) (tbl (r_win r) (r_idx r)))) b HT Hr) as [H1 H2].
  split; [|assumption]. rewrite H1. unfold a_slide. rewrite (fifo_head T r Hr). cbn [tl]. reflexivity.
Qed.

Lemma prefill_fold_abs T : wft T -> forall bs r, wfr T r ->
  abs (fold_left (rb_prefill_step T) bs r)
  = {| a_fifo := fold_left fifo_push bs (a_fifo (abs r));
       a_hash := fold_left (append_byte T) bs (r_hash r) |}
  /\ wfr T (fold_left (rb_prefill_step T) bs r).
Proof.
  intros HT. induction bs as [|b bs IH]; intros r Hr; cbn [fold_left].
  - split; [reflexivity|assumption].
  - unfold rb_prefill_step at 2 4. destruct (put_abs T r (r_hash r) b HT Hr) as [H1 H2].
    destruct (IH _ H2) as [I1 I2]. split; [|assumption].
    rewrite I1, H1. cbn [a_fifo a_hash]. unfold rb_put. cbn [r_hash]. reflexivity.
Qed.

Lemma abs_fifo_length T r : wfr T r -> length (a_fifo (abs r)) = N.to_nat (t_wsize T).
Proof.
  intros [Hl Hi]. unfold abs, rot, nlen in *. cbn [a_fifo].
  rewrite app_length, skipn_length, firstn_length. lia.
Qed.

Lemma prefill_abs T r it : wft T -> wfr T r -> t_wsize T - 1 <= nlen it ->
  abs (rb_reset_prefill T r it) = a_init T (ntake (t_wsize T - 1) it)
  /\ wfr T (rb_reset_prefill T r it).
Proof.
  intros HT Hr Hit. unfold rb_reset_prefill.
  set (r0 := {| r_win := r_win r; r_idx := r_idx r; r_hash := 0 |}).
  assert (Hr0 : wfr T r0) by exact Hr.
  set (bs := ntake (t_wsize T - 1) it).
  destruct (prefill_fold_abs T HT bs r0 Hr0) as [F1 F2].
  set (r1 := fold_left (rb_prefill_step T) bs r0) in *.
  assert (HW : 0 < t_wsize T) by (destruct Hr; lia).
  assert (Hbs : length bs = (N.to_nat (t_wsize T) - 1)%nat).
  { assert (H := nlen_ntake (t_wsize T - 1) it). fold bs in H. unfold nlen in *. lia. }
  destruct F2 as [Hl1 Hi1]. unfold nlen in Hl1.
  split.
  - unfold abs at 1. cbn [r_win r_idx r_hash]. unfold a_init. f_equal.
    + rewrite rot_set_head by lia.
      assert (E : a_fifo (abs r1) = fold_left fifo_push bs (a_fifo (abs r0))) by (rewrite F1; reflexivity).
      unfold abs at 1 in E. cbn [a_fifo] in E. rewrite rot_head in E by lia.
      rewrite fifo_push_fold in E by (rewrite (abs_fifo_length T r0 Hr0); lia).
      assert (L : length (skipn (length bs) (a_fifo (abs r0))) = 1%nat).
      { rewrite skipn_length, (abs_fifo_length T r0 Hr0). lia. }
      destruct (skipn (length bs) (a_fifo (abs r0))) as [|x [|y t]]; cbn [length] in L; try lia.
      cbn [app] in E. inversion E. reflexivity.
    + change (r_hash r1) with (a_hash (abs r1)). rewrite F1. reflexivity.
  - unfold wfr, nlen. cbn [r_win r_idx]. rewrite set_nth_length. split; [lia|assumption].
Qed.

(* ------------------------------------------------------------ the main loop *)
Definition buf_inv (avail : bytes) (buflen : N) : Prop :=
  (avail = [] \/ nlen avail + 1 <= buflen) /\ 1 <= buflen /\ buflen <= BUF_SIZE.

Lemma scan_unfold T mask mx w len l :
  scan T mask mx w len l =
  if mx <=? len then O else if N.land (a_hash w) mask =? 0 then O
  else match l with [] => O | b :: l' => S (scan T mask mx (a_slide T w b) (len + 1) l') end.
Proof. destruct l; reflexivity. Qed.

Definition loop_post (T : rtab) (mask mx : N) (acc : bytes) (len : N) (r : rstate)
           (t : bytes) (ls : lstate) : Prop :=
  let k := scan T mask mx (abs r) len t in
  l_acc ls = rev (firstn k t) ++ acc /\
  l_avail ls ++ l_rest ls = skipn k t /\
  l_len ls = len + N.of_nat k /\
  wfr T (l_r ls) /\ buf_inv (l_avail ls) (l_buflen ls) /\
  (l_fin ls = true -> l_avail ls = [] /\ l_rest ls = []).

Ltac post_split := split; [|split; [|split; [|split; [|split]]]].

Lemma sread_cases cap rest sched : 1 <= cap ->
  (exists sc, sched = Interrupted :: sc /\ sread cap rest sched = RInt sc) \/
  (exists n sc, 1 <= n /\ n <= cap /\ (length sc <= length sched)%nat /\
                sread cap rest sched = RData (ntake n rest) (ndrop n rest) sc).
Proof.
  intros Hc. destruct sched as [|[k|] sc]; cbn [sread].
  - right. exists cap, []. repeat split; auto; lia.
  - right. exists (N.min (N.max 1 k) cap), sc. cbn [length]. repeat split; auto; lia.
  - left. exists sc. auto.
Qed.

Lemma main_loop_spec T mask mx : wft T -> forall fuel acc len r avail buflen rest sched,
  wfr T r -> buf_inv avail buflen ->
  (2 * length rest + length avail + length sched < fuel)%nat ->
  exists ls, main_loop fuel T mask mx acc len r avail buflen rest sched = Some ls /\
             loop_post T mask mx acc len r (avail ++ rest) ls.
Proof.
  intros HT. induction fuel as [|f IH]; intros acc len r avail buflen rest sched Hr Hb Hf; [lia|].
  cbn [main_loop]. unfold loop_post. rewrite scan_unfold.
  destruct (mx <=? len) eqn:E1.
  { eexists. split; [reflexivity|]. cbn [l_acc l_avail l_rest l_len l_r l_buflen l_fin firstn skipn rev app].
    post_split; auto; try lia; try discriminate. }
  destruct (N.land (r_hash r) mask =? 0) eqn:E2.
  { cbn [abs a_hash]. rewrite E2. eexists. split; [reflexivity|].
    cbn [l_acc l_avail l_rest l_len l_r l_buflen l_fin firstn skipn rev app].
    post_split; auto; try lia; try discriminate. }
  cbn [abs a_hash]. rewrite E2.
  destruct avail as [|b av].
  - (* refill *)
    destruct Hb as [Hb1 [Hb2 Hb3]].
    destruct (sread_cases buflen rest sched Hb2) as [[sc [Hs Hrd]]|[n [sc [Hn1 [Hn2 [Hsc Hrd]]]]]]; rewrite Hrd.
    + (* Interrupted: continue *)
      subst sched. cbn [length] in Hf.
      destruct (IH acc len r [] buflen rest sc Hr) as [ls [Hm Hp]].
      { unfold buf_inv. auto. }
      { cbn [length]. lia. }
      exists ls. split; [assumption|]. unfold loop_post in Hp. rewrite scan_unfold, E1 in Hp.
      cbn [abs a_hash] in Hp. rewrite E2 in Hp. exact Hp.
    + destruct (ntake n rest) as [|d0 d] eqn:En.
      * (* Ok(0) *)
        apply ntake_nil_inv in En. destruct En as [En|En]; [lia|]. subst rest.
        eexists. split; [reflexivity|].
        cbn [l_acc l_avail l_rest l_len l_r l_buflen l_fin firstn skipn rev app].
        rewrite ndrop_skipn, skipn_nil.
        post_split; auto; try lia. unfold buf_inv. auto.
      * (* Ok(n) *)
        assert (Hrest : rest = d0 :: (d ++ ndrop n rest)).
        { rewrite <- (ntake_ndrop n rest) at 1. rewrite En. reflexivity. }
        assert (Hlen : 1 + nlen d <= n).
        { assert (H := nlen_ntake n rest). rewrite En, nlen_cons in H. lia. }
        destruct (slide_abs T r d0 HT Hr) as [Ha Hw].
        destruct (IH (d0 :: acc) (len + 1) (rb_slide T r d0) d (1 + nlen d) (ndrop n rest) sc Hw) as [ls [Hm Hp]].
        { unfold buf_inv. split; [right; lia|lia]. }
        { assert (L : length rest = S (length d + length (ndrop n rest))).
          { rewrite Hrest at 1. cbn [length]. rewrite app_length. reflexivity. }
          cbn [length] in Hf. lia. }
        exists ls. split; [assumption|]. unfold loop_post in Hp. rewrite Ha in Hp.
        cbn [app]. rewrite Hrest. cbn [firstn skipn rev].
        destruct Hp as [P1 [P2 [P3 [P4 [P5 P6]]]]].
        post_split; auto.
        -- rewrite P1, <- app_assoc. reflexivity.
        -- rewrite P3. lia.
  - (* a byte is available in the buffer *)
    destruct (slide_abs T r b HT Hr) as [Ha Hw].
    destruct (IH (b :: acc) (len + 1) (rb_slide T r b) av buflen rest sched Hw) as [ls [Hm Hp]].
    { destruct Hb as [[Hb1|Hb1] [Hb2 Hb3]]; [discriminate|]. rewrite nlen_cons in Hb1.
      unfold buf_inv. split; [right; lia|lia]. }
    { cbn [length] in Hf. lia. }
    exists ls. split; [assumption|]. unfold loop_post in Hp. rewrite Ha in Hp.
    cbn [app firstn skipn rev].
    destruct Hp as [P1 [P2 [P3 [P4 [P5 P6]]]]].
    post_split; auto.
    + rewrite P1, <- app_assoc. reflexivity.
    + rewrite P3. lia.
Qed.
