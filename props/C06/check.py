"""C06 — chunking is a lossless, bounded, content-defined partition.
Stages: regenerate Extracted.v from the chunker sources; build + audit the Coq theorems;
correspondence of the extracted model (chunks_impl / fixed_impl, debug and release
arithmetic) with the real chunk iterator driven through a schedule-following reader;
executable oracle on the implementation output alone (concat, bounds, schedule
invariance, equality with the extracted declarative `cuts`)."""
import os, sys, json, concurrent.futures as cf
import vlib
from vlib import ROOT, REPO, sh, log
import importlib.util
_spec = importlib.util.spec_from_file_location("c06_extract", os.path.join(os.path.dirname(__file__), "extract.py"))
ext = importlib.util.module_from_spec(_spec); _spec.loader.exec_module(ext)
from rustscan import ExtractError

DEFAULT_POLY = 0x3DA3358B4DC173
M64 = (1 << 64) - 1


# ---------------------------------------------------------------- GF(2)[x] helpers (generation only)
def pmod(p, m):
    dm = m.bit_length()
    while p.bit_length() >= dm:
        p ^= m << (p.bit_length() - dm)
    return p

def pmulmod(a, b, m):
    r = 0
    while b:
        if b & 1: r ^= a
        b >>= 1
        a = pmod(a << 1, m)
    return pmod(r, m)

def pgcd(a, b):
    while b: a, b = b, pmod(a, b)
    return a

def irreducible(p):
    d = p.bit_length() - 1
    x = 2
    for i in range(1, d // 2 + 1):
        x = pmulmod(x, x, p)
        if pgcd(p, x ^ 2) != 1: return False
    return True

def random_poly(rng, deg=53):
    while True:
        p = rng.getrandbits(deg) | (1 << deg) | 1
        if irreducible(p): return p


class PyRabin:
    """the rolling hash as rustic_cdc computes it — used to BUILD boundary-dense streams and
    for statistics, never for the verdict."""
    def __init__(self, poly, bits=6):
        self.k = poly.bit_length() - 1
        self.shift = self.k - 8
        self.ws = 1 << bits
        self.out = []
        for b in range(256):
            h = pmod(b, poly)
            for _ in range(self.ws - 1):
                h = pmod((h << 8) & M64, poly)
            self.out.append(h)
        self.mod = [pmod((b << self.k) & M64, poly) | ((b << self.k) & M64) for b in range(256)]
        self.win = [0] * self.ws; self.idx = 0; self.hash = 0

    def put(self, h, b):
        self.win[self.idx] = b
        mi = (h >> self.shift) & 255
        self.hash = ((((h << 8) & M64) | b) ^ self.mod[mi])
        self.idx = (self.idx + 1) & (self.ws - 1)

    def slide(self, b):
        self.put(self.hash ^ self.out[self.win[self.idx]], b)

    def prefill(self, it):
        self.hash = 0
        for b in it[:self.ws - 1]:
            self.put(self.hash, b)
        self.win[self.idx] = 0

    def clone(self):
        c = object.__new__(PyRabin); c.__dict__ = dict(self.__dict__); c.win = list(self.win); return c


def dense_stream(rng, rab, avg, mn, mx, total):
    """a stream whose chunks end at chosen position classes (min, min+1, .., min+64, max-1, max)."""
    mask = avg - 1
    out = bytearray()
    def peek(r, b):      # hash after r.slide(b), without changing r
        h = r.hash ^ r.out[r.win[r.idx]]
        return (((h << 8) & M64) | b) ^ r.mod[(h >> r.shift) & 255]
    while len(out) < total:
        tgt = rng.choice([mn, mn, mn + 1, mn + 2, mn + 62, mn + 63, mn + 64, mn + 65, mx - 1, mx, mx,
                          rng.randint(mn, mx)])
        tgt = max(mn, min(tgt, mx))
        c = bytearray(rng.getrandbits(8) for _ in range(tgt))
        if tgt >= mx or mn < 66:
            out += c; continue
        # brute-force two bytes so that the fingerprint at length tgt has its low bits zero
        found = False
        if tgt >= mn + 2:
            base = rab.clone(); base.prefill(list(c[mn - 64:mn]))
            for b in c[mn:tgt - 2]: base.slide(b)
            for a in range(256):
                r2 = base.clone(); r2.slide(a)
                for bb in range(256):
                    if peek(r2, bb) & mask == 0:
                        c[tgt - 2] = a; c[tgt - 1] = bb; found = True; break
                if found: break
        else:
            for a in range(256):
                c[mn - 4] = a
                for bb in range(256):
                    c[mn - 3] = bb
                    r3 = rab.clone(); r3.prefill(list(c[mn - 64:mn]))
                    if tgt == mn + 1: r3.slide(c[mn])
                    if r3.hash & mask == 0: found = True; break
                if found: break
        out += c
    return bytes(out[:total])


# ---------------------------------------------------------------- case generation
def gen_sched(rng, kind, n):
    if kind == "full": return []
    if kind == "one": return [1] * (n + 4)
    if kind == "one_int":
        s = []
        for _ in range(n + 4):
            if rng.random() < 0.2: s.append(0)
            s.append(1)
        return s
    if kind == "small": return [rng.choice([1, 2, 3, 7, 63, 64, 65]) for _ in range(min(n, 3000) + 4)]
    if kind == "buf": return [rng.choice([4095, 4096, 4097, 4094, 1, 8192, 0]) for _ in range(n // 2048 + 8)]
    if kind == "mixed":
        return [rng.choice([0, 0, 1, 2, 5, 17, 100, 1000, 4095, 4096, 5000, 70000]) for _ in range(rng.randint(1, 400))]
    if kind == "int_burst": return [0] * rng.randint(1, 50) + [rng.choice([1, 4096])] * rng.randint(1, 30) + [0] * 5
    raise ValueError(kind)

SCHED_KINDS = ["full", "one", "one_int", "small", "buf", "mixed", "int_burst"]

def gen_stream(rng, kind, n, rab, avg, mn, mx):
    if kind == "random": return bytes(rng.getrandbits(8) for _ in range(n))
    if kind == "zeros": return bytes(n)
    if kind == "ff": return b"\xff" * n
    if kind == "periodic":
        per = bytes(rng.getrandbits(8) for _ in range(rng.choice([1, 2, 3, 16, 63, 64, 65, 100, 1000])))
        return (per * (n // len(per) + 1))[:n]
    if kind == "dense": return dense_stream(rng, rab, avg, mn, mx, n)
    if kind == "sparse":  # mostly zeros with a few random bytes
        b = bytearray(n)
        for _ in range(n // 500 + 1):
            if n: b[rng.randrange(n)] = rng.getrandbits(8)
        return bytes(b)
    raise ValueError(kind)


def rline(poly, avg, mn, mx, hint, sched, data, want_cuts=True):
    return "R %x %d %d %d %d %d %s %s %s" % (poly, avg, mn, mx, hint, len(sched), " ".join(map(str, sched)), data.hex() or "-",
                                          "c1" if want_cuts else "c0")

def fline(size, hint, sched, data):
    return "F %d %d %d %s %s" % (size, hint, len(sched), " ".join(map(str, sched)), data.hex() or "-")


def corpus_case(ln):
    t = ln.split()
    c = {"line": ln, "group": "corpus:" + ln[:60], "corpus": True, "sk": "corpus", "stream": "corpus"}
    if t[0] == "R":
        c["rabin"] = (int(t[1], 16), int(t[2]), int(t[3]), int(t[4]))
        hx = t[7 + int(t[6])]
        c["data"] = b"" if hx == "-" else bytes.fromhex(hx)
    elif t[0] == "F":
        c["fixed"] = int(t[1])
        hx = t[4 + int(t[3])]
        c["data"] = b"" if hx == "-" else bytes.fromhex(hx)
    elif t[0] == "P":
        c["accept"] = (int(t[1]), int(t[2]), int(t[3]))
    return c


def run_sharded(exe, lines, mode, tag, nshard, timeout=3000, on_fail=None):
    """run an executable over the case lines in nshard parallel shards (order preserved)."""
    bdir = os.path.join(vlib.BUILD, "C06")
    os.makedirs(bdir, exist_ok=True)
    shards = [lines[i::nshard] for i in range(nshard)]
    def one(i):
        if not shards[i]: return []
        path = os.path.join(bdir, "in_%s_%d_%d.txt" % (tag, os.getpid(), i))
        open(path, "w").write("\n".join(shards[i]) + "\n")
        cmd = "ulimit -s unlimited 2>/dev/null; exec '%s' '%s' %s" % (exe, path, mode or "")
        rc, out, err = vlib.sh2(["sh", "-c", cmd], timeout=timeout)
        os.remove(path)
        res = out.splitlines()
        if (rc != 0 or len(res) != len(shards[i])) and on_fail is not None:
            return [on_fail] * len(shards[i])
        if rc != 0 or len(res) != len(shards[i]):
            raise RuntimeError("%s failed rc=%s (%d of %d lines)\n%s" % (exe, rc, len(res), len(shards[i]), err[-2000:]))
        return res
    with cf.ThreadPoolExecutor(max_workers=nshard) as ex:
        outs = list(ex.map(one, range(nshard)))
    res = [None] * len(lines)
    for i, o in enumerate(outs):
        for j, x in enumerate(o):
            res[i + j * nshard] = x
    return res


def bounds_ok(lens, mn, mx):
    for i, l in enumerate(lens):
        last = i == len(lens) - 1
        if l > mx or l <= 0: return False
        if not last and l < mn: return False
    return True


def run(ctx):
    rng = ctx.rng
    cov = ctx.coverage
    meta, err = vlib.regen_extracted("C06")
    r = vlib.proof_stage(ctx)
    if err:
        r["ok"] = False
        r["failures"].append("fact extraction from the chunker sources failed: " + err)
    cov["trusted_base"] += ["props/C06/extract.py (constants, statement shapes of ChunkIter::next, conditions of check_rabin_params)",
                            "the schedule-following reader in harness/src/bin/c06.rs and the hook verif_hooks::c06::chunk_all"]
    ctx.assumptions += [
        "std: (&mut reader).take(n).read_to_end(vec) appends exactly the next min(n, remaining) bytes and retries Interrupted; the sizes of the buffers it offers the reader are folded into the (universally quantified) read schedule",
        "a reader never returns more bytes than the buffer offered and returns Ok(0) only at end of stream; I/O errors other than Interrupted are outside the property (the iterator returns them)",
        "read schedules are finite lists followed by maximal reads (a terminating run consumes finitely many events)",
        "usize is 64 bits; chunk_size >= 1; polynomial: the model covers every degree >= 8 (u64 truncation explicit); degree < 8 and the zero polynomial are outside the model and must be rejected by the code (checked on the real chunker with a timeout)",
        "theorem hypotheses params_ok: avg a power of two, min <= avg <= max, 64 <= min, BUF_SIZE-1 <= min (the last two are forced by the proof; see findings)",
        "size_hint only sizes the allocation (modelled, shown irrelevant; hints smaller and larger than the stream, incl. an announced end at a chunk boundary before the real end, are generated for both chunkers)",
    ]
    try:
        model = vlib.build_model("C06")
    except RuntimeError as e:
        model = None
        if r["ok"]:
            r["ok"] = False; r["failures"].append("extracted model no longer builds: " + str(e)[-500:])
    impl = vlib.build_harness("c06")
    try:
        impl_rel = vlib.build_harness("c06", release=True)
    except vlib.HarnessBuildError:
        raise
    BUF = meta["consts"]["BUF_SIZE"] if meta else 4096
    PRE = meta["prefill"] if meta else 64
    thorough = ctx.thorough()
    maxlen = 48 * 1024 if thorough else 12 * 1024

    # ---------------- parameters
    polys = [DEFAULT_POLY] + [random_poly(rng) for _ in range(4 if thorough else 2)]
    nsch = 3 if thorough else 2
    odd_polys = [(1 << d) | rng.getrandbits(d) | 1 for d in (8, 9, 16, 31, 32, 52, 55, 56)]   # reducible or not, degree 8..56
    good = [(4096, 4096, 4096), (4096, 4096, 8192), (4096, 4096, 4097), (4096, 4096, 12000), (8192, 4096, 16384),
            (8192, 5000, 9000), (8192, 8192, 8192), (16384, 4096, 16384), (4096, 4096, 40000), (8192, 4097, 8192)]
    # accepted by the unchanged tree (three original checks), outside the hypotheses of the theorems:
    # the repaired tree rejects them; if they are accepted again the oracle below reports the failure
    tiny = [(1024, 64, 2048), (64, 64, 64), (1024, 10, 2048), (512, 512, 4096), (2048, 100, 4096), (4096, 4094, 8192),
            (1, 1, 1), (2, 1, 8), (256, 63, 256), (256, 64, 300), (128, 65, 5000), (4096, 2048, 8192), (64, 0, 128),
            (4096, 4095, 8192), (8192, 4095, 8192)]
    stream_kinds = ["random", "random", "dense", "dense", "zeros", "ff", "periodic", "sparse"]
    ngroups = 450 if thorough else 80
    if not r["ok"] and not ctx.replay:
        # an obligation no longer checks: widen the search for a concrete failing input
        # (streams well beyond any plausible read-buffer size, more groups)
        ngroups = max(ngroups, 120)
        maxlen = max(maxlen, 200 * 1024)
        good = good + [(8192, 4096, 16384)] * 6
    cases = []      # dicts: line, group key, params, data, kind
    rabs = {}
    def rab_for(poly):
        if poly not in rabs: rabs[poly] = PyRabin(poly)
        return rabs[poly]
    corpus = os.path.join(ctx.pdir, "corpus.txt")
    if os.path.exists(corpus):
        for ln in open(corpus):
            ln = ln.split("#")[0].strip()
            if ln: cases.append(corpus_case(ln))
    if ctx.replay:
        rp = json.load(open(ctx.replay))
        cases = [corpus_case(c) for c in rp["witness"].get("cases", [rp["witness"].get("case")]) if c]
        ngroups = 0
    for g in range(ngroups):
        u = rng.random()
        if u < 0.12:
            size = rng.choice([0, 1, 2, 7, 64, 4095, 4096, 5000, 70000, 10 ** 7])
            n = rng.choice([0, 1, size, max(size - 1, 0), size + 1, 3 * size, rng.randint(0, 20000)])
            if size == 0: n = rng.choice([0, 1, 5, 70000])
            n = min(n, maxlen)
            data = gen_stream(rng, rng.choice(["random", "zeros", "periodic"]), n, None, 0, 0, 0)
            for sk in rng.sample(SCHED_KINDS, nsch):
                cases.append({"line": fline(size, rng.choice([0, n, 10 ** 9, max(n - 1, 0), n // 2, n // 3, max(n - size, 0), 1, size]), gen_sched(rng, sk, n), data),
                              "group": "F%d:%d" % (g, size), "fixed": size, "data": data, "sk": sk})
            # the announced size (size_hint) ends before the stream does, at and off a chunk boundary
            for h in (size, n // 2):
                if 0 < h < n:
                    sk = rng.choice(SCHED_KINDS)
                    cases.append({"line": fline(size, h, gen_sched(rng, sk, n), data),
                                  "group": "F%d:%d" % (g, size), "fixed": size, "data": data, "sk": sk})
            continue
        istiny = u < 0.30
        avg, mn, mx = rng.choice(tiny if istiny else good)
        poly = rng.choice(polys) if rng.random() < 0.85 else rng.choice(odd_polys)
        lens = [0, 1, mn - 1, mn, mn + 1, mx - 1, mx, mx + 1, mn + mx, 2 * mx + 1, rng.randint(0, maxlen), rng.randint(0, maxlen),
                maxlen, rng.randint(0, 3 * mx)]
        n = max(0, min(rng.choice(lens), maxlen))
        if istiny: n = min(n, 6000)
        sk_ = rng.choice(stream_kinds)
        data = gen_stream(rng, sk_, n, rab_for(poly), avg, max(mn, 1), mx)
        kinds = rng.sample(SCHED_KINDS, nsch)
        if "full" not in kinds and rng.random() < 0.5: kinds[0] = "full"
        if not any(k in ("one_int", "mixed", "buf") for k in kinds):   # a short read followed by Interrupted
            kinds[-1] = rng.choice(["one_int", "mixed", "buf"])
        for ki, sk in enumerate(kinds):
            cases.append({"line": rline(poly, avg, mn, mx, rng.choice([0, n, 10 ** 9, max(n - 1, 0), n // 2]), gen_sched(rng, sk, n), data, ki == 0),
                          "group": "R%d" % g, "rabin": (poly, avg, mn, mx), "data": data, "sk": sk, "stream": sk_})
    # acceptance grid (chunk_size = 0 underflows in check_rabin_params itself: C18's domain, excluded)
    grid = sorted(set([1, 2, 3, 63, 64, 65, 100, 1024, 4094, 4095, 4096, 4097, 8192, 2 ** 20, 2 ** 40]))
    for a in grid:
        for mi in [0] + grid:
            for ma in grid:
                if rng.random() < (1.0 if thorough else 0.03):
                    cases.append({"line": "P %d %d %d" % (a, mi, ma), "group": "P", "accept": (a, mi, ma)})
    for a in [4096, 8192, 65536, 2 ** 20, 2 ** 33]:       # around the acceptance boundaries
        for mi in [0, 63, 64, BUF - 2, BUF - 1, BUF, BUF + 1, a - 1, a, a + 1]:
            for ma in [a - 1, a, a + 1, 2 * a, 2 ** 40]:
                cases.append({"line": "P %d %d %d" % (a, mi, ma), "group": "P", "accept": (a, mi, ma)})
    # stored polynomials the rolling hash cannot handle (zero: table computation never ends; degree < 8:
    # negative shift; degree > 56: u64 truncation).  One process per case with a short timeout.
    bad_polys = [0, 1, 0x83, 0xff] + [(1 << d) | rng.getrandbits(d) | 1 for d in (57, 58, 60, 63)] + [random_poly(rng, 57), random_poly(rng, 63)]
    bad_cases = []
    if not ctx.replay:
        bdata = gen_stream(rng, "random", 9000, None, 0, 0, 0)
        for bp in bad_polys:
            bad_cases.append({"line": rline(bp, 4096, 4096, 8192, 0, [], bdata, False), "group": "B%x" % bp,
                              "rabin": (bp, 4096, 4096, 8192), "data": bdata, "sk": "full", "stream": "random", "badpoly": True})
    lines = [c["line"] for c in cases]
    nshard = min(vlib.NCPU, 16)
    impl_out = run_sharded(impl, lines, None, "impl", 4)
    rel_idx = [i for i, c in enumerate(cases) if (thorough or i % 3 == 0 or c.get("corpus"))]
    impl_rel_out = dict(zip(rel_idx, run_sharded(impl_rel, [lines[i] for i in rel_idx], None, "implrel", 4)))
    model_out = model_rel_out = None
    if model:
        model_out = run_sharded(model, lines, "debug", "model", nshard)
        model_rel_out = dict(zip(rel_idx, run_sharded(model, [lines[i] for i in rel_idx], "release", "modelrel", nshard)))

    if bad_cases:
        bl = [c["line"] for c in bad_cases]
        nb = len(bl)
        cases += bad_cases; lines += bl
        impl_out += run_sharded(impl, bl, None, "implbad", nb, timeout=25, on_fail="hang-or-crash")
        for j, x in enumerate(run_sharded(impl_rel, bl, None, "implrelbad", nb, timeout=25, on_fail="hang-or-crash")):
            impl_rel_out[len(cases) - nb + j] = x
        if model:
            model_out += run_sharded(model, bl, "debug", "modelbad", nb, timeout=120, on_fail="model-timeout")
            for j, x in enumerate(run_sharded(model, bl, "release", "modelrelbad", nb, timeout=120, on_fail="model-timeout")):
                model_rel_out[len(cases) - nb + j] = x

    # ---------------- compare + oracle
    mism, viol = [], []
    fpq = []        # fingerprint queries: (case, chunk start, L, kind, window bytes)
    hist = {}
    def bump(k, n=1): hist[k] = hist.get(k, 0) + n
    groups = {}
    nontriv = set()
    samples = []
    def parse_ok(s):
        t = s.split()
        return int(t[1]), [int(x) for x in t[2:]]
    for i, c in enumerate(cases):
        io = impl_out[i].strip()
        mo, orc = (model_out[i].split(" | ") + [""])[:2] if model_out else (None, "")
        mo = mo.strip() if mo is not None else None
        bump("impl_" + io.split()[0])
        if "accept" in c:
            if mo is not None and io != mo: mism.append((c["line"], io, mo, "debug"))
            bump("accept_%s" % io)
            continue
        if mo is not None and io != mo:
            mism.append((c["line"][:200], io, mo, "debug"))
        if i in impl_rel_out and model_rel_out is not None:
            ir = impl_rel_out[i].strip(); mr = model_rel_out[i].split(" | ")[0].strip()
            if ir != mr: mism.append((c["line"][:200], ir, mr, "release"))
        o = dict(x.split("=", 1) for x in orc.split(" ") if "=" in x) if orc else {}
        # reconstruct cuts= (may contain spaces): take the text between 'cuts=' and ' bounds='
        cuts = None
        if "cuts=" in orc:
            cuts = [int(x) for x in orc.split("cuts=")[1].split(" bounds=")[0].split()]
        results = [("debug", io)] + ([("release", impl_rel_out[i].strip())] if i in impl_rel_out else [])
        for bld, res in results:
            key = (c["group"], bld)
            if "fixed" in c:
                size = c["fixed"]
                if res.startswith("ok"):
                    cat, lens = parse_ok(res)
                    if cat != 1:
                        viol.append(("fixed-size chunker loses data: concatenation of the chunks is not the stream", c, res, bld,
                                     "fixed-size-zero" if size == 0 else None))
                    elif size > 0 and not all(l == size for l in lens[:-1]) or (lens and not (0 < lens[-1] <= max(size, 1))):
                        viol.append(("fixed-size chunk lengths are not size,..,size,rest", c, res, bld, None))
                    groups.setdefault(key, set()).add(res)
                    if len(lens) >= 2: nontriv.add(c["group"])
                elif res == "err:rejected":
                    bump("fixed_rejected")
                else:
                    viol.append(("fixed-size chunker fails on accepted size", c, res, bld, None))
                continue
            poly, avg, mn, mx = c["rabin"] if "rabin" in c else (None, None, None, None)
            if poly is None:
                continue
            if res == "err:rejected":
                bump("rabin_rejected"); continue
            sig = None
            if mn < PRE or mn < BUF - 1:
                sig = "rabin-min-below-window-or-buffer"
            deg = poly.bit_length() - 1
            if deg < 8 or deg > 56:
                sig = "poly-degree-out-of-range"
            if res == "hang-or-crash":
                viol.append(("chunk iterator hangs or crashes on an accepted (stored) polynomial of degree %d" % deg, c, res, bld, sig)); continue
            if res.startswith("panic"):
                viol.append(("accepted Rabin parameters make the chunk iterator panic (%s)" % res, c, res, bld, sig)); continue
            if not res.startswith("ok"):
                viol.append(("chunk iterator fails: " + res, c, res, bld, None)); continue
            cat, lens = parse_ok(res)
            if cat != 1:
                viol.append(("concatenation of the chunks is not the stream", c, res, bld, None))
            if not bounds_ok(lens, mn, mx):
                viol.append(("chunk size bounds violated (min %d max %d)" % (mn, mx), c, res, bld, sig))
            if cuts is not None and lens != cuts and bld == "debug":
                viol.append(("chunk boundaries differ from the declarative specification `cuts`", c, res + " vs cuts " + str(cuts[:20]), bld, None))
            groups.setdefault(key, set()).add(" ".join(map(str, lens)))
            if len(lens) >= 2: nontriv.add(c["group"])
            if bld == "debug" and mn >= 64 and (c.get("badpoly") or (c["line"].endswith("c1") and len(fpq) < (4000 if thorough else 500))):
                # cut points vs. the Rabin fingerprint (extracted fp_direct): every boundary that is neither
                # at max nor the end of the stream, and the position just before it
                d, off = c["data"], 0
                def codewin(off, L):
                    if L >= mn + 64: return d[off + L - 64:off + L]
                    return (b"\0" + d[off + mn - 64:off + mn - 1] + d[off + mn:off + L])[-64:]
                for l in lens[:-1]:
                    if l < mx:
                        fpq.append((c, off, l, "cut", codewin(off, l)))
                        if l < mn + 64: fpq.append((c, off, l, "last64", d[off + l - 64:off + l]))
                        if l - 1 >= mn: fpq.append((c, off, l - 1, "nocut", codewin(off, l - 1)))
                    off += l
            if bld == "debug":
                bump("stream_" + c.get("stream", "?")); bump("sched_" + c.get("sk", "?"))
                bump("chunks_%s" % ("0" if not lens else "1" if len(lens) == 1 else "2-9" if len(lens) < 10 else ">=10"))
                for l in lens[:-1]:
                    bump("cut_at_min" if l == mn else "cut_at_max" if l == mx else "cut_min+1..64" if l <= mn + 64 else "cut_by_hash_far")
                if len(samples) < 4 and 2 <= len(lens) <= 6:
                    samples.append({"params": "poly %x avg %d min %d max %d" % (poly, avg, mn, mx), "stream": c.get("stream"), "bytes": len(c["data"]),
                                    "schedule": c.get("sk"), "impl": res, "cuts": cuts})
    for (g, bld), s in groups.items():
        if len(s) > 1:
            cs = [c for c in cases if c["group"] == g]
            viol.append(("chunk list depends on how the reader fragments its reads", cs[0], " | ".join(sorted(s))[:300], bld, None))
    # cut points are the zeros of the Rabin fingerprint of the chunker's window (extracted fp_direct)
    fp_stats = {"cut": 0, "nocut": 0, "last64": 0, "last64_differs": 0}
    if model and fpq:
        ql = ["D %x %s" % (q[0]["rabin"][0], q[4].hex()) for q in fpq]
        qo = run_sharded(model, ql, "debug", "fp", nshard)
        for q, x in zip(fpq, qo):
            c, off, L, kind, w = q
            poly, avg, mn, mx = c["rabin"]
            deg = poly.bit_length() - 1
            v = int(x.split()[1]) & (avg - 1) if x.startswith("ok") else None
            fp_stats[kind] += 1
            psig = "poly-degree-out-of-range" if (deg < 8 or deg > 56) else None
            if kind == "cut" and v != 0:
                viol.append(("a chunk ends where the Rabin fingerprint (modulo the repository polynomial) of the chunker's window has non-zero low bits",
                             c, "chunk at offset %d length %d" % (off, L), "debug", psig))
            elif kind == "nocut" and v == 0:
                viol.append(("the chunker passes a position where the Rabin fingerprint of its window has zero low bits",
                             c, "chunk at offset %d, position %d" % (off, L), "debug", psig))
            elif kind == "last64" and v != 0 and psig is None:
                fp_stats["last64_differs"] += 1
                viol.append(("a chunk ends within 64 bytes after min where the fingerprint of the MOST RECENT 64 bytes has non-zero low bits: the chunker's window there is 0 :: s[min-64..min-1) ++ s[min..L), it omits the byte s[min-1]",
                             c, "chunk at offset %d length %d (min %d)" % (off, L, mn), "debug", "window-omits-byte-before-min"))
    # window fingerprint validation (rolling hash vs direct polynomial reduction), extracted model only
    nwin = 0
    win_bad = []
    if model:
        wl = []
        for _ in range(400 if thorough else 30):
            poly = rng.choice(polys + odd_polys)
            avg, mn, mx = 4096, 4096, 8192
            n = rng.randint(mn, mn + 400)
            data = gen_stream(rng, rng.choice(["random", "periodic", "sparse"]), n, None, 0, 0, 0)
            L = rng.randint(mn, n)
            wl.append("W %x %d %d %d %d %s" % (poly, avg, mn, mx, L, data.hex()))
        wo = run_sharded(model, wl, "debug", "win", nshard)
        nwin = len(wl)
        for l, x in zip(wl, wo):
            t = x.split()
            if t[0] != "ok" or t[1] != t[2]: win_bad.append((l[:80], x))
    cov.update({
        "evaluations": len(cases) + nwin,
        "distinct_nontrivial": len(nontriv),
        "rule": "cases = (polynomial: restic default, random irreducible degree 53, odd degrees 8..56; stored polynomials 0, degree < 8 and degree 57..63 in a separate batch) x (avg,min,max: valid and accepted-but-tiny) or fixed size x stream (random, constant, periodic, sparse, boundary-dense built to cut at min, min+1.., min+64, max-1, max) of length 0..%d around min/max multiples x 3 read schedules per stream (maximal, all 1-byte, 1-byte with Interrupted, small, around BUF_SIZE, mixed, Interrupted bursts); non-trivial = a (parameters, stream) group that yields at least two chunks; distinct by group" % maxlen,
        "samples": samples, "distribution": hist,
        "traces_validated_against_impl": len(cases) + len(rel_idx),
        "release_build_cases": len(rel_idx),
        "disagreements_checked": len(mism) + len(viol) + len(win_bad),
        "model_impl_mismatches": len(mism), "oracle_violations": len(viol),
        "first_mismatches": [{"case": m[0][:300], "impl": m[1][:200], "model": m[2][:200], "build": m[3]} for m in mism[:5]],
        "cut_point_fingerprint_checks": fp_stats,
        "window_fingerprint_cases": nwin, "window_fingerprint_mismatches": len(win_bad),
        "extracted_facts": meta,
    })
    if win_bad and r["ok"]:
        r["ok"] = False
        r["failures"].append("table-driven window hash differs from direct reduction modulo P on %d sampled windows, e.g. %s" % (len(win_bad), win_bad[0]))
    seen = set()
    for what, c, res, bld, sig in viol:
        if (what, sig) in seen: continue
        seen.add((what, sig))
        ctx.violation(what, {"case": c["line"][:100000], "impl_result": res, "build": bld,
                             "how_to_replay": "echo '<case>' | <harness target dir>/%s/c06 -   (format: harness/src/bin/c06.rs)" % bld},
                      signature=sig)
    if mism and not ctx.violations:
        ctx.violation("correspondence broken: extracted model of the chunk iterator disagrees with the implementation (%d cases)" % len(mism),
                      {"correspondence": "props/C06 Model.chunks_impl / fixed_impl vs ChunkIter::from_config", "first": {"case": mism[0][0], "impl": mism[0][1], "model": mism[0][2], "build": mism[0][3]}},
                      no_input=True)
    vlib.finish_broken_obligations(ctx)
