"""C11 — incremental backup with a parent equals a full backup.
Stages: regenerate Extracted.v (clauses of Parent::is_parent + shape checks) from the source;
build + audit the Coq theorems; correspondence of the extracted model of Parent::process with the
hooked real `Parent` on in-memory trees (generated parent trees x current entries related by edits,
several parents, unsorted / repeated arrival, missing and undecodable subtrees, options);
oracle at that level = the property's own criteria evaluated on the implementation's answers
(a reused entry has all chunks indexed and stems from a parent entry of equal type, size, mtime,
(ctime)); end to end on disk: state0 -> backup -> edits -> backup with parent(s) vs forced backup:
tree ids equal, restores byte-identical, partly pruned parent => re-read."""
import os, sys, json, subprocess
import vlib
from vlib import ROOT, REPO, sh, log

# ------------------------------------------------------------------ hook-level cases

SIZES = [0, 1, 5, 100, 4096]
S = 10 ** 9
# time stamps in nanoseconds: whole seconds, the same second with a sub-second part (1 ns, 0.4 s, last ns), other seconds
MTIMES = [None, 1000 * S, 1000 * S, 1000 * S + 1, 1000 * S + 400000000, 1000 * S + 999999999, 1001 * S, 2000 * S + 5]
CTIMES = [None, 500 * S, 500 * S, 500 * S + 1, 500 * S + 400000000, 501 * S, 502 * S + 7]
INODES = [0, 7, 8, 9]
TYPES = [0, 0, 0, 0, 1, 1, 2, 2, 3, 4, 5, 6]


def opt(v):
    return [0] if v is None else [1, v]


def node_toks(n):
    t = [n["name"], n["ty"], n["targ"], n["size"]] + opt(n["mt"]) + opt(n["ct"]) + [n["inode"], n["other"]]
    t += [-1] if n["content"] is None else [len(n["content"])] + list(n["content"])
    t += opt(n["subtree"])
    return t


class Gen:
    def __init__(self, rng):
        self.r = rng
        self.trees = []          # (id, kind, nodes)
        self.next_id = 100
        self.style = rng.randint(0, 9)   # 0: unsorted parent trees, 1: duplicate names, 2: dirs without subtree

    def node(self, name, ty=None):
        r = self.r
        ty = r.choice(TYPES) if ty is None else ty
        n = {"name": name, "ty": ty, "targ": r.choice([0, 1, 2]) if ty in (2, 3, 4) else 0,
             "size": r.choice(SIZES), "mt": r.choice(MTIMES), "ct": r.choice(CTIMES), "inode": r.choice(INODES),
             "other": r.choice([0o644, 0o755]), "content": None, "subtree": None}
        if ty == 0:
            n["content"] = [r.randint(1, 24) for _ in range(r.choice([0, 1, 1, 2, 3]))]
            if r.random() < 0.04: n["content"] = None
        return n

    def ptree(self, depth):
        """a parent tree; returns its id"""
        r = self.r
        tid = self.next_id; self.next_id += 1
        slot = len(self.trees); self.trees.append(None)
        names = sorted(r.sample(range(0, 14), r.choice([0, 1, 2, 3, 4, 6, 8])))
        if self.style == 1 and names and r.random() < 0.5:
            names.insert(r.randrange(len(names) + 1), r.choice(names))
        if self.style == 0 and r.random() < 0.6:
            r.shuffle(names)
        nodes = []
        for nm in names:
            n = self.node(nm)
            if n["ty"] == 1:
                x = r.random()
                if depth < 3 and x < 0.7: n["subtree"] = self.ptree(depth + 1)
                elif x < 0.8 and self.trees and any(t for t in self.trees): n["subtree"] = r.choice([t[0] for t in self.trees if t])
                elif x < 0.9: n["subtree"] = 999                 # not in the store
                elif self.style == 2: n["subtree"] = None           # matched => unwrap panics
                else: n["subtree"] = self.ptree(3)
            nodes.append(n)
        kind = 1 if r.random() < 0.04 and depth > 0 else 0
        self.trees[slot] = (tid, kind, nodes)
        return tid

    def variant(self, tid):
        """a second parent tree: copy of tree `tid` with some entries changed"""
        r = self.r
        src = [t for t in self.trees if t[0] == tid][0]
        nid = self.next_id; self.next_id += 1
        nodes = []
        for n in src[2]:
            if r.random() < 0.15: continue
            m = dict(n)
            x = r.random()
            if x < 0.2: m["mt"] = r.choice(MTIMES)
            elif x < 0.3: m["size"] = r.choice(SIZES)
            elif x < 0.45 and m["content"] is not None: m["content"] = [r.randint(1, 24) for _ in range(r.choice([0, 1, 2]))]
            elif x < 0.5 and m["ty"] == 1 and m["subtree"] is not None and m["subtree"] != 999 and r.random() < 0.5:
                m["subtree"] = self.variant(m["subtree"]) if any(t[0] == m["subtree"] for t in self.trees) else m["subtree"]
            nodes.append(m)
        self.trees.append((nid, 0, nodes))
        return nid

    def older(self, tid):
        """another parent holding OLDER VERSIONS: files of the same size with other mtime / ctime and other
        content (chunk ids 30..60, disjoint from the newer versions' 1..24); recursively"""
        r = self.r
        src = [t for t in self.trees if t[0] == tid]
        if not src or src[0][1] != 0: return tid
        nid = self.next_id; self.next_id += 1
        nodes = []
        for n in src[0][2]:
            m = dict(n)
            if m["ty"] == 0 and m["content"] is not None and r.random() < 0.75:
                m["mt"] = r.choice([v for v in MTIMES if v != n["mt"]])
                if r.random() < 0.5: m["ct"] = r.choice([v for v in CTIMES if v != n["ct"]])
                m["content"] = [r.randint(30, 60) for _ in range(r.choice([1, 1, 2]))]
            elif m["ty"] == 1 and m["subtree"] is not None and m["subtree"] != 999:
                m["subtree"] = self.older(m["subtree"])
            nodes.append(m)
        self.trees.append((nid, 0, nodes))
        return nid

    def tree_nodes(self, tid):
        for t in self.trees:
            if t[0] == tid: return t[2] if t[1] == 0 else None
        return None

    def mutate(self, base):
        r = self.r
        n = dict(base)
        n["content"] = None if r.random() < 0.9 else [r.randint(1, 24)]
        n["subtree"] = None
        x = r.random()
        if x < 0.5: pass
        elif x < 0.58: n["size"] = r.choice(SIZES)
        elif x < 0.66: n["mt"] = r.choice(MTIMES)
        elif x < 0.74: n["ct"] = r.choice(CTIMES)
        elif x < 0.82: n["inode"] = r.choice(INODES)
        elif x < 0.90:
            n["ty"] = r.choice(TYPES); n["targ"] = r.choice([0, 1, 2]) if n["ty"] in (2, 3, 4) else 0
        elif x < 0.94: n["targ"] = r.choice([0, 1, 2]) if n["ty"] in (2, 3, 4) else 0
        else: n["other"] = 0o600
        return n

    def events(self, tids, depth):
        r = self.r
        lists = [self.tree_nodes(t) for t in tids]
        lists = [l for l in lists if l is not None]
        byname = {}
        for l in lists:
            for n in l: byname.setdefault(n["name"], []).append(n)
        cur = []
        for nm, cands in byname.items():
            if r.random() < 0.12: continue                     # removed
            cur.append(self.mutate(r.choice(cands)))
        for _ in range(r.choice([0, 0, 1, 2])):
            cur.append(self.node(r.randint(0, 15)))            # added (may collide with an existing name)
            cur[-1]["content"] = None; cur[-1]["subtree"] = None
        cur.sort(key=lambda n: n["name"])
        x = r.random()
        if x < 0.15: r.shuffle(cur)
        elif x < 0.25 and cur: cur.append(dict(r.choice(cur)))   # an entry arriving twice / out of order
        ev = []
        for n in cur:
            if n["ty"] == 1 and depth < 4:
                nm = n["name"] if r.random() < 0.95 else r.randint(0, 15)
                ev.append([0] + node_toks(n) + [nm])
                subs = [c["subtree"] for c in byname.get(nm, []) if c["subtree"] is not None]
                ev += self.events(subs, depth + 1)
                if r.random() < 0.97: ev.append([1])
            else:
                ev.append([2] + node_toks(n))
        return ev


def gen_case(rng):
    g = Gen(rng)
    root = g.ptree(0)
    parents = [root]
    x = rng.random()
    if x < 0.35: parents.append(g.variant(root))
    if x < 0.10: parents.append(g.variant(root))
    if 0.35 <= x < 0.40: parents = [999, root]
    if 0.40 <= x < 0.43: parents = [root, root]
    if 0.43 <= x < 0.45: parents = []
    # several parents holding different versions of equal size, the newer version's chunks partly unknown to the index
    versions = rng.random() < 0.15
    if versions: parents = [root, g.older(root)]
    if rng.random() < 0.3: rng.shuffle(parents)
    ev = g.events(parents, 0)
    if rng.random() < 0.05: ev.insert(rng.randrange(len(ev) + 1), [1])
    used = sorted({c for t in g.trees for n in t[2] if n["content"] for c in n["content"]})
    y = rng.random()
    idx = used if y < 0.4 else [c for c in used if rng.random() < (0.9 if y < 0.8 else 0.5)]
    if versions: idx = [c for c in used if c >= 30 or rng.random() < 0.5]
    ic, ii = rng.choice([0, 0, 1]), rng.choice([0, 0, 1])
    t = [ic, ii, len(g.trees)]
    for (tid, kind, nodes) in g.trees:
        t += [tid, kind, len(nodes)]
        for n in nodes: t += node_toks(n)
    t += [len(idx)] + idx + [len(parents)] + parents + [len(ev)]
    for e in ev: t += e
    return " ".join(map(str, t))


def parse_case(line):
    """case line -> dict (for the oracle)"""
    t = [int(x) for x in line.split()]
    pos = [0]
    def nx():
        pos[0] += 1
        return t[pos[0] - 1]
    def ropt():
        return nx() if nx() == 1 else None
    def rnode():
        n = {"name": nx(), "ty": nx(), "targ": nx(), "size": nx(), "mt": ropt(), "ct": ropt(), "inode": nx(), "other": nx()}
        nc = nx()
        n["content"] = None if nc < 0 else [nx() for _ in range(nc)]
        n["subtree"] = ropt()
        return n
    c = {"ic": nx() == 1, "ii": nx() == 1, "trees": []}
    for _ in range(nx()):
        tid, kind = nx(), nx()
        c["trees"].append((tid, kind, [rnode() for _ in range(nx())]))
    c["idx"] = set(nx() for _ in range(nx()))
    c["parents"] = [nx() for _ in range(nx())]
    c["events"] = []
    for _ in range(nx()):
        k = nx()
        if k == 0:
            n = rnode(); c["events"].append(("T", n, nx()))
        elif k == 1: c["events"].append(("E",))
        else: c["events"].append(("O", rnode()))
    return c


def core_match(c, p, n):
    """the property's criterion for 'unchanged': type, size, mtime and (unless ignored) ctime"""
    ty = p["ty"] == n["ty"] and (p["ty"] not in (2, 3, 4) or p["targ"] == n["targ"])
    ct = c["ic"] or p["ct"] is None or n["ct"] is None or p["ct"] == n["ct"]
    return ty and p["size"] == n["size"] and p["mt"] == n["mt"] and ct


def content_tok(content):
    if content is None: return "-"
    if not content: return "e"
    return ",".join(map(str, content))


def oracle_hook(c, out):
    """the property at the level of Parent::process, on the implementation's answers"""
    bad = []
    toks = out.split(" | ")[0].split()
    allnodes = [n for (_, kind, nodes) in c["trees"] if kind == 0 for n in nodes]
    for ev, tk in zip(c["events"], toks):
        if ev[0] == "O" and tk.startswith("O:M:"):
            n = ev[1]
            got = tk[4:]
            ids = [] if got in ("-", "e") else [int(x) for x in got.split(",")]
            if any(i not in c["idx"] for i in ids):
                bad.append(("an entry is reused from the parent although not all of its chunks are in the index", "entry %d: content %s, index %s" % (n["name"], got, sorted(c["idx"]))))
            if not any(p["name"] == n["name"] and core_match(c, p, n) and content_tok(p["content"]) == got for p in allnodes):
                bad.append(("an entry is reused although no parent entry of that name has equal type, size, mtime and (unless ignored) ctime", "entry %s got content %s" % (n, got)))
        if ev[0] == "T" and tk.startswith("T:M"):
            n, nm = ev[1], ev[2]
            sid = int(tk[3:])
            if not any(p["name"] == nm and core_match(c, p, n) and p["subtree"] == sid for p in allnodes):
                bad.append(("a directory is classified unchanged w.r.t. a parent subtree that no matching parent entry has", "dir %s -> %d" % (n, sid)))
    return bad


def run_lines(exe, lines, mode="", timeout=1500, maxchunks=8, per=400):
    bdir = os.path.join(vlib.BUILD, "C11")
    os.makedirs(bdir, exist_ok=True)
    nchunk = max(1, min(maxchunks, vlib.NCPU // 2, (len(lines) + per - 1) // per))
    size = (len(lines) + nchunk - 1) // nchunk if lines else 1
    procs = []
    for k in range(nchunk):
        part = lines[k * size:(k + 1) * size]
        if not part: continue
        path = os.path.join(bdir, "in_%d_%d.txt" % (os.getpid(), k))
        open(path, "w").write("\n".join(part) + "\n")
        pr = subprocess.Popen("ulimit -s unlimited 2>/dev/null; '%s' '%s' %s" % (exe, path, mode), shell=True,
                              stdout=subprocess.PIPE, stderr=subprocess.PIPE, text=True, errors="replace")
        procs.append((pr, path, len(part)))
    res = []
    for pr, path, n in procs:
        try:
            out, err = pr.communicate(timeout=timeout)
        except subprocess.TimeoutExpired:
            pr.kill(); out, err = "", "[timeout]"
        os.remove(path)
        got = out.splitlines()
        if pr.returncode != 0 or len(got) != n:
            raise RuntimeError("%s failed rc=%s (%d of %d lines)\n%s" % (exe, pr.returncode, len(got), n, err[-2000:]))
        res += got
    return res


# ------------------------------------------------------------------ e2e

def parse_kv(s):
    d = {}
    for tk in s.split()[1:]:
        k, _, v = tk.partition("=")
        d[k] = v
    return d


def gen_e2e(rng, n):
    cases = []
    for i in range(n):
        seed = rng.randint(1, 1 << 40)
        popt = rng.choice([0, 0, 1, 2, 2, 3, 4, 5, 6, 7])
        x = rng.random()
        prune = 1 if x < 0.2 else 2 if x < 0.35 else 0
        # the edit that keeps size and mtime (only ctime tells): for EVERY option variant — inside the premise
        # unless ctime is ignored; 2 = every second edit is of that kind
        y = rng.random()
        stealth = 2 if y < 0.3 else 1 if y < 0.6 else 0
        if rng.random() < 0.08:
            # two parents holding versions of equal size of one file; the newer version's data pack removed from the repository
            popt, prune = rng.choice([2, 7]), 3
        cases.append("%d %d %d %d" % (seed, popt, prune, stealth))
    return cases


def eval_e2e(line, out):
    """-> (violations [(what, detail)], mismatches [str], classes set)"""
    viol, mism, cls = [], [], set()
    seed, popt, prune, stealth = [int(x) for x in line.split()]
    if not out.startswith("ok "):
        return viol, ["e2e harness: " + out[:300]], {"harness_error"}
    d = parse_kv(out)
    premise = d["premise"] == "1"
    cls.add("popt_%d" % popt)
    if prune == 1 and d["pruned"] != "-": cls.add("parent_partly_pruned(data pack)")
    if prune == 3 and d["pruned"] != "-": cls.add("two_parents_with_versions_of_equal_size,newer_version_pruned")
    if prune == 2 and d["pruned"] != "-":
        cls.add("parent_partly_pruned(tree pack of a sub-directory)")
        if d.get("pruned_dir_untouched") == "1": cls.add("pruned_subtree_unchanged_on_disk")
    for e in d["edits"].split("+"): cls.add("edit:" + e)
    if not premise:
        cls.add("outside_premise(content changed, size+mtime+ctime-as-compared equal)")
        cls.add("outside_premise:tree_" + ("equal" if d["tree_equal"] == "1" else "differs"))
        return viol, mism, cls
    if d["tree_equal"] != "1":
        viol.append(("backup with parent(s) produces a different tree than the forced full backup of the same source", out))
    if d["saved2"] == "1" and d["restore2"] != "same":
        if d["restoreF"] == "same":
            viol.append(("restore of the parent-based backup differs from the source while the forced backup restores exactly", out))
        else:
            mism.append("both restores differ from the source: " + out[:300])
    elif d["restoreF"] != "same":
        mism.append("restore of the forced backup differs from the source: " + out[:300])
    if popt != 5 and d["saved2"] != "1": mism.append("snapshot not written without skip_if_unchanged: " + out[:200])
    if popt == 5 and d["edits"] == "none" and d["saved2"] != "0":
        mism.append("skip_if_unchanged: snapshot written although nothing changed: " + out[:200])
    if popt == 5 and d["saved2"] == "0": cls.add("skip_if_unchanged:skipped")
    if d["f_new"] != d["nfiles"]:
        mism.append("forced backup did not read every file (files_new %s of %s)" % (d["f_new"], d["nfiles"]))
    got = (int(d["unmod"]), int(d["changed"]), int(d["new"]))
    exp = (int(d["e_unmod"]), int(d["e_changed"]), int(d["e_new"]))
    if sum(got) != int(d["nfiles"]): mism.append("summary counters do not add up: " + out[:200])
    single = popt in (0, 1, 3, 4, 5, 6)
    if single and (not prune or d["pruned"] == "-") and got != exp:
        mism.append("files unmodified/changed/new %s, expected from the on-disk metadata %s: %s" % (got, exp, out[:300]))
    if single and prune and d["pruned"] != "-":
        # data pack gone: matching files turn 'new'; tree pack gone: the whole sub-directory is unknown to the parent
        if got[0] > exp[0] or (got[1] != exp[1] if prune == 1 else got[1] > exp[1]):
            mism.append("pruned parent: files unmodified/changed/new %s vs %s" % (got, exp))
        if got[0] < exp[0]: cls.add("reread_because_chunks_missing")
    if got[0] > 0: cls.add("some_files_reused")
    if got[0] > 0 and (got[1] > 0 or got[2] > 0): cls.add("reused_and_reread_mixed")
    return viol, mism, cls


# ------------------------------------------------------------------ mem mode (in-memory sources)

B0 = 1700000100 * S
TPOOL = [None, B0, B0 + 1, B0 + 400000000, B0 + 999999999, B0 + S, B0 + 455 * S + 987654321]


def mem_entry(rng, kind, name):
    e = {"kind": kind, "name": name, "targ": rng.choice([0, 1]) if kind == 2 else 0,
         "mt": rng.choice(TPOOL[1:]) if rng.random() < 0.93 else None,
         "ct": rng.choice(TPOOL[1:]) if rng.random() < 0.9 else None,
         "inode": rng.choice([0, 11, 12, 13]), "len": 0, "seed": 0, "children": None}
    if kind == 0:
        e["len"] = rng.choice([0, 1, 7, 7, 300, 9000]); e["seed"] = rng.randint(1, 1 << 30)
    if kind == 1: e["children"] = {}
    return e


def mem_state0(rng):
    def fill(d, depth):
        for nm in rng.sample(range(12), rng.choice([1, 2, 3, 4, 6])):
            k = rng.choice([0, 0, 0, 0, 1, 2]) if depth < 3 else rng.choice([0, 0, 2])
            e = mem_entry(rng, k, nm)
            d[nm] = e
            if k == 1: fill(e["children"], depth + 1)
    root = {}
    fill(root, 1)
    return root


def mem_copy(d):
    return {k: dict(v, children=mem_copy(v["children"]) if v["children"] is not None else None) for k, v in d.items()}


def same_second_other(rng, t):
    """another time stamp within the same second: whole -> sub-second, sub-second -> whole or another fraction"""
    sec, ns = t // S, t % S
    if ns == 0: return sec * S + rng.choice([1, 1000, 400000000, 999999999])
    return sec * S + rng.choice([0, 0, (ns + 1) % S])


def mem_edit(rng, d, log, focus):
    """edit a state in place; `focus` raises the share of the metadata-only-visible content changes"""
    for nm in list(d.keys()):
        e = d[nm]
        x = rng.random()
        if e["kind"] == 1:
            if x < 0.08: del d[nm]; log.add("remove-dir")
            elif x < 0.14:
                d[nm] = mem_entry(rng, rng.choice([0, 2]), nm); log.add("dir->file/symlink")
            else:
                if x < 0.3: e["mt"] = rng.choice(TPOOL); log.add("dir-mtime")
                mem_edit(rng, e["children"], log, focus)
            continue
        if e["kind"] == 2:
            if x < 0.1: e["targ"] = 1 - e["targ"]; log.add("retarget")
            elif x < 0.15: d[nm] = mem_entry(rng, 0, nm); log.add("symlink->file")
            continue
        lim = 0.75 if focus else 0.45
        if x > lim: continue                                  # unchanged
        op = rng.choice(["size", "same+mtime", "same+mtime-samesec", "same+ctime", "same+ctime-samesec", "stealth", "ctime-none",
                         "touch", "touch-samesec", "ctime-only", "inode", "inode0", "type", "remove"]
                        + (["same+ctime", "same+ctime-samesec", "same+mtime-samesec"] * 2 if focus else []))
        log.add(op)
        newdata = lambda: e.update(seed=rng.randint(1, 1 << 30))
        if op == "size":
            e["len"] = e["len"] + rng.choice([1, 5, 100]); newdata(); e["mt"] = rng.choice(TPOOL[1:])
        elif op == "same+mtime":
            newdata(); e["mt"] = (e["mt"] or B0) + rng.choice([S, 3 * S + 17])
        elif op == "same+mtime-samesec":
            newdata(); e["mt"] = same_second_other(rng, e["mt"] if e["mt"] is not None else B0)
        elif op == "same+ctime":
            newdata(); e["ct"] = (e["ct"] or B0) + rng.choice([S, 455 * S + 987654321])
        elif op == "same+ctime-samesec":
            newdata(); e["ct"] = same_second_other(rng, e["ct"] if e["ct"] is not None else B0)
        elif op == "stealth":
            newdata()
        elif op == "ctime-none":
            newdata(); e["ct"] = None
        elif op == "touch":
            e["mt"] = (e["mt"] or B0) + S
        elif op == "touch-samesec":
            e["mt"] = same_second_other(rng, e["mt"] if e["mt"] is not None else B0)
        elif op == "ctime-only":
            e["ct"] = (e["ct"] or B0) + 7
        elif op == "inode":
            e["inode"] = rng.choice([11, 12, 13, 14])
        elif op == "inode0":
            e["inode"] = 0
        elif op == "type":
            d[nm] = mem_entry(rng, rng.choice([1, 2]), nm)
            if d[nm]["kind"] == 1 and rng.random() < 0.7: d[nm]["children"][rng.randint(0, 11)] = mem_entry(rng, 0, rng.randint(0, 11))
            if d[nm]["kind"] == 1:
                d[nm]["children"] = {v["name"]: v for v in d[nm]["children"].values()}
        elif op == "remove":
            del d[nm]
    for _ in range(rng.choice([0, 0, 1, 2])):
        nm = rng.randint(0, 14)
        if nm not in d:
            d[nm] = mem_entry(rng, rng.choice([0, 0, 1, 2]), nm); log.add("add")


def mem_toks(d):
    out = []
    def walk(d, depth):
        for nm in sorted(d):
            e = d[nm]
            out.append([e["kind"], depth, nm, e["targ"]] + opt(e["mt"]) + opt(e["ct"]) + [e["inode"], e["len"], e["seed"]])
            if e["kind"] == 1: walk(e["children"], depth + 1)
    walk(d, 1)
    flat = [len(out)]
    for e in out: flat += e
    return flat


def grp_match(crit, a, b):
    """SnapshotGroup::from_snapshot(a, crit).matches(b) on (host, label); paths and tags are equal in these cases"""
    return (not crit[0] or a[0] == b[0]) and (not crit[1] or a[1] == b[1])


def gen_mem(rng):
    """-> (case line, info for the oracle)"""
    ic, ii = rng.choice([(0, 0), (0, 0), (1, 0), (0, 1), (0, 1), (1, 1)])
    skip = 1 if rng.random() < 0.1 else 0
    focus = rng.random() < 0.5
    with_sel = rng.random() < 0.5
    states = [mem_state0(rng)]
    log = set()
    for _ in range(rng.choice([0, 0, 1, 2, 3]) if with_sel else rng.choice([0, 0, 0, 1])):
        s1 = mem_copy(states[-1]); mem_edit(rng, s1, set(), False); states.append(s1)
    cur = mem_copy(states[-1]); mem_edit(rng, cur, log, focus); states.append(cur)
    n = len(states)
    x = rng.random()
    if x < (0.65 if with_sel else 0.5): pidx = []
    elif x < 0.8 or n == 2: pidx = [rng.randrange(n - 1)]
    else: pidx = rng.sample(range(n - 1), 2)
    t = [ic, ii, skip, n]
    for st in states: t += mem_toks(st)
    t += [len(pidx)] + pidx
    sel_line = None
    if with_sel:
        crit = (1, 1, 1, 0) if rng.random() < 0.5 else tuple(rng.choice([0, 1]) for _ in range(4))
        times = rng.sample(range(1, 60), n)          # distinct; the new snapshot's own time may be OLDER than a parent's
        attrs = [(rng.choice([1, 2]), rng.choice([1, 1, 2]), times[k]) for k in range(n)]
        t += list(crit)
        for a in attrs: t += list(a)
        me = attrs[n - 1]
        if pidx: want = list(pidx)
        else:
            cands = [k for k in range(n - 1) if grp_match(crit, me, attrs[k])]
            want = [max(cands, key=lambda k: attrs[k][2])] if cands else []
        sel_line = " ".join(map(str, [0, len(pidx)] + pidx + list(crit) + [me[0], me[1], n - 1]
                                + [v for k in range(n - 1) for v in (k, attrs[k][2], attrs[k][0], attrs[k][1])]))
        if want and attrs[want[0]][2] > me[2] and not pidx: log.add("selected-parent-newer-than-backup-time")
        if not want: log.add("no-snapshot-in-group")
    else:
        want = list(pidx) if pidx else [n - 2]
    used = [states[i] for i in want]
    return " ".join(map(str, t)), {"ic": ic == 1, "ii": ii == 1, "skip": skip == 1, "used": used, "cur": cur, "log": log,
                                    "single": len(used) == 1, "focus": focus, "want": want, "sel_line": sel_line}


def mem_pairs(par, cur):
    """(parent entry or None, current entry) for every non-directory entry of `cur`, following directories
    that are directories on both sides (otherwise nothing below is known to the parent)"""
    out = []
    for nm, e in cur.items():
        pe = par.get(nm) if par is not None else None
        if e["kind"] == 1:
            out += mem_pairs(pe["children"] if pe is not None and pe["kind"] == 1 else None, e["children"])
        else:
            out.append((pe, e))
    return out


def mem_core_match(info, p, c):
    ty = p["kind"] == c["kind"] and (p["kind"] != 2 or p["targ"] == c["targ"])
    ct = info["ic"] or p["ct"] is None or c["ct"] is None or p["ct"] == c["ct"]
    size = (p["len"] == c["len"]) if p["kind"] == 0 else True
    return ty and size and p["mt"] == c["mt"] and ct


def eval_mem(line, info, out):
    viol, mism, cls = [], [], set()
    if not out.startswith("ok "):
        return viol, ["mem harness: " + out[:300]], {"harness_error"}
    d = parse_kv(out)
    cls.add("opts_ic%d_ii%d" % (info["ic"], info["ii"]))
    cls.add("parents_%d" % len(info["used"]))
    for op in info["log"]: cls.add("edit:" + op)
    premise = True
    for par in info["used"]:
        for pe, c in mem_pairs(par, info["cur"]):
            if pe is not None and c["kind"] == 0 and pe["kind"] == 0 and mem_core_match(info, pe, c) \
               and (pe["len"], pe["seed"]) != (c["len"], c["seed"]) and c["len"] > 0:
                premise = False
    nfiles = len(mem_pairs(None, info["cur"]))
    if not premise:
        cls.add("outside_premise")
        cls.add("outside_premise:tree_" + ("equal" if d["tree_equal"] == "1" else "differs"))
        return viol, mism, cls
    if d["tree_equal"] != "1":
        viol.append(("backup with parent(s) produces a different tree than the forced full backup of the same source (in-memory source)", out))
    if d["dump"] != "same":
        viol.append(("a file of the parent-based snapshot does not have the bytes of the source (in-memory source)", out))
    if int(d["f_new"]) != nfiles:
        mism.append("forced backup did not read every file (files_new %s of %d)" % (d["f_new"], nfiles))
    got = (int(d["unmod"]), int(d["changed"]), int(d["new"]))
    if sum(got) != nfiles: mism.append("summary counters do not add up: " + out[:200])
    if "sel" in d and d["sel"] != (",".join(map(str, info["want"])) or "-"):
        mism.append("get_parent selected %s, expected %s (explicit parents, else latest of the same group)" % (d["sel"], info["want"]))
    if not info["used"] and got != (0, 0, nfiles):
        mism.append("no parent selected but files unmodified/changed/new = %s" % (got,))
    if info["single"]:
        exp = [0, 0, 0]
        for pe, c in mem_pairs(info["used"][0], info["cur"]):
            if pe is None: exp[2] += 1
            elif mem_core_match(info, pe, c) and (not info["ii"] or pe["inode"] == 0 or c["inode"] == 0 or pe["inode"] == c["inode"]): exp[0] += 1
            else: exp[1] += 1
        if got != tuple(exp):
            mism.append("files unmodified/changed/new %s, expected from the source metadata %s: %s" % (got, tuple(exp), out[:200]))
    if got[0] > 0 and (got[1] > 0 or got[2] > 0): cls.add("reused_and_reread_mixed")
    if info["skip"] and d["saved2"] == "0": cls.add("skip_if_unchanged:skipped")
    if not info["skip"] and d["saved2"] != "1": mism.append("snapshot not written without skip_if_unchanged")
    return viol, mism, cls


# ------------------------------------------------------------------ iter mode (TreeIterator)

def gen_iter(rng):
    """-> (case line, expected tokens or None, info).  A forest of explicit / implicit directories and
    leaves located at an anchor (nothing, `/`, `.`); the stream is its directory walk; styles >= 6 break
    the walk's guarantees (then only model == implementation is compared)."""
    style = rng.randint(0, 11)
    anchor = rng.choice([[], [0], [0], [1]])
    cnt = [0]
    def mknode(name, ty):
        cnt[0] += 1
        return {"name": name, "ty": ty, "targ": 1 if ty in (2, 3, 4) else 0, "size": rng.choice([0, 5]), "mt": (1000 + cnt[0]) * S + rng.choice([0, 7]),
                "ct": None, "inode": cnt[0], "other": rng.choice([0o644, 0o700, 0o755]), "content": None, "subtree": None}
    def forest(depth, must):
        out, used = [], set()
        n = rng.choice([1, 1, 2, 3, 4]) if must else rng.choice([0, 1, 2, 3])
        for _ in range(n):
            c = rng.randint(0, 9)
            while c in used: c = rng.randint(0, 9)
            used.add(c)
            x = rng.random()
            if depth < 4 and x < 0.45:
                ex = rng.random() < 0.7 or depth >= 3
                nm = c if rng.random() < 0.9 else rng.randint(20, 29)      # as_path: entry named differently from the path component
                out.append(("D", ex, c, mknode(nm, 1) if ex else None, forest(depth + 1, not ex)))
            else:
                out.append(("L", mknode(c, rng.choice([0, 0, 0, 2, 3, 5]))))
        out.sort(key=lambda w: (w[2] if w[0] == "D" else w[1]["name"]))
        if style == 7 and len(out) >= 2 and out[0][0] == "D":
            out.append(("D", True, out[0][2], mknode(out[0][2], 1), []))      # the same directory component again, later
        if style == 8 and out and out[-1][0] == "L" and rng.random() < 0.5:
            out[-1][1]["ty"] = 1                                              # a directory node arriving as a plain entry
        return out
    ws = forest(0, True)
    items, exp = [], []
    def walk(ws, pre):
        for w in ws:
            if w[0] == "L":
                items.append((list(pre), w[1])); exp.append("O:%d:%d:%d" % (w[1]["name"], w[1]["other"], w[1]["mt"]))
            else:
                _, ex, c, nd, cs = w
                p = pre + [(3, c)]
                if ex:
                    items.append((list(p), nd)); exp.append("N:%d:%d:%d:%d" % (nd["name"], nd["name"], nd["other"], nd["mt"]))
                else:
                    exp.append("N:%d:%d:493:-" % (c, c))
                walk(cs, p)
                exp.append("E")
    walk(ws, [(a,) for a in anchor])
    wellformed = style <= 5
    if style == 6 and len(items) > 1: rng.shuffle(items)
    if style == 9 and len(items) > 1:
        other = rng.choice([x for x in ([], [0], [1]) if x != anchor])
        k = rng.randrange(1, len(items))
        items = items[:k] + [([(a,) for a in other] + [c for c in p if len(c) == 2], nd) for p, nd in items[k:]]
    if style == 10 and items:
        k = rng.randrange(len(items)); p, nd = items[k]
        j = rng.randrange(len(anchor), len(p) + 1); items[k] = (p[:j] + [(2,)] + p[j:], nd)   # `..` never before `/` or `.` (component lists of real paths)
    if style == 11:
        items = items[:rng.randrange(len(items) + 1)]                         # a prefix of the walk
    ncomps = sum(len(p) for p, _ in items)
    fuel = (2 * len(exp) + 4) if wellformed else (4 * ncomps + 2 * len(items) + 8)
    t = [fuel, len(items)]
    for p, nd in items:
        t.append(len(p))
        for c in p: t += list(c)
        t += node_toks(nd)
    return " ".join(map(str, t)), (exp if wellformed else None), {"style": style, "anchor": anchor, "same_anchor": style not in (9, 10)}


def balanced_tokens(toks):
    d = 0
    for tk in toks:
        if tk.startswith("N:"): d += 1
        elif tk == "E":
            if d == 0: return False
            d -= 1
    return d == 0


# ------------------------------------------------------------------ the check

def run(ctx):
    rng = ctx.rng
    cov = ctx.coverage
    meta, err = vlib.regen_extracted("C11")
    r = vlib.proof_stage(ctx)
    if err:
        r["ok"] = False
        r["failures"].append("fact extraction from archiver/parent.rs (is_parent clauses, shapes of process/set_dir/backup_tree/get_parent) failed: " + err)
    cov["extracted_facts"] = meta
    cov["trusted_base"] += ["props/C11/extract.py (clauses and conjunction of Parent::is_parent -> Extracted.v; shape checks of p_node/process/set_dir/backup_tree/FileArchiver::process/get_parent/archive)",
                            "crates/core/src/verif_hooks/c11.rs (in-memory backend+index MemTrees; ParentHandle wrapping Parent::new/process/tree_id; tree_iterator_items wrapping TreeIterator)"]
    ctx.assumptions += [
        "chunking+hashing is a function of the file's bytes and the repository's chunker configuration (Section variable `chunks`); the tree id is a function of the node list (`tid`); no collision-freedom is needed for parent_equals_full",
        "the source walker (LocalSource / any ReadSource) yields a directory walk under one anchor: directories before their content, unique names per directory (hypotheses wfw / anchored of the path-stream theorems); TreeIterator and the item-by-item pipeline are modelled (ModelIter.v), compared with the real TreeIterator (hook) and proved to refine the structural recursion `arch`",
        "get_parent is modelled for force, plain explicit ids and 'latest of the group'; latest~N, id prefixes and mixing `latest` with ids are not; `pick` = any snapshot of maximal time (ties open in k_smallest_by)",
        "a parent snapshot 'produced by a correct backup' = its trees are `read_all` of some earlier source state; trees missing from the repository are allowed (store returns None), trees present are the ones that were written (`stored`)",
        "premise of parent_equals_full (`visible`): an entry with equal type, size, mtime and (unless ignore_ctime) ctime (None on either side counts as equal, as in the code) has equal content; source leaves carry no content of their own and are not directories; directory entries of parent sources are directories",
        "names are numbers ordered like the byte strings (fixed-width decimal names in the harness); timestamps are whole seconds in the hook cases",
        "Tree::from_backend does not verify hash(bytes) = id (hook trees use chosen ids); serde round-trip of Node is outside the model",
        "ctime cannot be set on disk: on disk a same-size rewrite with restored mtime bumps ctime (inside the premise unless ignore_ctime: then classified, not flagged); freely chosen ctime/mtime/inode values (whole seconds, None, equal ctime with other bytes) go through the public Repository::archive with an in-memory ReadSource",
        "the pariter pipeline preserves order (ordered parallel_map); worker scheduling is outside the model",
    ]
    try:
        model = vlib.build_model("C11")
    except RuntimeError as e:
        model = None
        if r["ok"]:
            r["ok"] = False; r["failures"].append("extracted model no longer builds: " + str(e)[-500:])
    impl = vlib.build_harness("c11")

    # ---- hook-level correspondence
    ncases = 30000 if ctx.thorough() else 3000
    lines = []
    corpus = os.path.join(ctx.pdir, "corpus.txt")
    if os.path.exists(corpus):
        for ln in open(corpus):
            ln = ln.split("#")[0].strip()
            if ln: lines.append(ln)
    while len(lines) < ncases:
        lines.append(gen_case(rng))
    # regression cases first: unchanged sub-directory whose tree pack was removed from the parent (finding 1 in NOTES.md)
    e2e_lines = ["108 0 2 0", "122 1 2 0", "130 0 2 0", "138 4 2 0"] + gen_e2e(rng, 1500 if ctx.thorough() else 160)
    mem_cases = [gen_mem(rng) for _ in range(8000 if ctx.thorough() else 700)]
    if ctx.replay:
        rp = json.load(open(ctx.replay))
        w = rp["witness"]
        mem_cases = []
        if w.get("mode") == "e2e": lines, e2e_lines = [], [w["case"]]
        elif w.get("mode") == "mem":
            lines, e2e_lines = [], []
            print(run_lines(impl, [w["case"]], "mem")[0])     # the oracle needs the generator's view of the case: shown, not re-judged
        else: lines, e2e_lines = [w["case"]], []
    viol, mism, nontriv, hist, samples = [], [], set(), {}, []
    impl_out = run_lines(impl, lines) if lines else []
    model_out = run_lines(model, lines) if (model and lines) else None
    nev = 0
    for k, (ln, io) in enumerate(zip(lines, impl_out)):
        c = parse_case(ln)
        if io.strip() == "panic":
            hist["impl_panic(unwrap on matched dir entry without subtree)"] = hist.get("impl_panic(unwrap on matched dir entry without subtree)", 0) + 1
        else:
            toks = io.split(" | ")[0].split()
            nev += len(toks)
            kinds = set()
            for tk in toks:
                kk = tk[:3] if tk[0] in "TO" else tk
                kinds.add(kk); hist[kk] = hist.get(kk, 0) + 1
            if "O:M" in kinds and ("O:N" in kinds or "O:X" in kinds): nontriv.add(ln)
            for what, detail in oracle_hook(c, io):
                viol.append((what, ln, detail, "hook"))
            if len(c["parents"]) > 1: hist["cases_with_several_parents"] = hist.get("cases_with_several_parents", 0) + 1
            if c["ic"]: hist["cases_ignore_ctime"] = hist.get("cases_ignore_ctime", 0) + 1
            if c["ii"]: hist["cases_ignore_inode"] = hist.get("cases_ignore_inode", 0) + 1
            names = [e[1]["name"] for e in c["events"] if e[0] != "E"]
            if names != sorted(names): hist["cases_with_out_of_order_arrival(any level)"] = hist.get("cases_with_out_of_order_arrival(any level)", 0) + 1
        if model_out is not None and io.strip() != model_out[k].strip():
            mism.append((ln, "impl %s | model %s" % (io[:300], model_out[k][:300])))
        if len(samples) < 3 and 20 < len(ln) < 420 and "O:M" in io:
            samples.append({"case": ln, "impl": io, "model": model_out[k] if model_out else None})

    # ---- end to end
    e2e_viol, e2e_mism, e2e_hist, e2e_nontriv = [], [], {}, set()
    e2e_out = run_lines(impl, e2e_lines, "e2e", maxchunks=6, per=25) if e2e_lines else []
    for ln, out in zip(e2e_lines, e2e_out):
        v, m, cls = eval_e2e(ln, out)
        for what, detail in v: e2e_viol.append((what, ln, detail, "e2e"))
        for x in m: e2e_mism.append((ln, x))
        for k in cls: e2e_hist[k] = e2e_hist.get(k, 0) + 1
        if "reused_and_reread_mixed" in cls and not any(k.startswith("outside_premise") for k in cls): e2e_nontriv.add(ln)
    if e2e_out and len(samples) < 5:
        samples.append({"e2e_case": e2e_lines[0], "result": e2e_out[0]})

    # ---- TreeIterator: the real iterator (hook) vs the extracted model; oracle: the items of a directory walk
    #      are exactly the bracketed flattening of the walked forest, and always well bracketed
    iter_cases = [gen_iter(rng) for _ in range(20000 if ctx.thorough() else 2500)] if not ctx.replay else []
    if ctx.replay and w.get("mode") == "iter": iter_cases = [(w["case"], None, {"style": -1, "same_anchor": False})]
    iter_lines = [c[0] for c in iter_cases]
    iter_impl = run_lines(impl, iter_lines, "iter") if iter_lines else []
    iter_model = run_lines(model, iter_lines, "iter") if (model and iter_lines) else None
    iter_hist, iter_mism, iter_viol, iter_nontriv = {}, [], [], 0
    for k, ((ln, exp, info), io) in enumerate(zip(iter_cases, iter_impl)):
        key = "style_%d" % info["style"]; iter_hist[key] = iter_hist.get(key, 0) + 1
        toks = [] if io.strip() in ("-", "diverges") else io.split()
        if io.strip() == "diverges": iter_hist["diverges"] = iter_hist.get("diverges", 0) + 1
        if any(tk.endswith(":493:-") for tk in toks): iter_hist["synthesised_directories"] = iter_hist.get("synthesised_directories", 0) + 1
        if iter_model is not None and io.strip() != iter_model[k].strip():
            iter_mism.append((ln, "TreeIterator: impl %s | model %s" % (io[:300], iter_model[k][:300])))
        if exp is not None:
            if toks != exp:
                iter_viol.append(("TreeIterator does not yield the bracketed flattening of the walked source tree", ln, "impl %s | expected %s" % (io[:300], " ".join(exp)[:300]), "iter"))
            if len(exp) > 3: iter_nontriv += 1
        if info["same_anchor"] and io.strip() != "diverges" and not balanced_tokens(toks):
            iter_viol.append(("TreeIterator yields items that are not well bracketed (EndTree without NewTree, or a directory left open)", ln, io[:300], "iter"))
    e2e_viol += iter_viol

    # ---- in-memory sources through the public Repository::archive (metadata chosen freely)
    mem_viol, mem_mism, mem_hist, mem_nontriv = [], [], {}, set()
    mem_lines = [c[0] for c in mem_cases]
    mem_out = run_lines(impl, mem_lines, "mem", maxchunks=6, per=60) if mem_lines else []
    for (ln, info), out in zip(mem_cases, mem_out):
        v, m, cls = eval_mem(ln, info, out)
        for what, detail in v: mem_viol.append((what, ln, detail, "mem"))
        for x in m: mem_mism.append((ln, x))
        for k in cls: mem_hist[k] = mem_hist.get(k, 0) + 1
        if "reused_and_reread_mixed" in cls: mem_nontriv.add(ln)
    # the extracted model of get_parent's selection on the same snapshot lists
    sel_cases = [(info["sel_line"], out) for (ln, info), out in zip(mem_cases, mem_out) if info.get("sel_line") and out.startswith("ok ")]
    if model and sel_cases:
        sel_model = run_lines(model, [c[0] for c in sel_cases], "sel")
        for (sl, out), mo in zip(sel_cases, sel_model):
            if parse_kv(out).get("sel") != mo.strip():
                mem_mism.append((sl, "selection: impl %s | model %s" % (parse_kv(out).get("sel"), mo.strip())))
    mem_hist["selection_cases_compared_with_model"] = len(sel_cases)
    e2e_viol += mem_viol
    e2e_mism += mem_mism
    e2e_nontriv |= mem_nontriv

    cov.update({
        "mem_source_cases": len(mem_lines), "distribution_mem": mem_hist,
        "tree_iterator_cases": len(iter_lines), "distribution_tree_iterator": iter_hist,
        "evaluations": len(lines) + len(e2e_lines) + len(mem_lines) + len(iter_lines),
        "distinct_nontrivial": len(nontriv) + len(e2e_nontriv) + iter_nontriv,
        "rule": "hook case = 1-3 parent root trees (second/third = edited copies; 15%: a second parent holding older versions of equal size with other mtime/ctime and other chunks, the newer chunks half unknown to the index; missing, repeated, no parents), trees up to depth 3 over 14 names "
                "(sorted; styles: unsorted, duplicate names, dir entries without subtree; shared, missing and undecodable subtrees), current entries derived "
                "from the parent entries by: unchanged / size / mtime / ctime (incl. None) / inode (incl. 0) / type / link target / other metadata / removed / added, "
                "arrival sorted, shuffled or repeated, directory name differing from the node, missing and surplus EndTree, index = all / 90% / 50% of the chunk ids, "
                "options ignore_ctime x ignore_inode; non-trivial = at least one entry reused and one not; e2e case = seeded tree on disk, backup, 0-6 edits "
                "(content with/without size change, with new or restored mtime, touch, rename, file<->dir<->symlink, retarget, add, remove), backup with parent options "
                "(latest, explicit, two parents in both orders, ignore_ctime, ignore_inode, skip_if_unchanged), restore, forced backup, restore; 20% with a data pack of the "
                "parent removed + repair_index, 15% with the tree pack of a sub-directory removed + repair_index, 8% with two parents holding versions of equal size of a file and the newer version's data pack removed; half of the files start with whole-second mtimes; edits incl. same size + mtime moved within the same second (whole<->sub-second) and same size + mtime restored (only ctime tells; inside the premise unless ctime is ignored) for every option variant; mem case = 2-3 states of an in-memory ReadSource (depth <= 3, 12 names, mtime/ctime from {None, whole second, +1ns, +0.4s, +0.999999999s, next second, far}, inode from {0,11,12,13}), earlier states backed up with force, the last with ignore_ctime x ignore_inode x skip_if_unchanged and latest / explicit / two explicit parents, then forced; edits: size, same size with mtime / ctime changed by seconds or within the second, nothing but bytes (outside), ctime dropped (outside), touch, ctime only, inode, type, add, remove; every file dumped and compared; non-trivial = some files reused and some re-read, inside the premise; distinct by case text",
        "samples": samples, "distribution": {"hook_results": hist, "e2e": e2e_hist},
        "hook_events_compared": nev,
        "traces_validated_against_impl": len(lines) + len(e2e_lines) + len(mem_lines) + len(iter_lines),
        "e2e_state_pairs": len(e2e_lines),
        "disagreements_checked": len(mism) + len(iter_mism) + len(viol) + len(e2e_viol) + len(e2e_mism),
        "model_impl_mismatches": len(mism) + len(iter_mism), "e2e_expectation_mismatches": len(e2e_mism),
        "oracle_violations": len(viol) + len(e2e_viol)})

    seen = set()
    for what, ln, detail, mode in (viol + e2e_viol):
        if what in seen: continue
        seen.add(what)
        ctx.violation(what, {"case": ln, "mode": mode, "detail": detail,
                             "how_to_replay": "echo '<case>' > f; <target>/debug/c11 f %s   (formats: harness/src/bin/c11.rs); ./check C11 --replay <this file>" % (mode if mode in ("e2e", "mem", "iter") else "")},
                      signature=None)
    if (mism or e2e_mism or iter_mism) and not (viol or e2e_viol):
        first = {"case": mism[0][0], "mode": "hook", "difference": mism[0][1]} if mism else {"case": iter_mism[0][0], "mode": "iter", "difference": iter_mism[0][1]} if iter_mism else {"case": e2e_mism[0][0], "mode": "e2e", "difference": e2e_mism[0][1]}
        ctx.violation("correspondence broken: %d hook cases differ between the extracted model of Parent::process and the implementation, %d TreeIterator cases differ, %d e2e expectations differ, "
                      "although parent-based and forced trees are still equal" % (len(mism), len(iter_mism), len(e2e_mism)),
                      {"correspondence": "props/C11 Model.process_all vs Parent::process (hook c11); e2e summary counters / restores", **first}, no_input=True)
    vlib.finish_broken_obligations(ctx)
