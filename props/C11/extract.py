"""C11 fact extractor: regenerates props/C11/coq/Extracted.v from archiver/parent.rs —
the two clauses `match_ctime` / `match_inode` and the final conjunction of the closure in
Parent::is_parent, translated term by term (unknown terms fail loudly) — and checks the shape
of the statements the model transcribes by hand (reuse guard in Parent::process, lazy p_node,
unchanged-tree short-cut and `has_tree` guard in TreeArchiver::backup_tree, the three uses of
force / skip_if_unchanged) — and which option ParentOptions::get_parent hands to which parameter
of Parent::new (argument order)."""
import re, sys, os
sys.path.insert(0, os.path.join(os.path.dirname(__file__), "..", "..", "lib"))
from rustscan import *


def norm(s):
    return " ".join(s.split())


CT_TERMS = {
    "ignore_ctime": "ig",
    "!ignore_ctime": "negb ig",
    "p_meta.ctime.zip(meta.ctime).is_none_or(|(x, y)| x == y)": "(match pc, c with Some x, Some y => N.eqb x y | _, _ => true end)",
    "p_meta.ctime == meta.ctime": "(match pc, c with Some x, Some y => N.eqb x y | None, None => true | _, _ => false end)",
}
INO_TERMS = {
    "ignore_inode": "ig",
    "!ignore_inode": "negb ig",
    "p_meta.inode == 0": "N.eqb pi 0",
    "meta.inode == 0": "N.eqb i 0",
    "p_meta.inode == meta.inode": "N.eqb pi i",
}
CONJ_TERMS = {
    "p_node.node_type == node.node_type": "ty",
    "p_meta.size == meta.size": "sz",
    "p_meta.mtime == meta.mtime": "mt",
    "match_ctime": "ct",
    "match_inode": "ino",
}


def translate(expr, sep, table, what):
    parts = [norm(p) for p in expr.split(sep)]
    out = []
    for p in parts:
        if p not in table:
            raise ExtractError("%s: term not understood: %r" % (what, p))
        out.append(table[p])
    return parts, out


def ar_all(repo):
    return norm(fn_body(read(repo, "crates/core/src/archiver.rs"), "archive"))


def gen(repo):
    ps = read(repo, "crates/core/src/archiver/parent.rs")
    body = fn_body(ps, "is_parent")
    m = re.search(r"let match_ctime\s*=(.*?);", body, re.S)
    if not m: raise ExtractError("is_parent: `let match_ctime = ...;` not found")
    ct_src, ct = translate(m.group(1), "||", CT_TERMS, "match_ctime")
    m = re.search(r"let match_inode\s*=(.*?);", body, re.S)
    if not m: raise ExtractError("is_parent: `let match_inode = ...;` not found")
    ino_src, ino = translate(m.group(1), "||", INO_TERMS, "match_inode")
    # final expression of the closure: after the last `;` inside `.find(|p_node| { ... })`
    m = re.search(r"\.find\(\|p_node\|\s*\{", body)
    if not m: raise ExtractError("is_parent: `.find(|p_node| {` not found")
    b = m.end() - 1
    e = match_brace(body, b)
    closure = body[b + 1:e]
    final = closure.rsplit(";", 1)[1]
    cj_src, cj = translate(final, "&&", CONJ_TERMS, "is_parent conjunction")
    tail = norm(body[e:])
    if ".map_or(ParentResult::NotMatched, ParentResult::Matched)" not in tail:
        raise ExtractError("is_parent: result no longer `find(..).map_or(NotMatched, Matched)`")
    if not re.search(r"let mut p_node = self\.p_node\(name\)\.peekable\(\); if p_node\.peek\(\)\.is_none\(\) \{ return ParentResult::NotFound; \}", norm(body)):
        raise ExtractError("is_parent: peekable/peek prologue changed")
    # p_node loop
    pn = norm(fn_body(ps, "p_node"))
    for frag in ("self.trees.iter_mut().filter_map(|(tree, idx)|", "Ordering::Less => *idx += 1", "Ordering::Equal => { break Some(p_node); }",
                 "Ordering::Greater => { break None; }", "None => break None", "(*p_node.name()).cmp(name)"):
        if frag not in pn:
            raise ExtractError("p_node: expected fragment missing: " + frag)
    # process: reuse guard
    pr = norm(fn_body(ps, "process"))
    for frag in ("if p_node.content.iter().flatten().all(|id| index.has_data(id)) { node.content.clone_from(&p_node.content); ParentResult::Matched(()) } else {",
                 "ParentResult::NotFound } } parent_result => parent_result.map(|_| ()),",
                 ".is_parent(&node, &tree) .map(|node| node.subtree.unwrap()); self.set_dir(be, index, &tree);",
                 "let parent = self.is_parent(&node, &node.name());"):
        if frag not in pr:
            raise ExtractError("Parent::process: expected fragment missing: " + frag)
    sd = norm(fn_body(ps, "set_dir"))
    for frag in ("new_ids.sort(); new_ids.dedup();", "Ok(tree) => Some((tree, 0))", "let old_tree = std::mem::replace(&mut self.trees, new_tree); self.stack.push(old_tree);"):
        if frag not in sd:
            raise ExtractError("set_dir: expected fragment missing: " + frag)
    ta = read(repo, "crates/core/src/archiver/tree_archiver.rs")
    bt = norm(fn_body(ta, "backup_tree"))
    for frag in ("return Ok(id);", "if !self.index.has_tree(&id) { self.tree_packer.add(chunk.into(), id.into())?; } Ok(id)"):
        if frag not in bt:
            raise ExtractError("backup_tree: expected fragment missing: " + frag)
    if "ParentResult::Matched(p_id) if id == *p_id && self.index.has_tree(&id) => {" in bt:
        shortcut_guarded = True
    elif "ParentResult::Matched(p_id) if id == *p_id => {" in bt:
        shortcut_guarded = False
    else:
        raise ExtractError("backup_tree: guard of the unchanged-tree arm not understood")
    fa = read(repo, "crates/core/src/archiver/file_archiver.rs")
    fp = norm(fn_body(fa, "process"))
    for frag in ("if matches!(parent, ParentResult::Matched(()))", "else if node.node_type == NodeType::File {", "} else { (node, 0) };"):
        if frag not in fp:
            raise ExtractError("FileArchiver::process: expected fragment missing: " + frag)
    bk = read(repo, "crates/core/src/commands/backup.rs")
    gp = norm(fn_body(bk, "get_parent"))
    if "let parent = if self.force { Vec::new() } else if self.parents.is_empty() {" not in gp:
        raise ExtractError("get_parent: force no longer yields the empty parent list first")
    # how get_parent hands the two options to Parent::new(be, index, tree_id, ignore_ctime, ignore_inode)
    sig = norm(fn_sig(ps, "new"))
    if not re.search(r"ignore_ctime: bool, ignore_inode: bool,? \)", sig):
        raise ExtractError("Parent::new: the last two parameters are no longer (ignore_ctime: bool, ignore_inode: bool): " + sig)
    nb = norm(fn_body(ps, "new"))
    if not re.search(r"Self \{ tree_ids, trees, stack: Vec::new\(\), ignore_ctime, ignore_inode,? \}", nb):
        raise ExtractError("Parent::new: the struct is no longer initialised field by field from the parameters of the same name")
    gp_raw = fn_body(bk, "get_parent")
    m = re.search(r"Parent::new\s*\(", gp_raw)
    if not m: raise ExtractError("get_parent: call of Parent::new not found")
    b = m.end() - 1
    e = match_brace(gp_raw, b, "(", ")")
    args, depth, cur = [], 0, ""
    for ch in gp_raw[b + 1:e]:
        if ch in "([{": depth += 1
        if ch in ")]}": depth -= 1
        if ch == "," and depth == 0:
            args.append(norm(cur)); cur = ""
        else:
            cur += ch
    if norm(cur): args.append(norm(cur))
    if len(args) != 5:
        raise ExtractError("get_parent: Parent::new is no longer called with five arguments: %r" % args)
    passed = []
    for a in args[3:]:
        bare = re.fullmatch(r"ignore_(ctime|inode)", a)
        if re.fullmatch(r"self\.ignore_(ctime|inode)", a):
            passed.append("ic" if a.endswith("ctime") else "ii")
        elif bare:
            # a local of that name: only accepted when it is the field of the same name (destructuring
            # `let Self { ignore_ctime, ignore_inode, .. } = *self;` without renaming, no other binding)
            if re.search(r"let (mut )?ignore_(ctime|inode)\b", gp) or re.search(r"ignore_(ctime|inode) ?:", gp) \
               or not re.search(r"let Self \{[^}]*\b%s\b[^}]*\} = \*?&?self;" % a, gp):
                raise ExtractError("get_parent: cannot tell which option the local `%s` holds" % a)
            passed.append("ic" if a.endswith("ctime") else "ii")
        else:
            raise ExtractError("get_parent: argument of Parent::new not understood: %r" % a)
    ar = norm(fn_body(read(repo, "crates/core/src/archiver.rs"), "archive"))
    if "if !skip_identical_parent || Some(self.snap.tree) != self.parent.tree_id() {" not in ar:
        raise ExtractError("Archiver::archive: skip_identical_parent guard changed")

    # ---- archiver/tree.rs: TreeIterator (shape of next / pop, comp_to_osstr, mode of synthesised directories)
    tr = read(repo, "crates/core/src/archiver/tree.rs")
    nx = norm(fn_body(tr, "next"))
    for frag in ("None => self.pop().then_some(TreeType::EndTree),",
                 "match path.strip_prefix(&self.path) { Err(_) => { _ = self.pop(); Some(TreeType::EndTree) }",
                 "Ok(missing_dirs) => { for comp in missing_dirs.components() { self.path.push(comp);",
                 "if let Some(p) = comp_to_osstr(comp).ok().flatten() { if node.is_dir() && path == &self.path { let (path, node, _) = self.item.take().unwrap(); self.item = self.iter.next(); let name = node.name().into_owned(); return Some(TreeType::NewTree((path, node, name))); }",
                 "let node = Node::new_node(&p, NodeType::Dir, meta); return Some(TreeType::NewTree(( self.path.clone(), node, p.into_owned(), )));",
                 "let item = self.item.take().unwrap(); self.item = self.iter.next(); Some(TreeType::Other(item))"):
        if frag not in nx:
            raise ExtractError("TreeIterator::next: expected fragment missing: " + frag)
    m = re.search(r"let meta = Metadata \{ mode: Some\((0o[0-7]+)\), \.\.Default::default\(\) \};", nx)
    if not m: raise ExtractError("TreeIterator::next: metadata of synthesised directories not understood")
    synth_mode = int(m.group(1)[2:], 8)
    pp = norm(fn_body(tr, "pop"))
    for frag in ("let comp = comps.next_back();", "Some(Component::Prefix(_) | Component::Normal(_)) => { self.path = comps.collect(); return true; }",
                 "Some(Component::RootDir | Component::ParentDir | Component::CurDir) => {}", "None => return false,"):
        if frag not in pp:
            raise ExtractError("TreeIterator::pop: expected fragment missing: " + frag)
    co = norm(fn_body(read(repo, "crates/core/src/blob/tree.rs"), "comp_to_osstr"))
    for frag in ("Component::RootDir => None,", "Component::Normal(p) => Some(Cow::Borrowed(p)),", "_ => return Err(TreeErrorKind::ContainsCurrentOrParentDirectory),"):
        if frag not in co:
            raise ExtractError("comp_to_osstr: expected fragment missing: " + frag)
    if 'Some(if node.is_dir() { (snapshot_path, node, open) } else { ( snapshot_path .parent() .expect("file path should have a parent!") .to_path_buf(), node, open, ) })' not in ar_all(repo):
        raise ExtractError("Archiver::archive: items are no longer (own path for directories, parent path otherwise)")
    # ---- parent selection: get_parent, SnapshotGroup::matches, default criterion, latest, explicit ids
    for frag in ("let group = SnapshotGroup::from_snapshot(snap, self.group_by.unwrap_or_default());",
                 "SnapshotFile::latest( repo.dbe(), |snap| group.matches(snap), &repo.progress_counter(\"\"), ) .ok() .into_iter() .collect()",
                 "SnapshotFile::from_strs( repo.dbe(), &self.parents, |snap| group.matches(snap), &repo.progress_counter(\"\"), ) .unwrap_or_default()",
                 ".map(|parent| (parent.tree, parent.id)) .unzip();"):
        if frag not in gp:
            raise ExtractError("get_parent: expected fragment missing: " + frag)
    gr = read(repo, "crates/core/src/repofile/snapshotfile/grouping.rs")
    mt = norm(fn_body(gr, "matches"))
    if mt != "self.hostname .as_ref() .is_none_or(|val| val == &snapshot.hostname) && self.label.as_ref().is_none_or(|val| val == &snapshot.label) && self.paths.as_ref().is_none_or(|val| val == &snapshot.paths) && self.tags.as_ref().is_none_or(|val| val == &snapshot.tags)":
        raise ExtractError("SnapshotGroup::matches no longer compares exactly host, label, paths, tags: " + mt)
    fs_ = norm(fn_body(gr, "from_snapshot"))
    if fs_ != "Self { hostname: crit.hostname.then(|| sn.hostname.clone()), label: crit.label.then(|| sn.label.clone()), paths: crit.paths.then(|| sn.paths.clone()), tags: crit.tags.then(|| sn.tags.clone()), }":
        raise ExtractError("SnapshotGroup::from_snapshot changed: " + fs_)
    m = re.search(r"impl Default for SnapshotGroupCriterion \{ fn default\(\) -> Self \{ Self \{ hostname: (true|false), label: (true|false), paths: (true|false), tags: (true|false), \} \} \}", norm(gr))
    if not m: raise ExtractError("Default for SnapshotGroupCriterion not understood")
    crit_default = m.groups()
    sf = read(repo, "crates/core/src/repofile/snapshotfile.rs")
    if ".k_smallest_by(n + 1, |s1, s2| s2.time.cmp(&s1.time))" not in norm(fn_body(sf, "latest_n_from_iter")):
        raise ExtractError("latest_n_from_iter no longer takes the n+1 snapshots of greatest time")
    if "Self::latest_n(be, predicate, p, 0)" not in norm(fn_body(sf, "latest")):
        raise ExtractError("SnapshotFile::latest is no longer latest_n(.., 0)")
    if "let all_ids = requests.map_results(&[], ids_starts_with, ids); Self::fill_missing(be, Vec::new(), all_ids.as_slice(), |_| true, p)" not in norm(sf):
        raise ExtractError("SnapshotFile::from_strs: explicit ids are no longer loaded without consulting the predicate")

    txt = "(* GENERATED by props/C11/extract.py from crates/core/src/archiver/parent.rs — do not edit *)\n"
    txt += "From Coq Require Import NArith Bool.\n\n"
    txt += "(* let match_ctime = %s *)\n" % " || ".join(ct_src)
    txt += "Definition match_ctime_clause (ig : bool) (pc c : option N) : bool :=\n  %s.\n\n" % " || ".join(ct)
    txt += "(* let match_inode = %s *)\n" % " || ".join(ino_src)
    txt += "Definition match_inode_clause (ig : bool) (pi i : N) : bool :=\n  (%s)%%bool.\n\n" % " || ".join("(%s)" % x for x in ino)
    txt += "(* %s *)\n" % " && ".join(cj_src)
    txt += "Definition is_parent_conj (ty sz mt ct ino : bool) : bool :=\n  %s.\n" % " && ".join(cj)
    txt += "\n(* guard of the unchanged-tree arm of TreeArchiver::backup_tree: `id == *p_id` %s *)\n" % ("&& self.index.has_tree(&id)" if shortcut_guarded else "(no index test)")
    txt += "Definition shortcut_requires_has_tree : bool := %s.\n" % ("true" if shortcut_guarded else "false")
    txt += "\n(* ParentOptions::get_parent: Parent::new(be, index, trees, %s, %s); parameters (.., ignore_ctime, ignore_inode) *)\n" % (args[3], args[4])
    txt += "Definition get_parent_passes (ic ii : bool) : bool * bool := (%s, %s).\n" % (passed[0], passed[1])
    txt += "\n(* archiver/tree.rs: mode of the directories TreeIterator synthesises *)\nDefinition synth_mode : N := %d%%N.\n" % synth_mode
    txt += "\n(* Default for SnapshotGroupCriterion: (host, label, paths, tags) *)\nDefinition crit_default_flags : bool * bool * bool * bool := (%s, %s, %s, %s).\n" % crit_default
    meta = {"synth_mode": oct(synth_mode), "group_criterion_default(host,label,paths,tags)": list(crit_default), "get_parent_passes_to_Parent_new": [args[3], args[4]], "shortcut_requires_has_tree": shortcut_guarded, "match_ctime": " || ".join(ct_src), "match_inode": " || ".join(ino_src), "conjunction": " && ".join(cj_src),
            "inode_clause_uses_negated_option": "!ignore_inode" in ino_src,
            "shape_checks": ["is_parent peek/find", "p_node loop", "process reuse guard + unwrap + set_dir order", "set_dir sort/dedup/stack",
                             "backup_tree short-cut + has_tree guard", "FileArchiver::process arms", "get_parent force", "Parent::new parameter order and field initialisation", "archive skip guard", "TreeIterator::next / pop, comp_to_osstr, item paths fed by Archiver::archive", "get_parent selection branches, SnapshotGroup::from_snapshot / matches, latest_n_from_iter, from_strs (ids)"]}
    return txt, meta


if __name__ == "__main__":
    t, m = gen(sys.argv[1] if len(sys.argv) > 1 else "/repo")
    print(t); print(m)
