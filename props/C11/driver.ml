(* prelude: n nat *)
(* C11 driver: same case lines as harness/src/bin/c11.rs (hook mode; format described there).
   Output: one token per event in the harness' format, then ` | P<first loaded parent id or ->`. *)
let rd_opt t = if ni t = 1 then Some (n_of_int (ni t)) else None

let rd_node t =
  let name = ni t in
  let ty = ni t in
  let targ = n_of_int (ni t) in
  let size = ni t in
  let mt = rd_opt t in
  let ct = rd_opt t in
  let inode = ni t in
  let other = ni t in
  let nc = ni t in
  let content = if nc < 0 then None else Some (ntimes nc (fun () -> n_of_int (ni t))) in
  let subtree = rd_opt t in
  let nty = match ty with
    | 0 -> TFile | 1 -> TDir | 2 -> TLink targ | 3 -> TDev targ | 4 -> TChardev targ | 5 -> TFifo | _ -> TSocket in
  { n_name = n_of_int name; n_type = nty;
    n_meta = { m_size = n_of_int size; m_mtime = mt; m_ctime = ct; m_inode = n_of_int inode; m_other = n_of_int other };
    n_content = content; n_subtree = subtree }

let content_str nd = match nd.n_content with
  | None -> "-"
  | Some [] -> "e"
  | Some l -> String.concat "," (List.map (fun i -> string_of_int (int_of_n i)) l)

let case line =
  let t = toks line in
  let ic = ni t = 1 in
  let ii = ni t = 1 in
  let ntrees = ni t in
  let trees = ntimes ntrees (fun () ->
    let id = ni t in
    let kind = ni t in
    let nn = ni t in
    let nodes = ntimes nn (fun () -> rd_node t) in
    (id, if kind = 0 then Some nodes else None)) in
  (* a map keyed by id: a later tree with the same id replaces an earlier one (BTreeMap collect) *)
  let tbl = Hashtbl.create 16 in
  List.iter (fun (id, v) -> Hashtbl.replace tbl id v) trees;
  let st i = match Hashtbl.find_opt tbl (int_of_n i) with Some v -> v | None -> None in
  let nidx = ni t in
  let idx = ntimes nidx (fun () -> ni t) in
  let ix i = List.mem (int_of_n i) idx in
  let np = ni t in
  let parents = ntimes np (fun () -> n_of_int (ni t)) in
  let ne = ni t in
  let events = ntimes ne (fun () ->
    match ni t with
    | 0 -> let nd = rd_node t in let name = ni t in ENewTree (nd, n_of_int name)
    | 1 -> EEndTree
    | _ -> EOther (rd_node t)) in
  let o = { ignore_ctime = ic; ignore_inode = ii } in
  let (p0, tids) = parent_new st parents in
  let outs = process_all o st ix p0 events in
  let tok = function
    | ONewTree (Matched i) -> Printf.sprintf "T:M%d" (int_of_n i)
    | ONewTree NotFound -> "T:N"
    | ONewTree NotMatched -> "T:X"
    | OEndTree -> "E:ok"
    | OErr -> "E:err"
    | OOther (nd, r) ->
      Printf.sprintf "O:%s:%s" (match r with Matched _ -> "M" | NotFound -> "N" | NotMatched -> "X") (content_str nd)
    | OPanic -> "panic" in
  let body = String.concat " " (List.map tok outs) in
  let p = match tids with [] -> "-" | i :: _ -> string_of_int (int_of_n i) in
  if List.exists (fun x -> x = OPanic) outs then "panic" else Printf.sprintf "%s | P%s" body p

(* mode `iter`: `fuel nitems { ncomps comp* node }` -> the items of the modelled TreeIterator *)
let iter_case line =
  let t = toks line in
  let fuel = ni t in
  let n = ni t in
  let items = ntimes n (fun () ->
    let nc = ni t in
    let p = ntimes nc (fun () -> match ni t with 0 -> CRoot | 1 -> CCur | 2 -> CParent | _ -> CNormal (n_of_int (ni t))) in
    let nd = rd_node t in
    { i_path = p; i_node = nd; i_open = None }) in
  let mt nd = match nd.n_meta.m_mtime with None -> "-" | Some x -> string_of_int (int_of_n x) in
  match titer (nat_of_int fuel) items with
  | None -> "diverges"
  | Some evs ->
    let tok = function
      | EvNew (nd, name) -> Printf.sprintf "N:%d:%d:%d:%s" (int_of_n name) (int_of_n nd.n_name) (int_of_n nd.n_meta.m_other) (mt nd)
      | EvEnd -> "E"
      | EvOther (nd, _) -> Printf.sprintf "O:%d:%d:%s" (int_of_n nd.n_name) (int_of_n nd.n_meta.m_other) (mt nd) in
    if evs = [] then "-" else String.concat " " (List.map tok evs)

(* mode `sel`: `force nids id*  gh gl gp gt  me_host me_label  nrepo {id time host label}*` -> ids get_parent selects *)
let sel_case line =
  let t = toks line in
  let force = ni t = 1 in
  let nids = ni t in
  let ids = ntimes nids (fun () -> n_of_int (ni t)) in
  let gh = ni t = 1 in let gl = ni t = 1 in let gp = ni t = 1 in let gt = ni t = 1 in
  let mk i tm h l = { s_id = n_of_int i; s_time = n_of_int tm; s_host = n_of_int h; s_label = n_of_int l;
                      s_paths = N0; s_tags = N0; s_tree = n_of_int i } in
  let mh = ni t in let ml = ni t in
  let me = mk 0 0 mh ml in
  let nrepo = ni t in
  let repo = ntimes nrepo (fun () -> let i = ni t in let tm = ni t in let h = ni t in let l = ni t in mk i tm h l) in
  let c = { c_host = gh; c_label = gl; c_paths = gp; c_tags = gt } in
  match select force ids c me repo with
  | [] -> "-"
  | l -> String.concat "," (List.map (fun s -> string_of_int (int_of_n s.s_id)) l)

let () =
  let mode = if Array.length Sys.argv > 2 then Sys.argv.(2) else "" in
  main_loop (if mode = "iter" then iter_case else if mode = "sel" then sel_case else case)
