(* C11 — executable model of the parent matcher and of the archiver pipeline it feeds.
   Anchors (crates/core/src): archiver/parent.rs (Parent::{new,p_node,is_parent,set_dir,
   finish_dir,tree_id,process}), archiver/file_archiver.rs (FileArchiver::process),
   archiver/tree_archiver.rs (TreeArchiver::{add,backup_tree,finalize}), archiver.rs
   (Archiver::archive), commands/backup.rs (ParentOptions::get_parent: force / skip_if_unchanged).
   Definitions only; the clauses of is_parent come from Extracted.v (regenerated from parent.rs). *)
From Verif.Base Require Import Tactics.
From Verif.C11 Require Import Extracted.
Local Open Scope N_scope.

(* ---------------------------------------------------------------- data *)
Definition id := N.                       (* blob ids (tree ids and data ids), ordered like their bytes *)

(* NodeType; equality is derived PartialEq: symlinks compare their target, devices their number *)
Inductive ntype := TFile | TDir | TLink (target : N) | TDev (d : N) | TChardev (d : N) | TFifo | TSocket.

Definition ntype_eqb (a b : ntype) : bool :=
  match a, b with
  | TFile, TFile | TDir, TDir | TFifo, TFifo | TSocket, TSocket => true
  | TLink x, TLink y | TDev x, TDev y | TChardev x, TChardev y => x =? y
  | _, _ => false
  end.

(* the part of Metadata the matcher reads + everything else (mode, uid, ..., xattrs) as one value *)
Record meta := { m_size : N; m_mtime : option N; m_ctime : option N; m_inode : N; m_other : N }.

Record node := { n_name : N; n_type : ntype; n_meta : meta;
                 n_content : option (list id); n_subtree : option id }.

Definition set_content (nd : node) (c : option (list id)) : node :=
  {| n_name := n_name nd; n_type := n_type nd; n_meta := n_meta nd; n_content := c; n_subtree := n_subtree nd |}.
Definition set_subtree (nd : node) (s : option id) : node :=
  {| n_name := n_name nd; n_type := n_type nd; n_meta := n_meta nd; n_content := n_content nd; n_subtree := s |}.

Record popts := { ignore_ctime : bool; ignore_inode : bool }.

Definition optN_eqb (a b : option N) : bool :=
  match a, b with Some x, Some y => x =? y | None, None => true | _, _ => false end.

(* the closure inside Parent::is_parent; the clauses and the conjunction are the ones of
   Extracted.v, i.e. of the current parent.rs *)
Definition meta_match (o : popts) (p n : node) : bool :=
  let pm := n_meta p in let m := n_meta n in
  is_parent_conj
    (ntype_eqb (n_type p) (n_type n))
    (m_size pm =? m_size m)
    (optN_eqb (m_mtime pm) (m_mtime m))
    (match_ctime_clause (ignore_ctime o) (m_ctime pm) (m_ctime m))
    (match_inode_clause (ignore_inode o) (m_inode pm) (m_inode m)).

(* ---------------------------------------------------------------- Parent state *)
Definition ptree := (list node * nat)%type.            (* (Tree, usize): nodes and cursor *)
Record pstate := { trees : list ptree; stack : list (list ptree) }.

Inductive presult (A : Type) := Matched (a : A) | NotFound | NotMatched.
Arguments Matched {A} a. Arguments NotFound {A}. Arguments NotMatched {A}.

Definition store := id -> option (list node).          (* Tree::from_backend; None = error, ignored with a warning *)
Definition index := id -> bool.                        (* index.has_data *)

(* the loop of p_node on the nodes from the cursor on: how far the cursor moves, what is found *)
Fixpoint scan (l : list node) (name : N) : nat * option node :=
  match l with
  | [] => (0%nat, None)
  | pn :: r =>
    match N.compare (n_name pn) name with
    | Lt => let '(k, x) := scan r name in (S k, x)
    | Eq => (0%nat, Some pn)
    | Gt => (0%nat, None)
    end
  end.

(* one element of the iterator returned by p_node: advances this tree's cursor *)
Definition p_node_one (t : ptree) (name : N) : ptree * option node :=
  let '(k, x) := scan (skipn (snd t) (fst t)) name in ((fst t, (snd t + k)%nat), x).

(* is_parent: p_node(name).peekable(); peek() none => NotFound; then find(closure).
   The iterator is lazy: trees after the first matching one keep their cursor.
   `found` = some earlier tree had a node of that name. *)
Fixpoint is_parent_go (o : popts) (ts : list ptree) (nd : node) (name : N) (found : bool)
  : list ptree * presult node :=
  match ts with
  | [] => ([], if found then NotMatched else NotFound)
  | t :: r =>
    let '(t', x) := p_node_one t name in
    match x with
    | None => let '(r', res) := is_parent_go o r nd name found in (t' :: r', res)
    | Some pn =>
      if meta_match o pn nd then (t' :: r, Matched pn)
      else let '(r', res) := is_parent_go o r nd name true in (t' :: r', res)
    end
  end.
Definition is_parent (o : popts) (ts : list ptree) (nd : node) (name : N) := is_parent_go o ts nd name false.

(* new_ids.sort(); new_ids.dedup() *)
Fixpoint insert_sorted (x : N) (l : list N) : list N :=
  match l with [] => [x] | y :: r => if x <=? y then x :: l else y :: insert_sorted x r end.
Definition sort_ids (l : list N) : list N := fold_right insert_sorted [] l.
Fixpoint dedup (l : list N) : list N :=
  match l with
  | [] => []
  | x :: r => match r with y :: _ => if x =? y then dedup r else x :: dedup r | [] => [x] end
  end.

Definition load_trees (st : store) (ids : list id) : list ptree :=
  flat_map (fun i => match st i with Some T => [(T, 0%nat)] | None => [] end) ids.

(* set_dir: every tree is advanced (collect), subtree ids of the nodes found, sorted, deduplicated,
   loaded (failures dropped); the advanced trees go on the stack *)
Definition set_dir (st : store) (P : pstate) (name : N) : pstate :=
  let adv := map (fun t => p_node_one t name) (trees P) in
  let ids := flat_map (fun a => match snd a with
                                | Some pn => match n_subtree pn with Some i => [i] | None => [] end
                                | None => [] end) adv in
  {| trees := load_trees st (dedup (sort_ids ids)); stack := map fst adv :: stack P |}.

(* finish_dir: None = TreeStackEmptyError *)
Definition finish_dir (P : pstate) : option pstate :=
  match stack P with [] => None | t :: s => Some {| trees := t; stack := s |} end.

(* Parent::new: trees that load, with cursor 0; tree_ids = those that loaded *)
Definition parent_new (st : store) (ids : list id) : pstate * list id :=
  ({| trees := load_trees st ids; stack := [] |},
   filter (fun i => match st i with Some _ => true | None => false end) ids).

Definition content_ids (nd : node) : list id := match n_content nd with Some l => l | None => [] end.

(* Parent::process, arm Other: the node as handed on, and the classification *)
Definition process_other (o : popts) (ix : index) (P : pstate) (nd : node) : pstate * node * presult unit :=
  let '(ts, r) := is_parent o (trees P) nd (n_name nd) in
  let P' := {| trees := ts; stack := stack P |} in
  match r with
  | Matched pn =>
    if forallb ix (content_ids pn) then (P', set_content nd (n_content pn), Matched tt)
    else (P', nd, NotFound)            (* "missing blobs in index for unchanged file; re-reading file" *)
  | NotFound => (P', nd, NotFound)
  | NotMatched => (P', nd, NotMatched)
  end.

(* Parent::process, arm NewTree: None = panic (`node.subtree.unwrap()` on a matched node without subtree) *)
Definition process_newtree (o : popts) (st : store) (P : pstate) (nd : node) (name : N)
  : option (pstate * presult id) :=
  let '(ts, r) := is_parent o (trees P) nd name in
  let P1 := set_dir st {| trees := ts; stack := stack P |} name in
  match r with
  | Matched pn => match n_subtree pn with Some i => Some (P1, Matched i) | None => None end
  | NotFound => Some (P1, NotFound)
  | NotMatched => Some (P1, NotMatched)
  end.

(* the event interface of Parent::process (what the hook drives) *)
Inductive event := ENewTree (nd : node) (name : N) | EEndTree | EOther (nd : node).
Inductive pout := ONewTree (r : presult id) | OEndTree | OErr | OOther (nd : node) (r : presult unit) | OPanic.

Definition process (o : popts) (st : store) (ix : index) (P : pstate) (e : event) : pstate * pout :=
  match e with
  | ENewTree nd name =>
    match process_newtree o st P nd name with Some (P', r) => (P', ONewTree r) | None => (P, OPanic) end
  | EEndTree => match finish_dir P with Some P' => (P', OEndTree) | None => (P, OErr) end
  | EOther nd => let '(P', nd', r) := process_other o ix P nd in (P', OOther nd' r)
  end.

Fixpoint process_all (o : popts) (st : store) (ix : index) (P : pstate) (es : list event) : list pout :=
  match es with
  | [] => []
  | e :: r => let '(P', x) := process o st ix P e in
              match x with OPanic => [OPanic] | _ => x :: process_all o st ix P' r end
  end.

(* TreeArchiver::backup_tree: what happens to the serialised tree *)
Inductive taction := Shortcut | AlreadyIndexed | Save.
Definition backup_tree_action (parent : presult id) (tree_id : id) (has_tree : bool) : taction :=
  match parent with
  | Matched p => if (tree_id =? p) && (negb shortcut_requires_has_tree || has_tree) then Shortcut
                 else if has_tree then AlreadyIndexed else Save
  | _ => if has_tree then AlreadyIndexed else Save
  end.

(* ---------------------------------------------------------------- the archiver on a source tree *)
Section Archiver.
  Variable D : Type.                       (* file data *)
  Variable chunks : D -> list id.          (* ChunkIter + hash with the repository's chunker configuration *)
  Variable tid : list node -> id.          (* Tree::serialize: hash of the JSON of the node list *)
  Variable o : popts.
  Variable st : store.
  Variable ix : index.

  (* the source after TreeIterator: directories bracket their entries (NewTree ... EndTree) *)
  Inductive src := SLeaf (nd : node) (d : D) | SDir (nd : node) (children : list src).
  Definition sname (e : src) : N := match e with SLeaf nd _ => n_name nd | SDir nd _ => n_name nd end.

  (* FileArchiver::process for a node that is not Matched: regular files are read *)
  Definition leaf_read (nd : node) (d : D) : node :=
    match n_type nd with TFile => set_content nd (Some (chunks d)) | _ => nd end.

  Definition arch_leaf (P : pstate) (nd : node) (d : D) : pstate * node :=
    let '(P', nd', r) := process_other o ix P nd in
    match r with Matched _ => (P', nd') | _ => (P', leaf_read nd' d) end.

  Definition arch_dir (P : pstate) (nd : node) (k : pstate -> option (pstate * list node))
    : option (pstate * node) :=
    match process_newtree o st P nd (n_name nd) with
    | None => None
    | Some (P1, _) =>
      match k P1 with
      | None => None
      | Some (P2, nodes) =>
        match finish_dir P2 with
        | None => None
        | Some P3 => Some (P3, set_subtree nd (Some (tid nodes)))   (* node.subtree = Some(id) in either arm of backup_tree *)
        end
      end
    end.

  Fixpoint arch (e : src) (P : pstate) {struct e} : option (pstate * node) :=
    match e with
    | SLeaf nd d => Some (arch_leaf P nd d)
    | SDir nd cs =>
      arch_dir P nd
        ((fix arch_list (cs : list src) (P : pstate) {struct cs} : option (pstate * list node) :=
            match cs with
            | [] => Some (P, [])
            | c :: r =>
              match arch c P with
              | None => None
              | Some (P', n) =>
                match arch_list r P' with None => None | Some (P'', ns) => Some (P'', n :: ns) end
              end
            end) cs)
    end.

  Fixpoint arch_list (cs : list src) (P : pstate) {struct cs} : option (pstate * list node) :=
    match cs with
    | [] => Some (P, [])
    | c :: r =>
      match arch c P with
      | None => None
      | Some (P', n) =>
        match arch_list r P' with None => None | Some (P'', ns) => Some (P'', n :: ns) end
      end
    end.

  (* backup of the top-level entries `cs` with the given parent snapshots' trees.
     force: get_parent uses no parent.  Result: root tree id, and whether the snapshot file is
     written (`!skip_identical_parent || Some(tree) != parent.tree_id()`). *)
  Definition optid_eqb (a b : option id) : bool :=
    match a, b with Some x, Some y => x =? y | None, None => true | _, _ => false end.

  Definition archive (parents : list id) (force skip_if_unchanged : bool) (cs : list src)
    : option (id * bool) :=
    let '(P0, tids) := parent_new st (if force then [] else parents) in
    match arch_list cs P0 with
    | None => None
    | Some (_, nodes) =>
      let root := tid nodes in
      Some (root, negb skip_if_unchanged || negb (optid_eqb (Some root) (hd_error tids)))
    end.
End Archiver.

Arguments SLeaf {D}. Arguments SDir {D}. Arguments sname {D}.

(* ParentOptions::get_parent: the options as they arrive in Parent::new (argument order regenerated
   from commands/backup.rs), and the backup command = archive with those *)
Definition opts_passed (po : popts) : popts :=
  let '(a, b) := get_parent_passes (ignore_ctime po) (ignore_inode po) in
  {| ignore_ctime := a; ignore_inode := b |}.

Definition backup_cmd (D : Type) (chunks : D -> list id) (tid : list node -> id) (po : popts)
  (st : store) (ix : index) (parents : list id) (force skip_if_unchanged : bool) (cs : list (src D)) :=
  archive D chunks tid (opts_passed po) st ix parents force skip_if_unchanged cs.
