(* C11 — declarative side: the tree a backup produces when it reads every file (`read_all`),
   what it means for parent trees to be usable (`good`), the property's premise (`visible`),
   and "the parent snapshot was produced by a correct backup and what is left of it in the
   repository is what was written" (`stored`). *)
From Verif.Base Require Import Tactics.
From Verif.C11 Require Import Extracted Model Proofs.
Local Open Scope N_scope.

Section All.
  Variable A : Type.
  Variable P : A -> Prop.
  Fixpoint allP (l : list A) : Prop := match l with [] => True | x :: r => P x /\ allP r end.
  Lemma allP_In : forall l, allP l <-> (forall x, In x l -> P x).
  Proof.
    induction l as [|a l IH]; cbn [allP In]; split; intros H.
    - intros x [].
    - exact I.
    - intros x [E|Hx]; [subst; exact (proj1 H)|]. apply (proj1 IH (proj2 H)); exact Hx.
    - split; [apply H; left; reflexivity|]. apply IH. intros x Hx. apply H. right; exact Hx.
  Qed.
End All.
Arguments allP {A} P l.

Section SrcInd.
  Variable D : Type.
  Variable P : src D -> Prop.
  Hypothesis Hl : forall nd d, P (SLeaf nd d).
  Hypothesis Hd : forall nd cs, allP P cs -> P (SDir nd cs).
  Fixpoint src_ind2 (e : src D) : P e :=
    match e with
    | SLeaf nd d => Hl nd d
    | SDir nd cs =>
      Hd nd cs ((fix go (cs : list (src D)) : allP P cs :=
                   match cs with [] => I | c :: r => conj (src_ind2 c) (go r) end) cs)
    end.
End SrcInd.

Section Spec.
  Variable D : Type.
  Variable chunks : D -> list id.
  Variable tid : list node -> id.
  Variable o : popts.
  Variable st : store.

  (* the backup that reads every file *)
  Fixpoint read_all (e : src D) : node :=
    match e with
    | SLeaf nd d => leaf_read D chunks nd d
    | SDir nd cs => set_subtree nd (Some (tid (map read_all cs)))
    end.

  (* parent node `pn` (of the same name) is usable for source entry `e`: a match reuses the
     right content / has a subtree, and the loadable subtree is usable for the children *)
  Fixpoint good (e : src D) (pn : node) {struct e} : Prop :=
    match e with
    | SLeaf nd d => meta_match o pn nd = true -> n_content pn = n_content (leaf_read D chunks nd d)
    | SDir nd cs =>
      (meta_match o pn nd = true -> n_subtree pn <> None) /\
      forall i T, n_subtree pn = Some i -> st i = Some T ->
        allP (fun c => forall q, In q T -> n_name q = sname c -> good c q) cs
    end.

  Fixpoint wf (e : src D) : Prop :=
    match e with
    | SLeaf nd _ => n_type nd <> TDir /\ n_subtree nd = None
    | SDir nd cs => n_type nd = TDir /\ allP wf cs
    end.

  (* premise of the property, per pair of entries of the same name: equal type, size, mtime and
     (unless ignored) ctime imply equal content; recursively for directories *)
  Fixpoint visible (e1 e0 : src D) {struct e1} : Prop :=
    match e1 with
    | SLeaf n1 d1 =>
      match e0 with
      | SLeaf n0 d0 => core_match o n0 n1 = true ->
                       n_content (leaf_read D chunks n0 d0) = n_content (leaf_read D chunks n1 d1)
      | SDir _ _ => True
      end
    | SDir n1 c1 =>
      match e0 with
      | SLeaf _ _ => True
      | SDir n0 c0 => allP (fun x1 => forall x0, In x0 c0 -> sname x0 = sname x1 -> visible x1 x0) c1
      end
    end.

  (* what the repository still holds of the trees written for e0 is what was written *)
  Fixpoint stored (e0 : src D) : Prop :=
    match e0 with
    | SLeaf _ _ => True
    | SDir n0 c0 => (forall T, st (tid (map read_all c0)) = Some T -> T = map read_all c0) /\ allP stored c0
    end.
End Spec.
