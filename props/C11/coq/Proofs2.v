(* C11 — the archiver with parents produces the tree of the backup that reads every file. *)
From Verif.Base Require Import Tactics.
From Verif.C11 Require Import Extracted Model Proofs Spec.
Local Open Scope N_scope.

(* ------------------------------------------------------------ sort / dedup / load *)
Lemma In_insert_sorted : forall x y l, In y (insert_sorted x l) -> y = x \/ In y l.
Proof.
  induction l as [|a l IH]; cbn [insert_sorted]; intros H.
  - destruct H as [H|[]]; left; symmetry; exact H.
  - destruct (x <=? a).
    + destruct H as [H|H]; [left; symmetry; exact H|right; exact H].
    + destruct H as [H|H]; [right; left; exact H|].
      destruct (IH H) as [E|Hi]; [left; exact E|right; right; exact Hi].
Qed.

Lemma In_sort_ids : forall y l, In y (sort_ids l) -> In y l.
Proof.
  induction l as [|a l IH]; cbn [sort_ids fold_right]; intros H; [exact H|].
  apply In_insert_sorted in H. destruct H as [E|H]; [left; symmetry; exact E|right; apply IH; exact H].
Qed.

Lemma In_dedup : forall y l, In y (dedup l) -> In y l.
Proof.
  induction l as [|a l IH]; cbn [dedup]; intros H; [exact H|].
  destruct l as [|b l'].
  - exact H.
  - destruct (a =? b).
    + right. apply IH. exact H.
    + destruct H as [E|H]; [left; exact E|right; apply IH; exact H].
Qed.

Lemma In_load_trees : forall st ids t, In t (load_trees st ids) ->
  exists i, In i ids /\ st i = Some (fst t) /\ snd t = 0%nat.
Proof.
  intros st ids t H. unfold load_trees in H. apply in_flat_map in H. destruct H as [i [Hi Ht]].
  exists i. destruct (st i) as [T|] eqn:S; [|inv Ht].
  destruct Ht as [E|[]]. subst t. cbn [fst snd]. split; [exact Hi|split; [reflexivity|reflexivity]].
Qed.

Lemma load_trees_nil : forall st, load_trees st [] = [].
Proof. reflexivity. Qed.

(* ------------------------------------------------------------ record facts *)
Lemma set_content_same : forall nd, set_content nd (n_content nd) = nd.
Proof. intros []; reflexivity. Qed.

Section Main.
  Variable D : Type.
  Variable chunks : D -> list id.
  Variable tid : list node -> id.
  Variable o : popts.
  Variable st : store.
  Variable ix : index.

  Notation read_all := (read_all D chunks tid).
  Notation good := (good D chunks o st).
  Notation leaf_read := (leaf_read D chunks).
  Notation arch := (arch D chunks tid o st ix).
  Notation arch_list := (arch_list D chunks tid o st ix).
  Notation arch_leaf := (arch_leaf D chunks o ix).
  Notation arch_dir := (arch_dir tid o st).

  Lemma leaf_read_reuse : forall nd d, set_content nd (n_content (leaf_read nd d)) = leaf_read nd d.
  Proof.
    intros nd d. unfold leaf_read, Model.leaf_read. destruct (n_type nd); try apply set_content_same.
    reflexivity.
  Qed.

  Lemma arch_SDir : forall nd cs P, arch (SDir nd cs) P = arch_dir P nd (arch_list cs).
  Proof. reflexivity. Qed.

  (* every parent node of the queried name, in any tree of the state (any cursor), is usable *)
  Definition hyp (P : pstate) (e : src D) : Prop :=
    forall T q, In T (map fst (trees P)) -> In q T -> n_name q = sname e -> good e q.
  Definition same_trees (P P' : pstate) : Prop :=
    map fst (trees P') = map fst (trees P) /\ stack P' = stack P.

  Lemma hyp_same : forall P P' e, same_trees P P' -> hyp P e -> hyp P' e.
  Proof. intros P P' e [Ht _] H T q HT. apply H. rewrite <- Ht. exact HT. Qed.

  Lemma same_trees_trans : forall P1 P2 P3, same_trees P1 P2 -> same_trees P2 P3 -> same_trees P1 P3.
  Proof. intros P1 P2 P3 [A B] [C E]. split; [rewrite C; exact A|rewrite E; exact B]. Qed.

  Lemma In_fst_tree : forall (t : ptree) ts, In t ts -> In (fst t) (map fst ts).
  Proof. intros. apply in_map. assumption. Qed.

  Lemma arch_leaf_ok : forall nd d P, hyp P (SLeaf nd d) ->
    exists P', arch_leaf P nd d = (P', leaf_read nd d) /\ same_trees P P'.
  Proof.
    intros nd d P H. unfold arch_leaf, Model.arch_leaf, process_other.
    destruct (is_parent o (trees P) nd (n_name nd)) as [ts r] eqn:IP.
    pose proof (is_parent_trees _ _ _ _ _ _ IP) as Hts.
    assert (ST : same_trees P {| trees := ts; stack := stack P |}) by (split; [exact Hts|reflexivity]).
    destruct r as [pn| |].
    - destruct (is_parent_matched _ _ _ _ _ _ IP) as [[t [Ht Hp]] [Hn Hm]].
      pose proof (H (fst t) pn (In_fst_tree _ _ Ht) Hp Hn) as G. cbn [Spec.good] in G.
      specialize (G Hm).
      destruct (forallb ix (content_ids pn)).
      + eexists; split; [|exact ST]. rewrite G, leaf_read_reuse. reflexivity.
      + eexists; split; [reflexivity|exact ST].
    - eexists; split; [reflexivity|exact ST].
    - eexists; split; [reflexivity|exact ST].
  Qed.

  Lemma arch_list_ok : forall cs,
    allP (fun c => forall P, hyp P c -> exists P', arch c P = Some (P', read_all c) /\ same_trees P P') cs ->
    forall P, (forall c, In c cs -> hyp P c) ->
    exists P', arch_list cs P = Some (P', map read_all cs) /\ same_trees P P'.
  Proof.
    induction cs as [|c cs IH]; intros HA P H.
    - exists P. split; [reflexivity|split; reflexivity].
    - destruct HA as [Hc Hrest]. cbn [Model.arch_list].
      destruct (Hc P (H c (or_introl eq_refl))) as [P1 [E1 S1]]. rewrite E1.
      destruct (IH Hrest P1) as [P2 [E2 S2]].
      { intros x Hx. eapply hyp_same; [exact S1|]. apply H. right; exact Hx. }
      rewrite E2. exists P2. split; [reflexivity|eapply same_trees_trans; eassumption].
  Qed.

  Lemma map_fst_p_node_one : forall ts name,
    map fst (map fst (map (fun t => p_node_one t name) ts)) = map fst ts.
  Proof.
    induction ts as [|t ts IH]; intros name; [reflexivity|].
    cbn [map]. rewrite p_node_one_tree, IH. reflexivity.
  Qed.

  (* the trees set_dir installs are loadable subtrees of parent nodes of that name *)
  Lemma set_dir_trees : forall P name t, In t (trees (set_dir st P name)) ->
    exists t0 pn i, In t0 (trees P) /\ In pn (fst t0) /\ n_name pn = name /\
                    n_subtree pn = Some i /\ st i = Some (fst t).
  Proof.
    intros P name t H. unfold set_dir in H. cbn [trees] in H.
    apply In_load_trees in H. destruct H as [i [Hi [Hs _]]].
    apply In_dedup, In_sort_ids in Hi. apply in_flat_map in Hi. destruct Hi as [a [Ha Hi]].
    apply in_map_iff in Ha. destruct Ha as [t0 [Ea Ht0]].
    destruct a as [t1 x]. cbn [snd] in Hi. destruct x as [pn|]; [|inv Hi].
    destruct (n_subtree pn) as [j|] eqn:Sj; [|inv Hi]. destruct Hi as [E|[]]. subst j.
    destruct (p_node_one_sound _ _ _ _ Ea) as [Hp Hn].
    exists t0, pn, i. repeat split; assumption.
  Qed.

  Lemma arch_ok : forall e P, hyp P e -> exists P', arch e P = Some (P', read_all e) /\ same_trees P P'.
  Proof.
    induction e as [nd d|nd cs IHcs] using src_ind2; intros P H.
    - destruct (arch_leaf_ok nd d P H) as [P' [E S]]. exists P'. cbn [Model.arch]. rewrite E. split; [reflexivity|exact S].
    - rewrite arch_SDir. unfold Model.arch_dir, process_newtree.
      destruct (is_parent o (trees P) nd (n_name nd)) as [ts r] eqn:IP.
      pose proof (is_parent_trees _ _ _ _ _ _ IP) as Hts.
      set (Q := {| trees := ts; stack := stack P |}).
      set (P1 := set_dir st Q (n_name nd)).
      (* the children are usable w.r.t. the trees installed by set_dir *)
      assert (HC : forall c, In c cs -> hyp P1 c).
      { intros c Hc T q HT Hq Hn.
        apply in_map_iff in HT. destruct HT as [t [Et Ht]]. subst T.
        destruct (set_dir_trees Q (n_name nd) t Ht) as [t0 [pn [i [Ht0 [Hp [Hpn [Hsub Hst]]]]]]].
        cbn [trees Q] in Ht0.
        assert (HT0 : In (fst t0) (map fst (trees P))) by (rewrite <- Hts; apply In_fst_tree; exact Ht0).
        pose proof (H (fst t0) pn HT0 Hp Hpn) as G. cbn [Spec.good] in G. destruct G as [_ G].
        specialize (G i (fst t) Hsub Hst). rewrite allP_In in G. exact (G c Hc q Hq Hn). }
      destruct (arch_list_ok cs IHcs P1 HC) as [P2 [E2 [S2t S2s]]].
      assert (FD : finish_dir P2 = Some {| trees := map fst (map (fun t => p_node_one t (n_name nd)) ts); stack := stack P |}).
      { unfold finish_dir. rewrite S2s. reflexivity. }
      assert (ST : same_trees P {| trees := map fst (map (fun t => p_node_one t (n_name nd)) ts); stack := stack P |}).
      { split; [cbn [trees]; rewrite map_fst_p_node_one; exact Hts|reflexivity]. }
      assert (NP : forall pn, r = Matched pn -> n_subtree pn <> None).
      { intros pn Er. subst r. destruct (is_parent_matched _ _ _ _ _ _ IP) as [[t [Ht Hp]] [Hn Hm]].
        pose proof (H (fst t) pn (In_fst_tree _ _ Ht) Hp Hn) as G. cbn [Spec.good] in G. exact (proj1 G Hm). }
      destruct r as [pn| |].
      + destruct (n_subtree pn) as [i|] eqn:Si; [|exfalso; exact (NP pn eq_refl Si)].
        fold Q P1. rewrite E2, FD. eexists; split; [reflexivity|exact ST].
      + fold Q P1. rewrite E2, FD. eexists; split; [reflexivity|exact ST].
      + fold Q P1. rewrite E2, FD. eexists; split; [reflexivity|exact ST].
  Qed.

  (* any parent state whose trees are usable for the top-level entries: any number of trees, any
     cursor positions, any stack, any order of the entries *)
  Lemma parent_equals_full_core_lemma : forall cs P,
    (forall c T q, In c cs -> In T (map fst (trees P)) -> In q T -> n_name q = sname c -> good c q) ->
    exists P', arch_list cs P = Some (P', map read_all cs).
  Proof.
    intros cs P H.
    destruct (arch_list_ok cs) with (P := P) as [P' [E _]].
    - apply allP_In. intros c _ P0 H0. apply arch_ok. exact H0.
    - intros c Hc T q. apply H. exact Hc.
    - exists P'. exact E.
  Qed.

  (* no parents: every file is read *)
  Lemma no_parent_reads_everything : forall cs stk,
    exists P', arch_list cs {| trees := []; stack := stk |} = Some (P', map read_all cs).
  Proof.
    intros cs stk. apply parent_equals_full_core_lemma. intros c T q _ HT. inv HT.
  Qed.
End Main.
