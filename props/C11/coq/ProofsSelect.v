(* C11 — whatever get_parent selects is a snapshot of the repository (of the same group and of
   maximal time when nothing was requested); no selection can change the tree. *)
From Verif.Base Require Import Tactics.
From Verif.C11 Require Import Extracted Model Proofs Spec Proofs2 Proofs3 ModelIter ProofsIter ProofsPipe ModelSelect.
Local Open Scope N_scope.

Definition latest_ok (l : list snap) (r : option snap) : Prop :=
  match r with
  | None => l = []
  | Some s => In s l /\ forall s', In s' l -> s_time s' <= s_time s
  end.

Lemma latest_first_ok : forall l, latest_ok l (latest_first l).
Proof.
  induction l as [|s l IH]; cbn [latest_first latest_ok]; [reflexivity|].
  destruct (latest_first l) as [m|]; cbn [latest_ok] in IH.
  - destruct IH as [Hm Hmax]. destruct (s_time s <? s_time m) eqn:E; cbn [latest_ok].
    + split; [right; exact Hm|]. intros s' [<-|H]; [lia|apply Hmax; exact H].
    + split; [left; reflexivity|]. intros s' [<-|H]; [lia|]. specialize (Hmax s' H). lia.
  - subst l. cbn [latest_ok]. split; [left; reflexivity|]. intros s' [<-|[]]. lia.
Qed.

Lemma lookup_In : forall i repo s, lookup i repo = Some s -> In s repo /\ s_id s = i.
Proof.
  induction repo as [|x r IH]; intros s H; cbn [lookup] in H; [discriminate|].
  destruct (s_id x =? i) eqn:E.
  - inv H. apply N.eqb_eq in E. split; [left; reflexivity|exact E].
  - destruct (IH s H) as [A B]. split; [right; exact A|exact B].
Qed.

Lemma lookup_all_In : forall ids repo l, lookup_all ids repo = Some l ->
  forall s, In s l -> In s repo /\ In (s_id s) ids.
Proof.
  induction ids as [|i r IH]; intros repo l H s Hs; cbn [lookup_all] in H.
  - inv H. inv Hs.
  - destruct (lookup i repo) as [x|] eqn:L; [|discriminate].
    destruct (lookup_all r repo) as [l'|] eqn:LA; [|discriminate]. inv H.
    destruct Hs as [<-|Hs].
    + destruct (lookup_In _ _ _ L) as [A B]. split; [exact A|left; symmetry; exact B].
    + destruct (IH repo l' LA s Hs) as [A B]. split; [exact A|right; exact B].
Qed.

(* eligibility of what is selected *)
Lemma selected_eligible_lemma : forall pick, (forall l, latest_ok l (pick l)) ->
  forall force ids c me repo s, In s (select_with pick force ids c me repo) ->
    force = false /\ In s repo /\
    match ids with
    | [] => group_matches c me s = true /\
            forall s', In s' repo -> group_matches c me s' = true -> s_time s' <= s_time s
    | _ => In (s_id s) ids
    end.
Proof.
  intros pick Hp force ids c me repo s H. unfold select_with in H.
  destruct force; [inv H|]. split; [reflexivity|].
  destruct ids as [|i r].
  - specialize (Hp (filter (group_matches c me) repo)).
    destruct (pick (filter (group_matches c me) repo)) as [m|]; [|inv H].
    destruct H as [<-|[]]. cbn [latest_ok] in Hp. destruct Hp as [Hin Hmax].
    apply filter_In in Hin. destruct Hin as [Hin Hg]. split; [exact Hin|]. split; [exact Hg|].
    intros s' Hs' Hg'. apply Hmax. apply filter_In. split; assumption.
  - destruct (lookup_all (i :: r) repo) as [l|] eqn:LA; [|inv H].
    destruct (lookup_all_In _ _ _ LA s H) as [A B]. split; assumption.
Qed.

Section NoInfluence.
  Variable D : Type.
  Variable chunks : D -> list id.
  Variable tid : list node -> id.
  Variable po : popts.
  Variable st : store.
  Variable ix : index.

  (* every snapshot of the repository whose tree loads was produced by a correct backup of a state
     w.r.t. which the current source satisfies the property's premise *)
  Definition repo_premise (repo : list snap) (cs1 : list (src D)) : Prop :=
    forall s T, In s repo -> st (s_tree s) = Some T ->
      exists cs0, T = map (read_all D chunks tid) cs0 /\ allP (wf D) cs0 /\
                  allP (stored D chunks tid st) cs0 /\
                  allP (fun x1 => forall x0, In x0 cs0 -> sname x0 = sname x1 -> visible D chunks po x1 x0) cs1.

  Lemma selection_never_affects_tree_lemma : forall pick, (forall l, latest_ok l (pick l)) ->
    forall anchor (ws : list (wsrc D)) fuel force ids c me repo,
    nonnormal anchor = true -> allP (wfw D) ws -> NoDup (dir_comps D ws) ->
    (length (flat_map (events_of D) ws) < fuel)%nat ->
    allP (wf D) (map (to_src D) ws) ->
    repo_premise repo (map (to_src D) ws) ->
    backup_selected D chunks tid po st ix pick force ids c me repo fuel (flat_map (stream_of D anchor) ws)
    = Some (tid (map (read_all D chunks tid) (map (to_src D) ws))).
  Proof.
    intros pick Hp anchor ws fuel force ids c me repo Ha HW ND Hf W1 HR.
    unfold backup_selected. rewrite opts_passed_lemma.
    apply (parent_equals_full_stream_lemma D chunks tid po st ix anchor ws fuel); try assumption.
    intros pid T Hpid HT. apply in_map_iff in Hpid. destruct Hpid as [s [Es Hs]]. subst pid.
    destruct (selected_eligible_lemma pick Hp _ _ _ _ _ _ Hs) as [_ [Hin _]].
    exact (HR s T Hin HT).
  Qed.
End NoInfluence.
