(* C11 — the item-by-item pipeline on the flattened tree does what `arch` does by structural
   recursion; parent_equals_full from the path stream of the source. *)
From Verif.Base Require Import Tactics.
From Verif.C11 Require Import Extracted Model Proofs Spec Proofs2 Proofs3 ModelIter ProofsIter.
Local Open Scope N_scope.

Section Pipe.
  Variable D : Type.
  Variable chunks : D -> list id.
  Variable tid : list node -> id.
  Variable o : popts.
  Variable st : store.
  Variable ix : index.

  Notation wsrc := (wsrc D).
  Notation events_of := (events_of D).
  Notation to_src := (to_src D).
  Notation arun := (arun D chunks tid o st ix).
  Notation astep := (astep D chunks tid o st ix).
  Notation arch := (arch D chunks tid o st ix).
  Notation arch_list := (arch_list D chunks tid o st ix).
  Notation read_all := (read_all D chunks tid).

  Lemma arun_app : forall a b s, arun s (a ++ b) = match arun s a with Some s' => arun s' b | None => None end.
  Proof.
    induction a as [|e a IH]; intros b s; cbn [app ModelIter.arun]; [reflexivity|].
    destruct (astep s e); [apply IH|reflexivity].
  Qed.

  Definition after (s : astate) (P' : pstate) (ns : list node) : astate :=
    {| a_parent := P'; a_tree := a_tree s ++ ns; a_stack := a_stack s |}.

  Definition pipe_stmt (w : wsrc) : Prop :=
    forall s P' n, arch (to_src w) (a_parent s) = Some (P', n) -> arun s (events_of w) = Some (after s P' [n]).

  Lemma pipe_list : forall cs, allP pipe_stmt cs ->
    forall s P' ns, arch_list (map to_src cs) (a_parent s) = Some (P', ns) ->
    arun s (flat_map events_of cs) = Some (after s P' ns).
  Proof.
    induction cs as [|w cs IH]; intros HA s P' ns H.
    - cbn [map Model.arch_list] in H. inv H. cbn [flat_map ModelIter.arun]. unfold after. rewrite app_nil_r.
      destruct s; reflexivity.
    - destruct HA as [Hw HA]. cbn [map Model.arch_list] in H.
      destruct (arch (to_src w) (a_parent s)) as [[P1 n]|] eqn:E1; [|discriminate].
      destruct (arch_list (map to_src cs) P1) as [[P2 ns']|] eqn:E2; [|discriminate]. inv H.
      cbn [flat_map]. rewrite arun_app. rewrite (Hw s P1 n E1).
      rewrite (IH HA (after s P1 [n]) P' ns' E2). unfold after. cbn [a_parent a_tree a_stack].
      rewrite <- app_assoc. reflexivity.
  Qed.

  Lemma pipe_one : forall w, pipe_stmt w.
  Proof.
    induction w as [nd d|ex c nd cs IH] using wsrc_ind2; intros s P' n H.
    - cbn [ModelIter.to_src Model.arch] in H. inv H. cbn [ModelIter.events_of ModelIter.arun ModelIter.astep].
      unfold arch_leaf in H1. destruct (process_other o ix (a_parent s) nd) as [[P1 nd'] r] eqn:PO.
      destruct r; inv H1; reflexivity.
    - cbn [ModelIter.to_src] in H. rewrite arch_SDir in H. unfold arch_dir in H.
      destruct (process_newtree o st (a_parent s) nd (n_name nd)) as [[P1 pr]|] eqn:PN; [|discriminate].
      destruct (arch_list (map to_src cs) P1) as [[P2 nodes]|] eqn:AL; [|discriminate].
      destruct (finish_dir P2) as [P3|] eqn:FD; [|discriminate]. inv H.
      cbn [ModelIter.events_of ModelIter.arun ModelIter.astep]. rewrite PN.
      rewrite arun_app.
      rewrite (pipe_list cs IH {| a_parent := P1; a_tree := []; a_stack := (nd, a_tree s) :: a_stack s |} P2 nodes AL).
      unfold after. cbn [a_parent a_tree a_stack app ModelIter.arun ModelIter.astep]. rewrite FD. reflexivity.
  Qed.

  (* the pipeline on the bracketed items of a forest = arch_list on the forest *)
  Lemma pipeline_refines_arch_lemma : forall ws P0 P' ns,
    arch_list (map to_src ws) P0 = Some (P', ns) ->
    arun {| a_parent := P0; a_tree := []; a_stack := [] |} (flat_map events_of ws)
    = Some {| a_parent := P'; a_tree := ns; a_stack := [] |}.
  Proof.
    intros ws P0 P' ns H.
    apply (pipe_list ws) with (s := {| a_parent := P0; a_tree := []; a_stack := [] |}) in H.
    - exact H.
    - apply allP_In. intros x _. apply pipe_one.
  Qed.

  Notation visible := (visible D chunks o).
  Notation stored := (stored D chunks tid st).
  Notation wf := (wf D).

  (* the arch_list fact inside parent_equals_full *)
  Lemma parents_arch_list : forall (parents : list id) (cs1 : list (src D)),
    allP wf cs1 ->
    (forall pid T, In pid parents -> st pid = Some T ->
       exists cs0, T = map read_all cs0 /\ allP wf cs0 /\ allP stored cs0 /\
                   allP (fun x1 => forall x0, In x0 cs0 -> sname x0 = sname x1 -> visible x1 x0) cs1) ->
    exists P', arch_list cs1 {| trees := load_trees st parents; stack := [] |} = Some (P', map read_all cs1).
  Proof.
    intros parents cs1 W1 HP.
    apply parent_equals_full_core_lemma.
    intros c T q Hc HT Hq Hn. cbn [trees] in HT.
    apply in_map_iff in HT. destruct HT as [t [Et Ht]]. subst T.
    apply In_load_trees in Ht. destruct Ht as [pid [Hpid [Hst _]]].
    destruct (HP pid (fst t) Hpid Hst) as [cs0 [ET [W0 [S0 V]]]].
    rewrite ET in Hq. apply in_map_iff in Hq. destruct Hq as [x0 [Eq Hx0]]. subst q.
    rewrite read_all_name in Hn. rewrite allP_In in *.
    apply good_of_visible; [exact (W1 c Hc)|exact (W0 x0 Hx0)|exact (S0 x0 Hx0)|exact (V c Hc x0 Hx0 Hn)].
  Qed.

  (* parent_equals_full from the PATH STREAM of the source: TreeIterator, then item by item through
     Parent::process, FileArchiver::process, TreeArchiver::add, then finalize *)
  Lemma parent_equals_full_stream_lemma : forall anchor (ws : list wsrc) fuel (parents : list id),
    nonnormal anchor = true -> allP (wfw D) ws -> NoDup (dir_comps D ws) ->
    (length (flat_map events_of ws) < fuel)%nat ->
    allP wf (map to_src ws) ->
    (forall pid T, In pid parents -> st pid = Some T ->
       exists cs0, T = map read_all cs0 /\ allP wf cs0 /\ allP stored cs0 /\
                   allP (fun x1 => forall x0, In x0 cs0 -> sname x0 = sname x1 -> visible x1 x0) (map to_src ws)) ->
    backup_stream D chunks tid o st ix fuel parents false (flat_map (stream_of D anchor) ws)
      = Some (tid (map read_all (map to_src ws))) /\
    backup_stream D chunks tid o st ix fuel parents true (flat_map (stream_of D anchor) ws)
      = Some (tid (map read_all (map to_src ws))).
  Proof.
    intros anchor ws fuel parents Ha HW ND Hf W1 HP. unfold backup_stream, parent_new. cbv beta iota zeta.
    rewrite (tree_iterator_flattening_lemma D anchor ws fuel Ha HW ND Hf).
    destruct (parents_arch_list parents (map to_src ws) W1 HP) as [P' E].
    destruct (no_parent_reads_everything D chunks tid o st ix (map to_src ws) []) as [P'' E'].
    change (load_trees st []) with (@nil ptree).
    rewrite (pipeline_refines_arch_lemma ws _ _ _ E), (pipeline_refines_arch_lemma ws _ _ _ E').
    split; reflexivity.
  Qed.
End Pipe.

(* what the library writes: directory entries carry a subtree, regular files a content list — the
   malformed parent entries (matched directory without subtree => unwrap panic; file with
   `content: null` => "reused" with no content) cannot stem from a backup *)
Lemma library_nodes_lemma : forall D chunks tid (e : src D), wf D e ->
  (n_type (read_all D chunks tid e) = TDir -> n_subtree (read_all D chunks tid e) <> None) /\
  (n_type (read_all D chunks tid e) = TFile -> n_content (read_all D chunks tid e) <> None).
Proof.
  intros D chunks tid [nd d|nd cs] W; cbn [Spec.read_all Spec.wf] in *.
  - destruct W as [Hty _]. split.
    + intros H. rewrite leaf_read_type in H. contradiction.
    + intros H. rewrite leaf_read_type in H. unfold leaf_read. rewrite H. cbn [set_content n_content]. discriminate.
  - destruct W as [Hty _]. split.
    + intros _. cbn [set_subtree n_subtree]. discriminate.
    + intros H. cbn [set_subtree n_type] in H. rewrite Hty in H. discriminate.
Qed.

Lemma walk_well_bracketed_lemma : forall D anchor (ws : list (wsrc D)) fuel,
  nonnormal anchor = true -> allP (wfw D) ws -> NoDup (dir_comps D ws) ->
  (length (flat_map (events_of D) ws) < fuel)%nat ->
  exists evs, titer D fuel (flat_map (stream_of D anchor) ws) = Some evs /\ balanced D 0 evs = true.
Proof.
  intros. eexists. split; [apply tree_iterator_flattening_lemma; assumption|apply forest_balanced].
Qed.
