(* C11 — extraction of the executable model (ExtrOcamlBasic only). *)
Require Extraction.
Require Import ExtrOcamlBasic.
From Verif.C11 Require Import Extracted Model ModelIter ModelSelect.
Extraction "model_ml.ml" select titer balanced backup_stream process_all parent_new meta_match archive backup_tree_action.
