(* C11 — parents produced by correct backups are usable (`good`) whenever every change is visible;
   the archive-level statement; reuse only if indexed. *)
From Verif.Base Require Import Tactics.
From Verif.C11 Require Import Extracted Model Proofs Spec Proofs2.
Local Open Scope N_scope.

Section FromBackups.
  Variable D : Type.
  Variable chunks : D -> list id.
  Variable tid : list node -> id.
  Variable o : popts.
  Variable st : store.
  Variable ix : index.

  Notation read_all := (read_all D chunks tid).
  Notation good := (good D chunks o st).
  Notation visible := (visible D chunks o).
  Notation stored := (stored D chunks tid st).
  Notation wf := (wf D).
  Notation leaf_read := (leaf_read D chunks).

  Lemma leaf_read_type : forall nd d, n_type (leaf_read nd d) = n_type nd.
  Proof. intros nd d. unfold Model.leaf_read. destruct (n_type nd) eqn:E; try exact E; reflexivity. Qed.
  Lemma leaf_read_meta : forall nd d, n_meta (leaf_read nd d) = n_meta nd.
  Proof. intros nd d. unfold Model.leaf_read. destruct (n_type nd); reflexivity. Qed.
  Lemma leaf_read_name : forall nd d, n_name (leaf_read nd d) = n_name nd.
  Proof. intros nd d. unfold Model.leaf_read. destruct (n_type nd); reflexivity. Qed.
  Lemma leaf_read_subtree : forall nd d, n_subtree (leaf_read nd d) = n_subtree nd.
  Proof. intros nd d. unfold Model.leaf_read. destruct (n_type nd); reflexivity. Qed.

  Lemma read_all_name : forall e, n_name (read_all e) = sname e.
  Proof. intros [nd d|nd cs]; cbn [Spec.read_all sname]; [apply leaf_read_name|reflexivity]. Qed.

  Lemma meta_match_ext : forall p p' n, n_type p' = n_type p -> n_meta p' = n_meta p ->
    meta_match o p' n = meta_match o p n.
  Proof. intros p p' n Ht Hm. unfold meta_match. rewrite Ht, Hm. reflexivity. Qed.

  Lemma meta_match_type : forall p n, meta_match o p n = true -> n_type p = n_type n.
  Proof.
    intros p n H. apply meta_match_core in H. unfold core_match in H.
    repeat (apply andb_true_iff in H; destruct H as [H ?]). apply ntype_eqb_eq. exact H.
  Qed.

  Lemma good_of_visible : forall e1 e0, wf e1 -> wf e0 -> stored e0 -> visible e1 e0 -> good e1 (read_all e0).
  Proof.
    induction e1 as [n1 d1|n1 c1 IH] using src_ind2; intros e0 W1 W0 S0 V; destruct e0 as [n0 d0|n0 c0].
    - cbn [Spec.good Spec.read_all]. intros Hm. cbn [Spec.visible] in V. apply V.
      apply meta_match_core. rewrite <- Hm. symmetry. apply meta_match_ext; [apply leaf_read_type|apply leaf_read_meta].
    - cbn [Spec.good Spec.read_all]. intros Hm. exfalso.
      apply meta_match_type in Hm. cbn [set_subtree n_type] in Hm.
      cbn [Spec.wf] in W0, W1. destruct W0 as [T0 _]. destruct W1 as [T1 _]. apply T1. rewrite <- Hm. exact T0.
    - cbn [Spec.good Spec.read_all]. cbn [Spec.wf] in W0, W1. destruct W0 as [T0 Sub0]. destruct W1 as [T1 _]. split.
      + intros Hm. exfalso. apply meta_match_type in Hm. rewrite leaf_read_type in Hm. apply T0. rewrite Hm. exact T1.
      + intros i T Hs. rewrite leaf_read_subtree, Sub0 in Hs. discriminate.
    - cbn [Spec.good Spec.read_all]. split.
      + intros _. cbn [set_subtree n_subtree]. discriminate.
      + intros i T Hs Hst. cbn [set_subtree n_subtree] in Hs. inv Hs.
        cbn [Spec.stored] in S0. destruct S0 as [St0 Sc0]. apply St0 in Hst. subst T.
        cbn [Spec.wf] in W0, W1. destruct W0 as [_ Wc0]. destruct W1 as [_ Wc1]. cbn [Spec.visible] in V.
        rewrite allP_In in *. intros c Hc q Hq Hn.
        apply in_map_iff in Hq. destruct Hq as [x0 [Eq Hx0]]. subst q. rewrite read_all_name in Hn.
        apply (IH c Hc x0 (Wc1 c Hc) (Wc0 x0 Hx0) (Sc0 x0 Hx0)). exact (V c Hc x0 Hx0 Hn).
  Qed.

  (* The tree produced with parents = the tree produced by the forced backup = read_all,
     for every list of parents each of whose loadable root trees was produced by a correct
     backup of some earlier state cs0 w.r.t. which every change of cs1 is visible. *)
  Lemma parent_equals_full_lemma : forall (parents : list id) (cs1 : list (src D)) skip skip',
    allP wf cs1 ->
    (forall pid T, In pid parents -> st pid = Some T ->
       exists cs0, T = map read_all cs0 /\ allP wf cs0 /\ allP stored cs0 /\
                   allP (fun x1 => forall x0, In x0 cs0 -> sname x0 = sname x1 -> visible x1 x0) cs1) ->
    exists w w',
      archive D chunks tid o st ix parents false skip cs1 = Some (tid (map read_all cs1), w) /\
      archive D chunks tid o st ix parents true skip' cs1 = Some (tid (map read_all cs1), w').
  Proof.
    intros parents cs1 skip skip' W1 HP. unfold archive, parent_new.
    destruct (parent_equals_full_core_lemma D chunks tid o st ix cs1
                {| trees := load_trees st parents; stack := [] |}) as [P' E].
    { intros c T q Hc HT Hq Hn. cbn [trees] in HT.
      apply in_map_iff in HT. destruct HT as [t [Et Ht]]. subst T.
      apply In_load_trees in Ht. destruct Ht as [pid [Hpid [Hst _]]].
      destruct (HP pid (fst t) Hpid Hst) as [cs0 [ET [W0 [S0 V]]]].
      rewrite ET in Hq. apply in_map_iff in Hq. destruct Hq as [x0 [Eq Hx0]]. subst q.
      rewrite read_all_name in Hn. rewrite allP_In in *.
      apply good_of_visible; [exact (W1 c Hc)|exact (W0 x0 Hx0)|exact (S0 x0 Hx0)|exact (V c Hc x0 Hx0 Hn)]. }
    destruct (no_parent_reads_everything D chunks tid o st ix cs1 []) as [P'' E'].
    cbv beta iota zeta. change (load_trees st []) with (@nil ptree). rewrite E, E'.
    eexists; eexists; split; reflexivity.
  Qed.

  (* reuse only if indexed: what arch_leaf returns is either the file read again, or the parent's
     content list of a matching parent node all of whose chunks are in the index *)
  Lemma reuse_only_if_indexed_lemma : forall P nd d P' n,
    arch_leaf D chunks o ix P nd d = (P', n) ->
    n = leaf_read nd d \/
    exists pn t, In t (trees P) /\ In pn (fst t) /\ n_name pn = n_name nd /\ meta_match o pn nd = true /\
                 n = set_content nd (n_content pn) /\ forall c, In c (content_ids pn) -> ix c = true.
  Proof.
    intros P nd d P' n H. unfold arch_leaf, process_other in H.
    destruct (is_parent o (trees P) nd (n_name nd)) as [ts r] eqn:IP.
    destruct r as [pn| |]; try (inv H; left; reflexivity).
    destruct (forallb ix (content_ids pn)) eqn:F; [|inv H; left; reflexivity].
    inv H. right. destruct (is_parent_matched _ _ _ _ _ _ IP) as [[t [Ht Hp]] [Hn Hm]].
    exists pn, t. repeat split; try assumption. intros c Hc. rewrite forallb_forall in F. apply F. exact Hc.
  Qed.

  Lemma process_other_lemma : forall P nd P' nd' r,
    process_other o ix P nd = (P', nd', r) ->
    match r with
    | Matched _ => exists pn t, In t (trees P) /\ In pn (fst t) /\ n_name pn = n_name nd /\ meta_match o pn nd = true /\
                                nd' = set_content nd (n_content pn) /\ forall c, In c (content_ids pn) -> ix c = true
    | _ => nd' = nd
    end.
  Proof.
    intros P nd P' nd' r H. unfold process_other in H.
    destruct (is_parent o (trees P) nd (n_name nd)) as [ts r0] eqn:IP.
    destruct r0 as [pn| |]; try (inv H; reflexivity).
    destruct (forallb ix (content_ids pn)) eqn:F; [|inv H; reflexivity].
    inv H. destruct (is_parent_matched _ _ _ _ _ _ IP) as [[t [Ht Hp]] [Hn Hm]].
    exists pn, t. repeat split; try assumption. intros c Hc. rewrite forallb_forall in F. apply F. exact Hc.
  Qed.
End FromBackups.

(* the unchanged-tree short-cut is taken exactly when the new id equals the matched parent's subtree
   id and (with the guard of the current source) the index still has that tree *)
Lemma shortcut_lemma : forall parent id has,
  backup_tree_action parent id has = Shortcut <->
  parent = Matched id /\ (shortcut_requires_has_tree = true -> has = true).
Proof.
  intros parent i has. unfold backup_tree_action. destruct parent as [p| |].
  - destruct (i =? p) eqn:E.
    + apply N.eqb_eq in E. subst p. destruct shortcut_requires_has_tree, has; cbn; split; intros H;
        try discriminate; try (split; [reflexivity|intros; congruence]); try reflexivity.
      destruct H as [_ H]. specialize (H eq_refl). discriminate.
    + cbn. split; intros H; [destruct has; discriminate|]. destruct H as [H _]. inv H.
      rewrite N.eqb_refl in E. discriminate.
  - destruct has; split; intros H; try discriminate; destruct H; discriminate.
  - destruct has; split; intros H; try discriminate; destruct H; discriminate.
Qed.

(* every directory tree of the new snapshot is either handed to the packer or already in the index *)
Lemma saved_or_indexed_lemma : forall parent id has, backup_tree_action parent id has <> Save -> has = true.
Proof.
  intros parent i has. unfold backup_tree_action. unfold shortcut_requires_has_tree.
  destruct parent as [p| |]; destruct has; try reflexivity; intros H; exfalso; apply H;
    try reflexivity. destruct (i =? p); reflexivity.
Qed.

Lemma skip_lemma : forall D chunks tid o st ix parents force skip skip' cs,
  option_map fst (archive D chunks tid o st ix parents force skip cs) =
  option_map fst (archive D chunks tid o st ix parents force skip' cs).
Proof.
  intros. unfold archive. destruct (parent_new st (if force then [] else parents)) as [P0 tids].
  destruct (arch_list D chunks tid o st ix cs P0) as [[P' nodes]|]; reflexivity.
Qed.

Lemma force_lemma : forall D chunks tid o st ix parents skip cs,
  exists w, archive D chunks tid o st ix parents true skip cs = Some (tid (map (read_all D chunks tid) cs), w).
Proof.
  intros. unfold archive, parent_new. cbv beta iota zeta. change (load_trees st []) with (@nil ptree).
  destruct (no_parent_reads_everything D chunks tid o st ix cs []) as [P' E]. rewrite E. eexists; reflexivity.
Qed.

(* the two options reach Parent::new under their own names *)
Lemma opts_passed_lemma : forall po, opts_passed po = po.
Proof. intros [a b]. reflexivity. Qed.

Lemma parent_equals_full_cmd_lemma : forall D chunks tid po st ix (parents : list id) (cs1 : list (src D)) skip skip',
  allP (wf D) cs1 ->
  (forall pid T, In pid parents -> st pid = Some T ->
     exists cs0, T = map (read_all D chunks tid) cs0 /\ allP (wf D) cs0 /\
                 allP (stored D chunks tid st) cs0 /\
                 allP (fun x1 => forall x0, In x0 cs0 -> sname x0 = sname x1 -> visible D chunks po x1 x0) cs1) ->
  exists w w',
    backup_cmd D chunks tid po st ix parents false skip cs1 = Some (tid (map (read_all D chunks tid) cs1), w) /\
    backup_cmd D chunks tid po st ix parents true skip' cs1 = Some (tid (map (read_all D chunks tid) cs1), w').
Proof.
  intros. unfold backup_cmd. rewrite opts_passed_lemma. apply parent_equals_full_lemma; assumption.
Qed.
