(* C11 — executable model of archiver/tree.rs (TreeIterator: path stream of the source -> NewTree /
   EndTree / Other items) and of the item-by-item pipeline of Archiver::archive
   (Parent::process -> FileArchiver::process -> TreeArchiver::add), i.e. the composition that
   Model.arch abbreviates by structural recursion.  Definitions only. *)
From Verif.Base Require Import Tactics.
From Verif.C11 Require Import Extracted Model.
Local Open Scope N_scope.

(* ---------------------------------------------------------------- paths *)
(* std::path::Component on unix: RootDir, CurDir (leading only), ParentDir, Normal *)
Inductive comp := CRoot | CCur | CParent | CNormal (name : N).
Definition path := list comp.

Definition comp_eqb (a b : comp) : bool :=
  match a, b with
  | CRoot, CRoot | CCur, CCur | CParent, CParent => true
  | CNormal x, CNormal y => x =? y
  | _, _ => false
  end.
Definition is_normal (c : comp) : bool := match c with CNormal _ => true | _ => false end.

Fixpoint path_eqb (p q : path) : bool :=
  match p, q with
  | [], [] => true
  | a :: p', b :: q' => comp_eqb a b && path_eqb p' q'
  | _, _ => false
  end.

(* p.strip_prefix(q) *)
Fixpoint strip_prefix (p q : path) {struct q} : option path :=
  match q with
  | [] => Some p
  | c :: q' => match p with
               | [] => None
               | d :: p' => if comp_eqb c d then strip_prefix p' q' else None
               end
  end.

(* TreeIterator::pop: drop components from the back up to and including the last Normal one;
   None = `false` (nothing Normal left; the path is left as it is) *)
Fixpoint pop_rev (r : list comp) : option (list comp) :=
  match r with
  | [] => None
  | CNormal _ :: r' => Some r'
  | _ :: r' => pop_rev r'
  end.
Definition pop (p : path) : option path :=
  match pop_rev (rev p) with Some r => Some (rev r) | None => None end.

(* ---------------------------------------------------------------- items *)
Section Iter.
  Variable D : Type.

  (* what Archiver::archive feeds in: (snapshot path — of the directory itself for directories, of the
     containing directory otherwise —, node, open) *)
  Record item := { i_path : path; i_node : node; i_open : option D }.

  Inductive ev := EvNew (nd : node) (name : N) | EvEnd | EvOther (nd : node) (d : option D).

  (* Node::new_node(p, Dir, Metadata { mode: Some(0o755), ..default }) *)
  Definition synth (name : N) : node :=
    {| n_name := name; n_type := TDir;
       n_meta := {| m_size := 0; m_mtime := None; m_ctime := None; m_inode := 0; m_other := synth_mode |};
       n_content := None; n_subtree := None |}.

  Definition node_is_dir (nd : node) : bool := match n_type nd with TDir => true | _ => false end.

  (* the loop `for comp in missing_dirs.components()`: push; a Normal component ends it
     (comp_to_osstr is Some only for Normal).  Result: new path, and for a Normal component whether
     the pending item IS that directory (`node.is_dir() && path == self.path`) and the component *)
  Fixpoint walk_missing (cur : path) (missing : list comp) (full : path) (nd : node)
    : path * option (bool * N) :=
    match missing with
    | [] => (cur, None)
    | c :: m =>
      let cur' := cur ++ [c] in
      match c with
      | CNormal p => (cur', Some (node_is_dir nd && path_eqb full cur', p))
      | _ => walk_missing cur' m full nd
      end
    end.

  Definition tstate := (path * list item)%type.       (* self.path; self.item :: rest of self.iter *)

  (* Iterator::next; None = the iterator is exhausted *)
  Definition ti_next (st : tstate) : option (ev * tstate) :=
    let '(cur, pending) := st in
    match pending with
    | [] => match pop cur with Some cur' => Some (EvEnd, (cur', [])) | None => None end
    | it :: rest =>
      match strip_prefix (i_path it) cur with
      | None => Some (EvEnd, (match pop cur with Some c => c | None => cur end, pending))
      | Some missing =>
        match walk_missing cur missing (i_path it) (i_node it) with
        | (cur', None) => Some (EvOther (i_node it) (i_open it), (cur', rest))
        | (cur', Some (true, _)) => Some (EvNew (i_node it) (n_name (i_node it)), (cur', rest))
        | (cur', Some (false, p)) => Some (EvNew (synth p) p, (cur', pending))
        end
      end
    end.

  (* at most `fuel` calls of next(); None = not exhausted within the fuel (a stream that mixes
     anchors, e.g. absolute and relative paths, makes the real iterator yield EndTree for ever) *)
  Fixpoint ti_run (fuel : nat) (st : tstate) : option (list ev) :=
    match fuel with
    | O => None
    | S f => match ti_next st with
             | None => Some []
             | Some (e, st') => match ti_run f st' with Some r => Some (e :: r) | None => None end
             end
    end.

  Definition titer (fuel : nat) (items : list item) : option (list ev) := ti_run fuel ([], items).

  (* bracket discipline: depth never below zero, zero at the end *)
  Fixpoint balanced (d : nat) (evs : list ev) : bool :=
    match evs with
    | [] => Nat.eqb d 0
    | EvNew _ _ :: r => balanced (S d) r
    | EvEnd :: r => match d with O => false | S d' => balanced d' r end
    | EvOther _ _ :: r => balanced d r
    end.

  (* ---------------------------------------------------------------- the source as a tree *)
  (* a directory is `explicit` when the walker yields an item for it, implicit when it is only a
     common path prefix (root components above the backup paths, common parents of several paths);
     `c` is the path component, the tree entry is named n_name nd (they differ only with as_path) *)
  Inductive wsrc := WLeaf (nd : node) (d : D) | WDir (explicit : bool) (c : N) (nd : node) (cs : list wsrc).

  Fixpoint stream_of (pre : path) (w : wsrc) : list item :=
    match w with
    | WLeaf nd d => [{| i_path := pre; i_node := nd; i_open := Some d |}]
    | WDir ex c nd cs =>
      let p := pre ++ [CNormal c] in
      (if ex then [{| i_path := p; i_node := nd; i_open := None |}] else [])
      ++ flat_map (stream_of p) cs
    end.

  Fixpoint events_of (w : wsrc) : list ev :=
    match w with
    | WLeaf nd d => [EvOther nd (Some d)]
    | WDir _ _ nd cs => EvNew nd (n_name nd) :: flat_map events_of cs ++ [EvEnd]
    end.

  Fixpoint to_src (w : wsrc) : src D :=
    match w with
    | WLeaf nd d => SLeaf nd d
    | WDir _ _ nd cs => SDir nd (map to_src cs)
    end.

  Definition dir_comps (cs : list wsrc) : list N :=
    flat_map (fun w => match w with WDir _ c _ _ => [c] | WLeaf _ _ => [] end) cs.

  (* ---------------------------------------------------------------- the pipeline, item by item *)
  Variable chunks : D -> list id.
  Variable tid : list node -> id.
  Variable o : popts.
  Variable st : store.
  Variable ix : index.

  (* Parent state; TreeArchiver.tree; TreeArchiver.stack (node of the open directory, tree above it) *)
  Record astate := { a_parent : pstate; a_tree : list node; a_stack : list (node * list node) }.

  (* one item through Parent::process, FileArchiver::process, TreeArchiver::add.
     None = panic (unwrap in Parent::process) or the error that aborts the backup (EndTree on an
     empty TreeArchiver stack).  Errors that are only warned about drop the item. *)
  Definition astep (s : astate) (e : ev) : option astate :=
    match e with
    | EvNew nd name =>
      match process_newtree o st (a_parent s) nd name with
      | None => None
      | Some (P1, _) => Some {| a_parent := P1; a_tree := []; a_stack := (nd, a_tree s) :: a_stack s |}
      end
    | EvEnd =>
      match finish_dir (a_parent s) with
      | None => Some s                               (* "ignoring error reading parent snapshot": item dropped *)
      | Some P' =>
        match a_stack s with
        | [] => None                                 (* "Tree stack is empty": archive fails *)
        | (nd, t) :: rest =>
          Some {| a_parent := P'; a_tree := t ++ [set_subtree nd (Some (tid (a_tree s)))]; a_stack := rest |}
        end
      end
    | EvOther nd od =>
      let '(P', nd', r) := process_other o ix (a_parent s) nd in
      match r, od with
      | Matched _, _ => Some {| a_parent := P'; a_tree := a_tree s ++ [nd']; a_stack := a_stack s |}
      | _, Some d => Some {| a_parent := P'; a_tree := a_tree s ++ [leaf_read D chunks nd' d]; a_stack := a_stack s |}
      | _, None =>
        match n_type nd' with
        | TFile => Some {| a_parent := P'; a_tree := a_tree s; a_stack := a_stack s |}   (* open missing: error, item dropped *)
        | _ => Some {| a_parent := P'; a_tree := a_tree s ++ [nd']; a_stack := a_stack s |}
        end
      end
    end.

  Fixpoint arun (s : astate) (evs : list ev) : option astate :=
    match evs with
    | [] => Some s
    | e :: r => match astep s e with Some s' => arun s' r | None => None end
    end.

  (* Archiver::archive on the path stream: TreeIterator, the pipeline, TreeArchiver::finalize
     (serialises whatever the current tree is) *)
  Definition backup_stream (fuel : nat) (parents : list id) (force : bool) (items : list item) : option id :=
    let '(P0, _) := parent_new st (if force then [] else parents) in
    match titer fuel items with
    | None => None
    | Some evs =>
      match arun {| a_parent := P0; a_tree := []; a_stack := [] |} evs with
      | None => None
      | Some s => Some (tid (a_tree s))
      end
    end.
End Iter.

Arguments EvEnd {D}.
Arguments EvNew {D}. Arguments EvOther {D}.
Arguments WLeaf {D}. Arguments WDir {D}.
