(* C11 — executable model of the parent selection in ParentOptions::get_parent
   (commands/backup.rs) with SnapshotGroup::{from_snapshot,matches} (snapshotfile/grouping.rs) and
   SnapshotFile::{latest,from_strs} (snapshotfile.rs) for the two request forms the backup command
   produces: no explicit parent (latest snapshot of the same group) and explicit snapshot ids.
   Definitions only. *)
From Verif.Base Require Import Tactics.
From Verif.C11 Require Import Extracted Model ModelIter.
Local Open Scope N_scope.

(* the fields of SnapshotFile the selection reads; paths and tags as one value each (StringList equality) *)
Record snap := { s_id : N; s_time : N; s_host : N; s_label : N; s_paths : N; s_tags : N; s_tree : id }.

(* SnapshotGroupCriterion; default: host, label, paths *)
Record crit := { c_host : bool; c_label : bool; c_paths : bool; c_tags : bool }.
Definition crit_default : crit :=
  let '(h, l, p, t) := crit_default_flags in {| c_host := h; c_label := l; c_paths := p; c_tags := t |}.

(* SnapshotGroup::from_snapshot(me, crit).matches(other) *)
Definition group_matches (c : crit) (me other : snap) : bool :=
  (negb (c_host c) || (s_host me =? s_host other)) &&
  (negb (c_label c) || (s_label me =? s_label other)) &&
  (negb (c_paths c) || (s_paths me =? s_paths other)) &&
  (negb (c_tags c) || (s_tags me =? s_tags other)).

(* latest_n_from_iter(0, ..): k_smallest_by(1, time descending) — some snapshot of maximal time;
   executable instance: the first one in listing order.  NO upper bound on the time. *)
Fixpoint latest_first (l : list snap) : option snap :=
  match l with
  | [] => None
  | s :: r => match latest_first r with
              | Some m => if s_time s <? s_time m then Some m else Some s
              | None => Some s
              end
  end.

(* from_strs with ids only: fill_missing(.., |_| true): every id must be readable (else the error makes
   `unwrap_or_default` drop ALL parents); request order, duplicates kept; the group is NOT consulted *)
Fixpoint lookup (i : N) (repo : list snap) : option snap :=
  match repo with [] => None | s :: r => if s_id s =? i then Some s else lookup i r end.
Fixpoint lookup_all (ids : list N) (repo : list snap) : option (list snap) :=
  match ids with
  | [] => Some []
  | i :: r => match lookup i repo, lookup_all r repo with
              | Some s, Some l => Some (s :: l)
              | _, _ => None
              end
  end.

(* get_parent: the parent snapshots (snap.parent = first, snap.parents = all; their trees go to Parent::new) *)
Definition select_with (pick : list snap -> option snap) (force : bool) (ids : list N) (c : crit)
  (me : snap) (repo : list snap) : list snap :=
  if force then []
  else match ids with
       | [] => match pick (filter (group_matches c me) repo) with Some s => [s] | None => [] end
       | _ => match lookup_all ids repo with Some l => l | None => [] end
       end.
Definition select := select_with latest_first.

(* the backup command: selection, then the archive on the path stream *)
Definition backup_selected (D : Type) (chunks : D -> list id) (tid : list node -> id) (po : popts)
  (st : store) (ix : index) (pick : list snap -> option snap) (force : bool) (ids : list N) (c : crit)
  (me : snap) (repo : list snap) (fuel : nat) (items : list (item D)) : option id :=
  backup_stream D chunks tid (opts_passed po) st ix fuel
    (map s_tree (select_with pick force ids c me repo)) false items.
