(* C11 — property theorems.  Statements closed by `exact`, each followed by Print Assumptions.
   Vocabulary (Model.v / Spec.v):
     src D            the source after TreeIterator: leaves (node, data) and directories with children
     arch / arch_list the archiver on such a source, threading the real Parent state (trees with cursors, stack)
     archive          get_parent (force) + Parent::new + arch_list + root id + skip_if_unchanged
     read_all         the backup that reads every file (no Parent at all)
     good e pn        parent node pn is usable for entry e (a match has the right content / a subtree;
                      recursively for the loadable subtree)
     visible e1 e0    the property's premise for entries of equal name: equal type, size, mtime and
                      (unless ignored) ctime imply equal content; recursively for directories
     stored e0        what the repository still holds of e0's trees is what was written (trees may be missing)
   chunks, tid, the store and the index are universally quantified. *)
From Verif.Base Require Import Tactics.
From Verif.C11 Require Import Extracted Model Proofs Spec Proofs2 Proofs3 ModelIter ProofsIter ProofsPipe ProofsBracket ModelSelect ProofsSelect Examples.
Local Open Scope N_scope.

(* Core: for ANY parent state — any number of trees, any cursor positions, any stack — and any
   top-level entries in any arrival order: if every parent node carrying the name of an entry is
   usable for it, the archiver returns exactly the nodes of the backup that reads every file. *)
Theorem parent_equals_full_core : forall D chunks tid o st ix (cs : list (src D)) (P : pstate),
  (forall c T q, In c cs -> In T (map fst (trees P)) -> In q T -> n_name q = sname c ->
                 good D chunks o st c q) ->
  exists P', arch_list D chunks tid o st ix cs P = Some (P', map (read_all D chunks tid) cs).
Proof. exact parent_equals_full_core_lemma. Qed.
Print Assumptions parent_equals_full_core.

(* The property: every list of parent snapshots, each of whose loadable root trees was produced by
   a correct backup of some earlier state cs0 (sub-trees possibly pruned from the repository, any
   index), and every current state cs1 such that each entry with equal type, size, mtime and
   (unless ignored) ctime has equal content: the backup with parents and the forced backup both
   produce the tree of read_all. *)
Theorem parent_equals_full : forall D chunks tid o st ix (parents : list id) (cs1 : list (src D)) skip skip',
  allP (wf D) cs1 ->
  (forall pid T, In pid parents -> st pid = Some T ->
     exists cs0, T = map (read_all D chunks tid) cs0 /\ allP (wf D) cs0 /\
                 allP (stored D chunks tid st) cs0 /\
                 allP (fun x1 => forall x0, In x0 cs0 -> sname x0 = sname x1 -> visible D chunks o x1 x0) cs1) ->
  exists w w',
    archive D chunks tid o st ix parents false skip cs1 = Some (tid (map (read_all D chunks tid) cs1), w) /\
    archive D chunks tid o st ix parents true skip' cs1 = Some (tid (map (read_all D chunks tid) cs1), w').
Proof. exact parent_equals_full_lemma. Qed.
Print Assumptions parent_equals_full.

(* The same for the backup COMMAND: the options of ParentOptions travel through get_parent into
   Parent::new (argument order regenerated from commands/backup.rs); the premise is the one of the
   options the user set (ignore_ctime of ParentOptions decides whether ctime counts). *)
Theorem options_reach_parent_under_their_names : forall po, opts_passed po = po.
Proof. exact opts_passed_lemma. Qed.
Print Assumptions options_reach_parent_under_their_names.

Theorem parent_equals_full_for_the_command : forall D chunks tid po st ix (parents : list id) (cs1 : list (src D)) skip skip',
  allP (wf D) cs1 ->
  (forall pid T, In pid parents -> st pid = Some T ->
     exists cs0, T = map (read_all D chunks tid) cs0 /\ allP (wf D) cs0 /\
                 allP (stored D chunks tid st) cs0 /\
                 allP (fun x1 => forall x0, In x0 cs0 -> sname x0 = sname x1 -> visible D chunks po x1 x0) cs1) ->
  exists w w',
    backup_cmd D chunks tid po st ix parents false skip cs1 = Some (tid (map (read_all D chunks tid) cs1), w) /\
    backup_cmd D chunks tid po st ix parents true skip' cs1 = Some (tid (map (read_all D chunks tid) cs1), w').
Proof. exact parent_equals_full_cmd_lemma. Qed.
Print Assumptions parent_equals_full_for_the_command.

Theorem parent_equals_full_hypotheses_satisfiable :
  allP (wf D_ex) cs1 /\
  (forall pid T, In pid [root0] -> st_ex pid = Some T ->
     exists c0, T = map ra c0 /\ allP (wf D_ex) c0 /\ allP (stored D_ex chunks_ex tid_ex st_ex) c0 /\
                allP (fun x1 => forall x0, In x0 c0 -> sname x0 = sname x1 -> visible D_ex chunks_ex o_ex x1 x0) cs1).
Proof. exact hypotheses_satisfiable. Qed.
Print Assumptions parent_equals_full_hypotheses_satisfiable.

(* The premise cannot be dropped: same type, size, mtime, ctime but other bytes => the trees differ. *)
Theorem parent_equals_full_needs_its_premise :
  exists r1 r2 w1 w2,
    archive D_ex chunks_ex tid_ex o_ex st_ex ix_all [root0] false false cs1_stealth = Some (r1, w1) /\
    archive D_ex chunks_ex tid_ex o_ex st_ex ix_all [root0] true false cs1_stealth = Some (r2, w2) /\ r1 <> r2.
Proof. exact premise_is_needed. Qed.
Print Assumptions parent_equals_full_needs_its_premise.

(* force (no parent): every file is read, whatever the repository holds. *)
Theorem force_reads_every_file : forall D chunks tid o st ix parents skip (cs : list (src D)),
  exists w, archive D chunks tid o st ix parents true skip cs = Some (tid (map (read_all D chunks tid) cs), w).
Proof. exact force_lemma. Qed.
Print Assumptions force_reads_every_file.

(* A file's content list is taken from the parent only if the parent node matches and ALL its
   chunk ids are in the index; in every other case the entry is read again. *)
Theorem reuse_only_if_indexed : forall D chunks o ix P nd (d : D) P' n,
  arch_leaf D chunks o ix P nd d = (P', n) ->
  n = leaf_read D chunks nd d \/
  exists pn t, In t (trees P) /\ In pn (fst t) /\ n_name pn = n_name nd /\ meta_match o pn nd = true /\
               n = set_content nd (n_content pn) /\ forall c, In c (content_ids pn) -> ix c = true.
Proof. exact reuse_only_if_indexed_lemma. Qed.
Print Assumptions reuse_only_if_indexed.

(* The same at the interface the hook drives (Parent::process, arm Other). *)
Theorem process_other_classification : forall o ix P nd P' nd' r,
  process_other o ix P nd = (P', nd', r) ->
  match r with
  | Matched _ => exists pn t, In t (trees P) /\ In pn (fst t) /\ n_name pn = n_name nd /\ meta_match o pn nd = true /\
                              nd' = set_content nd (n_content pn) /\ forall c, In c (content_ids pn) -> ix c = true
  | _ => nd' = nd
  end.
Proof. exact process_other_lemma. Qed.
Print Assumptions process_other_classification.

(* A match is a node of a parent tree, of the queried name, equal in type, size, mtime and (unless
   ignored; None matches) ctime — whatever the inode clause says. *)
Theorem is_parent_match_is_sound : forall o ts nd name ts' pn,
  is_parent o ts nd name = (ts', Matched pn) ->
  (exists t, In t ts /\ In pn (fst t)) /\ n_name pn = name /\ core_match o pn nd = true.
Proof. exact is_parent_match_sound_lemma. Qed.
Print Assumptions is_parent_match_is_sound.

(* Searching moves cursors only: the parent trees themselves never change. *)
Theorem is_parent_moves_cursors_only : forall o ts nd name ts' r,
  is_parent o ts nd name = (ts', r) -> map fst ts' = map fst ts.
Proof. exact is_parent_trees. Qed.
Print Assumptions is_parent_moves_cursors_only.

(* The unchanged-tree short-cut of backup_tree is taken exactly when the serialised id equals the
   matched parent's subtree id and (guard regenerated from the source) the index still has the tree. *)
Theorem shortcut_iff_equal_id : forall parent id has,
  backup_tree_action parent id has = Shortcut <->
  parent = Matched id /\ (shortcut_requires_has_tree = true -> has = true).
Proof. exact shortcut_lemma. Qed.
Print Assumptions shortcut_iff_equal_id.

(* Every directory tree the new snapshot refers to is handed to the packer or is in the index —
   also when the matched parent's subtree was pruned from the repository.  (Unprovable for the
   source as found: there the short-cut did not test the index; see NOTES.md, finding.) *)
Theorem every_tree_saved_or_indexed : forall parent id has,
  backup_tree_action parent id has <> Save -> has = true.
Proof. exact saved_or_indexed_lemma. Qed.
Print Assumptions every_tree_saved_or_indexed.

(* skip_if_unchanged influences only whether the snapshot file is written, never the tree. *)
Theorem skip_if_unchanged_does_not_change_the_tree : forall D chunks tid o st ix parents force skip skip' (cs : list (src D)),
  option_map fst (archive D chunks tid o st ix parents force skip cs) =
  option_map fst (archive D chunks tid o st ix parents force skip' cs).
Proof. exact skip_lemma. Qed.
Print Assumptions skip_if_unchanged_does_not_change_the_tree.

(* Observation (not a violation): the inode clause is `!ignore_inode || ...`: without the option the
   inode is not compared at all, with the option a changed inode blocks reuse. *)
Theorem inode_clause_is_inverted_wrt_its_name : forall pi i,
  match_inode_clause false pi i = true /\
  match_inode_clause true pi i = ((pi =? 0) || (i =? 0) || (pi =? i)).
Proof. exact inode_clause_as_written. Qed.
Print Assumptions inode_clause_is_inverted_wrt_its_name.

(* ------------------------------------------------------------------------------------------------
   From the PATH STREAM of the source (ModelIter.v).  `titer` = TreeIterator (archiver/tree.rs) as a
   function from the item list Archiver::archive feeds in (path of the directory itself for
   directories, of the containing directory otherwise) to NewTree / EndTree / Other items, with at
   most `fuel` calls of next(); `wsrc` = the walked source as a forest whose directories are explicit
   (the walker yields an item) or implicit (common path prefixes: root components above the backup
   paths, common parents of several backup paths); `stream_of` = its directory walk; `arun` = the
   items one by one through Parent::process, FileArchiver::process, TreeArchiver::add;
   `backup_stream` = titer, arun, finalize. *)

(* TreeIterator flattens: on the walk of a well-formed forest located at an anchor without Normal
   component (nothing, `/`, `.`) it yields exactly NewTree .. EndTree around every directory —
   synthesising the implicit ones once — and Other for everything else, in walk order. *)
Theorem tree_iterator_is_flattening : forall D anchor (ws : list (wsrc D)) fuel,
  nonnormal anchor = true -> allP (wfw D) ws -> NoDup (dir_comps D ws) ->
  (length (flat_map (events_of D) ws) < fuel)%nat ->
  titer D fuel (flat_map (stream_of D anchor) ws) = Some (flat_map (events_of D) ws).
Proof. exact tree_iterator_flattening_lemma. Qed.
Print Assumptions tree_iterator_is_flattening.

(* ... hence its items are well bracketed: no EndTree without an open NewTree, nothing left open. *)
Theorem tree_iterator_well_bracketed : forall D anchor (ws : list (wsrc D)) fuel,
  nonnormal anchor = true -> allP (wfw D) ws -> NoDup (dir_comps D ws) ->
  (length (flat_map (events_of D) ws) < fuel)%nat ->
  exists evs, titer D fuel (flat_map (stream_of D anchor) ws) = Some evs /\ balanced D 0 evs = true.
Proof. exact walk_well_bracketed_lemma. Qed.
Print Assumptions tree_iterator_well_bracketed.

(* Well bracketed on EVERY item stream whose paths share one anchor (anchor ++ Normal components) —
   sorted or not, repeated entries, any nodes — whenever the iterator is exhausted within the fuel. *)
Theorem tree_iterator_well_bracketed_on_any_stream : forall D anchor, nonnormal anchor = true ->
  forall (items : list (item D)) fuel evs, anchored D anchor items ->
  titer D fuel items = Some evs -> balanced D 0 evs = true.
Proof. exact any_stream_well_bracketed_lemma. Qed.
Print Assumptions tree_iterator_well_bracketed_on_any_stream.

(* The common anchor is needed: after `/1`, an item with the relative path `2` makes the iterator
   yield EndTree for ever (pop() fails, the path stays `/`); the backup then fails in TreeArchiver. *)
Theorem tree_iterator_mixed_anchors_do_not_end :
  titer D_ex 50 [{| i_path := [CRoot; CNormal 1]; i_node := d2; i_open := None |};
                 {| i_path := [CNormal 2]; i_node := d5; i_open := None |}] = None.
Proof. exact mixed_anchors_diverge. Qed.
Print Assumptions tree_iterator_mixed_anchors_do_not_end.

(* The item-by-item pipeline on the bracketed items of a forest does what `arch_list` does by
   structural recursion (whenever that does not panic): same Parent state, same nodes, stack empty. *)
Theorem pipeline_refines_arch : forall D chunks tid o st ix (ws : list (wsrc D)) P0 P' ns,
  arch_list D chunks tid o st ix (map (to_src D) ws) P0 = Some (P', ns) ->
  arun D chunks tid o st ix {| a_parent := P0; a_tree := []; a_stack := [] |} (flat_map (events_of D) ws)
  = Some {| a_parent := P'; a_tree := ns; a_stack := [] |}.
Proof. exact pipeline_refines_arch_lemma. Qed.
Print Assumptions pipeline_refines_arch.

(* The property from the path stream: TreeIterator, then every item through Parent::process,
   FileArchiver::process and TreeArchiver::add, then finalize — with parents and forced give the
   tree of the backup that reads every file. *)
Theorem parent_equals_full_from_path_stream : forall D chunks tid o st ix anchor (ws : list (wsrc D)) fuel (parents : list id),
  nonnormal anchor = true -> allP (wfw D) ws -> NoDup (dir_comps D ws) ->
  (length (flat_map (events_of D) ws) < fuel)%nat ->
  allP (wf D) (map (to_src D) ws) ->
  (forall pid T, In pid parents -> st pid = Some T ->
     exists cs0, T = map (read_all D chunks tid) cs0 /\ allP (wf D) cs0 /\ allP (stored D chunks tid st) cs0 /\
                 allP (fun x1 => forall x0, In x0 cs0 -> sname x0 = sname x1 -> visible D chunks o x1 x0) (map (to_src D) ws)) ->
  backup_stream D chunks tid o st ix fuel parents false (flat_map (stream_of D anchor) ws)
    = Some (tid (map (read_all D chunks tid) (map (to_src D) ws))) /\
  backup_stream D chunks tid o st ix fuel parents true (flat_map (stream_of D anchor) ws)
    = Some (tid (map (read_all D chunks tid) (map (to_src D) ws))).
Proof. exact parent_equals_full_stream_lemma. Qed.
Print Assumptions parent_equals_full_from_path_stream.

Theorem path_stream_examples :
  (titer D_ex 20 (flat_map (stream_of D_ex [CRoot]) ws_two_paths)
   = Some [EvNew (synth 1) 1; EvNew d2 2; EvOther f3 (Some [43]); EvEnd;
           EvNew d5 5; EvOther f4 (Some [44]); EvNew (mk 6 TDir 0 10 10 76) 6; EvEnd; EvEnd; EvEnd]) /\
  (allP (wfw D_ex) ws_two_paths /\ NoDup (dir_comps D_ex ws_two_paths)) /\
  (map (to_src D_ex) ws1 = cs1 /\
   backup_stream D_ex chunks_ex tid_ex o_ex st_ex ix_all 20 [root0] false (flat_map (stream_of D_ex [CRoot]) ws1) = Some (tid_ex (map ra cs1)) /\
   backup_stream D_ex chunks_ex tid_ex o_ex st_ex ix_all 20 [root0] true (flat_map (stream_of D_ex [CRoot]) ws1) = Some (tid_ex (map ra cs1))).
Proof. exact (conj two_paths_items (conj two_paths_wellformed stream_backup_equals_full)). Qed.
Print Assumptions path_stream_examples.

(* ------------------------------------------------------------------------------------------------
   Parent selection (ModelSelect.v): `select_with pick force ids crit me repo` = get_parent for the
   request forms of the backup command; `pick` = any function returning a snapshot of maximal time
   (k_smallest_by leaves ties open); the executable `select` uses the first one. *)

(* Whatever is selected is a snapshot of the repository; without explicit ids it belongs to the
   group of the new snapshot and no snapshot of that group is newer; with ids it is a requested one.
   (The code has no upper bound on the time: a snapshot newer than the backup's own time can be chosen.) *)
Theorem selected_parent_is_eligible : forall pick, (forall l, latest_ok l (pick l)) ->
  forall force ids c me repo s, In s (select_with pick force ids c me repo) ->
    force = false /\ In s repo /\
    match ids with
    | [] => group_matches c me s = true /\
            forall s', In s' repo -> group_matches c me s' = true -> s_time s' <= s_time s
    | _ => In (s_id s) ids
    end.
Proof. exact selected_eligible_lemma. Qed.
Print Assumptions selected_parent_is_eligible.

Theorem executable_latest_is_a_latest : forall l, latest_ok l (latest_first l).
Proof. exact latest_first_ok. Qed.
Print Assumptions executable_latest_is_a_latest.

(* No selection can change the tree: if every snapshot of the repository whose tree loads was
   produced by a correct backup of a state w.r.t. which the source satisfies the premise, then for
   every force / explicit ids / group criterion / tie-break the command yields the tree of the
   backup that reads every file. *)
Theorem selection_never_affects_tree : forall D chunks tid po st ix pick, (forall l, latest_ok l (pick l)) ->
  forall anchor (ws : list (wsrc D)) fuel force ids c me repo,
  nonnormal anchor = true -> allP (wfw D) ws -> NoDup (dir_comps D ws) ->
  (length (flat_map (events_of D) ws) < fuel)%nat ->
  allP (wf D) (map (to_src D) ws) ->
  repo_premise D chunks tid po st repo (map (to_src D) ws) ->
  backup_selected D chunks tid po st ix pick force ids c me repo fuel (flat_map (stream_of D anchor) ws)
  = Some (tid (map (read_all D chunks tid) (map (to_src D) ws))).
Proof. exact selection_never_affects_tree_lemma. Qed.
Print Assumptions selection_never_affects_tree.

(* What a backup writes: directory entries carry a subtree, regular files a content list.  Parent
   entries violating this (matched directory without subtree: `unwrap` panics; file with
   `content: null`: handed on without content) therefore never stem from a backup by the library. *)
Theorem library_trees_have_subtrees_and_contents : forall D chunks tid (e : src D), wf D e ->
  (n_type (read_all D chunks tid e) = TDir -> n_subtree (read_all D chunks tid e) <> None) /\
  (n_type (read_all D chunks tid e) = TFile -> n_content (read_all D chunks tid e) <> None).
Proof. exact library_nodes_lemma. Qed.
Print Assumptions library_trees_have_subtrees_and_contents.

