(* C11 — property theorems (statements closed by `exact`, each followed by Print Assumptions). *)
From Verif.Base Require Import Tactics.
From Verif.C11 Require Import Extracted Model Proofs.
Local Open Scope N_scope.

(* Whatever is_parent reports as matched is a node of one of the parent trees, has the queried name
   and satisfies the comparison of type, size, mtime and (unless ignored) ctime. *)
Theorem is_parent_match_is_sound : forall o ts nd name ts' pn,
  is_parent o ts nd name = (ts', Matched pn) ->
  (exists t, In t ts /\ In pn (fst t)) /\ n_name pn = name /\ core_match o pn nd = true.
Proof.
  intros o ts nd name ts' pn H. destruct (is_parent_matched _ _ _ _ _ _ H) as [A [B C]].
  split; [exact A|split; [exact B|exact (meta_match_core _ _ _ C)]].
Qed.
Print Assumptions is_parent_match_is_sound.
