(* C11 — concrete instances: the hypotheses of parent_equals_full are satisfiable and reuse really
   happens; an edit outside the premise does change the result; a missed cursor only causes a
   re-read; the inode clause as written. *)
From Verif.Base Require Import Tactics.
From Verif.C11 Require Import Extracted Model Proofs Spec Proofs2 Proofs3.
Local Open Scope N_scope.

Definition D_ex := list id.                       (* a file's data, represented by its chunk ids *)
Definition chunks_ex (d : D_ex) : list id := d.
Fixpoint sumN (l : list N) : N := match l with [] => 0 | x :: r => x + 3 * sumN r end.
Definition node_code (n : node) : N :=
  n_name n + 5 * m_size (n_meta n) + 7 * match m_mtime (n_meta n) with Some t => t | None => 0 end
  + 11 * sumN (content_ids n) + 13 * match n_subtree n with Some i => i | None => 0 end.
Definition tid_ex (l : list node) : id := 1000 + sumN (map node_code l).

Definition mk (name : N) (ty : ntype) (size mtime ctime inode : N) : node :=
  {| n_name := name; n_type := ty;
     n_meta := {| m_size := size; m_mtime := Some mtime; m_ctime := Some ctime; m_inode := inode; m_other := 420 |};
     n_content := None; n_subtree := None |}.

(* state 0: file 1, directory 2 containing file 3 *)
Definition f1 := mk 1 TFile 5 10 10 71.
Definition d2 := mk 2 TDir 0 10 10 72.
Definition f3 := mk 3 TFile 9 10 10 73.
Definition cs0 : list (src D_ex) := [SLeaf f1 [41; 42]; SDir d2 [SLeaf f3 [43]]].
(* state 1: file 1 rewritten (new mtime, other bytes), file 3 untouched, file 4 added *)
Definition f1' := mk 1 TFile 5 11 11 71.
Definition f4 := mk 4 TFile 2 12 12 74.
Definition cs1 : list (src D_ex) := [SLeaf f1' [51]; SDir d2 [SLeaf f3 [43]]; SLeaf f4 [44]].
(* state 1 bis: file 1 rewritten with the same size, mtime and ctime: OUTSIDE the premise *)
Definition cs1_stealth : list (src D_ex) := [SLeaf f1 [51]; SDir d2 [SLeaf f3 [43]]].

Definition o_ex := {| ignore_ctime := false; ignore_inode := false |}.
Definition ra := read_all D_ex chunks_ex tid_ex.
Definition root0 := tid_ex (map ra cs0).
Definition sub0 := tid_ex (map ra [SLeaf f3 [43]]).
(* the repository after the backup of state 0 *)
Definition st_ex : store := fun i =>
  if i =? root0 then Some (map ra cs0) else if i =? sub0 then Some (map ra [SLeaf f3 [43]]) else None.
Definition ix_all : index := fun _ => true.
Definition ix_without_43 : index := fun c => negb (c =? 43).

(* the hypotheses of parent_equals_full hold for (cs0, cs1) *)
Example hypotheses_satisfiable :
  allP (wf D_ex) cs1 /\
  (forall pid T, In pid [root0] -> st_ex pid = Some T ->
     exists c0, T = map ra c0 /\ allP (wf D_ex) c0 /\ allP (stored D_ex chunks_ex tid_ex st_ex) c0 /\
                allP (fun x1 => forall x0, In x0 c0 -> sname x0 = sname x1 -> visible D_ex chunks_ex o_ex x1 x0) cs1).
Proof.
  split.
  - cbn. repeat split; discriminate.
  - intros pid T [E|[]] HT. subst pid. exists cs0.
    assert (T = map ra cs0) by (vm_compute in HT; inv HT; reflexivity). subst T.
    split; [reflexivity|]. split; [cbn; repeat split; discriminate|]. split.
    + cbn [allP stored cs0]. repeat split; intros T HT'; vm_compute in HT'; inv HT'; reflexivity.
    + cbn [allP cs1]. repeat split; intros x0 Hx0 Hn;
        (destruct Hx0 as [<-|[<-|[]]]; cbn in Hn; try discriminate);
        cbn [visible allP]; try (intros Hc; vm_compute in Hc; discriminate); try exact I.
      * repeat split. intros x0 [<-|[]] _. cbn [visible]. intros _. reflexivity.
Qed.

(* with the parent: file 3 is reused, files 1 and 4 are read; the tree is the one of the full backup *)
Example reuse_happens :
  archive D_ex chunks_ex tid_ex o_ex st_ex ix_all [root0] false false cs1 = Some (tid_ex (map ra cs1), true) /\
  archive D_ex chunks_ex tid_ex o_ex st_ex ix_all [root0] true false cs1 = Some (tid_ex (map ra cs1), true) /\
  process_all o_ex st_ex ix_all (fst (parent_new st_ex [root0]))
    [EOther f1'; ENewTree d2 2; EOther f3; EEndTree; EOther f4]
  = [OOther f1' NotMatched; ONewTree (Matched sub0); OOther (set_content f3 (Some [43])) (Matched tt); OEndTree; OOther f4 NotFound].
Proof. vm_compute. repeat split. Qed.

(* chunk 43 is no longer in the index: file 3 matches its parent entry but is handed on unread-from-parent *)
Example pruned_chunk_forces_reread :
  process_all o_ex st_ex ix_without_43 (fst (parent_new st_ex [root0])) [ENewTree d2 2; EOther f3]
  = [ONewTree (Matched sub0); OOther f3 NotFound] /\
  archive D_ex chunks_ex tid_ex o_ex st_ex ix_without_43 [root0] false false cs1 = Some (tid_ex (map ra cs1), true).
Proof. vm_compute. split; reflexivity. Qed.

(* arrival out of order: the directory first, then file 1 — the cursor has passed nothing here, but
   feeding file 4 before file 1 makes the cursor pass entry 1: it is then NotFound (re-read), and the
   result is still the tree of the full backup of that arrival order *)
Example missed_cursor_only_rereads :
  let cs := [SLeaf f4 [44]; SDir d2 [SLeaf f3 [43]]; SLeaf f1 [41; 42]] in
  process_all o_ex st_ex ix_all (fst (parent_new st_ex [root0])) [EOther f4; ENewTree d2 2; EEndTree; EOther f1]
  = [OOther f4 NotFound; ONewTree NotFound; OEndTree; OOther f1 NotFound] /\
  archive D_ex chunks_ex tid_ex o_ex st_ex ix_all [root0] false false cs = Some (tid_ex (map ra cs), true).
Proof. vm_compute. split; reflexivity. Qed.

(* OUTSIDE the premise (same type, size, mtime, ctime; other bytes): the parent's content is reused and
   the tree differs from the forced backup — the premise of parent_equals_full cannot be dropped *)
Example premise_is_needed :
  exists r1 r2 w1 w2,
    archive D_ex chunks_ex tid_ex o_ex st_ex ix_all [root0] false false cs1_stealth = Some (r1, w1) /\
    archive D_ex chunks_ex tid_ex o_ex st_ex ix_all [root0] true false cs1_stealth = Some (r2, w2) /\ r1 <> r2.
Proof. do 4 eexists. split; [vm_compute; reflexivity|]. split; [vm_compute; reflexivity|]. discriminate. Qed.

(* skip_if_unchanged: an unchanged source yields the parent's root id; the snapshot file is then not written *)
Example skip_if_unchanged_skips :
  archive D_ex chunks_ex tid_ex o_ex st_ex ix_all [root0] false true cs0 = Some (root0, false) /\
  archive D_ex chunks_ex tid_ex o_ex st_ex ix_all [root0] false false cs0 = Some (root0, true).
Proof. vm_compute. split; reflexivity. Qed.

(* the inode clause as written: a changed inode blocks reuse exactly when ignore_inode is SET *)
Example inode_clause_observation :
  let moved := mk 3 TFile 9 10 10 99 in
  meta_match {| ignore_ctime := false; ignore_inode := false |} f3 moved = true /\
  meta_match {| ignore_ctime := false; ignore_inode := true |} f3 moved = false.
Proof. vm_compute. split; reflexivity. Qed.

(* ---------------------------------------------------------------- path streams *)
From Verif.C11 Require Import ModelIter ProofsIter ProofsPipe ModelSelect ProofsSelect.

(* `backup /1/2 /1/5`: two backup paths with the common root /1; the walker yields items for the
   directories 2 and 5 and what is below them; TreeIterator synthesises /1 once *)
Definition d5 := mk 5 TDir 0 10 10 75.
Definition ws_two_paths : list (wsrc D_ex) :=
  [WDir false 1 (synth 1) [WDir true 2 d2 [WLeaf f3 [43]]; WDir true 5 d5 [WLeaf f4 [44]; WDir true 6 (mk 6 TDir 0 10 10 76) []]]].

Example two_paths_stream :
  map (fun it => (i_path D_ex it, n_name (i_node D_ex it))) (flat_map (stream_of D_ex [CRoot]) ws_two_paths)
  = [([CRoot; CNormal 1; CNormal 2], 2); ([CRoot; CNormal 1; CNormal 2], 3);
     ([CRoot; CNormal 1; CNormal 5], 5); ([CRoot; CNormal 1; CNormal 5], 4); ([CRoot; CNormal 1; CNormal 5; CNormal 6], 6)].
Proof. vm_compute. reflexivity. Qed.

Example two_paths_items :
  titer D_ex 20 (flat_map (stream_of D_ex [CRoot]) ws_two_paths)
  = Some [EvNew (synth 1) 1; EvNew d2 2; EvOther f3 (Some [43]); EvEnd;
          EvNew d5 5; EvOther f4 (Some [44]); EvNew (mk 6 TDir 0 10 10 76) 6; EvEnd; EvEnd; EvEnd].
Proof. vm_compute. reflexivity. Qed.

Example two_paths_wellformed : allP (wfw D_ex) ws_two_paths /\ NoDup (dir_comps D_ex ws_two_paths).
Proof.
  split.
  - cbn. repeat split; try discriminate; repeat constructor; cbn; intuition discriminate.
  - cbn. repeat constructor. intros [].
Qed.

(* mixed anchors: after /1 an item with a relative path — the real iterator yields EndTree for ever *)
Example mixed_anchors_diverge :
  titer D_ex 50 [{| i_path := [CRoot; CNormal 1]; i_node := d2; i_open := None |};
                 {| i_path := [CNormal 2]; i_node := d5; i_open := None |}] = None.
Proof. vm_compute. reflexivity. Qed.

(* the source of Examples.cs1 located at `/`, as a path stream, with the parent root0: the whole
   pipeline gives the tree of the full backup, with and without parent *)
Definition ws1 : list (wsrc D_ex) := [WLeaf f1' [51]; WDir true 2 d2 [WLeaf f3 [43]]; WLeaf f4 [44]].
Example stream_backup_equals_full :
  map (to_src D_ex) ws1 = cs1 /\
  backup_stream D_ex chunks_ex tid_ex o_ex st_ex ix_all 20 [root0] false (flat_map (stream_of D_ex [CRoot]) ws1)
    = Some (tid_ex (map ra cs1)) /\
  backup_stream D_ex chunks_ex tid_ex o_ex st_ex ix_all 20 [root0] true (flat_map (stream_of D_ex [CRoot]) ws1)
    = Some (tid_ex (map ra cs1)).
Proof. vm_compute. repeat split. Qed.

(* selection: latest of the same group (host, label, paths), explicit ids bypass the group, a missing id drops all *)
Definition snA := {| s_id := 1; s_time := 5; s_host := 1; s_label := 1; s_paths := 1; s_tags := 0; s_tree := root0 |}.
Definition snB := {| s_id := 2; s_time := 9; s_host := 2; s_label := 1; s_paths := 1; s_tags := 0; s_tree := sub0 |}.
Definition snC := {| s_id := 3; s_time := 7; s_host := 1; s_label := 1; s_paths := 1; s_tags := 0; s_tree := root0 |}.
Definition me_ex := {| s_id := 0; s_time := 6; s_host := 1; s_label := 1; s_paths := 1; s_tags := 0; s_tree := 0 |}.
Example selection_examples :
  select false [] crit_default me_ex [snA; snB; snC] = [snC] /\          (* newest of host 1 — although newer than `me` *)
  select false [] {| c_host := false; c_label := true; c_paths := true; c_tags := false |} me_ex [snA; snB; snC] = [snB] /\
  select false [2; 1] crit_default me_ex [snA; snB; snC] = [snB; snA] /\  (* explicit: request order, group not consulted *)
  select false [2; 8] crit_default me_ex [snA; snB; snC] = [] /\          (* one unreadable id: no parent at all *)
  select true [2] crit_default me_ex [snA; snB; snC] = [].
Proof. vm_compute. repeat split. Qed.
