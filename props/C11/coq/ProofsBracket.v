(* C11 — TreeIterator is well bracketed on EVERY item stream whose paths share an anchor
   (sorted or not, duplicates, any nodes), whenever it terminates within the fuel. *)
From Verif.Base Require Import Tactics.
From Verif.C11 Require Import Extracted Model ModelIter ProofsIter.
Local Open Scope N_scope.

Lemma nonnormal_app : forall a b, nonnormal (a ++ b) = true -> nonnormal a = true /\ nonnormal b = true.
Proof. intros a b H. unfold nonnormal in *. rewrite forallb_app in H. apply andb_true_iff in H. exact H. Qed.

Lemma map_normal_split : forall ms ns X, map CNormal ns = map CNormal ms ++ X ->
  exists r, ns = ms ++ r /\ X = map CNormal r.
Proof.
  induction ms as [|m ms IH]; intros ns X H.
  - exists ns. split; [reflexivity|symmetry; exact H].
  - destruct ns as [|n ns]; [discriminate|]. cbn [map app] in H. inv H.
    destruct (IH ns X H2) as [r [E1 E2]]. exists r. subst. split; reflexivity.
Qed.

Lemma pop_normals : forall a ms m, pop (a ++ map CNormal (ms ++ [m])) = Some (a ++ map CNormal ms).
Proof. intros. rewrite map_app. cbn [map]. rewrite app_assoc. apply pop_snoc. Qed.

Section Bracket.
  Variable D : Type.
  Variable anchor : list comp.
  Hypothesis Hanchor : nonnormal anchor = true.

  Definition anchored (its : list (item D)) : Prop :=
    forall it, In it its -> exists ns, i_path D it = anchor ++ map CNormal ns.

  (* self.path is a prefix of the anchor, or the anchor followed by the open directories *)
  Definition inv (cur : path) (d : nat) : Prop :=
    exists a a' ms, anchor = a ++ a' /\ cur = a ++ map CNormal ms /\ (ms <> [] -> a' = []) /\ d = length ms.

  Lemma inv_pop : forall cur d, inv cur d ->
    match pop cur with
    | Some cur' => exists d', d = S d' /\ inv cur' d'
    | None => d = 0%nat
    end.
  Proof.
    intros cur d [a [a' [ms [Ea [Ec [Hm Ed]]]]]]. subst cur d.
    destruct ms as [|m0 ms0] using rev_ind.
    - cbn [map]. rewrite app_nil_r. rewrite pop_nonnormal; [reflexivity|].
      rewrite Ea in Hanchor. apply nonnormal_app in Hanchor. exact (proj1 Hanchor).
    - clear IHms0. rewrite pop_normals. exists (length ms0). split; [rewrite app_length; cbn; lia|].
      exists a, a', ms0. repeat split; try assumption. intros _. apply Hm. destruct ms0; discriminate.
  Qed.

  Lemma step_inv : forall cur pending d e cur' pending', inv cur d -> anchored pending ->
    ti_next D (cur, pending) = Some (e, (cur', pending')) ->
    anchored pending' /\
    match e with
    | EvNew _ _ => inv cur' (S d)
    | EvEnd => exists d', d = S d' /\ inv cur' d'
    | EvOther _ _ => inv cur' d
    end.
  Proof.
    intros cur pending d e cur' pending' I A H. unfold ti_next in H.
    destruct pending as [|it rest].
    - pose proof (inv_pop cur d I) as P. destruct (pop cur) as [c|]; [|discriminate]. inv H.
      split; [intros x []|exact P].
    - assert (Arest : anchored rest) by (intros x Hx; apply A; right; exact Hx).
      destruct (A it (or_introl eq_refl)) as [ns Ep].
      destruct (strip_prefix (i_path D it) cur) as [missing|] eqn:SP.
      + apply strip_prefix_Some in SP.
        destruct I as [a [a' [ms [Ea [Ec [Hm Ed]]]]]].
        (* what is missing: the rest of the anchor (silent) and then Normal components *)
        assert (M : exists r, missing = a' ++ map CNormal r /\ anchor ++ map CNormal (ms ++ r) = cur ++ a' ++ map CNormal r
                               /\ (ms <> [] -> a' = [])).
        { destruct ms as [|m0 ms0].
          - exists ns. cbn [map] in Ec. rewrite app_nil_r in Ec. subst cur.
            rewrite Ep, Ea, <- app_assoc in SP. apply app_inv_head in SP. split; [symmetry; exact SP|].
            split; [cbn [app]; rewrite Ea, <- app_assoc; reflexivity|exact Hm].
          - assert (Ea' : a' = []) by (apply Hm; discriminate). subst a'. rewrite app_nil_r in Ea. subst a.
            rewrite Ep, Ec, <- app_assoc in SP. apply app_inv_head in SP.
            destruct (map_normal_split _ _ _ SP) as [r [E1 E2]]. exists r. split; [exact E2|].
            split; [rewrite Ec, map_app, <- app_assoc; reflexivity|intros _; reflexivity]. }
        destruct M as [r [Em [Ecur Hm']]]. subst missing.
        assert (Na' : nonnormal a' = true).
        { rewrite Ea in Hanchor. apply nonnormal_app in Hanchor. exact (proj2 Hanchor). }
        rewrite walk_silent in H by exact Na'.
        assert (Ecur' : cur ++ a' = anchor ++ map CNormal ms).
        { rewrite Ec, Ea. destruct ms as [|m0 ms0].
          - cbn [map]. rewrite !app_nil_r. reflexivity.
          - rewrite (Hm' ltac:(discriminate)). rewrite !app_nil_r. reflexivity. }
        destruct r as [|n r'].
        * cbn [map walk_missing] in H. inv H. split; [exact Arest|].
          exists anchor, [], ms. rewrite app_nil_r. repeat split; try assumption.
        * cbn [map walk_missing] in H.
          assert (I' : inv ((cur ++ a') ++ [CNormal n]) (S d)).
          { exists anchor, [], (ms ++ [n]). rewrite app_nil_r. split; [reflexivity|].
            split; [rewrite Ecur', map_app; cbn [map]; rewrite app_assoc; reflexivity|].
            split; [intros _; reflexivity|]. rewrite app_length. cbn. lia. }
          destruct (node_is_dir (i_node D it) && path_eqb (i_path D it) ((cur ++ a') ++ [CNormal n])); inv H.
          -- split; [exact Arest|exact I'].
          -- split; [exact A|exact I'].
      + (* self.path is no prefix: some directory is open, EndTree closes it *)
        pose proof (inv_pop cur d I) as P.
        destruct (pop cur) as [c|] eqn:PC.
        * inv H. split; [exact A|exact P].
        * exfalso. subst d. destruct I as [a [a' [ms [Ea [Ec [Hm Ed]]]]]].
          destruct ms; [|discriminate]. cbn [map] in Ec. rewrite app_nil_r in Ec. subst cur.
          rewrite Ep, Ea, <- app_assoc, strip_prefix_app in SP. discriminate.
  Qed.

  Lemma run_balanced : forall fuel cur pending d evs, inv cur d -> anchored pending ->
    ti_run D fuel (cur, pending) = Some evs -> balanced D d evs = true.
  Proof.
    induction fuel as [|f IH]; intros cur pending d evs I A H; cbn [ti_run] in H; [discriminate|].
    destruct (ti_next D (cur, pending)) as [[e [cur' pending']]|] eqn:N.
    - destruct (ti_run D f (cur', pending')) as [r|] eqn:R; [|discriminate]. inv H.
      destruct (step_inv _ _ _ _ _ _ I A N) as [A' S'].
      destruct e; cbn [balanced].
      + eapply IH; eassumption.
      + destruct S' as [d' [Ed I']]. subst d. eapply IH; eassumption.
      + eapply IH; eassumption.
    - inv H. cbn [balanced]. unfold ti_next in N. destruct pending as [|it rest].
      + pose proof (inv_pop cur d I) as P. destruct (pop cur); [discriminate|]. subst d. reflexivity.
      + destruct (strip_prefix (i_path D it) cur) as [miss|]; [|discriminate].
        destruct (walk_missing cur miss (i_path D it) (i_node D it)) as [c [[[] p]|]]; discriminate.
  Qed.

  Lemma any_stream_well_bracketed_lemma : forall items fuel evs, anchored items ->
    titer D fuel items = Some evs -> balanced D 0 evs = true.
  Proof.
    intros items fuel evs A H. unfold titer in H. eapply run_balanced; [|exact A|exact H].
    exists [], anchor, []. repeat split; try reflexivity. intros C. contradiction.
  Qed.
End Bracket.
