(* C11 — lemmas about the Parent state machine: cursors only move, trees never change,
   whatever is found is a node of a parent tree with the queried name, a match satisfies the closure. *)
From Verif.Base Require Import Tactics.
From Verif.C11 Require Import Extracted Model.
Local Open Scope N_scope.

Lemma scan_sound : forall l name k pn, scan l name = (k, Some pn) -> In pn l /\ n_name pn = name.
Proof.
  induction l as [|a l IH]; intros name k pn H; cbn [scan] in H.
  - inv H.
  - destruct (N.compare (n_name a) name) eqn:C.
    + inv H. split; [left; reflexivity|]. apply N.compare_eq in C. exact C.
    + destruct (scan l name) as [k' x] eqn:S. inv H.
      destruct (IH _ _ _ S) as [Hi Hn]. split; [right; exact Hi|exact Hn].
    + inv H.
Qed.

Lemma In_skipn {A} (x : A) n l : In x (skipn n l) -> In x l.
Proof.
  revert l; induction n as [|n IH]; intros l H; [exact H|].
  destruct l as [|a l]; [inv H|]. right. apply IH. exact H.
Qed.

Lemma p_node_one_tree : forall t name, fst (fst (p_node_one t name)) = fst t.
Proof.
  intros [T i] name. unfold p_node_one. cbn [fst snd].
  destruct (scan (skipn i T) name) as [k x]. reflexivity.
Qed.

Lemma p_node_one_sound : forall t name t' pn, p_node_one t name = (t', Some pn) ->
  In pn (fst t) /\ n_name pn = name.
Proof.
  intros [T i] name t' pn H. unfold p_node_one in H. cbn [fst snd] in H.
  destruct (scan (skipn i T) name) as [k x] eqn:S. inv H.
  destruct (scan_sound _ _ _ _ S) as [Hi Hn]. split; [eapply In_skipn; exact Hi|exact Hn].
Qed.

Lemma is_parent_go_trees : forall o ts nd name f ts' r,
  is_parent_go o ts nd name f = (ts', r) -> map fst ts' = map fst ts.
Proof.
  induction ts as [|t ts IH]; intros nd name f ts' r H; cbn [is_parent_go] in H.
  - inv H. reflexivity.
  - destruct (p_node_one t name) as [t1 x] eqn:P.
    assert (Ht : fst t1 = fst t) by (rewrite <- (p_node_one_tree t name), P; reflexivity).
    destruct x as [pn|].
    + destruct (meta_match o pn nd).
      * inv H. cbn [map]. rewrite Ht. reflexivity.
      * destruct (is_parent_go o ts nd name true) as [r' res] eqn:G. inv H.
        cbn [map]. rewrite Ht. f_equal. eapply IH; exact G.
    + destruct (is_parent_go o ts nd name f) as [r' res] eqn:G. inv H.
      cbn [map]. rewrite Ht. f_equal. eapply IH; exact G.
Qed.

Lemma is_parent_go_matched : forall o ts nd name f ts' pn,
  is_parent_go o ts nd name f = (ts', Matched pn) ->
  (exists t, In t ts /\ In pn (fst t)) /\ n_name pn = name /\ meta_match o pn nd = true.
Proof.
  induction ts as [|t ts IH]; intros nd name f ts' pn H; cbn [is_parent_go] in H.
  - destruct f; inv H.
  - destruct (p_node_one t name) as [t1 x] eqn:P. destruct x as [q|].
    + destruct (meta_match o q nd) eqn:M.
      * inv H. destruct (p_node_one_sound _ _ _ _ P) as [Hi Hn].
        split; [exists t; split; [left; reflexivity|exact Hi]|split; [exact Hn|exact M]].
      * destruct (is_parent_go o ts nd name true) as [r' res] eqn:G. inv H.
        destruct (IH _ _ _ _ _ G) as [[t0 [Ht0 Hp]] Hr].
        split; [exists t0; split; [right; exact Ht0|exact Hp]|exact Hr].
    + destruct (is_parent_go o ts nd name f) as [r' res] eqn:G. inv H.
      destruct (IH _ _ _ _ _ G) as [[t0 [Ht0 Hp]] Hr].
      split; [exists t0; split; [right; exact Ht0|exact Hp]|exact Hr].
Qed.

Lemma is_parent_trees : forall o ts nd name ts' r, is_parent o ts nd name = (ts', r) -> map fst ts' = map fst ts.
Proof. intros. eapply is_parent_go_trees; exact H. Qed.

Lemma is_parent_matched : forall o ts nd name ts' pn, is_parent o ts nd name = (ts', Matched pn) ->
  (exists t, In t ts /\ In pn (fst t)) /\ n_name pn = name /\ meta_match o pn nd = true.
Proof. intros. eapply is_parent_go_matched; exact H. Qed.

(* the closure implies the four comparisons the property names, whatever the inode clause says *)
Definition core_match (o : popts) (p n : node) : bool :=
  ntype_eqb (n_type p) (n_type n) && (m_size (n_meta p) =? m_size (n_meta n))
  && optN_eqb (m_mtime (n_meta p)) (m_mtime (n_meta n))
  && (ignore_ctime o || match m_ctime (n_meta p), m_ctime (n_meta n) with Some x, Some y => x =? y | _, _ => true end).

Lemma meta_match_core : forall o p n, meta_match o p n = true -> core_match o p n = true.
Proof.
  intros o p n H. unfold meta_match, is_parent_conj, match_ctime_clause in H. unfold core_match.
  repeat (apply andb_true_iff in H; destruct H as [H ?]).
  repeat (apply andb_true_iff; split); assumption.
Qed.

(* the inode clause as written: with ignore_inode = false it is vacuous, with ignore_inode = true it compares *)
Lemma inode_clause_as_written : forall pi i,
  match_inode_clause false pi i = true /\
  match_inode_clause true pi i = ((pi =? 0) || (i =? 0) || (pi =? i)).
Proof. intros. unfold match_inode_clause. cbn [negb orb]. split; reflexivity. Qed.

Lemma ntype_eqb_eq : forall a b, ntype_eqb a b = true -> a = b.
Proof.
  intros a b H; destruct a, b; cbn [ntype_eqb] in H; try discriminate; try reflexivity;
  apply N.eqb_eq in H; subst; reflexivity.
Qed.

Lemma is_parent_match_sound_lemma : forall o ts nd name ts' pn,
  is_parent o ts nd name = (ts', Matched pn) ->
  (exists t, In t ts /\ In pn (fst t)) /\ n_name pn = name /\ core_match o pn nd = true.
Proof.
  intros o ts nd name ts' pn H. destruct (is_parent_matched _ _ _ _ _ _ H) as [A [B C]].
  exact (conj A (conj B (meta_match_core _ _ _ C))).
Qed.
