(* C11 — TreeIterator flattens the source tree; the item-by-item pipeline refines the structural
   recursion `arch`; composition. *)
From Verif.Base Require Import Tactics.
From Verif.C11 Require Import Extracted Model Proofs Spec Proofs2 Proofs3 ModelIter.
Local Open Scope N_scope.

(* ------------------------------------------------------------ paths *)
Lemma comp_eqb_refl : forall c, comp_eqb c c = true.
Proof. destruct c; cbn [comp_eqb]; try reflexivity. apply N.eqb_refl. Qed.

Lemma comp_eqb_eq : forall a b, comp_eqb a b = true -> a = b.
Proof.
  destruct a, b; cbn [comp_eqb]; intros H; try discriminate; try reflexivity.
  apply N.eqb_eq in H. subst. reflexivity.
Qed.

Lemma path_eqb_refl : forall p, path_eqb p p = true.
Proof. induction p as [|c p IH]; cbn [path_eqb]; [reflexivity|]. rewrite comp_eqb_refl, IH. reflexivity. Qed.

Lemma path_eqb_eq : forall p q, path_eqb p q = true -> p = q.
Proof.
  induction p as [|a p IH]; destruct q as [|b q]; cbn [path_eqb]; intros H; try discriminate; [reflexivity|].
  apply andb_true_iff in H. destruct H as [H1 H2]. apply comp_eqb_eq in H1. apply IH in H2. subst. reflexivity.
Qed.

Lemma path_eqb_neq : forall p q, p <> q -> path_eqb p q = false.
Proof. intros p q H. destruct (path_eqb p q) eqn:E; [|reflexivity]. apply path_eqb_eq in E. contradiction. Qed.

Lemma strip_prefix_app : forall p m, strip_prefix (p ++ m) p = Some m.
Proof. induction p as [|c p IH]; intros m; cbn [strip_prefix app]; [reflexivity|]. rewrite comp_eqb_refl. apply IH. Qed.

Lemma strip_prefix_Some : forall q x m, strip_prefix x q = Some m -> x = q ++ m.
Proof.
  induction q as [|c q IH]; intros x m H; cbn [strip_prefix] in H.
  - inv H. reflexivity.
  - destruct x as [|d x]; [discriminate|]. destruct (comp_eqb c d) eqn:E; [|discriminate].
    apply comp_eqb_eq in E. subst d. apply IH in H. subst x. reflexivity.
Qed.

Lemma pop_snoc : forall p c, pop (p ++ [CNormal c]) = Some p.
Proof. intros p c. unfold pop. rewrite rev_app_distr. cbn [rev app pop_rev]. rewrite rev_involutive. reflexivity. Qed.

Definition nonnormal (s : list comp) : bool := forallb (fun c => negb (is_normal c)) s.

Lemma pop_rev_nonnormal : forall r, nonnormal r = true -> pop_rev r = None.
Proof.
  induction r as [|c r IH]; intros H; [reflexivity|]. cbn [nonnormal forallb] in H.
  apply andb_true_iff in H. destruct H as [H1 H2]. destruct c; cbn [pop_rev]; try (apply IH; exact H2). discriminate.
Qed.

Lemma nonnormal_rev : forall s, nonnormal s = true -> nonnormal (rev s) = true.
Proof.
  intros s H. unfold nonnormal in *. rewrite forallb_forall in *. intros x Hx. apply H. apply in_rev. exact Hx.
Qed.

Lemma pop_nonnormal : forall s, nonnormal s = true -> pop s = None.
Proof. intros s H. unfold pop. rewrite pop_rev_nonnormal; [reflexivity|]. apply nonnormal_rev. exact H. Qed.

Lemma walk_silent : forall s cur m full nd, nonnormal s = true ->
  walk_missing cur (s ++ m) full nd = walk_missing (cur ++ s) m full nd.
Proof.
  induction s as [|c s IH]; intros cur m full nd H.
  - rewrite app_nil_r. reflexivity.
  - cbn [nonnormal forallb] in H. apply andb_true_iff in H. destruct H as [H1 H2].
    cbn [app walk_missing]. destruct c; try discriminate;
      (rewrite IH by exact H2; rewrite <- app_assoc; reflexivity).
Qed.

Section Flatten.
  Variable D : Type.
  Notation item := (item D).
  Notation wsrc := (wsrc D).
  Notation ev := (ev D).
  Notation stream_of := (stream_of D).
  Notation events_of := (events_of D).
  Notation ti_next := (ti_next D).
  Notation ti_run := (ti_run D).

  (* well-formed source trees: what a directory walk yields *)
  Fixpoint wfw (w : wsrc) : Prop :=
    match w with
    | WLeaf nd _ => node_is_dir nd = false
    | WDir ex c nd cs =>
      (if ex then node_is_dir nd = true else nd = synth c /\ cs <> []) /\
      NoDup (dir_comps D cs) /\ allP wfw cs
    end.

  Section WInd.
    Variable P : wsrc -> Prop.
    Hypothesis Hl : forall nd d, P (WLeaf nd d).
    Hypothesis Hd : forall ex c nd cs, allP P cs -> P (WDir ex c nd cs).
    Fixpoint wsrc_ind2 (w : wsrc) : P w :=
      match w with
      | WLeaf nd d => Hl nd d
      | WDir ex c nd cs =>
        Hd ex c nd cs ((fix go (cs : list wsrc) : allP P cs :=
                          match cs with [] => I | x :: r => conj (wsrc_ind2 x) (go r) end) cs)
      end.
  End WInd.

  (* multi-step runs of the iterator *)
  Inductive steps : tstate D -> list ev -> tstate D -> Prop :=
  | steps_nil : forall s, steps s [] s
  | steps_cons : forall s e s' evs s'', ti_next s = Some (e, s') -> steps s' evs s'' -> steps s (e :: evs) s''.

  Lemma steps_app : forall s1 e1 s2 e2 s3, steps s1 e1 s2 -> steps s2 e2 s3 -> steps s1 (e1 ++ e2) s3.
  Proof. induction 1; intros H2; cbn [app]; [exact H2|]. econstructor; [eassumption|]. apply IHsteps. exact H2. Qed.

  Lemma steps_one : forall s e s', ti_next s = Some (e, s') -> steps s [e] s'.
  Proof. intros. econstructor; [eassumption|constructor]. Qed.

  Lemma run_steps : forall s evs s', steps s evs s' -> forall f r,
    ti_run f s' = Some r -> ti_run (length evs + f) s = Some (evs ++ r).
  Proof.
    induction 1; intros f r Hr; cbn [length plus app]; [exact Hr|].
    cbn [ModelIter.ti_run]. rewrite H. rewrite (IHsteps f r Hr). reflexivity.
  Qed.

  Definition not_under (p : path) (rest : list item) : Prop :=
    match rest with [] => True | it :: _ => strip_prefix (i_path D it) p = None end.

  Lemma not_under_weaken : forall p q rest, not_under p rest -> not_under (p ++ q) rest.
  Proof.
    intros p q [|it rest] H; [exact I|]. cbn [not_under] in *.
    destruct (strip_prefix (i_path D it) (p ++ q)) as [m|] eqn:E; [|reflexivity].
    apply strip_prefix_Some in E. rewrite <- app_assoc in E. rewrite E, strip_prefix_app in H. discriminate.
  Qed.

  (* items of a well-formed tree lie under its directory; an item AT the directory is no directory *)
  Definition under (p : path) (it : item) : Prop :=
    exists more, i_path D it = p ++ more /\ (more = [] -> node_is_dir (i_node D it) = false).

  Lemma under_deeper : forall p c it, under (p ++ [CNormal c]) it -> under p it.
  Proof.
    intros p c it [more [E _]]. exists (CNormal c :: more). split; [rewrite E, <- app_assoc; reflexivity|discriminate].
  Qed.

  Lemma stream_under : forall w, wfw w -> forall pre it, In it (stream_of pre w) -> under pre it.
  Proof.
    induction w as [nd d|ex c nd cs IH] using wsrc_ind2; intros W pre it Hin.
    - cbn [ModelIter.stream_of] in Hin. destruct Hin as [E|[]]. subst it. exists []. cbn [i_path i_node].
      split; [rewrite app_nil_r; reflexivity|intros _; exact W].
    - cbn [ModelIter.stream_of] in Hin. cbn [wfw] in W. destruct W as [_ [_ Wc]].
      apply in_app_or in Hin. destruct Hin as [Hin|Hin].
      + destruct ex; [|inv Hin]. destruct Hin as [E|[]]. subst it. exists [CNormal c]. cbn [i_path].
        split; [reflexivity|discriminate].
      + apply in_flat_map in Hin. destruct Hin as [x [Hx Hi]]. rewrite allP_In in IH, Wc.
        apply under_deeper with (c := c). exact (IH x Hx (Wc x Hx) _ _ Hi).
  Qed.

  (* the first item a well-formed tree yields *)
  Lemma stream_head : forall w, wfw w -> forall pre, exists it tl, stream_of pre w = it :: tl /\
    match w with
    | WLeaf _ _ => i_path D it = pre
    | WDir _ c _ _ => exists more, i_path D it = pre ++ CNormal c :: more
    end.
  Proof.
    induction w as [nd d|ex c nd cs IH] using wsrc_ind2; intros W pre.
    - eexists; eexists; split; [reflexivity|reflexivity].
    - cbn [ModelIter.stream_of]. destruct ex.
      + eexists; eexists; split; [reflexivity|]. exists []. reflexivity.
      + cbn [wfw] in W. destruct W as [[_ Hne] [_ Wc]]. destruct cs as [|x cs']; [contradiction|].
        destruct IH as [IHx _]. destruct Wc as [Wx _].
        destruct (IHx Wx (pre ++ [CNormal c])) as [it [tl [E Hs]]].
        cbn [flat_map app]. rewrite E. cbn [app]. eexists; eexists; split; [reflexivity|].
        destruct x as [? ?|? c' ? ?].
        * exists []. rewrite Hs. reflexivity.
        * destruct Hs as [more Hm]. exists (CNormal c' :: more). rewrite Hm, <- app_assoc. reflexivity.
  Qed.

  Definition tail_ok (w : wsrc) (pre : path) (rest : list item) : Prop :=
    match w with WLeaf _ _ => True | WDir _ c _ _ => not_under (pre ++ [CNormal c]) rest end.

  (* statement for one tree: from a path `cur` that only lacks a silent (non-Normal) suffix `s` of the
     tree's directory, the iterator yields exactly the tree's bracketed items and stands at the directory *)
  Definition flat_stmt (w : wsrc) : Prop :=
    wfw w -> forall cur s rest, nonnormal s = true -> tail_ok w (cur ++ s) rest ->
    steps (cur, stream_of (cur ++ s) w ++ rest) (events_of w) (cur ++ s, rest).

  Lemma flat_stmt0 : forall w, flat_stmt w -> wfw w -> forall pre rest, tail_ok w pre rest ->
    steps (pre, stream_of pre w ++ rest) (events_of w) (pre, rest).
  Proof.
    intros w H W pre rest T. specialize (H W pre [] rest eq_refl). rewrite app_nil_r in H. apply H. exact T.
  Qed.

  Lemma flat_list : forall cs, allP flat_stmt cs -> allP wfw cs -> NoDup (dir_comps D cs) ->
    forall pre rest, (forall c, In c (dir_comps D cs) -> not_under (pre ++ [CNormal c]) rest) ->
    steps (pre, flat_map (stream_of pre) cs ++ rest) (flat_map events_of cs) (pre, rest).
  Proof.
    induction cs as [|w cs IH]; intros HA HW ND pre rest HR.
    - cbn [flat_map app]. constructor.
    - destruct HA as [Hw HA]. destruct HW as [Ww HW]. cbn [flat_map]. rewrite <- app_assoc.
      assert (NDt : NoDup (dir_comps D cs)).
      { destruct w; cbn [dir_comps flat_map app] in ND; [exact ND|]. inv ND. assumption. }
      eapply steps_app.
      + apply (flat_stmt0 w Hw Ww). destruct w as [nd d|ex c nd cs0]; [exact I|]. cbn [tail_ok].
        destruct cs as [|w3 cs3].
        * cbn [flat_map app]. apply HR. cbn [dir_comps flat_map app]. left. reflexivity.
        * destruct HW as [W3 _]. destruct (stream_head w3 W3 pre) as [it [tl [E Hs]]].
          cbn [flat_map]. rewrite E. cbn [app not_under].
          destruct (strip_prefix (i_path D it) (pre ++ [CNormal c])) as [m|] eqn:SP; [exfalso|reflexivity].
          apply strip_prefix_Some in SP. rewrite <- app_assoc in SP. cbn [app] in SP.
          destruct w3 as [? ?|? c3 ? ?].
          -- rewrite Hs in SP. rewrite <- (app_nil_r pre) in SP at 1. apply app_inv_head in SP. discriminate.
          -- destruct Hs as [more Hm]. rewrite Hm in SP. apply app_inv_head in SP. inv SP.
             cbn [dir_comps flat_map app] in ND. inv ND. apply H1. left. reflexivity.
      + apply IH; try assumption. intros c Hc. apply HR.
        destruct w; cbn [dir_comps flat_map app]; [exact Hc|right; exact Hc].
  Qed.

  Lemma flat_one : forall w, flat_stmt w.
  Proof.
    induction w as [nd d|ex c nd cs IH] using wsrc_ind2; intros W cur s rest Hs T.
    - (* leaf: Other *)
      cbn [ModelIter.stream_of ModelIter.events_of app]. apply steps_one.
      cbn [ModelIter.ti_next i_path i_node i_open]. rewrite strip_prefix_app.
      rewrite <- (app_nil_r s) at 1. rewrite walk_silent by exact Hs. reflexivity.
    - cbn [wfw] in W. destruct W as [Wex [ND Wc]]. cbn [tail_ok] in T.
      set (pre := cur ++ s) in *. set (p := pre ++ [CNormal c]).
      cbn [ModelIter.stream_of ModelIter.events_of]. fold p.
      (* the children and the closing EndTree, from the state after the NewTree *)
      assert (Hrest : steps (p, flat_map (stream_of p) cs ++ rest) (flat_map events_of cs ++ [EvEnd]) (pre, rest)).
      { eapply steps_app.
        - apply flat_list; try assumption. intros c2 _. apply not_under_weaken. exact T.
        - apply steps_one. unfold ModelIter.ti_next. destruct rest as [|it rest'].
          + unfold p. rewrite pop_snoc. reflexivity.
          + cbn [not_under] in T. fold p in T. rewrite T. unfold p. rewrite pop_snoc. reflexivity. }
      change (EvNew nd (n_name nd) :: flat_map events_of cs ++ [EvEnd])
        with ([EvNew nd (n_name nd)] ++ (flat_map events_of cs ++ [EvEnd])).
      eapply steps_app; [|exact Hrest].
      destruct ex.
      + (* the directory's own item *)
        cbn [app]. apply steps_one.
        cbn [ModelIter.ti_next i_path i_node i_open]. unfold p, pre. rewrite <- app_assoc. rewrite strip_prefix_app.
        rewrite walk_silent by exact Hs. cbn [walk_missing].
        rewrite Wex. rewrite app_assoc. rewrite path_eqb_refl. reflexivity.
      + (* implicit directory: synthesised when its first descendant arrives *)
        destruct Wex as [Esyn Hne]. subst nd. cbn [app synth n_name].
        destruct cs as [|x cs']; [contradiction|].
        assert (Wx : wfw x) by (exact (proj1 Wc)).
        destruct (stream_head x Wx p) as [it [tl [E _]]].
        assert (U : under p it).
        { apply (stream_under x Wx p). rewrite E. left. reflexivity. }
        destruct U as [more [Ep Hdir]].
        cbn [flat_map]. rewrite E. cbn [app]. apply steps_one.
        cbn [ModelIter.ti_next]. rewrite Ep. unfold p, pre. repeat rewrite <- app_assoc. rewrite strip_prefix_app.
        rewrite walk_silent by exact Hs. cbn [app walk_missing].
        assert (F : node_is_dir (i_node D it) && path_eqb (cur ++ s ++ CNormal c :: more) ((cur ++ s) ++ [CNormal c]) = false).
        { destruct more as [|m0 more'].
          - rewrite (Hdir eq_refl). reflexivity.
          - rewrite path_eqb_neq; [apply andb_false_r|]. intros Heq.
            rewrite <- app_assoc in Heq. apply app_inv_head in Heq. apply app_inv_head in Heq. discriminate. }
        rewrite F. repeat rewrite <- app_assoc. reflexivity.
  Qed.

  (* TreeIterator on the stream of a well-formed forest located at `anchor` (non-Normal components:
     nothing, `/`, `.`) yields exactly the bracketed items of the forest *)
  Lemma tree_iterator_flattening_lemma : forall anchor ws fuel,
    nonnormal anchor = true -> allP wfw ws -> NoDup (dir_comps D ws) ->
    (length (flat_map events_of ws) < fuel)%nat ->
    titer D fuel (flat_map (stream_of anchor) ws) = Some (flat_map events_of ws).
  Proof.
    intros anchor ws fuel Ha HW ND Hf. unfold titer.
    assert (S0 : exists last, steps ([], flat_map (stream_of anchor) ws) (flat_map events_of ws) (last, []) /\ pop last = None).
    { destruct ws as [|w ws'].
      - exists []. split; [constructor|reflexivity].
      - exists anchor. split; [|apply pop_nonnormal; exact Ha].
        destruct HW as [Ww HW]. cbn [flat_map].
        assert (NDt : NoDup (dir_comps D ws')).
        { destruct w; cbn [dir_comps flat_map app] in ND; [exact ND|]. inv ND. assumption. }
        eapply steps_app.
        + apply (flat_one w Ww [] anchor (flat_map (stream_of anchor) ws') Ha).
          destruct w as [nd d|ex c nd cs0]; [exact I|]. cbn [tail_ok app].
          destruct ws' as [|w3 ws3]; [exact I|].
          destruct HW as [W3 _]. destruct (stream_head w3 W3 anchor) as [it [tl [E Hs]]].
          cbn [flat_map]. rewrite E. cbn [app not_under].
          destruct (strip_prefix (i_path D it) (anchor ++ [CNormal c])) as [m|] eqn:SP; [exfalso|reflexivity].
          apply strip_prefix_Some in SP. rewrite <- app_assoc in SP. cbn [app] in SP.
          destruct w3 as [? ?|? c3 ? ?].
          * rewrite Hs in SP. rewrite <- (app_nil_r anchor) in SP at 1. apply app_inv_head in SP. discriminate.
          * destruct Hs as [more Hm]. rewrite Hm in SP. apply app_inv_head in SP. inv SP.
            cbn [dir_comps flat_map app] in ND. inv ND. apply H1. left. reflexivity.
        + cbn [app]. rewrite <- (app_nil_r (flat_map (stream_of anchor) ws')).
          apply flat_list; try assumption.
          * apply allP_In. intros x _. apply flat_one.
          * intros c _. exact I. }
    destruct S0 as [last [St Hp]].
    assert (Hl : ti_run (fuel - length (flat_map events_of ws)) (last, []) = Some []).
    { destruct (fuel - length (flat_map events_of ws))%nat eqn:Ef; [lia|].
      cbn [ModelIter.ti_run ModelIter.ti_next]. rewrite Hp. reflexivity. }
    pose proof (run_steps _ _ _ St _ _ Hl) as R. rewrite app_nil_r in R.
    replace (length (flat_map events_of ws) + (fuel - length (flat_map events_of ws)))%nat with fuel in R by lia.
    exact R.
  Qed.

  (* bracketed items are balanced *)
  Lemma balanced_app : forall (a b : list ev) d d', (forall r, balanced D d (a ++ r) = balanced D d' r) ->
    forall r, balanced D d (a ++ b ++ r) = balanced D d' (b ++ r).
  Proof. intros a b d d' H r. apply H. Qed.

  Lemma events_balanced : forall w d r, balanced D d (events_of w ++ r) = balanced D d r.
  Proof.
    induction w as [nd x|ex c nd cs IH] using wsrc_ind2; intros d r.
    - reflexivity.
    - cbn [ModelIter.events_of app balanced]. rewrite <- app_assoc. cbn [app].
      assert (L : forall cs0, allP (fun w => forall d r, balanced D d (events_of w ++ r) = balanced D d r) cs0 ->
                  forall d r, balanced D d (flat_map events_of cs0 ++ r) = balanced D d r).
      { induction cs0 as [|x cs0 IH0]; intros HA d0 r0; [reflexivity|].
        cbn [flat_map]. rewrite <- app_assoc. destruct HA as [Hx HA]. rewrite Hx. apply IH0. exact HA. }
      rewrite (L cs IH). reflexivity.
  Qed.

  Lemma forest_balanced : forall ws, balanced D 0 (flat_map events_of ws) = true.
  Proof.
    intros ws. rewrite <- (app_nil_r (flat_map events_of ws)).
    induction ws as [|w ws IH]; [reflexivity|]. cbn [flat_map]. rewrite <- app_assoc. rewrite events_balanced. exact IH.
  Qed.
End Flatten.
