(* C19 — examples next to the theorems of Props.v: the hypotheses are satisfiable and the
   conclusions are not vacuous. *)
From Verif.Base Require Import Tactics.
From Verif.C19 Require Import Types Extracted Model Spec Commands Proofs.

(* ------------------------------------------------------------------ examples (hypotheses are satisfiable,
   conclusions are not vacuous) *)
Definition ex_content (k : key) : bytes := [snd k; 7%N; 7%N].
Definition ex_be : fmap := [((Snapshot, 1%N), ex_content (Snapshot, 1%N)); ((Index, 2%N), ex_content (Index, 2%N))].
(* stale (3), truncated (1), foreign-but-honest (9) canonical files and a stray *)
Definition ex_cache : cache :=
  mkcache [((Snapshot, 3%N), ex_content (Snapshot, 3%N)); ((Snapshot, 1%N), [1%N; 7%N]);
           ((Snapshot, 9%N), ex_content (Snapshot, 9%N)); ((Index, 2%N), ex_content (Index, 2%N))]
          [((Snapshot, 4%N), 3%nat)].

Example ex_hypotheses : BeHonest ex_content ex_be /\ CacheFaulty ex_content ex_cache.
Proof.
  split.
  - intros k d [H|[H|[]]]; inv H; reflexivity.
  - intros [t i] d F. simpl in F.
    repeat match type of F with
           | (if ?b then _ else _) = _ => destruct b eqn:?
           end; try discriminate; inv F;
    match goal with H : key_eqb _ _ = true |- _ => apply key_eqb_eq in H; inv H end;
    solve [left; reflexivity | right; simpl; lia].
Qed.

(* the listing removes the stale, the truncated and the foreign file, keeps the index file *)
Example ex_listing :
  files (cch (snd (cb_list (mkst ex_cache ex_be) Snapshot []))) = [((Index, 2%N), ex_content (Index, 2%N))].
Proof. vm_compute. reflexivity. Qed.

(* list-then-read from that state: read of the truncated file, of the stale file, a write, a remove *)
Example ex_list_then_read :
  let ops := [OReadFull Snapshot 1%N; OReadFull Snapshot 3%N;
              OWrite Snapshot 5%N false true (ex_content (Snapshot, 5%N)); OReadPartial Snapshot 5%N false 1 2;
              ORemove Snapshot 1%N false; OReadFull Snapshot 1%N] in
  Forall (op_honest ex_content) ops /\
  forallb (fun o => own_op o && ft_eqb (op_type o) Snapshot) ops = true /\
  fst (run_c (OList Snapshot [] :: ops) (mkst ex_cache ex_be)) =
    [RList [(1%N, 3%nat)]; RData (Some [1%N; 7%N; 7%N]); RData None; RUnit true; RData (Some [7%N; 7%N]);
     RUnit true; RData None].
Proof.
  cbv zeta. split; [repeat constructor|]. split; vm_compute; reflexivity.
Qed.

(* without the listing the truncated file is served *)
Example ex_truncated_served_without_listing :
  fst (cb_read_full (mkst ex_cache ex_be) Snapshot 1%N) = RData (Some [1%N; 7%N]).
Proof. vm_compute. reflexivity. Qed.

(* an interleaved, disciplined history: another handle removes a snapshot, a file is
   truncated in the cache, the cached handle lists and reads *)
Example ex_disciplined :
  let ops := [OReadFull Snapshot 1%N; EBeRemove Snapshot 1%N; EPlant Index 2%N [2%N];
              OList Snapshot []; OReadFull Snapshot 1%N; OList Index []; OReadFull Index 2%N] in
  disciplined all_coh ops = true /\ Forall (op_honest ex_content) ops /\
  fst (run_c ops (mkst (mkcache [] []) ex_be)) = fst (run_u ops ex_be).
Proof.
  cbv zeta. split; [vm_compute; reflexivity|]. split; [|vm_compute; reflexivity].
  repeat match goal with |- Forall _ _ => constructor end; try exact I.
  right. simpl. lia.
Qed.

(* ------------------------------------------------------------------ command level *)
(* forget (get_all_snapshots = update_from_backend, then delete), while another process removes
   a snapshot and a truncated index file sits in the cache; then a backup (latest snapshot as
   parent, index read, new index and snapshot written); from the faulty cache ex_cache *)
Definition ex_history : list hitem :=
  [ HStep (CAccess SnapUpdateFromBackend Snapshot [] [1%N]);
    HStep (CRemove Snapshot 1%N false);
    HEnv (EBeWrite Snapshot 6%N (ex_content (Snapshot, 6%N)));
    HEnv (EPlant Index 2%N [2%N]);
    HStep (CAccess SnapLatest Snapshot [] [6%N]);
    HStep (CAccess IndexOnlyFullTrees Index [] [2%N]);
    HStep (CWrite Index 8%N false (ex_content (Index, 8%N)));
    HStep (CWrite Snapshot 7%N false (ex_content (Snapshot, 7%N)));
    HStep (CAccess StreamAll Snapshot [] [7%N]) ].

Example ex_commands :
  forallb good_item ex_history = true /\
  Forall (op_honest ex_content) (history_ops ex_history) /\
  fst (run_c (history_ops ex_history) (mkst ex_cache ex_be)) = fst (run_u (history_ops ex_history) ex_be) /\
  (* not vacuous: the truncated snapshot 1 would have been served without the listing *)
  In (RData (Some (ex_content (Snapshot, 1%N)))) (fst (run_c (history_ops ex_history) (mkst ex_cache ex_be))).
Proof.
  split; [vm_compute; reflexivity|]. split.
  - vm_compute. repeat match goal with |- Forall _ _ => constructor end; try exact I; try reflexivity.
    right. simpl. lia.
  - split; [vm_compute; reflexivity|]. vm_compute. tauto.
Qed.

(* the un-listed reader: the stale snapshot 3 of ex_cache read by its full id *)
Example ex_explicit_id :
  unlisted_access (CAccess SnapFromStrId Snapshot [] [3%N]) = true /\
  fst (run_c (cstep_ops (CAccess SnapFromStrId Snapshot [] [3%N])) (mkst ex_cache ex_be)) = [RData (Some (ex_content (Snapshot, 3%N)))] /\
  fst (run_u (cstep_ops (CAccess SnapFromStrId Snapshot [] [3%N])) ex_be) = [RData None].
Proof. vm_compute. auto. Qed.

(* check with a stale (4), a truncated (5) and a good (6) tree pack in the cache *)
Definition ex_be_packs : fmap :=
  ex_be ++ [((Pack, 5%N), ex_content (Pack, 5%N)); ((Pack, 6%N), ex_content (Pack, 6%N))].
Definition ex_cache_packs : cache :=
  mkcache (files ex_cache ++ [((Pack, 4%N), ex_content (Pack, 4%N)); ((Pack, 5%N), [5%N]); ((Pack, 6%N), ex_content (Pack, 6%N))]) [].
Example ex_check :
  let pre := [HStep (CListSize Snapshot []); HStep (CListSize Index []); HStep (CAccess StreamAll Index [] [2%N])] in
  let l := [(5%N, 3%nat); (6%N, 3%nat)] in
  let post := [OReadPartial Pack 5%N true 1 2; OReadPartial Pack 6%N true 0 3; OReadPartial Pack 4%N true 0 1; OReadFull Pack 5%N] in
  forallb good_item pre = true /\ PacksListed l (snd (run_u (history_ops pre) ex_be_packs)) /\
  forallb pack_read post = true /\
  fst (run_c (history_ops pre ++ OCleanPacks l [] :: post) (mkst ex_cache_packs ex_be_packs)) =
  fst (run_u (history_ops pre ++ OCleanPacks l [] :: post) ex_be_packs) /\
  files (cch (snd (run_c (history_ops pre ++ [OCleanPacks l []]) (mkst ex_cache_packs ex_be_packs)))) =
    [((Index, 2%N), ex_content (Index, 2%N)); ((Pack, 6%N), ex_content (Pack, 6%N))].
Proof.
  cbv zeta. split; [vm_compute; reflexivity|]. split.
  - intros i n H. simpl in H. destruct H as [H|[H|[]]]; inv H; vm_compute; eauto.
  - split; [vm_compute; reflexivity|]. split; vm_compute; reflexivity.
Qed.

(* the steps of ex_history are steps of forget, backup and prune *)
Example ex_cmd_items : Forall cmd_item ex_history.
Proof.
  unfold ex_history.
  repeat (constructor;
          [first [ reflexivity
                 | exists CmdForgetAll; split; vm_compute; reflexivity
                 | exists CmdBackup; split; vm_compute; reflexivity
                 | exists CmdPrune; split; vm_compute; reflexivity ] |]).
  constructor.
Qed.

(* tree-pack reads without clean-up: pack 5 truncated, pack 6 good, pack 4 stale (not read) *)
Example ex_indexed_pack_reads :
  let ops := [OReadPartial Pack 5%N true 1 2; OReadPartial Pack 5%N true 0 1; OReadPartial Pack 6%N true 2 1; OReadPartial Pack 6%N false 0 9] in
  BeHonest ex_content ex_be_packs /\ PackPrefix ex_content ex_cache_packs /\ Forall (indexed_pack_read ex_be_packs) ops /\
  fst (run_c ops (mkst ex_cache_packs ex_be_packs)) = [RData (Some [7%N; 7%N]); RData (Some [5%N]); RData (Some [7%N]); RData None].
Proof.
  cbv zeta. split.
  - intros k d H. unfold ex_be_packs, ex_be in H. simpl in H. repeat (destruct H as [H|H]; [inv H; reflexivity|]). contradiction.
  - split.
    + intros i d F. simpl in F.
      repeat match type of F with (if ?b then _ else _) = _ => destruct b eqn:? end; try discriminate; inv F;
      match goal with H : key_eqb _ _ = true |- _ => apply key_eqb_eq in H; inv H end;
      [exists [] | exists [7%N; 7%N] | exists []]; reflexivity.
    + split; [|vm_compute; reflexivity].
      repeat constructor; simpl; try lia; discriminate.
Qed.

(* check with trust_cache: a foreign, longer file under the id of tree pack 5 is still evicted
   by the size-based clean-up before the trees are read *)
Example ex_check_trust_cache :
  let c := mkcache [((Pack, 5%N), [9%N; 9%N; 9%N; 9%N; 9%N])] [] in
  let l := [(5%N, 3%nat); (6%N, 3%nat)] in
  let ops := check_cleanup true l [] ++ [OReadPartial Pack 5%N true 0 3] in
  CacheFaulty ex_content c /\
  fst (run_c ops (mkst c ex_be_packs)) = fst (run_u ops ex_be_packs) /\
  fst (run_c [OReadPartial Pack 5%N true 0 3] (mkst c ex_be_packs)) <> fst (run_u [OReadPartial Pack 5%N true 0 3] ex_be_packs).
Proof.
  cbv zeta. split.
  - intros k d F. right. simpl in F. destruct (key_eqb k (Pack, 5%N)) eqn:E; [|discriminate].
    apply key_eqb_eq in E. subst k. inv F. simpl. lia.
  - split; vm_compute; [reflexivity | discriminate].
Qed.
