(* C19 — property theorems.  Nothing but statements closed by `exact`, each followed by
   Print Assumptions.  Model.v mirrors backend/cache.rs (Cache + CachedBackend) over a
   backend that is an exact finite map; `is_cacheable`, the guards of the five
   CachedBackend methods and `early_exit` are regenerated from the source into
   Extracted.v on every run.  `content` (the byte string a name stands for: ids are
   content hashes) is universally quantified; nothing is assumed about it. *)
From Verif.Base Require Import Tactics.
From Verif.C19 Require Import Types Extracted Model Spec Proofs Commands ProofsList ProofsStep ProofsTop ProofsStray ProofsCmd Examples.

(* If every cached file equals the backend file of the same name, then EVERY sequence of
   operations of the cached handle (reads, partial reads, writes, removes, listings,
   check's pack clean-up) returns exactly what the same sequence returns without a cache,
   leaves the same backend contents, and the cache is coherent again afterwards. *)
Theorem coherent_reads_equal : forall content ops c be,
  BeHonest content be -> Coherent c be ->
  Forall (op_honest content) ops -> forallb own_op ops = true ->
  fst (run_c ops (mkst c be)) = fst (run_u ops be) /\
  bke (snd (run_c ops (mkst c be))) = snd (run_u ops be) /\
  Coherent (cch (snd (run_c ops (mkst c be)))) (snd (run_u ops be)).
Proof. exact coherent_reads_equal_lemma. Qed.
Print Assumptions coherent_reads_equal.

(* After list_with_size t of a cacheable type, whatever the cache directory held before
   (stale, foreign, truncated, wrong-size files at canonical paths; 64-hex files anywhere
   else): the listing is the backend's, the backend is untouched, every remaining cached
   file of type t equals the backend file of that name and is listed with its size,
   nothing was added to the cache and other types are untouched. *)
Theorem listing_restores_coherence : forall content c be t ord,
  is_cacheable t = true -> BeHonest content be -> CacheFaulty content c ->
  let r := cb_list (mkst c be) t ord in
  fst r = RList (be_list be t) /\ bke (snd r) = be /\
  CoherentT t (cch (snd r)) be /\
  (forall i d, find (t, i) (files (cch (snd r))) = Some d -> In (i, length d) (be_list be t)) /\
  cache_le (cch (snd r)) c /\
  (forall t' i, t' <> t -> find (t', i) (files (cch (snd r))) = find (t', i) (files c)).
Proof. exact listing_restores_coherence_lemma. Qed.
Print Assumptions listing_restores_coherence.


(* ... and the listing removes nothing else: a cached file that equals the repository file
   stays cached (the cache keeps working as a cache). *)
Theorem listing_keeps_good : forall content c be t ord i d,
  is_cacheable t = true -> BeHonest content be ->
  find (t, i) (files c) = Some d -> find (t, i) be = Some d ->
  find (t, i) (files (cch (snd (cb_list (mkst c be) t ord)))) = Some d.
Proof. exact listing_keeps_good_lemma. Qed.
Print Assumptions listing_keeps_good.

(* The pattern every command uses for snapshots and index files: list, then any number of
   operations of this handle on files of that type — transparent from ANY cache state of
   the fault list. *)
Theorem list_then_read_transparent : forall content c be t ord ops,
  is_cacheable t = true -> BeHonest content be -> CacheFaulty content c ->
  Forall (op_honest content) ops ->
  forallb (fun o => own_op o && ft_eqb (op_type o) t) ops = true ->
  fst (run_c (OList t ord :: ops) (mkst c be)) = fst (run_u (OList t ord :: ops) be) /\
  bke (snd (run_c (OList t ord :: ops) (mkst c be))) = snd (run_u (OList t ord :: ops) be).
Proof. exact list_then_read_transparent_lemma. Qed.
Print Assumptions list_then_read_transparent.

(* The general form: ANY history that interleaves the cached handle with another handle
   adding / removing backend files and with files appearing in / disappearing from the
   cache directory is transparent, provided every read that can be served from the cache
   is preceded by a listing of its type with no removal / planting of that type in between
   (`disciplined`, an executable check evaluated by the correspondence on every case). *)
Theorem disciplined_history_transparent : forall content ops coh c be,
  BeHonest content be -> CacheFaulty content c -> CoherentOn coh c be ->
  Forall (op_honest content) ops -> disciplined coh ops = true ->
  fst (run_c ops (mkst c be)) = fst (run_u ops be) /\
  bke (snd (run_c ops (mkst c be))) = snd (run_u ops be).
Proof. exact history_transparent_lemma. Qed.
Print Assumptions disciplined_history_transparent.

(* The backend contents never depend on the cache at all (no premise). *)
Theorem backend_independent_of_cache : forall o s, bke (snd (step_c o s)) = snd (step_u o (bke s)).
Proof. exact step_be. Qed.
Print Assumptions backend_independent_of_cache.

(* Cached tree packs: not cleaned by listings, never used for full reads; a truncated one is
   harmless (reads inside the remaining prefix are right, reads past it fall through and
   repair it); check's clean-up leaves only packs of the given list with the listed size. *)
Theorem tree_pack_cache :
  (forall s ord, cch (snd (cb_list s Pack ord)) = cch s) /\
  (forall s i, cb_read_full s Pack i = (RData (be_read_full (bke s) Pack i), s)) /\
  (forall c be i dc d off len,
     find (Pack, i) (files c) = Some dc -> find (Pack, i) be = Some d -> is_prefix dc d -> (0 < len)%nat ->
     let r := cb_read_partial (mkst c be) Pack i true off len in
     fst r = RData (be_read_partial be Pack i off len) /\
     ((length dc < off + len)%nat -> find (Pack, i) (files (cch (snd r))) = Some d)) /\
  (forall c l ord i d,
     find (Pack, i) (files (fst (remove_not_in_list c Pack l ord))) = Some d -> In (i, length d) l).
Proof. exact tree_pack_cache_lemma. Qed.
Print Assumptions tree_pack_cache.

(* ... and what is NOT guaranteed: a same-size corruption of a cached tree pack is served. *)
Theorem tree_pack_same_size_corruption_served :
  exists c be i off len,
    (exists dc d, find (Pack, i) (files c) = Some dc /\ find (Pack, i) be = Some d /\ length dc = length d) /\
    fst (cb_read_partial (mkst c be) Pack i true off len) <> RData (be_read_partial be Pack i off len).
Proof. exact tree_pack_same_size_corruption_served_lemma. Qed.
Print Assumptions tree_pack_same_size_corruption_served.

(* The premises are needed (non-vacuity of the discipline): a read of a file another handle
   removed, without a listing in between, is served from the cache. *)
Theorem undisciplined_read_differs :
  exists ops c be, Coherent c be /\ fst (run_c ops (mkst c be)) <> fst (run_u ops be).
Proof. exact undisciplined_read_differs_lemma. Qed.
Print Assumptions undisciplined_read_differs.

(* Files with a 64-hex name that are not at <dirname>/<hex[0..2]>/<hex> are inert: two cache
   directories with the same canonical files give the same results, the same canonical files
   and the same backend for EVERY history (rests on the extracted fact that
   Cache::list_with_size reports canonical files only). *)
Theorem strays_inert : forall ops c c' be,
  files c = files c' ->
  fst (run_c ops (mkst c be)) = fst (run_c ops (mkst c' be)) /\
  files (cch (snd (run_c ops (mkst c be)))) = files (cch (snd (run_c ops (mkst c' be)))) /\
  bke (snd (run_c ops (mkst c be))) = bke (snd (run_c ops (mkst c' be))).
Proof. exact strays_inert_lemma. Qed.
Print Assumptions strays_inert.

(* ------------------------------------------------------------------ command level *)

(* The access pattern of the generic readers, regenerated from the source (decrypt.rs,
   backend.rs, snapshotfile.rs, index.rs, cat.rs): exactly these six read a file of the given
   type without listing the type first — a caller-supplied id list, or an explicitly given
   full id; every other reader (stream_all, find_starts_with, find_ids with a prefix, latest,
   from_str / from_strs with "latest" or a prefix, update_from_backend, GlobalIndex::new /
   only_full_trees, cat_file with a prefix) lists first. *)
Theorem unlisted_readers : forall r,
  (rdr_reads r = true /\ rdr_lists_first r = false) <->
  In r [StreamList; GetFile; SnapFromStrId; SnapFromStrsIdsOnly; SnapUpdateFromIdsFull; CatFileFull].
Proof. exact unlisted_readers_lemma. Qed.
Print Assumptions unlisted_readers.

(* Every history made of whole command steps — accesses through listing readers, direct
   listings, writes, removals, uncached partial reads — interleaved at step boundaries with
   anything another process does to the repository or to the cache directory, satisfies the
   executable discipline, from ANY ghost state.  (Rests on the extracted facts
   rdr_lists_first and list_reaches_cleanup: ReadBackend::list ends in
   CachedBackend::list_with_size.) *)
Theorem commands_are_disciplined : forall h coh,
  forallb good_item h = true -> disciplined coh (history_ops h) = true.
Proof. exact commands_are_disciplined_lemma. Qed.
Print Assumptions commands_are_disciplined.

(* ... hence such histories are transparent from ANY cache state of the fault list (stale,
   foreign, truncated, wrong-size, misplaced files): same results, same backend. *)
Theorem commands_transparent : forall content h c be,
  BeHonest content be -> CacheFaulty content c ->
  Forall (op_honest content) (history_ops h) -> forallb good_item h = true ->
  fst (run_c (history_ops h) (mkst c be)) = fst (run_u (history_ops h) be) /\
  bke (snd (run_c (history_ops h) (mkst c be))) = snd (run_u (history_ops h) be).
Proof. exact commands_transparent_lemma. Qed.
Print Assumptions commands_transparent.

(* The un-listed readers: a read of an explicitly given id of a cacheable type returns what
   the backend returns if and only if the cache has no file of that name or one that equals
   the backend's. *)
Theorem explicit_id_read_spec : forall c be t i,
  is_cacheable t = true ->
  (fst (cb_read_full (mkst c be) t i) = RData (be_read_full be t i) <->
   (forall d, find (t, i) (files c) = Some d -> find (t, i) be = Some d)).
Proof. exact explicit_id_read_spec_lemma. Qed.
Print Assumptions explicit_id_read_spec.

(* ... and the property fails there (KNOWN FINDING explicit-id-read-of-removed-file): a
   snapshot that another process removed is still returned by its full id through the
   cached handle; all premises of commands_transparent hold except good_item. *)
Theorem explicit_id_read_refuted :
  exists content h c be,
    BeHonest content be /\ CacheFaulty content c /\ Forall (op_honest content) (history_ops h) /\
    Forall (fun x => match x with HStep s => unlisted_access s = true | HEnv _ => False end) h /\
    fst (run_c (history_ops h) (mkst c be)) <> fst (run_u (history_ops h) be).
Proof. exact explicit_id_read_refuted_lemma. Qed.
Print Assumptions explicit_id_read_refuted.

(* check: after any good history (its listings and reads of snapshot and index files), the
   pack clean-up with the tree packs of the index (which check_packs has just compared with
   the pack listing: PacksListed) makes the cached tree packs coherent: the reads of tree
   packs (partial, cacheable) and of packs in full that follow are transparent — from any
   cache state, including stale, foreign, truncated and longer tree packs, and for EITHER value
   of CheckOptions::trust_cache: check_cleanup is the clean-up as guarded in the source (fact
   pack_cleanup_needs_untrusted regenerated from check_repository: the guard is the presence of
   a cache only; trust_cache only switches the content comparison off). *)
Theorem check_tree_packs_transparent : forall content trust_cache pre l ord post c be,
  BeHonest content be -> CacheFaulty content c ->
  forallb good_item pre = true ->
  Forall (op_honest content) (history_ops pre) -> Forall (op_honest content) post ->
  PacksListed l (snd (run_u (history_ops pre) be)) ->
  forallb pack_read post = true ->
  let ops := history_ops pre ++ check_cleanup trust_cache l ord ++ post in
  fst (run_c ops (mkst c be)) = fst (run_u ops be) /\
  bke (snd (run_c ops (mkst c be))) = snd (run_u ops be).
Proof. exact check_tree_packs_transparent_lemma. Qed.
Print Assumptions check_tree_packs_transparent.

(* The commands of the property.  cmd_readers (regenerated from the command bodies: backup's
   get_parent + to_indexed_ids, get_all_snapshots / get_snapshots + delete_snapshots for forget,
   prune's index reading and find_used_blobs, check) lists first in every reader, except when
   snapshots are named by full ids only (explicit parents of backup, forget <full id>). *)
Theorem listing_commands : forall c,
  listing_cmd c = true <-> (c <> CmdBackupParentFullIds /\ c <> CmdForgetFullIds).
Proof. exact listing_commands_lemma. Qed.
Print Assumptions listing_commands.

(* ... hence every history of steps of backup / forget / prune / check (any variant but the
   two full-id ones), performed by the cached handle while another handle changes the
   repository and files appear in the cache directory between the steps, returns the same
   results and leaves the same repository contents as without cache. *)
Theorem command_histories_transparent : forall content h c be,
  BeHonest content be -> CacheFaulty content c ->
  Forall (op_honest content) (history_ops h) -> Forall cmd_item h ->
  fst (run_c (history_ops h) (mkst c be)) = fst (run_u (history_ops h) be) /\
  bke (snd (run_c (history_ops h) (mkst c be))) = snd (run_u (history_ops h) be).
Proof. exact command_histories_transparent_lemma. Qed.
Print Assumptions command_histories_transparent.

(* Tree packs outside check (backup's parent trees, prune's and restore's tree walks): no
   listing ever cleans them, but a command only reads packs that its index names, i.e. packs
   the repository has.  For those, with cached packs that are the honest content or a
   truncation of it (stale and truncated files; a stale pack that the repository still has
   is the same pack), every sequence of partial reads is transparent and the cache keeps the
   invariant — without any clean-up. *)
Theorem indexed_pack_reads_transparent : forall content ops c be,
  BeHonest content be -> PackPrefix content c -> Forall (indexed_pack_read be) ops ->
  fst (run_c ops (mkst c be)) = fst (run_u ops be) /\
  bke (snd (run_c ops (mkst c be))) = be /\ snd (run_u ops be) = be.
Proof. exact indexed_pack_reads_transparent_lemma. Qed.
Print Assumptions indexed_pack_reads_transparent.
