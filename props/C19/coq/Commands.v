(* C19 — commands as sequences of generic-reader accesses (definitions only).
   A command touches snapshot and index files only through the generic readers of
   Types.rdr (access pattern regenerated from the source: does the reader list the type,
   through ReadBackend::list -> CachedBackend::list_with_size, before it reads?), through
   direct list_with_size calls, writes (save_file, pack upload) and removals (delete_list). *)
From Verif.Base Require Import Tactics.
From Verif.C19 Require Import Types Extracted Model Spec.

Inductive cstep :=
| CAccess (r : rdr) (t : ftype) (ord : list id) (ids : list id)  (* reader r on type t, reading the files ids *)
| CListSize (t : ftype) (ord : list id)                           (* list_with_size (check, prune, repoinfo) *)
| CWrite (t : ftype) (i : id) (c : bool) (d : bytes)              (* a successful write_bytes *)
| CRemove (t : ftype) (i : id) (c : bool)                         (* remove (delete_list) *)
| CReadPart (t : ftype) (i : id) (off len : nat).                 (* read_partial, cacheable = false (data packs) *)

(* what reader r does on the cached handle: the listing (which runs the cache clean-up iff
   list_reaches_cleanup), then the reads *)
Definition access_ops (r : rdr) (t : ftype) (ord ids : list id) : list op :=
  (if rdr_lists_first r && list_reaches_cleanup then [OList t ord] else [])
  ++ (if rdr_reads r then map (OReadFull t) ids else []).

Definition cstep_ops (s : cstep) : list op :=
  match s with
  | CAccess r t ord ids => access_ops r t ord ids
  | CListSize t ord => [OList t ord]
  | CWrite t i c d => [OWrite t i c true d]
  | CRemove t i c => [ORemove t i c]
  | CReadPart t i off len => [OReadPartial t i false off len]
  end.

(* the class of accesses outside the guarantee: a read of an explicitly given id of a
   cacheable type by a reader that does not list first *)
Definition unlisted_access (s : cstep) : bool :=
  match s with
  | CAccess r t _ _ => is_cacheable t && rdr_reads r && negb (rdr_lists_first r)
  | CReadPart t _ _ _ => is_cacheable t
  | _ => false
  end.

Definition env_op (o : op) : bool :=
  match o with
  | EBeWrite _ _ _ | EBeRemove _ _ | EPlant _ _ _ | EPlantStray _ _ _ | EUnplant _ _ => true
  | _ => false
  end.

(* a history: whole command steps of the cached handle, and between them anything another
   process does to the repository or to the cache directory *)
Inductive hitem := HStep (s : cstep) | HEnv (o : op).
Definition item_ops (x : hitem) : list op := match x with HStep s => cstep_ops s | HEnv o => [o] end.
Definition history_ops (h : list hitem) : list op := flat_map item_ops h.
Definition good_item (x : hitem) : bool :=
  match x with HStep s => negb (unlisted_access s) | HEnv o => env_op o end.

(* the index agrees with the repository about the tree packs handed to check's clean-up
   (what check_packs verifies just before) *)
Definition PacksListed (l : list (id * nat)) (be : fmap) : Prop :=
  forall i n, In (i, n) l -> exists d, find (Pack, i) be = Some d /\ length d = n.

(* reads of tree packs and of packs in full (check_trees / read_data) *)
Definition pack_read (o : op) : bool :=
  match o with
  | OReadPartial Pack _ _ _ _ | OReadFull Pack _ => true
  | _ => false
  end.

(* ---- the commands of the property ---- *)
(* s is a step command c can make w.r.t. snapshot / index files: an access through one of
   the readers the source uses in c, a direct listing, a write, a removal, a partial read of a
   type that is never cached by type *)
Definition step_of (c : cmd) (s : cstep) : bool :=
  match s with
  | CAccess r t _ _ => existsb (fun p => rdr_beq (fst p) r && ft_eqb (snd p) t) (cmd_readers c)
  | CReadPart t _ _ _ => negb (is_cacheable t)
  | _ => true
  end.

(* every reader of c that reads a cacheable type lists it first *)
Definition listing_cmd (c : cmd) : bool :=
  forallb (fun p => negb (is_cacheable (snd p) && rdr_reads (fst p) && negb (rdr_lists_first (fst p)))) (cmd_readers c).

Definition cmd_item (x : hitem) : Prop :=
  match x with
  | HStep s => exists c, listing_cmd c = true /\ step_of c s = true
  | HEnv o => env_op o = true
  end.

(* ---- tree packs outside check ---- *)
(* the fault list for cached packs: the honest content (possibly of a pack the repository no
   longer has) or a truncation of it *)
Definition PackPrefix (content : key -> bytes) (c : cache) : Prop :=
  forall i d, find (Pack, i) (files c) = Some d -> is_prefix d (content (Pack, i)).
(* a partial read (any cacheable flag) of at least one byte of a pack the repository has —
   the packs a command reads are those its freshly read index names *)
Definition indexed_pack_read (be : fmap) (o : op) : Prop :=
  match o with
  | OReadPartial Pack i _ _ len => (0 < len)%nat /\ find (Pack, i) be <> None
  | _ => False
  end.

(* ---- check's options ---- *)
(* check_repository's clean-up of the cached packs against the tree packs of the index, as a
   function of CheckOptions::trust_cache: it runs unless the guard regenerated from the source
   names !opts.trust_cache (pack_cleanup_needs_untrusted) and the option is set.  (read_data
   only adds full reads of packs, which never use the cache.) *)
Definition check_cleanup (trust_cache : bool) (l : list (id * nat)) (ord : list id) : list op :=
  if pack_cleanup_needs_untrusted && trust_cache then [] else [OCleanPacks l ord].
