(* C19 — declarative notions used by the theorems. *)
From Verif.Base Require Import Tactics.
From Verif.C19 Require Import Types Extracted Model.

(* every cached file of type t equals the backend file of the same name *)
Definition CoherentT (t : ftype) (c : cache) (be : fmap) : Prop :=
  forall i d, find (t, i) (files c) = Some d -> find (t, i) be = Some d.
Definition Coherent (c : cache) (be : fmap) : Prop := forall t, CoherentT t c be.
Definition CoherentOn (coh : ftype -> bool) (c : cache) (be : fmap) : Prop :=
  forall t, coh t = true -> CoherentT t c be.

(* Content-addressed names: `content k` is the one byte string that an honest writer ever
   stores under the name k. *)
(* every backend file carries the content its name stands for *)
Definition BeHonest (content : key -> bytes) (be : fmap) : Prop :=
  forall k d, In (k, d) be -> d = content k.
(* the fault list of the property: a cached file is either the right content (possibly of a
   file the repository does not or no longer have: stale / foreign) or has a different size
   (truncated, wrong size).  A same-size corruption is outside. *)
Definition CacheFaulty (content : key -> bytes) (c : cache) : Prop :=
  forall k d, find k (files c) = Some d -> d = content k \/ length d <> length (content k).

(* admissible operations: honest writers, planted files from the fault list, reads of at
   least one byte (a zero-length read beyond the end of a file succeeds on a cached file
   and fails on the backend) *)
Definition op_honest (content : key -> bytes) (o : op) : Prop :=
  match o with
  | OWrite t i _ _ d | EBeWrite t i d => d = content (t, i)
  | EPlant t i d => d = content (t, i) \/ length d <> length (content (t, i))
  | OReadPartial _ _ _ _ len => (0 < len)%nat
  | _ => True
  end.

(* operations of the cached handle itself: successful backend writes, removals that
   carry the flag under which the file may have been cached *)
Definition own_op (o : op) : bool :=
  match o with
  | OReadFull _ _ | OReadPartial _ _ _ _ _ | OList _ _ | OCleanPacks _ _ => true
  | OWrite _ _ _ okb _ => okb
  | ORemove t _ c => guard_remove t c
  | _ => false
  end.

Definition cache_le (c' c : cache) : Prop :=
  forall k d, find k (files c') = Some d -> find k (files c) = Some d.

Definition is_prefix (a b : bytes) : Prop := exists r, b = a ++ r.
