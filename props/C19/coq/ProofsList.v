(* C19 — Cache::remove_not_in_list: what a listing leaves in the cache. *)
From Verif.Base Require Import Tactics.
From Verif.C19 Require Import Types Extracted Model Spec Proofs.

Local Opaque early_exit.

Lemma ft_eqb_sym a b : ft_eqb a b = ft_eqb b a.
Proof. destruct a, b; reflexivity. Qed.

Lemma find_app_some {A} (f : A -> bool) l1 l2 x : List.find f l1 = Some x -> List.find f (l1 ++ l2) = Some x.
Proof. induction l1 as [|a l1 IH]; simpl; [discriminate|]. destruct (f a); auto. Qed.

Lemma sizes_of_find t i d m :
  find (t, i) m = Some d -> List.find (fun p => N.eqb (fst p) i) (sizes_of t m) = Some (i, length d).
Proof.
  induction m as [|[[t' i'] v] m IH]; simpl; [discriminate|].
  unfold key_eqb. simpl. rewrite (ft_eqb_sym t t').
  destruct (ft_eqb t' t) eqn:E1; simpl.
  - rewrite (N.eqb_sym i i'). destruct (N.eqb i' i) eqn:E2.
    + apply N.eqb_eq in E2. subst. intro H. inv H. reflexivity.
    + exact IH.
  - exact IH.
Qed.

Lemma c_list_find c t i d : find (t, i) (files c) = Some d -> lc_find i (c_list c t) = Some (length d).
Proof.
  intro H. unfold lc_find, c_list. erewrite find_app_some; [|apply sizes_of_find; exact H]. reflexivity.
Qed.

Lemma lc_find_del_other i j lc : i <> j -> lc_find i (lc_del j lc) = lc_find i lc.
Proof.
  intro N. unfold lc_find, lc_del. induction lc as [|[k n] lc IH]; simpl; [reflexivity|].
  destruct (N.eqb k j) eqn:E; simpl.
  - apply N.eqb_eq in E. subst. destruct (N.eqb j i) eqn:E2; [apply N.eqb_eq in E2; congruence | exact IH].
  - destruct (N.eqb k i); [reflexivity | exact IH].
Qed.

Lemma lc_find_keys i lc n : lc_find i lc = Some n -> In i (map fst lc).
Proof.
  unfold lc_find. destruct (List.find (fun p => N.eqb (fst p) i) lc) as [p|] eqn:F; [|discriminate].
  intros _. apply find_some in F. destruct F as [I E]. apply N.eqb_eq in E. subst.
  apply in_map. exact I.
Qed.

Lemma memb_In i l : memb i l = true <-> In i l.
Proof.
  unfold memb. rewrite existsb_exists. split.
  - intros [x [I E]]. apply N.eqb_eq in E. subst. exact I.
  - intro I. exists i. split; [exact I | apply N.eqb_refl].
Qed.

Lemma dedup_In x l : In x (dedup l) <-> In x l.
Proof.
  induction l as [|a l IH]; simpl; [tauto|].
  rewrite filter_In, IH. destruct (N.eq_dec a x) as [->|N].
  - tauto.
  - split; [tauto|]. intros [H|H]; [tauto|]. right. split; [exact H|].
    apply negb_true_iff. apply N.eqb_neq. congruence.
Qed.

Lemma order_by_In ord ids i : In i ids -> In i (order_by ord ids).
Proof.
  intro H. unfold order_by. apply dedup_In. apply in_or_app.
  destruct (memb i ord) eqn:M.
  - left. apply filter_In. split; [apply memb_In; exact M | apply memb_In; exact H].
  - right. apply filter_In. split; [exact H | rewrite M; reflexivity].
Qed.

Lemma sizes_of_In t i n m : In (i, n) (sizes_of t m) -> exists d, In ((t, i), d) m /\ length d = n.
Proof.
  unfold sizes_of. rewrite in_flat_map. intros [[[t' i'] v] [I H]]. simpl in H.
  destruct (ft_eqb t' t) eqn:E; [|contradiction]. apply ft_eqb_eq in E. subst.
  destruct H as [H|[]]. inv H. eauto.
Qed.

Lemma ins_sorted_In x y l : In x (ins_sorted y l) -> x = y \/ In x l.
Proof.
  induction l as [|a l IH]; simpl; [intuition|].
  destruct (N.leb (fst y) (fst a)); simpl; [intuition|]. intros [H|H]; [auto|]. apply IH in H. intuition.
Qed.
Lemma sort_ids_In x l : In x (sort_ids l) -> In x l.
Proof.
  induction l as [|a l IH]; simpl; [tauto|]. intro H. apply ins_sorted_In in H. intuition.
Qed.
Lemma ins_sorted_In' x y l : x = y \/ In x l -> In x (ins_sorted y l).
Proof.
  induction l as [|a l IH]; simpl; [intuition|].
  destruct (N.leb (fst y) (fst a)); simpl; intuition.
Qed.
Lemma sort_ids_In' x l : In x l -> In x (sort_ids l).
Proof.
  induction l as [|a l IH]; simpl; [tauto|]. intro H. apply ins_sorted_In'. intuition.
Qed.


(* ------------------------------------------------------------------ nothing that agrees with the list is removed *)
Lemma lc_find_del_same i lc : lc_find i (lc_del i lc) = None.
Proof.
  unfold lc_find, lc_del. induction lc as [|[k n] lc IH]; simpl; [reflexivity|].
  destruct (N.eqb k i) eqn:E; simpl; [exact IH|]. rewrite E. exact IH.
Qed.

Lemma lc_find_none_keys i lc : lc_find i lc = None -> ~ In i (map fst lc).
Proof.
  unfold lc_find. destruct (List.find (fun p => N.eqb (fst p) i) lc) eqn:F; [discriminate|].
  intros _ I. apply in_map_iff in I. destruct I as [p [E I]].
  pose proof (find_none _ _ F p I) as Q. simpl in Q. subst i. rewrite N.eqb_refl in Q. discriminate.
Qed.

Lemma order_by_In_inv ord ids i : In i (order_by ord ids) -> In i ids.
Proof.
  unfold order_by. rewrite dedup_In. intro H. apply in_app_or in H. destruct H as [H|H].
  - apply filter_In in H. apply memb_In. tauto.
  - apply filter_In in H. tauto.
Qed.

Lemma sizes_of_In' t i d m : In ((t, i), d) m -> In (i, length d) (sizes_of t m).
Proof.
  intro H. unfold sizes_of. apply in_flat_map. exists ((t, i), d). split; [exact H|].
  simpl. rewrite ft_eqb_refl. left. reflexivity.
Qed.

Lemma phase2_keeps t ids : forall c c2 ok i,
  phase2 c t ids = (c2, ok) -> ~ In i ids -> find (t, i) (files c2) = find (t, i) (files c).
Proof.
  induction ids as [|j ids IH]; intros c c2 ok i H N; simpl in H; [inv H; reflexivity|].
  assert (Nj : key_eqb (t, i) (t, j) = false) by (apply key_eqb_neq; intro E; inv E; apply N; left; reflexivity).
  assert (Ni : ~ In i ids) by (intro I; apply N; right; exact I).
  destruct (c_remove c t j) as [c'|] eqn:R.
  - rewrite (IH _ _ _ _ H Ni). eapply c_remove_other; eassumption.
  - destruct early_exit; [inv H; reflexivity|].
    destruct (phase2 c t ids) as [c3 o3] eqn:P. inv H. eapply IH; eassumption.
Qed.

Section NoEarlyExit.
Hypothesis Hee : early_exit = false.

Lemma phase1_spec t l : forall c lc c1 lc1 ok,
  phase1 c t l lc = (c1, lc1, ok) ->
  forall i d, find (t, i) (files c1) = Some d -> lc_find i lc = Some (length d) ->
  lc_find i lc1 = Some (length d) \/ In (i, length d) l.
Proof.
  induction l as [|[j sz] l IH]; intros c lc c1 lc1 ok H i d F L; simpl in H.
  - inv H. left. exact L.
  - destruct (lc_find j lc) as [csz|] eqn:Lj.
    + destruct (N.eq_dec i j) as [->|N].
      * (* the entry under test *)
        rewrite L in Lj. inv Lj.
        destruct (length d =? sz)%nat eqn:E.
        { apply Nat.eqb_eq in E. right. left. congruence. }
        exfalso. destruct (c_remove c t j) as [c'|] eqn:R.
        { apply phase1_shrinks in H. apply (sh_le _ _ _ H) in F.
          rewrite (c_remove_gone _ _ _ _ R) in F. discriminate. }
        rewrite Hee in H. destruct (phase1 c t l (lc_del j lc)) as [[c2 lc2] o2] eqn:P. inv H.
        apply phase1_shrinks in P. apply (sh_le _ _ _ P) in F.
        rewrite (c_remove_none _ _ _ R) in F. discriminate.
      * assert (L' : lc_find i (lc_del j lc) = Some (length d)) by (rewrite lc_find_del_other; assumption).
        assert (K : forall c0 o0, phase1 c0 t l (lc_del j lc) = (c1, lc1, o0) ->
                    lc_find i lc1 = Some (length d) \/ In (i, length d) ((j, sz) :: l)).
        { intros c0 o0 P. destruct (IH _ _ _ _ _ P i d F L'); [left | right; right]; assumption. }
        destruct (csz =? sz)%nat; [eapply K; eassumption|].
        destruct (c_remove c t j) as [c'|]; [eapply K; eassumption|].
        rewrite Hee in H. destruct (phase1 c t l (lc_del j lc)) as [[c2 lc2] o2] eqn:P. inv H.
        eapply K; eassumption.
    + destruct (IH _ _ _ _ _ H i d F L); [left | right; right]; assumption.
Qed.

Lemma phase2_spec t ids : forall c c2 ok,
  phase2 c t ids = (c2, ok) -> forall i, In i ids -> find (t, i) (files c2) = None.
Proof.
  induction ids as [|j ids IH]; intros c c2 ok H i I; simpl in H; [contradiction|].
  destruct (c_remove c t j) as [c'|] eqn:R.
  - destruct I as [->|I]; [|eapply IH; eassumption].
    apply phase2_shrinks in H. destruct (find (t, i) (files c2)) eqn:F; [|reflexivity].
    apply (sh_le _ _ _ H) in F. rewrite (c_remove_gone _ _ _ _ R) in F. discriminate.
  - rewrite Hee in H. destruct (phase2 c t ids) as [c3 o3] eqn:P. inv H.
    destruct I as [->|I]; [|eapply IH; eassumption].
    apply phase2_shrinks in P. destruct (find (t, i) (files c2)) eqn:F; [|reflexivity].
    apply (sh_le _ _ _ P) in F. rewrite (c_remove_none _ _ _ R) in F. discriminate.
Qed.

(* after remove_not_in_list(t, l): every remaining cache file of type t is named in l
   with exactly its size *)
Lemma rnl_spec c t l ord i d :
  find (t, i) (files (fst (remove_not_in_list c t l ord))) = Some d -> In (i, length d) l.
Proof.
  unfold remove_not_in_list.
  destruct (phase1 c t l (c_list c t)) as [[c1 lc1] ok1] eqn:P1.
  rewrite Hee. simpl.
  destruct (phase2 c1 t (order_by ord (map fst lc1))) as [c2 ok2] eqn:P2. simpl. intro F.
  pose proof (phase2_shrinks _ _ _ _ _ P2) as S2. pose proof (phase1_shrinks _ _ _ _ _ _ _ P1) as S1.
  pose proof (sh_le _ _ _ S2 _ _ F) as F1. pose proof (sh_le _ _ _ S1 _ _ F1) as F0.
  destruct (phase1_spec _ _ _ _ _ _ _ P1 i d F1 (c_list_find _ _ _ _ F0)) as [L|L]; [|exact L].
  exfalso. apply lc_find_keys in L. apply (order_by_In ord) in L.
  rewrite (phase2_spec _ _ _ _ _ P2 i L) in F. discriminate.
Qed.


Lemma phase1_keeps t l : forall c lc c1 lc1 ok i d,
  phase1 c t l lc = (c1, lc1, ok) ->
  find (t, i) (files c) = Some d ->
  (forall sz, In (i, sz) l -> sz = length d) ->
  (forall n, lc_find i lc = Some n -> n = length d) ->
  find (t, i) (files c1) = Some d /\ (In i (map fst l) \/ lc_find i lc = None -> lc_find i lc1 = None).
Proof.
  induction l as [|[j sz] l IH]; intros c lc c1 lc1 ok i d H F HL HC; simpl in H.
  - inv H. split; [exact F|]. intros [[]|E]; exact E.
  - assert (HL' : forall sz0, In (i, sz0) l -> sz0 = length d) by (intros; apply HL; right; assumption).
    destruct (N.eq_dec j i) as [->|N].
    + (* the entry itself *)
      destruct (lc_find i lc) as [csz|] eqn:Li.
      * rewrite (HC _ eq_refl) in H. rewrite (HL sz (or_introl eq_refl)) in H. rewrite Nat.eqb_refl in H.
        assert (HC' : forall n, lc_find i (lc_del i lc) = Some n -> n = length d)
          by (intros n E; rewrite lc_find_del_same in E; discriminate).
        destruct (IH _ _ _ _ _ _ _ H F HL' HC') as [A B]. split; [exact A|].
        intros _. apply B. right. apply lc_find_del_same.
      * assert (HC2 : forall n, lc_find i lc = Some n -> n = length d) by (intros n E; rewrite Li in E; discriminate).
        destruct (IH _ _ _ _ _ _ _ H F HL' HC2) as [A B]. split; [exact A|]. intros _. apply B. right. exact Li.
    + assert (K : forall c0 o0, find (t, i) (files c0) = Some d ->
                  phase1 c0 t l (lc_del j lc) = (c1, lc1, o0) ->
                  find (t, i) (files c1) = Some d /\
                  (In i (map fst ((j, sz) :: l)) \/ lc_find i lc = None -> lc_find i lc1 = None)).
      { intros c0 o0 F0 P.
        assert (HC' : forall n, lc_find i (lc_del j lc) = Some n -> n = length d)
          by (intros n E; rewrite lc_find_del_other in E by congruence; auto).
        destruct (IH _ _ _ _ _ _ _ P F0 HL' HC') as [A B]. split; [exact A|].
        intros [[E|I]|E]; [simpl in E; congruence | apply B; left; exact I |
                          apply B; right; rewrite lc_find_del_other by congruence; exact E]. }
      destruct (lc_find j lc) as [csz|] eqn:Lj.
      * destruct (csz =? sz)%nat; [eapply K; eassumption|].
        destruct (c_remove c t j) as [c'|] eqn:R.
        { eapply K; [|eassumption]. rewrite (c_remove_other _ _ _ _ (t, i) R); [exact F|].
          apply key_eqb_neq. congruence. }
        rewrite Hee in H. destruct (phase1 c t l (lc_del j lc)) as [[c2 lc2] o2] eqn:P. inv H.
        eapply K; eassumption.
      * destruct (IH _ _ _ _ _ _ _ H F HL' HC) as [A B]. split; [exact A|].
        intros [[E|I]|E]; [simpl in E; congruence | apply B; left; exact I | apply B; right; exact E].
Qed.

Lemma rnl_keeps c t l ord i d :
  find (t, i) (files c) = Some d -> In (i, length d) l -> (forall sz, In (i, sz) l -> sz = length d) ->
  find (t, i) (files (fst (remove_not_in_list c t l ord))) = Some d.
Proof.
  intros F I U. unfold remove_not_in_list.
  destruct (phase1 c t l (c_list c t)) as [[c1 lc1] ok1] eqn:P1.
  rewrite Hee. simpl.
  destruct (phase2 c1 t (order_by ord (map fst lc1))) as [c2 ok2] eqn:P2. simpl.
  assert (HC : forall n, lc_find i (c_list c t) = Some n -> n = length d).
  { intros n E. rewrite (c_list_find _ _ _ _ F) in E. inv E. reflexivity. }
  destruct (phase1_keeps _ _ _ _ _ _ _ _ _ P1 F U HC) as [A B].
  assert (L : lc_find i lc1 = None).
  { apply B. left. change i with (fst (i, length d)). apply in_map. exact I. }
  rewrite (phase2_keeps _ _ _ _ _ i P2); [exact A|].
  intro Q. apply order_by_In_inv in Q. eapply lc_find_none_keys; eassumption.
Qed.

Section Listing.
Variable content : key -> bytes.

Lemma list_coherent c be t ord :
  BeHonest content be -> CacheFaulty content c ->
  CoherentT t (fst (remove_not_in_list c t (be_list be t) ord)) be.
Proof.
  intros HB HC i d F.
  pose proof (rnl_spec _ _ _ _ _ _ F) as L.
  apply sort_ids_In in L. apply sizes_of_In in L. destruct L as [d' [I Len]].
  pose proof (HB _ _ I) as E'. subst d'.
  pose proof (rnl_shrinks c t (be_list be t) ord) as S.
  pose proof (sh_le _ _ _ S _ _ F) as F0.
  destruct (HC _ _ F0) as [E|E]; [|congruence]. subst d.
  destruct (In_find _ _ _ I) as [d'' F'']. rewrite F''. f_equal. eapply BeHonest_find; eassumption.
Qed.

Lemma list_keeps_good c be t ord i d :
  BeHonest content be -> find (t, i) (files c) = Some d -> find (t, i) be = Some d ->
  find (t, i) (files (fst (remove_not_in_list c t (be_list be t) ord))) = Some d.
Proof.
  intros HB F Fb. apply rnl_keeps; [exact F | |].
  - apply sort_ids_In'. apply sizes_of_In'. apply find_In. exact Fb.
  - intros sz I. apply sort_ids_In in I. apply sizes_of_In in I. destruct I as [d' [I L]].
    rewrite (HB _ _ I) in L. rewrite (BeHonest_find _ _ _ _ HB Fb). symmetry. exact L.
Qed.
End Listing.
End NoEarlyExit.
