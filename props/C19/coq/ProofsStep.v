(* C19 — single-step simulation (cached handle vs. no cache) and histories. *)
From Verif.Base Require Import Tactics.
From Verif.C19 Require Import Types Extracted Model Spec Proofs ProofsList.

Local Opaque early_exit.

(* ------------------------------------------------------------------ coherence tools *)
Lemma CoherentT_fill t0 c be t i d :
  find (t, i) be = Some d -> CoherentT t0 c be -> CoherentT t0 (c_write c t i d) be.
Proof.
  intros F H i0 d0 F0. cbn [c_write files] in F0. destruct (key_eqb (t0, i0) (t, i)) eqn:E.
  - apply key_eqb_eq in E. inv E. rewrite find_set_eq in F0. inv F0. exact F.
  - rewrite find_set_neq in F0 by exact E. apply H. exact F0.
Qed.
Lemma CoherentT_write_both t0 c be t i d :
  CoherentT t0 c be -> CoherentT t0 (c_write c t i d) (set (t, i) d be).
Proof.
  intros H i0 d0 F0. cbn [c_write files] in F0. destruct (key_eqb (t0, i0) (t, i)) eqn:E.
  - apply key_eqb_eq in E. inv E. rewrite find_set_eq in F0. inv F0. apply find_set_eq.
  - rewrite find_set_neq in F0 by exact E. rewrite find_set_neq by exact E. apply H. exact F0.
Qed.
Lemma CoherentT_be_ext t0 c be be' :
  (forall i, find (t0, i) be' = find (t0, i) be) -> CoherentT t0 c be -> CoherentT t0 c be'.
Proof. intros E H i d F. rewrite E. apply H. exact F. Qed.
Lemma CoherentT_cache_ext t0 c c' be :
  (forall i, find (t0, i) (files c') = find (t0, i) (files c)) -> CoherentT t0 c be -> CoherentT t0 c' be.
Proof. intros E H i d F. rewrite E in F. apply H. exact F. Qed.

Lemma CoherentT_be_set_honest content t0 c be t i :
  BeHonest content be -> CoherentT t0 c be -> CoherentT t0 c (set (t, i) (content (t, i)) be).
Proof.
  intros HB H i0 d0 F0. apply H in F0. destruct (key_eqb (t0, i0) (t, i)) eqn:E.
  - apply key_eqb_eq in E. inv E. rewrite find_set_eq. f_equal. symmetry. eapply BeHonest_find; eassumption.
  - rewrite find_set_neq by exact E. exact F0.
Qed.
Lemma CoherentT_remove_both t0 c c1 be t i :
  cache_le c1 c -> find (t, i) (files c1) = None ->
  CoherentT t0 c be -> CoherentT t0 c1 (del (t, i) be).
Proof.
  intros L G H i0 d0 F0. destruct (key_eqb (t0, i0) (t, i)) eqn:E.
  - apply key_eqb_eq in E. inv E. rewrite G in F0. discriminate.
  - rewrite find_del_neq by exact E. apply H. apply L. exact F0.
Qed.

Lemma upd_same coh t b : upd coh t b t = b.
Proof. unfold upd. rewrite ft_eqb_refl. reflexivity. Qed.
Lemma upd_other coh t b t' : t' <> t -> upd coh t b t' = coh t'.
Proof. intro N. unfold upd. apply ft_eqb_neq in N. rewrite N. reflexivity. Qed.

Lemma CoherentOn_upd_false coh t c be c' be' :
  CoherentOn coh c be ->
  (forall t', t' <> t -> CoherentT t' c be -> CoherentT t' c' be') ->
  CoherentOn (upd coh t false) c' be'.
Proof.
  intros H K t' E. destruct (ft_eqb t' t) eqn:Q.
  - unfold upd in E. rewrite Q in E. discriminate.
  - unfold upd in E. rewrite Q in E. apply ft_eqb_neq in Q. apply K; [exact Q | apply H; exact E].
Qed.
Lemma CoherentOn_all coh c be c' be' :
  CoherentOn coh c be -> (forall t', CoherentT t' c be -> CoherentT t' c' be') -> CoherentOn coh c' be'.
Proof. intros H K t' E. apply K. apply H. exact E. Qed.

Lemma be_remove_spec be t i :
  be_remove be t i = (match find (t, i) be with Some _ => true | None => false end,
                      match find (t, i) be with Some _ => del (t, i) be | None => be end).
Proof. unfold be_remove. destruct (find (t, i) be); reflexivity. Qed.

Lemma find_del_type t t' i i' m : t <> t' -> find (t, i) (del (t', i') m) = find (t, i) m.
Proof. intro N. apply find_del_neq. apply key_type_neq. exact N. Qed.
Lemma find_set_type t t' i i' v m : t <> t' -> find (t, i) (set (t', i') v m) = find (t, i) m.
Proof. intro N. apply find_set_neq. apply key_type_neq. exact N. Qed.

(* ------------------------------------------------------------------ the backend never depends on the cache *)
Lemma step_be o s : bke (snd (step_c o s)) = snd (step_u o (bke s)).
Proof.
  destruct o; simpl.
  - unfold cb_read_full. destruct (guard_read_full t false); [|reflexivity].
    destruct (c_read_full (cch s) t i); try reflexivity; destruct (be_read_full (bke s) t i); reflexivity.
  - unfold cb_read_partial. destruct (guard_read_partial t c); [|reflexivity].
    destruct (c_read_partial (cch s) t i off len); try reflexivity;
      (destruct (be_read_full (bke s) t i); [destruct (off + len <=? length b)%nat|]; reflexivity).
  - unfold cb_write. destruct okb; reflexivity.
  - unfold cb_remove. destruct (be_remove (bke s) t i). reflexivity.
  - reflexivity.
  - reflexivity.
  - reflexivity.
  - destruct (be_remove (bke s) t i). reflexivity.
  - reflexivity.
  - reflexivity.
  - reflexivity.
Qed.

(* ------------------------------------------------------------------ results *)
Lemma read_full_same c be t i :
  CoherentT t c be -> fst (cb_read_full (mkst c be) t i) = RData (be_read_full be t i).
Proof.
  intro H. unfold cb_read_full. simpl. destruct (guard_read_full t false); [|reflexivity].
  unfold c_read_full, be_read_full. destruct (find (t, i) (files c)) as [d|] eqn:F.
  - rewrite (H _ _ F). reflexivity.
  - destruct (find (t, i) be); reflexivity.
Qed.
Lemma read_full_uncached c be t i :
  guard_read_full t false = false -> fst (cb_read_full (mkst c be) t i) = RData (be_read_full be t i).
Proof. intro G. unfold cb_read_full. rewrite G. reflexivity. Qed.

Lemma read_partial_same c be t i cf off len :
  (0 < len)%nat -> CoherentT t c be ->
  fst (cb_read_partial (mkst c be) t i cf off len) = RData (be_read_partial be t i off len).
Proof.
  intros Hl H. unfold cb_read_partial. simpl. destruct (guard_read_partial t cf); [|reflexivity].
  unfold c_read_partial, be_read_partial, be_read_full.
  destruct (find (t, i) (files c)) as [d|] eqn:F.
  - rewrite (H _ _ F). destruct (len =? 0)%nat eqn:Z; [apply Nat.eqb_eq in Z; lia|]. simpl.
    destruct (off + len <=? length d)%nat eqn:E; simpl; reflexivity.
  - destruct (find (t, i) be) as [d|]; [|reflexivity].
    destruct (off + len <=? length d)%nat; reflexivity.
Qed.
Lemma read_partial_uncached c be t i cf off len :
  guard_read_partial t cf = false ->
  fst (cb_read_partial (mkst c be) t i cf off len) = RData (be_read_partial be t i off len).
Proof. intro G. unfold cb_read_partial. rewrite G. reflexivity. Qed.

Section Step.
Variable content : key -> bytes.

Lemma step_res coh o c be :
  CoherentOn coh c be -> op_honest content o ->
  (needs_coh o = true -> coh (op_type o) = true) ->
  fst (step_c o (mkst c be)) = fst (step_u o be).
Proof.
  intros H Ho Hn. destruct o; simpl in *.
  - destruct (guard_read_full t false) eqn:G.
    + apply read_full_same. apply H. apply Hn. reflexivity.
    + apply read_full_uncached. exact G.
  - destruct (guard_read_partial t c0) eqn:G.
    + apply read_partial_same; [exact Ho | apply H; apply Hn; reflexivity].
    + apply read_partial_uncached. exact G.
  - unfold cb_write. destruct okb; reflexivity.
  - unfold cb_remove. simpl. destruct (be_remove be t i). reflexivity.
  - reflexivity.
  - reflexivity.
  - reflexivity.
  - destruct (be_remove be t i). reflexivity.
  - reflexivity.
  - reflexivity.
  - reflexivity.
Qed.

(* ------------------------------------------------------------------ honesty is invariant *)
Lemma fill_faulty c be t i d :
  BeHonest content be -> CacheFaulty content c -> find (t, i) be = Some d ->
  CacheFaulty content (c_write c t i d).
Proof.
  intros HB HC F. apply CacheFaulty_write; [exact HC|]. left. eapply BeHonest_find; eassumption.
Qed.

Lemma step_honest o c be :
  BeHonest content be -> CacheFaulty content c -> op_honest content o ->
  BeHonest content (bke (snd (step_c o (mkst c be)))) /\ CacheFaulty content (cch (snd (step_c o (mkst c be)))).
Proof.
  intros HB HC Ho. destruct o; simpl in *.
  - unfold cb_read_full. simpl. destruct (guard_read_full t false); [|auto].
    destruct (c_read_full c t i); simpl; auto;
      (destruct (be_read_full be t i) eqn:F; simpl; [split; [exact HB | eapply fill_faulty; eassumption] | auto]).
  - unfold cb_read_partial. simpl. destruct (guard_read_partial t c0); [|auto].
    destruct (c_read_partial c t i off len); simpl; auto;
      (destruct (be_read_full be t i) as [b|] eqn:F; simpl; [|auto];
       destruct (off + len <=? length b)%nat; simpl; (split; [exact HB | eapply fill_faulty; eassumption])).
  - subst d. unfold cb_write. simpl.
    assert (CacheFaulty content (if guard_write_bytes t c0 then c_write c t i (content (t, i)) else c)).
    { destruct (guard_write_bytes t c0); [apply CacheFaulty_write; auto | exact HC]. }
    destruct okb; simpl; split; auto. apply BeHonest_set. exact HB.
  - unfold cb_remove. simpl. rewrite be_remove_spec. simpl. split.
    + destruct (find (t, i) be); [apply BeHonest_del|]; exact HB.
    + destruct (guard_remove t c0); [|exact HC].
      destruct (c_remove c t i) as [c'|] eqn:R; [|exact HC].
      eapply CacheFaulty_le; [exact HC | eapply c_remove_le; eassumption].
  - split; [exact HB|]. destruct (guard_list_with_size t false); [|exact HC].
    eapply CacheFaulty_le; [exact HC | apply (sh_le _ _ _ (rnl_shrinks c t (be_list be t) ord))].
  - split; [exact HB|].
    eapply CacheFaulty_le; [exact HC | apply (sh_le _ _ _ (rnl_shrinks c Pack l ord))].
  - subst d. split; [apply BeHonest_set; exact HB | exact HC].
  - rewrite be_remove_spec. simpl. split; [|exact HC].
    destruct (find (t, i) be); [apply BeHonest_del|]; exact HB.
  - split; [exact HB | apply CacheFaulty_write; assumption].
  - split; [exact HB | exact HC].
  - split; [exact HB|]. eapply CacheFaulty_le; [exact HC|]. intros k d F. cbn [files] in F. eapply find_del_some. exact F.
Qed.

(* ------------------------------------------------------------------ coherence along a step *)
Hypothesis Hee : early_exit = false.

Lemma step_coh coh o c be :
  BeHonest content be -> CacheFaulty content c -> CoherentOn coh c be -> op_honest content o ->
  CoherentOn (coh_after coh o) (cch (snd (step_c o (mkst c be)))) (bke (snd (step_c o (mkst c be)))).
Proof.
  intros HB HC H Ho. destruct o; simpl in *.
  - (* read_full *)
    unfold cb_read_full. simpl. destruct (guard_read_full t false); [|exact H].
    destruct (c_read_full c t i); simpl; try exact H;
      (destruct (be_read_full be t i) eqn:F; simpl; [|exact H];
       eapply CoherentOn_all; [exact H | intros t' K; apply CoherentT_fill; assumption]).
  - (* read_partial *)
    unfold cb_read_partial. simpl. destruct (guard_read_partial t c0); [|exact H].
    destruct (c_read_partial c t i off len); simpl; try exact H;
      (destruct (be_read_full be t i) as [b|] eqn:F; simpl; [|exact H];
       destruct (off + len <=? length b)%nat; simpl;
       (eapply CoherentOn_all; [exact H | intros t' K; apply CoherentT_fill; assumption])).
  - (* write *)
    subst d. unfold cb_write. simpl. destruct okb; simpl.
    + eapply CoherentOn_all; [exact H|]. intros t' K.
      destruct (guard_write_bytes t c0).
      * apply CoherentT_write_both. exact K.
      * apply CoherentT_be_set_honest; assumption.
    + eapply CoherentOn_upd_false; [exact H|]. intros t' N K.
      destruct (guard_write_bytes t c0); [|exact K].
      eapply CoherentT_cache_ext; [|exact K]. intro i0. cbn [c_write files]. apply find_set_type. exact N.
  - (* remove *)
    unfold cb_remove. simpl. rewrite be_remove_spec. simpl.
    destruct (guard_remove t c0).
    + eapply CoherentOn_all; [exact H|]. intros t' K.
      assert (L : cache_le (match c_remove c t i with Some c' => c' | None => c end) c /\
                  find (t, i) (files (match c_remove c t i with Some c' => c' | None => c end)) = None).
      { destruct (c_remove c t i) as [c'|] eqn:R.
        - split; [eapply c_remove_le; eassumption | eapply c_remove_gone; eassumption].
        - split; [apply cache_le_refl | apply c_remove_none; exact R]. }
      destruct L as [L1 L2].
      destruct (find (t, i) be) eqn:F.
      * eapply CoherentT_remove_both; eassumption.
      * eapply CoherentT_le; eassumption.
    + eapply CoherentOn_upd_false; [exact H|]. intros t' N K.
      destruct (find (t, i) be); [|exact K].
      eapply CoherentT_be_ext; [|exact K]. intro i0. apply find_del_type. exact N.
  - (* list *)
    destruct (guard_list_with_size t false) eqn:G; [|exact H].
    intros t' E. destruct (ft_eqb t' t) eqn:Q.
    + apply ft_eqb_eq in Q. subst t'. eapply list_coherent; eassumption.
    + unfold upd in E. rewrite Q in E. eapply CoherentT_le; [apply H; exact E|].
      apply (sh_le _ _ _ (rnl_shrinks c t (be_list be t) ord)).
  - (* clean packs *)
    eapply CoherentOn_all; [exact H|]. intros t' K. eapply CoherentT_le; [exact K|].
    apply (sh_le _ _ _ (rnl_shrinks c Pack l ord)).
  - (* another handle writes *)
    subst d. eapply CoherentOn_all; [exact H|]. intros t' K. apply CoherentT_be_set_honest; assumption.
  - (* another handle removes *)
    rewrite be_remove_spec. simpl. eapply CoherentOn_upd_false; [exact H|]. intros t' N K.
    destruct (find (t, i) be); [|exact K].
    eapply CoherentT_be_ext; [|exact K]. intro i0. apply find_del_type. exact N.
  - (* planted file *)
    eapply CoherentOn_upd_false; [exact H|]. intros t' N K.
    eapply CoherentT_cache_ext; [|exact K]. intro i0. cbn [c_write files]. apply find_set_type. exact N.
  - exact H.
  - eapply CoherentOn_all; [exact H|]. intros t' K. eapply CoherentT_le; [exact K|].
    intros k d F. cbn [files] in F. eapply find_del_some. exact F.
Qed.

(* ------------------------------------------------------------------ histories *)
Lemma run_step_c o r s :
  run_c (o :: r) s = (fst (step_c o s) :: fst (run_c r (snd (step_c o s))), snd (run_c r (snd (step_c o s)))).
Proof. simpl. destruct (step_c o s) as [x s1]. simpl. destruct (run_c r s1). reflexivity. Qed.
Lemma run_step_u o r b :
  run_u (o :: r) b = (fst (step_u o b) :: fst (run_u r (snd (step_u o b))), snd (run_u r (snd (step_u o b)))).
Proof. simpl. destruct (step_u o b) as [x b1]. simpl. destruct (run_u r b1). reflexivity. Qed.

Definition final_coh (coh : ftype -> bool) (ops : list op) : ftype -> bool := fold_left coh_after ops coh.

Lemma history ops : forall coh c be,
  BeHonest content be -> CacheFaulty content c -> CoherentOn coh c be ->
  Forall (op_honest content) ops -> disciplined coh ops = true ->
  fst (run_c ops (mkst c be)) = fst (run_u ops be) /\
  bke (snd (run_c ops (mkst c be))) = snd (run_u ops be) /\
  BeHonest content (snd (run_u ops be)) /\
  CacheFaulty content (cch (snd (run_c ops (mkst c be)))) /\
  CoherentOn (final_coh coh ops) (cch (snd (run_c ops (mkst c be)))) (snd (run_u ops be)).
Proof.
  induction ops as [|o r IH]; intros coh c be HB HC H Ho D.
  - simpl. auto.
  - rewrite run_step_c, run_step_u. simpl fst. simpl snd.
    inversion Ho as [|? ? Ho1 Ho2]. subst.
    simpl in D. apply andb_true_iff in D. destruct D as [D1 D2].
    assert (Hn : needs_coh o = true -> coh (op_type o) = true).
    { intro N. rewrite N in D1. exact D1. }
    pose proof (step_res coh o c be H Ho1 Hn) as R.
    pose proof (step_be o (mkst c be)) as B. simpl in B.
    destruct (step_honest o c be HB HC Ho1) as [HB' HC'].
    pose proof (step_coh coh o c be HB HC H Ho1) as H'.
    destruct (step_c o (mkst c be)) as [x [c1 b1]] eqn:S. simpl in *. subst b1.
    destruct (IH (coh_after coh o) c1 (snd (step_u o be)) HB' HC' H' Ho2 D2) as [I1 [I2 [I3 [I4 I5]]]].
    rewrite R, I1. auto.
Qed.
End Step.
