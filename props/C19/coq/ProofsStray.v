(* C19 — misplaced 64-hex files (not at <dirname>/<hex[0..2]>/<hex>) are inert: since
   Cache::list_with_size only reports canonical files (extracted fact lists_strays = false),
   no result and no canonical cache file ever depends on them. *)
From Verif.Base Require Import Tactics.
From Verif.C19 Require Import Types Extracted Model Spec Proofs.

Lemma lists_strays_false : lists_strays = false.
Proof. reflexivity. Qed.

Local Opaque early_exit lists_strays.

(* forget the misplaced files *)
Definition norm (c : cache) : cache := mkcache (files c) [].
Definition norm_st (s : st) : st := mkst (norm (cch s)) (bke s).

Lemma c_remove_norm c t i : c_remove (norm c) t i = option_map norm (c_remove c t i).
Proof. unfold c_remove, norm. simpl. destruct (find (t, i) (files c)); reflexivity. Qed.

Lemma c_list_norm c t : c_list (norm c) t = c_list c t.
Proof. unfold c_list. rewrite lists_strays_false. reflexivity. Qed.

Lemma phase1_norm t l : forall c lc,
  phase1 (norm c) t l lc = let '(a, la, oa) := phase1 c t l lc in (norm a, la, oa).
Proof.
  induction l as [|[i sz] l IH]; intros c lc; simpl; [reflexivity|].
  destruct (lc_find i lc) as [csz|]; [|apply IH].
  destruct (csz =? sz)%nat; [apply IH|].
  rewrite c_remove_norm. destruct (c_remove c t i) as [c'|]; simpl; [apply IH|].
  destruct early_exit; [reflexivity|].
  rewrite IH. destruct (phase1 c t l (lc_del i lc)) as [[a la] oa]. reflexivity.
Qed.

Lemma phase2_norm t ids : forall c,
  phase2 (norm c) t ids = let '(a, oa) := phase2 c t ids in (norm a, oa).
Proof.
  induction ids as [|i ids IH]; intros c; simpl; [reflexivity|].
  rewrite c_remove_norm. destruct (c_remove c t i) as [c'|]; simpl; [apply IH|].
  destruct early_exit; [reflexivity|].
  rewrite IH. destruct (phase2 c t ids) as [a oa]. reflexivity.
Qed.

Lemma rnl_norm c t l ord :
  remove_not_in_list (norm c) t l ord = let '(a, ok) := remove_not_in_list c t l ord in (norm a, ok).
Proof.
  unfold remove_not_in_list. rewrite c_list_norm, phase1_norm.
  destruct (phase1 c t l (c_list c t)) as [[c1 lc1] ok1].
  destruct (early_exit && negb ok1); [reflexivity|].
  rewrite phase2_norm. destruct (phase2 c1 t (order_by ord (map fst lc1))) as [c2 ok2]. reflexivity.
Qed.

Lemma rnl_norm_fst c t l ord : fst (remove_not_in_list (norm c) t l ord) = norm (fst (remove_not_in_list c t l ord)).
Proof. rewrite rnl_norm. destruct (remove_not_in_list c t l ord). reflexivity. Qed.

Lemma step_norm o s :
  fst (step_c o (norm_st s)) = fst (step_c o s) /\ norm_st (snd (step_c o (norm_st s))) = norm_st (snd (step_c o s)).
Proof.
  destruct s as [c be]. destruct o; simpl.
  - unfold cb_read_full, c_read_full, norm_st. simpl.
    destruct (guard_read_full t false); [|auto].
    destruct (find (t, i) (files c)); [auto|]. destruct (be_read_full be t i); auto.
  - unfold cb_read_partial, c_read_partial, norm_st. simpl.
    destruct (guard_read_partial t c0); [|auto].
    destruct (find (t, i) (files c)) as [d|].
    + destruct ((len =? 0)%nat || (off + len <=? length d)%nat); [auto|].
      destruct (be_read_full be t i) as [b|]; [|auto]. destruct (off + len <=? length b)%nat; auto.
    + destruct (be_read_full be t i) as [b|]; [|auto]. destruct (off + len <=? length b)%nat; auto.
  - unfold cb_write, norm_st. simpl. destruct (guard_write_bytes t c0), okb; auto.
  - unfold cb_remove, norm_st. simpl. destruct (be_remove be t i) as [ok be'].
    destruct (guard_remove t c0); [|auto]. rewrite c_remove_norm.
    destruct (c_remove c t i); auto.
  - unfold cb_list, norm_st. simpl. destruct (guard_list_with_size t false); [|auto].
    rewrite rnl_norm_fst. auto.
  - unfold norm_st. simpl. rewrite rnl_norm_fst. auto.
  - auto.
  - unfold norm_st. simpl. destruct (be_remove be t i). auto.
  - auto.
  - auto.
  - auto.
Qed.

Lemma norm_st_idem s : norm_st (norm_st s) = norm_st s.
Proof. reflexivity. Qed.

Lemma step_norm_eq o s s' :
  norm_st s = norm_st s' ->
  fst (step_c o s) = fst (step_c o s') /\ norm_st (snd (step_c o s)) = norm_st (snd (step_c o s')).
Proof.
  intro E. destruct (step_norm o s) as [A1 A2]. destruct (step_norm o s') as [B1 B2].
  rewrite E in A1, A2. split; congruence.
Qed.

Lemma run_norm_eq ops : forall s s',
  norm_st s = norm_st s' ->
  fst (run_c ops s) = fst (run_c ops s') /\ norm_st (snd (run_c ops s)) = norm_st (snd (run_c ops s')).
Proof.
  induction ops as [|o r IH]; intros s s' E; simpl; [auto|].
  destruct (step_norm_eq o s s' E) as [R N].
  destruct (step_c o s) as [x s1]. destruct (step_c o s') as [x' s1']. simpl in R, N. subst x'.
  destruct (IH s1 s1' N) as [R2 N2].
  destruct (run_c r s1) as [xs s2]. destruct (run_c r s1') as [xs' s2']. simpl in *. split; congruence.
Qed.

(* two cache directories with the same canonical files behave alike for every history *)
Lemma strays_inert_lemma : forall ops c c' be,
  files c = files c' ->
  fst (run_c ops (mkst c be)) = fst (run_c ops (mkst c' be)) /\
  files (cch (snd (run_c ops (mkst c be)))) = files (cch (snd (run_c ops (mkst c' be)))) /\
  bke (snd (run_c ops (mkst c be))) = bke (snd (run_c ops (mkst c' be))).
Proof.
  intros ops c c' be E.
  assert (N : norm_st (mkst c be) = norm_st (mkst c' be)) by (unfold norm_st, norm; simpl; rewrite E; reflexivity).
  destruct (run_norm_eq ops _ _ N) as [R M]. split; [exact R|].
  unfold norm_st, norm in M. inversion M. auto.
Qed.
