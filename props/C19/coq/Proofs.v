(* C19 — lemmas: association-list maps, coherence and honesty under each operation,
   single-step simulation, histories. *)
From Verif.Base Require Import Tactics.
From Verif.C19 Require Import Types Extracted Model Spec.

(* the proofs are generic in the extracted constant until its value is needed *)
Local Opaque early_exit.

(* ------------------------------------------------------------------ keys, maps *)
Lemma ft_eqb_eq a b : ft_eqb a b = true <-> a = b.
Proof. destruct a, b; simpl; split; intro H; try reflexivity; try discriminate. Qed.
Lemma ft_eqb_refl a : ft_eqb a a = true.
Proof. destruct a; reflexivity. Qed.
Lemma ft_eqb_neq a b : ft_eqb a b = false <-> a <> b.
Proof.
  split; intro H.
  - intro E. subst. rewrite ft_eqb_refl in H. discriminate.
  - destruct (ft_eqb a b) eqn:E; [|reflexivity]. apply ft_eqb_eq in E. contradiction.
Qed.

Lemma key_eqb_eq a b : key_eqb a b = true <-> a = b.
Proof.
  destruct a as [t i], b as [t' i']. unfold key_eqb. simpl. rewrite andb_true_iff, ft_eqb_eq, N.eqb_eq.
  split; [intros [-> ->]; reflexivity | intro H; inv H; auto].
Qed.
Lemma key_eqb_refl a : key_eqb a a = true.
Proof. apply key_eqb_eq. reflexivity. Qed.
Lemma key_eqb_neq a b : key_eqb a b = false <-> a <> b.
Proof.
  split; intro H.
  - intro E. subst. rewrite key_eqb_refl in H. discriminate.
  - destruct (key_eqb a b) eqn:E; [|reflexivity]. apply key_eqb_eq in E. contradiction.
Qed.
Lemma key_eqb_sym a b : key_eqb a b = key_eqb b a.
Proof.
  destruct (key_eqb a b) eqn:E.
  - apply key_eqb_eq in E. subst. symmetry. apply key_eqb_refl.
  - symmetry. apply key_eqb_neq. apply key_eqb_neq in E. congruence.
Qed.
Lemma key_type_neq t t' i i' : t <> t' -> key_eqb (t, i) (t', i') = false.
Proof. intro H. apply key_eqb_neq. congruence. Qed.

Lemma find_del_eq k m : find k (del k m) = None.
Proof.
  induction m as [|[k' v] m IH]; simpl; [reflexivity|].
  destruct (key_eqb k k') eqn:E; simpl; [exact IH|]. rewrite E. exact IH.
Qed.
Lemma find_del_neq k k' m : key_eqb k k' = false -> find k (del k' m) = find k m.
Proof.
  intro H. induction m as [|[k2 v] m IH]; simpl; [reflexivity|].
  destruct (key_eqb k' k2) eqn:E; simpl.
  - apply key_eqb_eq in E. subst. rewrite H. exact IH.
  - destruct (key_eqb k k2); [reflexivity | exact IH].
Qed.
Lemma find_set_eq k v m : find k (set k v m) = Some v.
Proof. unfold set. simpl. rewrite key_eqb_refl. reflexivity. Qed.
Lemma find_set_neq k k' v m : key_eqb k k' = false -> find k (set k' v m) = find k m.
Proof. intro H. unfold set. simpl. rewrite H. apply find_del_neq. exact H. Qed.
Lemma find_del_some k k' m d : find k (del k' m) = Some d -> find k m = Some d.
Proof.
  destruct (key_eqb k k') eqn:E.
  - apply key_eqb_eq in E. subst. rewrite find_del_eq. discriminate.
  - rewrite find_del_neq by exact E. auto.
Qed.
Lemma In_del p k m : In p (del k m) -> In p m.
Proof. unfold del. intro H. apply filter_In in H. tauto. Qed.
Lemma In_set k d k0 v m : In (k, d) (set k0 v m) -> (k = k0 /\ d = v) \/ In (k, d) m.
Proof. unfold set. simpl. intros [H|H]; [inv H; auto | right; eapply In_del; eauto]. Qed.
Lemma find_In k m d : find k m = Some d -> In (k, d) m.
Proof.
  induction m as [|[k' v] m IH]; simpl; [discriminate|].
  destruct (key_eqb k k') eqn:E; intro H.
  - apply key_eqb_eq in E. inv H. auto.
  - auto.
Qed.
Lemma In_find k d m : In (k, d) m -> exists d', find k m = Some d'.
Proof.
  induction m as [|[k' v] m IH]; simpl; [tauto|].
  intros [H|H].
  - inv H. rewrite key_eqb_refl. eauto.
  - destruct (key_eqb k k'); eauto.
Qed.

(* ------------------------------------------------------------------ honesty *)
Section Honest.
Variable content : key -> bytes.

Lemma BeHonest_find be k d : BeHonest content be -> find k be = Some d -> d = content k.
Proof. intros H F. apply (H k d). apply find_In. exact F. Qed.
Lemma BeHonest_set be k : BeHonest content be -> BeHonest content (set k (content k) be).
Proof. intros H k' d I. apply In_set in I. destruct I as [[-> ->]|I]; [reflexivity | eauto]. Qed.
Lemma BeHonest_del be k : BeHonest content be -> BeHonest content (del k be).
Proof. intros H k' d I. apply In_del in I. eauto. Qed.
Lemma BeHonest_set_same be k : BeHonest content be -> forall k', find k' (set k (content k) be) = Some (content k') \/ find k' (set k (content k) be) = find k' be.
Proof.
  intros H k'. destruct (key_eqb k' k) eqn:E.
  - apply key_eqb_eq in E. subst. left. apply find_set_eq.
  - right. apply find_set_neq. exact E.
Qed.

Lemma CacheFaulty_write c t i d :
  CacheFaulty content c -> (d = content (t, i) \/ length d <> length (content (t, i))) ->
  CacheFaulty content (c_write c t i d).
Proof.
  intros H Hd k x F. unfold c_write in F. cbn [files] in F.
  destruct (key_eqb k (t, i)) eqn:E.
  - apply key_eqb_eq in E. subst k. rewrite find_set_eq in F. inv F. exact Hd.
  - rewrite find_set_neq in F by exact E. eauto.
Qed.
End Honest.

(* ------------------------------------------------------------------ cache shrinking *)
Lemma cache_le_refl c : cache_le c c.
Proof. intros k d H. exact H. Qed.
Lemma cache_le_trans a b c : cache_le a b -> cache_le b c -> cache_le a c.
Proof. intros H1 H2 k d H. auto. Qed.
Lemma CacheFaulty_le content c c' : CacheFaulty content c -> cache_le c' c -> CacheFaulty content c'.
Proof. intros H L k d F. apply H. apply L. exact F. Qed.
Lemma CoherentT_le t c c' be : CoherentT t c be -> cache_le c' c -> CoherentT t c' be.
Proof. intros H L i d F. apply H. apply L. exact F. Qed.

Lemma c_remove_le c t i c' : c_remove c t i = Some c' -> cache_le c' c.
Proof.
  unfold c_remove. destruct (find (t, i) (files c)); [|discriminate]. intro H. inv H.
  intros k d F. simpl in F. eapply find_del_some. eauto.
Qed.
Lemma c_remove_In c t i c' : c_remove c t i = Some c' -> forall p, In p (files c') -> In p (files c).
Proof.
  unfold c_remove. destruct (find (t, i) (files c)); [|discriminate]. intro H. inv H.
  simpl. intros p. apply In_del.
Qed.
Lemma c_remove_gone c t i c' : c_remove c t i = Some c' -> find (t, i) (files c') = None.
Proof.
  unfold c_remove. destruct (find (t, i) (files c)); [|discriminate]. intro H. inv H.
  simpl. apply find_del_eq.
Qed.
Lemma c_remove_none c t i : c_remove c t i = None -> find (t, i) (files c) = None.
Proof. unfold c_remove. destruct (find (t, i) (files c)); [discriminate | reflexivity]. Qed.
Lemma c_remove_other c t i c' k :
  c_remove c t i = Some c' -> key_eqb k (t, i) = false -> find k (files c') = find k (files c).
Proof.
  unfold c_remove. destruct (find (t, i) (files c)); [|discriminate]. intro H. inv H.
  simpl. intro E. apply find_del_neq. exact E.
Qed.
Lemma c_remove_strays c t i c' : c_remove c t i = Some c' -> strays c' = strays c.
Proof. unfold c_remove. destruct (find (t, i) (files c)); [|discriminate]. intro H. inv H. reflexivity. Qed.

(* what remove_not_in_list may do to the cache: it only deletes files of type t *)
Record shrinks (t : ftype) (c' c : cache) : Prop := {
  sh_le : cache_le c' c;
  sh_in : forall p, In p (files c') -> In p (files c);
  sh_other : forall t' i, t' <> t -> find (t', i) (files c') = find (t', i) (files c);
  sh_strays : strays c' = strays c }.

Lemma shrinks_refl t c : shrinks t c c.
Proof. constructor; auto using cache_le_refl. Qed.
Lemma shrinks_trans t a b c : shrinks t a b -> shrinks t b c -> shrinks t a c.
Proof.
  intros [A1 A2 A3 A4] [B1 B2 B3 B4]. constructor.
  - eapply cache_le_trans; eauto.
  - auto.
  - intros. rewrite A3, B3; auto.
  - congruence.
Qed.
Lemma c_remove_shrinks c t i c' : c_remove c t i = Some c' -> shrinks t c' c.
Proof.
  intro H. constructor.
  - eapply c_remove_le; eauto.
  - eapply c_remove_In; eauto.
  - intros t' i' N. eapply c_remove_other; eauto. apply key_type_neq. exact N.
  - eapply c_remove_strays; eauto.
Qed.

Lemma phase1_shrinks t l : forall c lc c1 lc1 ok,
  phase1 c t l lc = (c1, lc1, ok) -> shrinks t c1 c.
Proof.
  induction l as [|[i sz] l IH]; intros c lc c1 lc1 ok H; simpl in H.
  - inv H. apply shrinks_refl.
  - destruct (lc_find i lc) as [csz|]; [|eapply IH; eassumption].
    destruct (csz =? sz)%nat; [eapply IH; eassumption|].
    destruct (c_remove c t i) as [c'|] eqn:R.
    + eapply shrinks_trans; [eapply IH; eassumption | eapply c_remove_shrinks; eassumption].
    + destruct early_exit.
      * inv H. apply shrinks_refl.
      * destruct (phase1 c t l (lc_del i lc)) as [[c2 lc2] o2] eqn:P. inv H. eapply IH; eassumption.
Qed.
Lemma phase2_shrinks t ids : forall c c2 ok, phase2 c t ids = (c2, ok) -> shrinks t c2 c.
Proof.
  induction ids as [|i ids IH]; intros c c2 ok H; simpl in H.
  - inv H. apply shrinks_refl.
  - destruct (c_remove c t i) as [c'|] eqn:R.
    + eapply shrinks_trans; [eapply IH; eassumption | eapply c_remove_shrinks; eassumption].
    + destruct early_exit.
      * inv H. apply shrinks_refl.
      * destruct (phase2 c t ids) as [c3 o3] eqn:P. inv H. eapply IH; eassumption.
Qed.
Lemma rnl_shrinks c t l ord : shrinks t (fst (remove_not_in_list c t l ord)) c.
Proof.
  unfold remove_not_in_list.
  destruct (phase1 c t l (c_list c t)) as [[c1 lc1] ok1] eqn:P1.
  apply phase1_shrinks in P1.
  destruct (early_exit && negb ok1); simpl; [exact P1|].
  destruct (phase2 c1 t (order_by ord (map fst lc1))) as [c2 ok2] eqn:P2. simpl.
  apply phase2_shrinks in P2. eapply shrinks_trans; eauto.
Qed.
