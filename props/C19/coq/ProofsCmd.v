(* C19 — command level: histories built from generic-reader accesses are disciplined, hence
   transparent; explicit-id reads; check's pack clean-up. *)
From Verif.Base Require Import Tactics.
From Verif.C19 Require Import Types Extracted Model Spec Commands Proofs ProofsList ProofsStep ProofsTop.

(* the fact regenerated from the source: ReadBackend::list (trait default) = list_with_size,
   forwarded unchanged by DecryptBackend and Arc<dyn WriteBackend>, not overridden by
   CachedBackend — an id-only listing runs the cache clean-up *)
Lemma list_reaches_cleanup_true : list_reaches_cleanup = true.
Proof. reflexivity. Qed.

Lemma guard_read_full_is_cacheable t : guard_read_full t false = is_cacheable t.
Proof. reflexivity. Qed.
Lemma guard_read_partial_uncached t : guard_read_partial t false = is_cacheable t.
Proof. reflexivity. Qed.

Local Opaque early_exit list_reaches_cleanup.

(* ------------------------------------------------------------------ discipline of concatenations *)
Lemma disciplined_app a : forall coh b,
  disciplined coh (a ++ b) = disciplined coh a && disciplined (final_coh coh a) b.
Proof.
  induction a as [|o a IH]; intros coh b; simpl; [reflexivity|].
  rewrite IH. unfold final_coh. simpl. rewrite andb_assoc. reflexivity.
Qed.
Lemma final_coh_app coh a b : final_coh coh (a ++ b) = final_coh (final_coh coh a) b.
Proof. unfold final_coh. apply fold_left_app. Qed.

Lemma reads_disciplined t ids : forall coh,
  (is_cacheable t = true -> coh t = true) -> disciplined coh (map (OReadFull t) ids) = true.
Proof.
  induction ids as [|i ids IH]; intros coh H; simpl; [reflexivity|].
  rewrite guard_read_full_is_cacheable. rewrite IH by exact H.
  destruct (is_cacheable t) eqn:E; [rewrite H by reflexivity|]; reflexivity.
Qed.

Lemma access_disciplined r t ord ids coh :
  unlisted_access (CAccess r t ord ids) = false -> disciplined coh (access_ops r t ord ids) = true.
Proof.
  unfold unlisted_access, access_ops. rewrite list_reaches_cleanup_true, andb_true_r. intro U.
  destruct (rdr_reads r).
  - destruct (rdr_lists_first r); simpl in *.
    + apply reads_disciplined. intro E. rewrite guard_list_is_cacheable, E. apply upd_same.
    + repeat rewrite andb_true_r in U. apply reads_disciplined. intro E. rewrite E in U. discriminate.
  - rewrite app_nil_r. destruct (rdr_lists_first r); reflexivity.
Qed.

Lemma item_disciplined x coh : good_item x = true -> disciplined coh (item_ops x) = true.
Proof.
  destruct x as [s|o]; simpl; intro G.
  - apply negb_true_iff in G. destruct s; simpl.
    + apply access_disciplined. exact G.
    + reflexivity.
    + reflexivity.
    + reflexivity.
    + simpl in G. try rewrite guard_read_partial_uncached. rewrite G. reflexivity.
  - destruct o; simpl in *; try discriminate; reflexivity.
Qed.

Lemma commands_are_disciplined_lemma : forall h coh,
  forallb good_item h = true -> disciplined coh (history_ops h) = true.
Proof.
  induction h as [|x h IH]; intros coh G; simpl in *; [reflexivity|].
  apply andb_true_iff in G. destruct G as [G1 G2].
  rewrite disciplined_app, item_disciplined by exact G1. simpl. apply IH. exact G2.
Qed.

Lemma commands_transparent_lemma : forall content h c be,
  BeHonest content be -> CacheFaulty content c ->
  Forall (op_honest content) (history_ops h) -> forallb good_item h = true ->
  fst (run_c (history_ops h) (mkst c be)) = fst (run_u (history_ops h) be) /\
  bke (snd (run_c (history_ops h) (mkst c be))) = snd (run_u (history_ops h) be).
Proof.
  intros content h c be HB HC Ho G.
  apply (history_transparent_lemma content (history_ops h) no_coh c be HB HC); [|exact Ho|].
  - intros t E. discriminate.
  - apply commands_are_disciplined_lemma. exact G.
Qed.

(* ------------------------------------------------------------------ reads of an explicitly given id *)
Lemma explicit_id_read_spec_lemma : forall c be t i,
  is_cacheable t = true ->
  (fst (cb_read_full (mkst c be) t i) = RData (be_read_full be t i) <->
   (forall d, find (t, i) (files c) = Some d -> find (t, i) be = Some d)).
Proof.
  intros c be t i G. unfold cb_read_full. cbn [cch bke]. rewrite guard_read_full_is_cacheable, G.
  unfold c_read_full, be_read_full. destruct (find (t, i) (files c)) as [d|].
  - cbn [fst]. split.
    + intros E d' E'. inv E'. inv E. congruence.
    + intro H. rewrite (H d eq_refl). reflexivity.
  - split; [intros _ d E; discriminate|]. intros _. destruct (find (t, i) be); reflexivity.
Qed.

(* the refutation: an honest snapshot file, cached, removed from the repository by another
   process, read by its explicit id through the cached handle *)
Lemma explicit_id_read_refuted_lemma :
  exists content h c be,
    BeHonest content be /\ CacheFaulty content c /\ Forall (op_honest content) (history_ops h) /\
    Forall (fun x => match x with HStep s => unlisted_access s = true | HEnv _ => False end) h /\
    fst (run_c (history_ops h) (mkst c be)) <> fst (run_u (history_ops h) be).
Proof.
  exists (fun _ => [7%N]), [HStep (CAccess SnapFromStrId Snapshot [] [5%N])],
         (mkcache [((Snapshot, 5%N), [7%N])] []), [].
  split; [intros k d []|]. split.
  - intros k d F. left. simpl in F. destruct (key_eqb k (Snapshot, 5%N)); [inv F; reflexivity | discriminate].
  - split; [repeat constructor|]. split; [repeat constructor|]. vm_compute. discriminate.
Qed.

(* ------------------------------------------------------------------ check: the pack clean-up *)
Lemma pack_cleanup_coherent content c be l ord :
  BeHonest content be -> CacheFaulty content c -> PacksListed l be ->
  CoherentT Pack (fst (remove_not_in_list c Pack l ord)) be.
Proof.
  intros HB HC HL i d F.
  pose proof (rnl_spec early_exit_false _ _ _ _ _ _ F) as L.
  destruct (HL _ _ L) as [d' [Fb Len]].
  pose proof (sh_le _ _ _ (rnl_shrinks c Pack l ord) _ _ F) as F0.
  pose proof (BeHonest_find _ _ _ _ HB Fb) as E'. subst d'.
  destruct (HC _ _ F0) as [E|E]; [|congruence]. subst d. exact Fb.
Qed.

Lemma run_c_app a : forall b s,
  run_c (a ++ b) s = (fst (run_c a s) ++ fst (run_c b (snd (run_c a s))), snd (run_c b (snd (run_c a s)))).
Proof.
  induction a as [|o a IH]; intros b s.
  - simpl. destruct (run_c b s). reflexivity.
  - rewrite <- app_comm_cons. rewrite !run_step_c. rewrite IH. reflexivity.
Qed.
Lemma run_u_app a : forall b s,
  run_u (a ++ b) s = (fst (run_u a s) ++ fst (run_u b (snd (run_u a s))), snd (run_u b (snd (run_u a s)))).
Proof.
  induction a as [|o a IH]; intros b s.
  - simpl. destruct (run_u b s). reflexivity.
  - rewrite <- app_comm_cons. rewrite !run_step_u. rewrite IH. reflexivity.
Qed.

Lemma pack_reads_disciplined post : forall coh,
  coh Pack = true -> forallb pack_read post = true -> disciplined coh post = true.
Proof.
  induction post as [|o post IH]; intros coh H F; simpl in *; [reflexivity|].
  apply andb_true_iff in F. destruct F as [F1 F2].
  destruct o; try discriminate; destruct t; try discriminate; simpl.
  - rewrite (IH coh H F2). reflexivity.
  - rewrite H, (IH coh H F2). destruct (guard_read_partial Pack c); reflexivity.
Qed.

(* check = any good history (its listings and reads of snapshot / index files), then the pack
   clean-up with the tree packs of the index, then reads of tree packs (cacheable partial
   reads) and of packs in full *)
Lemma check_tree_packs_transparent_explicit_lemma : forall content pre l ord post c be,
  BeHonest content be -> CacheFaulty content c ->
  forallb good_item pre = true ->
  Forall (op_honest content) (history_ops pre) -> Forall (op_honest content) post ->
  PacksListed l (snd (run_u (history_ops pre) be)) ->
  forallb pack_read post = true ->
  let ops := history_ops pre ++ OCleanPacks l ord :: post in
  fst (run_c ops (mkst c be)) = fst (run_u ops be) /\
  bke (snd (run_c ops (mkst c be))) = snd (run_u ops be).
Proof.
  intros content pre l ord post c be HB HC G Ho1 Ho2 HL PR ops. subst ops.
  assert (H0 : CoherentOn no_coh c be) by (intros t E; discriminate).
  destruct (history content early_exit_false (history_ops pre) no_coh c be HB HC H0 Ho1
              (commands_are_disciplined_lemma pre no_coh G)) as [R1 [B1 [HB1 [HC1 K1]]]].
  rewrite run_c_app, run_u_app. cbn [fst snd].
  destruct (run_c (history_ops pre) (mkst c be)) as [r1 [c1 b1]] eqn:RC.
  destruct (run_u (history_ops pre) be) as [u1 be1] eqn:RU.
  cbn [fst snd cch bke] in *. subst b1 u1.
  rewrite run_step_c, run_step_u. cbn [step_c step_u fst snd cch bke].
  set (c2 := fst (remove_not_in_list c1 Pack l ord)).
  set (coh2 := upd (final_coh no_coh (history_ops pre)) Pack true).
  assert (HC2 : CacheFaulty content c2).
  { eapply CacheFaulty_le; [exact HC1 | apply (sh_le _ _ _ (rnl_shrinks c1 Pack l ord))]. }
  assert (K2 : CoherentOn coh2 c2 be1).
  { intros t E. destruct (ft_eqb t Pack) eqn:Q.
    - apply ft_eqb_eq in Q. subst t. eapply pack_cleanup_coherent; eassumption.
    - unfold coh2, upd in E. rewrite Q in E. eapply CoherentT_le; [apply K1; exact E|].
      apply (sh_le _ _ _ (rnl_shrinks c1 Pack l ord)). }
  assert (D2 : disciplined coh2 post = true).
  { apply pack_reads_disciplined; [apply upd_same | exact PR]. }
  destruct (history content early_exit_false post coh2 c2 be1 HB1 HC2 K2 Ho2 D2) as [R2 [B2 _]].
  split; [|exact B2]. rewrite R2. reflexivity.
Qed.

(* the readers that read a file without listing its type first — everything else lists *)
Lemma unlisted_readers_lemma : forall r,
  (rdr_reads r = true /\ rdr_lists_first r = false) <->
  In r [StreamList; GetFile; SnapFromStrId; SnapFromStrsIdsOnly; SnapUpdateFromIdsFull; CatFileFull].
Proof.
  intro r. split.
  - intros [A B]. destruct r; simpl in *; try discriminate; tauto.
  - intro H. simpl in H. repeat (destruct H as [H|H]; [subst r; split; reflexivity|]). contradiction.
Qed.

(* ------------------------------------------------------------------ the commands of the property *)
Lemma listing_commands_lemma : forall c,
  listing_cmd c = true <-> (c <> CmdBackupParentFullIds /\ c <> CmdForgetFullIds).
Proof.
  intro c. destruct c; vm_compute; split; intro H; try discriminate; try reflexivity;
    try (split; discriminate); destruct H as [A B]; congruence.
Qed.

Lemma cmd_item_good x : cmd_item x -> good_item x = true.
Proof.
  destruct x as [s|o]; simpl; [|auto]. intros [c [L S]]. apply negb_true_iff.
  destruct s; simpl in *; try reflexivity.
  - apply existsb_exists in S. destruct S as [[r' t'] [I E]]. simpl in E.
    apply andb_true_iff in E. destruct E as [E1 E2].
    apply internal_rdr_dec_bl in E1. apply ft_eqb_eq in E2. subst r' t'.
    unfold listing_cmd in L. rewrite forallb_forall in L. specialize (L _ I). simpl in L.
    apply negb_true_iff in L. exact L.
  - apply negb_true_iff in S. exact S.
Qed.

Lemma command_histories_transparent_lemma : forall content h c be,
  BeHonest content be -> CacheFaulty content c ->
  Forall (op_honest content) (history_ops h) -> Forall cmd_item h ->
  fst (run_c (history_ops h) (mkst c be)) = fst (run_u (history_ops h) be) /\
  bke (snd (run_c (history_ops h) (mkst c be))) = snd (run_u (history_ops h) be).
Proof.
  intros content h c be HB HC Ho G. apply (commands_transparent_lemma content); try assumption.
  apply forallb_forall. intros x I. apply cmd_item_good. rewrite Forall_forall in G. auto.
Qed.

(* ------------------------------------------------------------------ tree packs without a clean-up *)
Lemma pack_read_step content c be i cf off len :
  BeHonest content be -> PackPrefix content c -> find (Pack, i) be <> None -> (0 < len)%nat ->
  fst (cb_read_partial (mkst c be) Pack i cf off len) = RData (be_read_partial be Pack i off len) /\
  bke (snd (cb_read_partial (mkst c be) Pack i cf off len)) = be /\
  PackPrefix content (cch (snd (cb_read_partial (mkst c be) Pack i cf off len))).
Proof.
  intros HB HP Hb Hl. destruct (find (Pack, i) be) as [d|] eqn:Fb; [|congruence].
  pose proof (BeHonest_find _ _ _ _ HB Fb) as Ed.
  unfold cb_read_partial. cbn [cch bke]. destruct (guard_read_partial Pack cf); [|auto].
  assert (FILL : PackPrefix content (c_write c Pack i d)).
  { intros j x F. cbn [c_write files] in F. destruct (key_eqb (Pack, j) (Pack, i)) eqn:E.
    - apply key_eqb_eq in E. inv E. rewrite find_set_eq in F. inv F. exists []. rewrite app_nil_r. reflexivity.
    - rewrite find_set_neq in F by exact E. apply HP. exact F. }
  unfold c_read_partial, be_read_partial, be_read_full. rewrite Fb.
  destruct (find (Pack, i) (files c)) as [dc|] eqn:Fc.
  - destruct (HP _ _ Fc) as [r Er]. rewrite <- Ed in Er.
    destruct (len =? 0)%nat eqn:Z; [apply Nat.eqb_eq in Z; lia|]. cbn [orb].
    destruct (off + len <=? length dc)%nat eqn:E1.
    + apply Nat.leb_le in E1. cbn [fst snd cch bke].
      assert (E2 : (off + len <=? length d)%nat = true) by (apply Nat.leb_le; rewrite Er, app_length; lia).
      rewrite E2. split; [|auto]. rewrite Er. rewrite slice_prefix by exact E1. reflexivity.
    + destruct (off + len <=? length d)%nat; cbn [fst snd cch bke]; auto.
  - destruct (off + len <=? length d)%nat; cbn [fst snd cch bke]; auto.
Qed.

Lemma indexed_pack_reads_transparent_lemma : forall content ops c be,
  BeHonest content be -> PackPrefix content c -> Forall (indexed_pack_read be) ops ->
  fst (run_c ops (mkst c be)) = fst (run_u ops be) /\
  bke (snd (run_c ops (mkst c be))) = be /\ snd (run_u ops be) = be.
Proof.
  intros content ops. induction ops as [|o r IH]; intros c be HB HP Ho; [simpl; auto|].
  inversion Ho as [|? ? H1 H2]. subst.
  destruct o; simpl in H1; try contradiction. destruct t; try contradiction. destruct H1 as [Hl Hb].
  rewrite run_step_c, run_step_u. cbn [step_c step_u fst snd].
  destruct (pack_read_step content c be i c0 off len HB HP Hb Hl) as [R [B P]].
  destruct (cb_read_partial (mkst c be) Pack i c0 off len) as [x [c1 b1]]. cbn [fst snd cch bke] in *. subst b1 x.
  destruct (IH c1 be HB P H2) as [R2 [B2 U2]]. rewrite R2. auto.
Qed.

(* ------------------------------------------------------------------ check's options *)
(* the fact regenerated from check_repository: the pack clean-up is guarded by the presence of
   a cache only — trust_cache does not switch it off *)
Lemma check_cleanup_always : forall tc l ord, check_cleanup tc l ord = [OCleanPacks l ord].
Proof. intros tc l ord. reflexivity. Qed.

Lemma check_tree_packs_transparent_lemma : forall content tc pre l ord post c be,
  BeHonest content be -> CacheFaulty content c ->
  forallb good_item pre = true ->
  Forall (op_honest content) (history_ops pre) -> Forall (op_honest content) post ->
  PacksListed l (snd (run_u (history_ops pre) be)) ->
  forallb pack_read post = true ->
  let ops := history_ops pre ++ check_cleanup tc l ord ++ post in
  fst (run_c ops (mkst c be)) = fst (run_u ops be) /\
  bke (snd (run_c ops (mkst c be))) = snd (run_u ops be).
Proof.
  intros content tc pre l ord post c be. rewrite check_cleanup_always. simpl app.
  apply check_tree_packs_transparent_explicit_lemma.
Qed.
