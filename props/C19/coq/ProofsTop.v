(* C19 — the statements of Props.v, derived from the step and listing lemmas. *)
From Verif.Base Require Import Tactics.
From Verif.C19 Require Import Types Extracted Model Spec Proofs ProofsList ProofsStep.

(* the fact regenerated from Cache::remove_not_in_list: a failing removal does not stop the
   clean-up.  (With `self.remove(tpe, id)?` this lemma, and with it every theorem about
   listings, no longer checks.) *)
Lemma early_exit_false : early_exit = false.
Proof. reflexivity. Qed.

Local Opaque early_exit.

Lemma guard_list_is_cacheable t : guard_list_with_size t false = is_cacheable t.
Proof. reflexivity. Qed.

(* ------------------------------------------------------------------ disciplines *)
Definition AllTrue (coh : ftype -> bool) : Prop := forall t, coh t = true.

Lemma upd_true_keeps coh t t0 : coh t0 = true -> upd coh t true t0 = true.
Proof. intro H. unfold upd. destruct (ft_eqb t0 t); auto. Qed.

Lemma own_keeps coh o t0 : own_op o = true -> coh t0 = true -> coh_after coh o t0 = true.
Proof.
  intros O H. destruct o; simpl in *; try discriminate; try exact H.
  - rewrite O. exact H.
  - rewrite O. exact H.
  - destruct (guard_list_with_size t false); [apply upd_true_keeps|]; exact H.
Qed.

Lemma own_disciplined ops : forall coh,
  AllTrue coh -> forallb own_op ops = true ->
  disciplined coh ops = true /\ AllTrue (final_coh coh ops).
Proof.
  induction ops as [|o r IH]; intros coh A F; simpl in *; [auto|].
  apply andb_true_iff in F. destruct F as [F1 F2].
  assert (A' : AllTrue (coh_after coh o)) by (intro t0; apply own_keeps; auto).
  destruct (IH _ A' F2) as [D E]. split; [|exact E].
  rewrite D, (A (op_type o)). destruct (needs_coh o); reflexivity.
Qed.

Lemma typed_disciplined t ops : forall coh,
  coh t = true -> forallb (fun o => own_op o && ft_eqb (op_type o) t) ops = true ->
  disciplined coh ops = true.
Proof.
  induction ops as [|o r IH]; intros coh A F; simpl in *; [reflexivity|].
  apply andb_true_iff in F. destruct F as [F1 F2]. apply andb_true_iff in F1. destruct F1 as [O T].
  apply ft_eqb_eq in T. rewrite T, A.
  rewrite (IH (coh_after coh o)); [destruct (needs_coh o); reflexivity | apply own_keeps; assumption | exact F2].
Qed.

(* ------------------------------------------------------------------ coherent_reads_equal *)
Lemma Coherent_faulty content c be : BeHonest content be -> Coherent c be -> CacheFaulty content c.
Proof.
  intros HB H [t i] d F. left. apply H in F. eapply BeHonest_find; eassumption.
Qed.

Lemma coherent_reads_equal_lemma : forall content ops c be,
  BeHonest content be -> Coherent c be ->
  Forall (op_honest content) ops -> forallb own_op ops = true ->
  fst (run_c ops (mkst c be)) = fst (run_u ops be) /\
  bke (snd (run_c ops (mkst c be))) = snd (run_u ops be) /\
  Coherent (cch (snd (run_c ops (mkst c be)))) (snd (run_u ops be)).
Proof.
  intros content ops c be HB H Ho O.
  destruct (own_disciplined ops all_coh (fun _ => eq_refl) O) as [D A].
  assert (H0 : CoherentOn all_coh c be) by (intros t _; apply H).
  destruct (history content early_exit_false ops all_coh c be HB (Coherent_faulty _ _ _ HB H) H0 Ho D)
    as [R [B [_ [_ K]]]].
  split; [exact R|]. split; [exact B|]. intro t. apply K. apply A.
Qed.

(* ------------------------------------------------------------------ listing *)
Lemma listing_restores_coherence_lemma : forall content c be t ord,
  is_cacheable t = true -> BeHonest content be -> CacheFaulty content c ->
  let r := cb_list (mkst c be) t ord in
  fst r = RList (be_list be t) /\ bke (snd r) = be /\
  CoherentT t (cch (snd r)) be /\
  (forall i d, find (t, i) (files (cch (snd r))) = Some d -> In (i, length d) (be_list be t)) /\
  cache_le (cch (snd r)) c /\
  (forall t' i, t' <> t -> find (t', i) (files (cch (snd r))) = find (t', i) (files c)).
Proof.
  intros content c be t ord G HB HC. unfold cb_list. cbn [cch bke fst snd].
  rewrite guard_list_is_cacheable, G.
  pose proof (rnl_shrinks c t (be_list be t) ord) as S.
  split; [reflexivity|]. split; [reflexivity|]. split.
  - eapply list_coherent; eauto using early_exit_false.
  - split; [intros i d F; eapply rnl_spec; eauto using early_exit_false|].
    split; [apply (sh_le _ _ _ S) | apply (sh_other _ _ _ S)].
Qed.


Lemma listing_keeps_good_lemma : forall content c be t ord i d,
  is_cacheable t = true -> BeHonest content be ->
  find (t, i) (files c) = Some d -> find (t, i) be = Some d ->
  find (t, i) (files (cch (snd (cb_list (mkst c be) t ord)))) = Some d.
Proof.
  intros content c be t ord i d G HB F Fb. unfold cb_list. cbn [cch bke fst snd].
  rewrite guard_list_is_cacheable, G. eapply list_keeps_good; eauto using early_exit_false.
Qed.

Lemma list_then_read_transparent_lemma : forall content c be t ord ops,
  is_cacheable t = true -> BeHonest content be -> CacheFaulty content c ->
  Forall (op_honest content) ops ->
  forallb (fun o => own_op o && ft_eqb (op_type o) t) ops = true ->
  fst (run_c (OList t ord :: ops) (mkst c be)) = fst (run_u (OList t ord :: ops) be) /\
  bke (snd (run_c (OList t ord :: ops) (mkst c be))) = snd (run_u (OList t ord :: ops) be).
Proof.
  intros content c be t ord ops G HB HC Ho O.
  assert (D : disciplined no_coh (OList t ord :: ops) = true).
  { cbn [disciplined needs_coh andb]. apply typed_disciplined with (t := t); [|exact O].
    cbn [coh_after]. rewrite guard_list_is_cacheable, G. apply upd_same. }
  assert (H0 : CoherentOn no_coh c be) by (intros t0 E; discriminate).
  assert (Ho' : Forall (op_honest content) (OList t ord :: ops)) by (constructor; [exact I | exact Ho]).
  destruct (history content early_exit_false _ no_coh c be HB HC H0 Ho' D) as [R [B _]]. auto.
Qed.

Lemma history_transparent_lemma : forall content ops coh c be,
  BeHonest content be -> CacheFaulty content c -> CoherentOn coh c be ->
  Forall (op_honest content) ops -> disciplined coh ops = true ->
  fst (run_c ops (mkst c be)) = fst (run_u ops be) /\
  bke (snd (run_c ops (mkst c be))) = snd (run_u ops be).
Proof.
  intros content ops coh c be HB HC H Ho D.
  destruct (history content early_exit_false ops coh c be HB HC H Ho D) as [R [B _]]. auto.
Qed.

(* ------------------------------------------------------------------ tree packs *)
Lemma slice_prefix off len a r : (off + len <= length a)%nat -> slice off len (a ++ r) = slice off len a.
Proof.
  intro H. unfold slice. rewrite skipn_app.
  replace (off - length a)%nat with 0%nat by lia. simpl skipn.
  rewrite firstn_app. rewrite skipn_length.
  replace (len - (length a - off))%nat with 0%nat by lia. simpl. apply app_nil_r.
Qed.

Lemma tree_pack_cache_lemma :
  (* 1. listing packs never touches the cache *)
  (forall s ord, cch (snd (cb_list s Pack ord)) = cch s) /\
  (* 2. a full read of a pack never comes out of the cache *)
  (forall s i, cb_read_full s Pack i = (RData (be_read_full (bke s) Pack i), s)) /\
  (* 3. a truncated cached tree pack (a proper or improper prefix of the stored pack): every
        partial read returns what the backend returns; a read past the truncation point
        falls through to the backend and repairs the cache *)
  (forall c be i dc d off len,
     find (Pack, i) (files c) = Some dc -> find (Pack, i) be = Some d -> is_prefix dc d -> (0 < len)%nat ->
     let r := cb_read_partial (mkst c be) Pack i true off len in
     fst r = RData (be_read_partial be Pack i off len) /\
     ((length dc < off + len)%nat -> find (Pack, i) (files (cch (snd r))) = Some d)) /\
  (* 4. what check's clean-up leaves: only packs named in the list, with the listed size *)
  (forall c l ord i d,
     find (Pack, i) (files (fst (remove_not_in_list c Pack l ord))) = Some d -> In (i, length d) l).
Proof.
  split; [|split; [|split]].
  - intros s ord. reflexivity.
  - intros s i. reflexivity.
  - intros c be i dc d off len Fc Fb [r E] Hl. subst d.
    unfold cb_read_partial. cbn [cch bke]. cbn [guard_read_partial orb].
    unfold c_read_partial, be_read_partial, be_read_full. rewrite Fc, Fb.
    destruct (len =? 0)%nat eqn:Z; [apply Nat.eqb_eq in Z; lia|]. cbn [orb].
    destruct (off + len <=? length dc)%nat eqn:E1.
    + apply Nat.leb_le in E1. cbn [fst snd].
      assert (E2 : (off + len <=? length (dc ++ r))%nat = true) by (apply Nat.leb_le; rewrite app_length; lia).
      rewrite E2. split; [rewrite slice_prefix by exact E1; reflexivity | lia].
    + destruct (off + len <=? length (dc ++ r))%nat; cbn [fst snd cch c_write files];
        (split; [reflexivity | intros _; apply find_set_eq]).
  - intros c l ord i d F. eapply rnl_spec; eauto using early_exit_false.
Qed.

(* a same-size corruption of a cached tree pack is served: outside the fault list of the
   property (the AEAD check of the blob then rejects it; the cache is not consulted again) *)
Lemma tree_pack_same_size_corruption_served_lemma :
  exists c be i off len,
    (exists dc d, find (Pack, i) (files c) = Some dc /\ find (Pack, i) be = Some d /\ length dc = length d) /\
    fst (cb_read_partial (mkst c be) Pack i true off len) <> RData (be_read_partial be Pack i off len).
Proof.
  exists (mkcache [((Pack, 1%N), [1%N; 9%N; 3%N])] []), [((Pack, 1%N), [1%N; 2%N; 3%N])], 1%N, 1%nat, 1%nat.
  split; [exists [1%N; 9%N; 3%N], [1%N; 2%N; 3%N]; auto|].
  vm_compute. discriminate.
Qed.

(* a stale entry is served when the list-then-read discipline is not followed, and a
   zero-length read beyond the end of a coherent cached file differs: the premises
   `disciplined` and `op_honest` of the theorems are needed *)
Lemma undisciplined_read_differs_lemma :
  exists ops c be, Coherent c be /\
    fst (run_c ops (mkst c be)) <> fst (run_u ops be).
Proof.
  exists [EBeRemove Snapshot 5%N; OReadFull Snapshot 5%N],
         (mkcache [((Snapshot, 5%N), [7%N])] []), [((Snapshot, 5%N), [7%N])].
  split.
  - intros t i d F. simpl in F. destruct (key_eqb (t, i) (Snapshot, 5%N)) eqn:E; [|discriminate].
    apply key_eqb_eq in E. inv E. inv F. reflexivity.
  - vm_compute. discriminate.
Qed.

Lemma zero_length_read_differs_lemma :
  exists c be, Coherent c be /\
    fst (cb_read_partial (mkst c be) Snapshot 5%N false 9 0) <> RData (be_read_partial be Snapshot 5%N 9 0).
Proof.
  exists (mkcache [((Snapshot, 5%N), [7%N])] []), [((Snapshot, 5%N), [7%N])].
  split.
  - intros t i d F. simpl in F. destruct (key_eqb (t, i) (Snapshot, 5%N)) eqn:E; [|discriminate].
    apply key_eqb_eq in E. inv E. inv F. reflexivity.
  - vm_compute. discriminate.
Qed.

(* a backend write that fails after the cache was written leaves an entry the repository
   does not have (healed by the next listing) *)
Lemma failed_write_leaves_entry_lemma :
  exists c be o, Coherent c be /\ own_op o = false /\
    ~ Coherent (cch (snd (step_c o (mkst c be)))) (bke (snd (step_c o (mkst c be)))).
Proof.
  exists (mkcache [] []), [], (OWrite Snapshot 5%N false false [7%N]).
  split; [intros t i d F; discriminate|]. split; [reflexivity|].
  intro H. specialize (H Snapshot 5%N [7%N]). vm_compute in H. specialize (H eq_refl). discriminate.
Qed.
