(* C19 — base types: file types, ids, byte strings, finite maps as association lists.
   Definitions only (lemmas about them are in Proofs.v). *)
From Verif.Base Require Import Tactics.

Inductive ftype := Config | Index | Key | Snapshot | Pack.
Inductive blob_type := Tree | Data.

Definition id := N.
Definition bytes := list N.
Definition key := (ftype * id)%type.

Definition ft_eqb (a b : ftype) : bool :=
  match a, b with
  | Config, Config | Index, Index | Key, Key | Snapshot, Snapshot | Pack, Pack => true
  | _, _ => false
  end.

Definition key_eqb (a b : key) : bool := ft_eqb (fst a) (fst b) && N.eqb (snd a) (snd b).

(* finite map key -> bytes *)
Definition fmap := list (key * bytes).

Fixpoint find (k : key) (m : fmap) : option bytes :=
  match m with
  | [] => None
  | (k', v) :: r => if key_eqb k k' then Some v else find k r
  end.

Definition del (k : key) (m : fmap) : fmap := filter (fun p => negb (key_eqb k (fst p))) m.
Definition set (k : key) (v : bytes) (m : fmap) : fmap := (k, v) :: del k m.

(* the bytes [off, off+len) of a file *)
Definition slice (off len : nat) (d : bytes) : bytes := firstn len (skipn off d).

(* The generic readers (and their variants) through which every command reads snapshot and
   index files; their access patterns are regenerated from the source into Extracted.v
   (rdr_lists_first, rdr_reads). *)
Inductive rdr :=
| StreamAll | StreamList | GetFile
| FindStartsWith | FindIdsFull | FindIdsPrefix
| SnapIterAll | SnapLatest
| SnapFromStrLatest | SnapFromStrPrefix | SnapFromStrId
| SnapFromStrsLatest | SnapFromStrsPrefix | SnapFromStrsIdsOnly
| SnapUpdateFromIdsFull | SnapUpdateFromIdsPrefix | SnapUpdateFromBackend
| IndexNew | IndexOnlyFullTrees
| CatFileFull | CatFilePrefix.

Scheme Equality for rdr.

Definition all_rdr : list rdr :=
  [StreamAll; StreamList; GetFile; FindStartsWith; FindIdsFull; FindIdsPrefix; SnapIterAll; SnapLatest;
   SnapFromStrLatest; SnapFromStrPrefix; SnapFromStrId; SnapFromStrsLatest; SnapFromStrsPrefix;
   SnapFromStrsIdsOnly; SnapUpdateFromIdsFull; SnapUpdateFromIdsPrefix; SnapUpdateFromBackend;
   IndexNew; IndexOnlyFullTrees; CatFileFull; CatFilePrefix].

(* the commands of the property (and their variants by how snapshots are named); the readers
   each of them uses are regenerated from the source into Extracted.cmd_readers *)
Inductive cmd :=
| CmdBackup | CmdBackupParentPrefix | CmdBackupParentLatest | CmdBackupParentFullIds
| CmdForgetAll | CmdForgetPrefix | CmdForgetFullIds
| CmdPrune | CmdCheck.
