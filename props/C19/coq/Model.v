(* C19 — executable model of crates/core/src/backend/cache.rs: the cache directory
   (`Cache`) and the wrapper `CachedBackend` over a backend that is an exact finite map.
   Definitions only.  `is_cacheable`, the per-method guards and `early_exit` come from
   Extracted.v, regenerated from the source on every run.

   Cache directory = (files, strays):
     files   the regular files at the canonical path <dirname>/<hex[0..2]>/<hex>  (what
             Cache::read_full / read_partial / write_bytes / remove address);
     strays  regular files with a 64-hex name anywhere else below <dirname>/ : no method can
             read or remove them; Cache::list_with_size reports them iff `lists_strays`.
   Offsets/lengths are nat (u32 overflow of offset+length is outside the model);
   a result None = Err or panic. *)
From Verif.Base Require Import Tactics.
From Verif.C19 Require Import Types Extracted.

Record cache := mkcache { files : fmap; strays : list (key * nat) }.

(* Ok(Some d) / Ok(None) / Err *)
Inductive cres := CHit (d : bytes) | CMiss | CErr.

(* Cache::read_full: fs::read; NotFound => Ok(None) *)
Definition c_read_full (c : cache) (t : ftype) (i : id) : cres :=
  match find (t, i) (files c) with Some d => CHit d | None => CMiss end.

(* Cache::read_partial: open (NotFound => Ok(None)), seek (never fails past EOF),
   read_exact of `len` bytes (fails when fewer are left; a zero-length read never fails) *)
Definition c_read_partial (c : cache) (t : ftype) (i : id) (off len : nat) : cres :=
  match find (t, i) (files c) with
  | None => CMiss
  | Some d => if (len =? 0)%nat || (off + len <=? length d)%nat then CHit (slice off len d) else CErr
  end.

(* Cache::write_bytes: create_dir_all, write <hex>-tmp-, rename over the final name
   (atomic by hypothesis: no intermediate state is observable) *)
Definition c_write (c : cache) (t : ftype) (i : id) (d : bytes) : cache :=
  mkcache (set (t, i) d (files c)) (strays c).

(* Cache::remove: fs::remove_file on the canonical path; None = Err (NotFound) *)
Definition c_remove (c : cache) (t : ftype) (i : id) : option cache :=
  match find (t, i) (files c) with
  | Some _ => Some (mkcache (del (t, i) (files c)) (strays c))
  | None => None
  end.

(* Cache::list_with_size: every regular 64-hex file below <dirname>/ with its size,
   collected into a HashMap id -> size *)
Definition sizes_of (t : ftype) (m : fmap) : list (id * nat) :=
  flat_map (fun p => if ft_eqb (fst (fst p)) t then [(snd (fst p), length (snd p))] else []) m.
Definition strays_of (t : ftype) (s : list (key * nat)) : list (id * nat) :=
  flat_map (fun p => if ft_eqb (fst (fst p)) t then [(snd (fst p), snd p)] else []) s.
Definition c_list (c : cache) (t : ftype) : list (id * nat) :=
  sizes_of t (files c) ++ (if lists_strays then strays_of t (strays c) else []).

(* HashMap::remove(id): size of the entry (the canonical file wins over a stray of the
   same name — the walk order is not specified; the correspondence avoids such pairs) *)
Definition lc_find (i : id) (l : list (id * nat)) : option nat :=
  match List.find (fun p => N.eqb (fst p) i) l with Some p => Some (snd p) | None => None end.
Definition lc_del (i : id) (l : list (id * nat)) : list (id * nat) :=
  filter (fun p => negb (N.eqb (fst p) i)) l.

Fixpoint dedup (l : list id) : list id :=
  match l with [] => [] | x :: r => x :: filter (fun y => negb (N.eqb y x)) (dedup r) end.
Definition memb (i : id) (l : list id) : bool := existsb (N.eqb i) l.
(* iteration order of the remaining HashMap keys: unspecified; `ord` first, then the rest *)
Definition order_by (ord ids : list id) : list id :=
  dedup (filter (fun i => memb i ids) ord ++ filter (fun i => negb (memb i ord)) ids).

(* Cache::remove_not_in_list, first loop: for (id, size) in list *)
Fixpoint phase1 (c : cache) (t : ftype) (l lc : list (id * nat)) : cache * list (id * nat) * bool :=
  match l with
  | [] => (c, lc, true)
  | (i, sz) :: r =>
    match lc_find i lc with
    | Some csz =>
      let lc' := lc_del i lc in
      if (csz =? sz)%nat then phase1 c t r lc'
      else match c_remove c t i with
           | Some c' => phase1 c' t r lc'
           | None => if early_exit then (c, lc', false)
                     else let '(c2, lc2, _) := phase1 c t r lc' in (c2, lc2, false)
           end
    | None => phase1 c t r lc
    end
  end.

(* second loop: for id in list_cache.keys() *)
Fixpoint phase2 (c : cache) (t : ftype) (ids : list id) : cache * bool :=
  match ids with
  | [] => (c, true)
  | i :: r =>
    match c_remove c t i with
    | Some c' => phase2 c' t r
    | None => if early_exit then (c, false) else let '(c2, _) := phase2 c t r in (c2, false)
    end
  end.

Definition remove_not_in_list (c : cache) (t : ftype) (l : list (id * nat)) (ord : list id) : cache * bool :=
  let '(c1, lc1, ok1) := phase1 c t l (c_list c t) in
  if early_exit && negb ok1 then (c1, false)
  else let '(c2, ok2) := phase2 c1 t (order_by ord (map fst lc1)) in (c2, ok1 && ok2).

(* ---- the backend: an exact finite map ---- *)
Definition be_read_full (be : fmap) (t : ftype) (i : id) : option bytes := find (t, i) be.
Definition be_read_partial (be : fmap) (t : ftype) (i : id) (off len : nat) : option bytes :=
  match find (t, i) be with
  | None => None
  | Some d => if (off + len <=? length d)%nat then Some (slice off len d) else None
  end.
Definition be_write (be : fmap) (t : ftype) (i : id) (d : bytes) : fmap := set (t, i) d be.
Definition be_remove (be : fmap) (t : ftype) (i : id) : bool * fmap :=
  match find (t, i) be with Some _ => (true, del (t, i) be) | None => (false, be) end.
Fixpoint ins_sorted (x : id * nat) (l : list (id * nat)) : list (id * nat) :=
  match l with
  | [] => [x]
  | y :: r => if N.leb (fst x) (fst y) then x :: l else y :: ins_sorted x r
  end.
Definition sort_ids (l : list (id * nat)) : list (id * nat) := fold_right ins_sorted [] l.
Definition be_list (be : fmap) (t : ftype) : list (id * nat) := sort_ids (sizes_of t be).

(* ---- CachedBackend ---- *)
Record st := mkst { cch : cache; bke : fmap }.
Inductive res := RData (o : option bytes) | RUnit (ok : bool) | RList (l : list (id * nat)) | RNone.

Definition cb_read_full (s : st) (t : ftype) (i : id) : res * st :=
  if guard_read_full t false then
    match c_read_full (cch s) t i with
    | CHit d => (RData (Some d), s)
    | _ =>
      match be_read_full (bke s) t i with
      | Some d => (RData (Some d), mkst (c_write (cch s) t i d) (bke s))
      | None => (RData None, s)
      end
    end
  else (RData (be_read_full (bke s) t i), s).

Definition cb_read_partial (s : st) (t : ftype) (i : id) (c : bool) (off len : nat) : res * st :=
  if guard_read_partial t c then
    match c_read_partial (cch s) t i off len with
    | CHit d => (RData (Some d), s)
    | _ =>
      match be_read_full (bke s) t i with
      | Some d =>
        let s' := mkst (c_write (cch s) t i d) (bke s) in
        (* Bytes::slice panics when the range exceeds the data *)
        if (off + len <=? length d)%nat then (RData (Some (slice off len d)), s') else (RData None, s')
      | None => (RData None, s)
      end
    end
  else (RData (be_read_partial (bke s) t i off len), s).

(* okb = false: the backend rejects the write and keeps its state *)
Definition cb_write (s : st) (t : ftype) (i : id) (c okb : bool) (d : bytes) : res * st :=
  let c1 := if guard_write_bytes t c then c_write (cch s) t i d else cch s in
  if okb then (RUnit true, mkst c1 (be_write (bke s) t i d)) else (RUnit false, mkst c1 (bke s)).

Definition cb_remove (s : st) (t : ftype) (i : id) (c : bool) : res * st :=
  let c1 := if guard_remove t c
            then match c_remove (cch s) t i with Some c' => c' | None => cch s end
            else cch s in
  let '(ok, be') := be_remove (bke s) t i in (RUnit ok, mkst c1 be').

Definition cb_list (s : st) (t : ftype) (ord : list id) : res * st :=
  let l := be_list (bke s) t in
  let c1 := if guard_list_with_size t false then fst (remove_not_in_list (cch s) t l ord) else cch s in
  (RList l, mkst c1 (bke s)).

(* ---- histories ---- *)
Inductive op :=
| OReadFull (t : ftype) (i : id)
| OReadPartial (t : ftype) (i : id) (c : bool) (off len : nat)
| OWrite (t : ftype) (i : id) (c okb : bool) (d : bytes)
| ORemove (t : ftype) (i : id) (c : bool)
| OList (t : ftype) (ord : list id)
| OCleanPacks (l : list (id * nat)) (ord : list id)   (* check: Cache::remove_not_in_list(Pack, tree packs of the index) *)
| EBeWrite (t : ftype) (i : id) (d : bytes)           (* another, uncached handle adds a file *)
| EBeRemove (t : ftype) (i : id)                      (* another handle removes a file *)
| EPlant (t : ftype) (i : id) (d : bytes)             (* a file appears at a canonical cache path *)
| EPlantStray (t : ftype) (i : id) (sz : nat)         (* a 64-hex file appears elsewhere below <dirname>/ *)
| EUnplant (t : ftype) (i : id).                      (* a cache file disappears *)

Definition plant_stray (c : cache) (t : ftype) (i : id) (sz : nat) : cache :=
  mkcache (files c) (((t, i), sz) :: filter (fun p => negb (key_eqb (t, i) (fst p))) (strays c)).

(* the cached handle *)
Definition step_c (o : op) (s : st) : res * st :=
  match o with
  | OReadFull t i => cb_read_full s t i
  | OReadPartial t i c off len => cb_read_partial s t i c off len
  | OWrite t i c okb d => cb_write s t i c okb d
  | ORemove t i c => cb_remove s t i c
  | OList t ord => cb_list s t ord
  | OCleanPacks l ord => (RNone, mkst (fst (remove_not_in_list (cch s) Pack l ord)) (bke s))
  | EBeWrite t i d => (RNone, mkst (cch s) (be_write (bke s) t i d))
  | EBeRemove t i => let '(ok, be') := be_remove (bke s) t i in (RUnit ok, mkst (cch s) be')
  | EPlant t i d => (RNone, mkst (c_write (cch s) t i d) (bke s))
  | EPlantStray t i sz => (RNone, mkst (plant_stray (cch s) t i sz) (bke s))
  | EUnplant t i => (RNone, mkst (mkcache (del (t, i) (files (cch s))) (strays (cch s))) (bke s))
  end.

(* the same history without any cache *)
Definition step_u (o : op) (be : fmap) : res * fmap :=
  match o with
  | OReadFull t i => (RData (be_read_full be t i), be)
  | OReadPartial t i c off len => (RData (be_read_partial be t i off len), be)
  | OWrite t i c okb d => if okb then (RUnit true, be_write be t i d) else (RUnit false, be)
  | ORemove t i c => let '(ok, be') := be_remove be t i in (RUnit ok, be')
  | OList t ord => (RList (be_list be t), be)
  | OCleanPacks _ _ => (RNone, be)
  | EBeWrite t i d => (RNone, be_write be t i d)
  | EBeRemove t i => let '(ok, be') := be_remove be t i in (RUnit ok, be')
  | EPlant _ _ _ | EPlantStray _ _ _ | EUnplant _ _ => (RNone, be)
  end.

Fixpoint run_c (ops : list op) (s : st) : list res * st :=
  match ops with
  | [] => ([], s)
  | o :: r => let '(x, s1) := step_c o s in let '(xs, s2) := run_c r s1 in (x :: xs, s2)
  end.
Fixpoint run_u (ops : list op) (be : fmap) : list res * fmap :=
  match ops with
  | [] => ([], be)
  | o :: r => let '(x, b1) := step_u o be in let '(xs, b2) := run_u r b1 in (x :: xs, b2)
  end.

(* ---- the list-then-read discipline (ghost state: which types are known coherent) ---- *)
Definition op_type (o : op) : ftype :=
  match o with
  | OReadFull t _ | OReadPartial t _ _ _ _ | OWrite t _ _ _ _ | ORemove t _ _ | OList t _
  | EBeWrite t _ _ | EBeRemove t _ | EPlant t _ _ | EPlantStray t _ _ | EUnplant t _ => t
  | OCleanPacks _ _ => Pack
  end.

(* the operations whose result can come out of the cache *)
Definition needs_coh (o : op) : bool :=
  match o with
  | OReadFull t _ => guard_read_full t false
  | OReadPartial t _ c _ _ => guard_read_partial t c
  | _ => false
  end.

Definition upd (coh : ftype -> bool) (t : ftype) (b : bool) : ftype -> bool :=
  fun t' => if ft_eqb t' t then b else coh t'.

Definition coh_after (coh : ftype -> bool) (o : op) : ftype -> bool :=
  match o with
  | OList t _ => if guard_list_with_size t false then upd coh t true else coh
  | OWrite t _ _ okb _ => if okb then coh else upd coh t false
  | ORemove t _ c => if guard_remove t c then coh else upd coh t false
  | EBeRemove t _ | EPlant t _ _ => upd coh t false
  | _ => coh
  end.

Fixpoint disciplined (coh : ftype -> bool) (ops : list op) : bool :=
  match ops with
  | [] => true
  | o :: r => (if needs_coh o then coh (op_type o) else true) && disciplined (coh_after coh o) r
  end.

Definition all_coh : ftype -> bool := fun _ => true.
Definition no_coh : ftype -> bool := fun _ => false.
