(* C19 — extraction of the executable model (ExtrOcamlBasic only). *)
Require Extraction.
Require Import ExtrOcamlBasic.
From Verif.C19 Require Import Types Extracted Model.
Extraction "model_ml.ml" step_c step_u remove_not_in_list needs_coh coh_after op_type all_coh blob_is_cacheable is_cacheable early_exit.
