"""C19 fact extractor: regenerates props/C19/coq/Extracted.v from the source.

  * `FileType::is_cacheable` (backend.rs) and `BlobType::is_cacheable` (blob.rs) as Coq tables;
  * the guard under which each `CachedBackend` method consults the cache
    (`tpe.is_cacheable()` / `cacheable || tpe.is_cacheable()`), from backend/cache.rs;
  * whether `Cache::remove_not_in_list` stops at the first failing removal
    (`self.remove(tpe, id)?`) or carries on (`early_exit`); whether `Cache::list_with_size`
    reports 64-hex files outside the canonical layout (`lists_strays`);
  * shape checks: the size test `cached_size != size`, the canonical path
    `<dirname>/<hex[0..2]>/<hex>`, the temporary name suffix, distinct directory names.
Fails loudly (ExtractError) when an item no longer has the expected shape."""
import re, sys, os
sys.path.insert(0, os.path.join(os.path.dirname(__file__), "..", "..", "lib"))
from rustscan import *

FT = ["Config", "Index", "Key", "Snapshot", "Pack"]


def bool_table(body, variants, what):
    """`match self { Self::A | Self::B => false, Self::C => true }` -> {variant: bool}"""
    m = re.search(r"match\s+self\s*\{", body)
    if not m:
        raise ExtractError(what + ": no `match self`")
    inner = body[m.end():match_brace(body, m.end() - 1)]
    tab = {}
    for pat, val in re.findall(r"((?:Self::\w+\s*\|?\s*)+)=>\s*(true|false)\s*,?", inner):
        for v in re.findall(r"Self::(\w+)", pat):
            if v in tab:
                raise ExtractError(what + ": variant %s matched twice" % v)
            tab[v] = (val == "true")
    if sorted(tab) != sorted(variants):
        raise ExtractError(what + ": arms %s do not cover exactly %s" % (sorted(tab), sorted(variants)))
    return tab


def guard_of(body, what):
    """condition of the first `if` of a CachedBackend method, as a Coq bool over (t, c)"""
    m = re.search(r"\bif\s+(.*?)(?:&&\s*let\b|\{)", body, re.S)
    if not m:
        raise ExtractError(what + ": no guard found")
    e = " ".join(m.group(1).split())
    while e.startswith("(") and e.endswith(")") and match_brace(e, 0, "(", ")") == len(e) - 1:
        e = e[1:-1].strip()
    toks = re.findall(r"tpe\.is_cacheable\(\)|cacheable|\|\||&&|!|\(|\)|\S+", e)
    out = []
    for tk in toks:
        if tk == "tpe.is_cacheable()": out.append("is_cacheable t")
        elif tk == "cacheable": out.append("c")
        elif tk in ("||", "&&", "(", ")"): out.append(tk)
        elif tk == "!": out.append("negb")
        else:
            raise ExtractError("%s: guard `%s` has an unrecognised token `%s`" % (what, e, tk))
    return " ".join(out), e


def gen(repo):
    be = read(repo, "crates/core/src/backend.rs")
    bl = read(repo, "crates/core/src/blob.rs")
    ca = read(repo, "crates/core/src/backend/cache.rs")
    ft = bool_table(fn_body(be, "is_cacheable"), FT, "FileType::is_cacheable")
    bt = bool_table(fn_body(bl, "is_cacheable"), ["Tree", "Data"], "BlobType::is_cacheable")
    # directory names must be pairwise distinct (cache paths of different types never collide)
    dn = fn_body(be, "dirname")
    names = dict(re.findall(r"Self::(\w+)\s*=>\s*\"([^\"]*)\"", dn))
    if sorted(names) != sorted(FT) or len(set(names.values())) != len(FT):
        raise ExtractError("FileType::dirname: names missing or not distinct: %r" % names)
    # the CachedBackend impls come before `impl Cache`
    i0 = ca.find("impl ReadBackend for CachedBackend")
    i1 = ca.find("impl WriteBackend for CachedBackend")
    m2 = re.search(r"\bimpl\s+Cache\s*\{", ca)
    i2 = m2.start() if m2 else -1
    if not (0 <= i0 < i1 < i2):
        raise ExtractError("cache.rs: impl blocks of CachedBackend / Cache not in the expected order")
    rd, wr, cache = ca[i0:i1], ca[i1:i2], ca[i2:]
    guards = {}
    for name, src in (("list_with_size", rd), ("read_full", rd), ("read_partial", rd), ("write_bytes", wr), ("remove", wr)):
        guards[name] = guard_of(fn_body(src, name), "CachedBackend::" + name)
    # shape of the read paths: cache first, then full backend read + fill
    for name in ("read_full", "read_partial"):
        b = fn_body(rd, name)
        if not re.search(r"self\.cache\.%s\(" % name, b) or "self.be.read_full(tpe, id)" not in b \
           or "self.cache.write_bytes(tpe, id" not in b or "Ok(Some(data)) => return Ok(data)" not in b:
            raise ExtractError("CachedBackend::%s no longer has the shape cache-hit / full read + fill" % name)
    if "self.be.read_partial(tpe, id, cacheable, offset, length)" not in fn_body(rd, "read_partial"):
        raise ExtractError("CachedBackend::read_partial: uncached branch changed")
    lw = fn_body(rd, "list_with_size")
    if "self.be.list_with_size(tpe)?" not in lw or "self.cache.remove_not_in_list(tpe, &list)" not in lw:
        raise ExtractError("CachedBackend::list_with_size changed shape")
    wb = fn_body(wr, "write_bytes")
    if wb.find("self.cache.write_bytes(") < 0 or wb.find("self.cache.write_bytes(") > wb.find("self.be.write_bytes("):
        raise ExtractError("CachedBackend::write_bytes: cache write no longer precedes the backend write")
    rm = fn_body(wr, "remove")
    if rm.find("self.cache.remove(") < 0 or rm.find("self.cache.remove(") > rm.find("self.be.remove("):
        raise ExtractError("CachedBackend::remove: cache removal no longer precedes the backend removal")
    # Cache::remove_not_in_list
    rn = fn_body(cache, "remove_not_in_list")
    if not re.search(r"list_cache\.remove\(id\)\s*&&\s*&cached_size\s*!=\s*size", " ".join(rn.split())):
        raise ExtractError("remove_not_in_list: size test `cached_size != size` not found")
    if "for id in list_cache.keys()" not in rn:
        raise ExtractError("remove_not_in_list: second loop over the remaining cache entries not found")
    calls = re.findall(r"self\.remove\(tpe,\s*id\)\s*(\?)?", rn)
    if len(calls) != 2:
        raise ExtractError("remove_not_in_list: expected two calls of self.remove(tpe, id), found %d" % len(calls))
    if calls[0] != calls[1]:
        raise ExtractError("remove_not_in_list: the two removal calls propagate errors differently")
    early_exit = calls[0] == "?"
    # canonical path and listing filter
    pth = " ".join(fn_body(cache, "path").split())
    if ".join(tpe.dirname()) .join(&hex_id[0..2]) .join(hex_id)" not in pth.replace(")\n", ") "):
        if not re.search(r"join\(tpe\.dirname\(\)\)\s*\.join\(&hex_id\[0\.\.2\]\)\s*\.join\(hex_id\)", pth):
            raise ExtractError("Cache::path is no longer <dirname>/<hex[0..2]>/<hex>")
    ls = fn_body(cache, "list_with_size")
    if "e.file_name().len() == 64" not in ls or "WalkDir::new(path)" not in ls or "is_file()" not in ls:
        raise ExtractError("Cache::list_with_size: listing filter changed")
    # does the listing keep 64-hex files that are not at <dirname>/<hex[0..2]>/<hex>?
    lsn = " ".join(ls.split())
    canonical_only = "e.depth() == 2" in lsn and re.search(
        r"e\.path\(\)\.parent\(\)\.and_then\(Path::file_name\)\.and_then\(\|d\| d\.to_str\(\)\) == e\.file_name\(\)\.to_str\(\)\.map\(\|c\| &c\[0\.\.2\]\)", lsn) is not None
    if ("e.depth()" in lsn or "e.path()" in lsn) and not canonical_only:
        raise ExtractError("Cache::list_with_size: location filter has an unrecognised shape")
    wc = fn_body(cache, "write_bytes")
    if '"-tmp-"' not in wc or "fs::rename(&filename_tmp, &filename)" not in wc:
        raise ExtractError("Cache::write_bytes: tmp + rename shape changed")
    out = ["(* GENERATED by props/C19/extract.py from crates/core/src/backend.rs, blob.rs, backend/cache.rs - do not edit *)",
           "From Verif.Base Require Import Tactics.",
           "From Verif.C19 Require Import Types.", ""]
    out.append("Definition is_cacheable (t : ftype) : bool :=\n  match t with\n" +
               "".join("  | %s => %s\n" % (v, "true" if ft[v] else "false") for v in FT) + "  end.")
    out.append("Definition blob_is_cacheable (b : blob_type) : bool :=\n  match b with\n" +
               "".join("  | %s => %s\n" % (v, "true" if bt[v] else "false") for v in ["Tree", "Data"]) + "  end.")
    out.append("")
    for name in ("list_with_size", "read_full", "read_partial", "write_bytes", "remove"):
        out.append("(* CachedBackend::%s consults the cache iff: %s *)" % (name, guards[name][1]))
        out.append("Definition guard_%s (t : ftype) (c : bool) : bool := %s." % (name, guards[name][0]))
    out.append("")
    out.append("(* Cache::remove_not_in_list: `self.remove(tpe, id)%s` *)" % ("?" if early_exit else " (errors collected, loop continues)"))
    out.append("Definition early_exit : bool := %s." % ("true" if early_exit else "false"))
    out.append("(* Cache::list_with_size: %s *)" % ("only files at <dirname>/<hex[0..2]>/<hex>" if canonical_only else "every 64-hex file below <dirname>/"))
    out.append("Definition lists_strays : bool := %s." % ("false" if canonical_only else "true"))
    meta = {"lists_strays": not canonical_only, "file_type_cacheable": ft, "blob_type_cacheable": bt, "guards": {k: v[1] for k, v in guards.items()},
            "early_exit": early_exit, "dirnames": names}
    return "\n".join(out) + "\n", meta


if __name__ == "__main__":
    repo = sys.argv[1] if len(sys.argv) > 1 else "/repo"
    txt, meta = gen(repo)
    sys.stdout.write(txt)
