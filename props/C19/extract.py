"""C19 fact extractor: regenerates props/C19/coq/Extracted.v from the source.

  * `FileType::is_cacheable` (backend.rs) and `BlobType::is_cacheable` (blob.rs) as Coq tables;
  * the guard under which each `CachedBackend` method consults the cache
    (`tpe.is_cacheable()` / `cacheable || tpe.is_cacheable()`), from backend/cache.rs;
  * whether `Cache::remove_not_in_list` stops at the first failing removal
    (`self.remove(tpe, id)?`) or carries on (`early_exit`); whether `Cache::list_with_size`
    reports 64-hex files outside the canonical layout (`lists_strays`);
  * shape checks: the size test `cached_size != size`, the canonical path
    `<dirname>/<hex[0..2]>/<hex>`, the temporary name suffix, distinct directory names.
Fails loudly (ExtractError) when an item no longer has the expected shape."""
import re, sys, os
sys.path.insert(0, os.path.join(os.path.dirname(__file__), "..", "..", "lib"))
from rustscan import *

FT = ["Config", "Index", "Key", "Snapshot", "Pack"]


def bool_table(body, variants, what):
    """`match self { Self::A | Self::B => false, Self::C => true }` -> {variant: bool}"""
    m = re.search(r"match\s+self\s*\{", body)
    if not m:
        raise ExtractError(what + ": no `match self`")
    inner = body[m.end():match_brace(body, m.end() - 1)]
    tab = {}
    for pat, val in re.findall(r"((?:Self::\w+\s*\|?\s*)+)=>\s*(true|false)\s*,?", inner):
        for v in re.findall(r"Self::(\w+)", pat):
            if v in tab:
                raise ExtractError(what + ": variant %s matched twice" % v)
            tab[v] = (val == "true")
    if sorted(tab) != sorted(variants):
        raise ExtractError(what + ": arms %s do not cover exactly %s" % (sorted(tab), sorted(variants)))
    return tab


def guard_of(body, what):
    """condition of the first `if` of a CachedBackend method, as a Coq bool over (t, c)"""
    m = re.search(r"\bif\s+(.*?)(?:&&\s*let\b|\{)", body, re.S)
    if not m:
        raise ExtractError(what + ": no guard found")
    e = " ".join(m.group(1).split())
    while e.startswith("(") and e.endswith(")") and match_brace(e, 0, "(", ")") == len(e) - 1:
        e = e[1:-1].strip()
    toks = re.findall(r"tpe\.is_cacheable\(\)|cacheable|\|\||&&|!|\(|\)|\S+", e)
    out = []
    for tk in toks:
        if tk == "tpe.is_cacheable()": out.append("is_cacheable t")
        elif tk == "cacheable": out.append("c")
        elif tk in ("||", "&&", "(", ")"): out.append(tk)
        elif tk == "!": out.append("negb")
        else:
            raise ExtractError("%s: guard `%s` has an unrecognised token `%s`" % (what, e, tk))
    return " ".join(out), e


# --------------------------------------------------------------------------- generic readers
# The access pattern of the generic readers every command uses for snapshot and index files:
# for each reader (and each of its variants) the sequence of backend events L (a listing of
# the type: `.list(` / `.list_with_size(`) and R (a read of a file: `.read_full(` /
# `.read_encrypted_full(`) in textual order, callees expanded.
RDR_TOK = re.compile(
    r"\.list_with_size\(|\.list\(|\.read_full\(|\.read_encrypted_full\(|"
    r"\bget_file(?:::<[^>()]*>)?\(|\bstream_list(?:::<[^>()]*>)?\(|\bstream_all(?:::<[^>()]*>)?\(|"
    r"\bfind_starts_with\(|\bfind_ids\(|\bfind_id\(|"
    r"Self::(?:from_backend|latest_n|from_id|iter_all_from_backend|fill_missing|new_from_collector)\(")


def fn_parts(src, name, nth=0):
    """(signature, body) of the nth `fn name`, generics with nested <> allowed
    (lib/rustscan.fn_body does not accept `fn f<T: AsRef<str>>(`)."""
    ms = list(re.finditer(r"\bfn\s+%s\b" % re.escape(name), src))
    ms = [m for m in ms if re.match(r"\s*[<(]", src[m.end():])]
    if len(ms) <= nth:
        raise ExtractError("fn %s not found" % name)
    i = ms[nth].end()
    while src[i].isspace(): i += 1
    if src[i] == "<":
        depth = 0
        while True:
            if src[i] == "<": depth += 1
            elif src[i] == ">" and src[i - 1] != "-":
                depth -= 1
                if depth == 0: break
            i += 1
        i += 1
    while src[i].isspace(): i += 1
    if src[i] != "(":
        raise ExtractError("fn %s: parameter list not found" % name)
    pe = match_brace(src, i, "(", ")")
    b = src.find("{", pe)
    semi = src.find(";", pe)
    if b < 0 or (0 <= semi < b):
        raise ExtractError("fn %s has no body" % name)
    return src[ms[nth].start():b], src[b + 1:match_brace(src, b)]


def fnb(src, name, nth=0):
    return fn_parts(src, name, nth)[1]


def fn_body_sig(src, name, sig_has, what):
    """body of the `fn name` whose signature contains `sig_has`"""
    for nth in range(12):
        try:
            sg, body = fn_parts(src, name, nth)
        except ExtractError:
            break
        if sig_has in " ".join(sg.split()):
            return body
    raise ExtractError("%s: fn %s with `%s` in its signature not found" % (what, name, sig_has))


def block_after(text, start_pat, what):
    m = re.search(start_pat, text)
    if not m:
        raise ExtractError(what + ": `%s` not found" % start_pat)
    b = text.find("{", m.end() - 1)
    e = match_brace(text, b)
    return text[b + 1:e], e + 1


SITE_TOK = re.compile(r"\.(get_file|stream_list|read_encrypted_full)(?:::<[^>()]*>)?\(")
LISTING_TOK = re.compile(r"\.list\(|\.list_with_size\(|\bfind_ids?\(|\bfind_starts_with\(|\bstream_all(?:::<[^>()]*>)?\(")
# the call sites of the un-listed file readers in crates/core/src (file, enclosing fn, reader,
# 'listed' = a listing / listing reader occurs earlier in the same fn).  Pinned: a new site means a
# command may read a snapshot / index file by an id it did not get from a listing -> review.
EXPECTED_SITES = [
    "backend/decrypt.rs:get_file:read_encrypted_full:explicit",
    "backend/decrypt.rs:stream_all:stream_list:listed",
    "backend/decrypt.rs:stream_list:get_file:explicit",
    # DryRunBackend::read_encrypted_full forwards to the wrapped backend's method of the same name
    # (since the id-verification fix of C04); not a reader of its own
    "backend/dry_run.rs:read_encrypted_full:read_encrypted_full:explicit",
    "commands/cat.rs:cat_file:read_encrypted_full:listed",
    "commands/prune.rs:find_used_blobs:stream_list:listed",
    "repofile/snapshotfile.rs:fill_missing:stream_list:explicit",
    "repofile/snapshotfile.rs:from_backend:get_file:explicit",
    "repository.rs:get_file:get_file:explicit",
    "repository.rs:open_may_use_hot:get_file:listed",
    "repository.rs:stream_files_list:stream_list:explicit",
]


def read_sites(repo):
    import os
    base = os.path.join(repo, "crates/core/src")
    sites = []
    for dp, dn, fns in os.walk(base):
        if "verif_hooks" in dp:
            continue
        for f in sorted(fns):
            if not f.endswith(".rs"):
                continue
            rel = os.path.relpath(os.path.join(dp, f), base)
            src = strip_comments(open(os.path.join(dp, f)).read())
            k = src.find("#[cfg(test)]")
            if k >= 0 and "mod tests" in src[k:k + 200]:
                src = src[:k]
            for m in SITE_TOK.finditer(src):
                fm = None
                for fm in re.finditer(r"\bfn\s+(\w+)", src[:m.start()]):
                    pass
                if fm is None:
                    continue
                listed = LISTING_TOK.search(src[fm.start():m.start()]) is not None
                sites.append("%s:%s:%s:%s" % (rel, fm.group(1), m.group(1), "listed" if listed else "explicit"))
    return sorted(set(sites))


GUARD_FACTS = {}

def command_table(repo):
    """which generic readers the four commands of the property (and their explicit-id variants) use for
    snapshot and index files; each row is recognised in the body of the named function"""
    bk = read(repo, "crates/core/src/commands/backup.rs")
    pr = read(repo, "crates/core/src/commands/prune.rs")
    ck = read(repo, "crates/core/src/commands/check.rs")
    rp = read(repo, "crates/core/src/repository.rs")
    def need(cond, what):
        if not cond:
            raise ExtractError("command table: " + what)
    gp = " ".join(fnb(bk, "get_parent").split())
    i_force, i_empty, i_latest, i_strs = gp.find("if self.force"), gp.find("else if self.parents.is_empty()"), gp.find("SnapshotFile::latest("), gp.find("SnapshotFile::from_strs(")
    need(0 <= i_force < i_empty < i_latest < i_strs and "&self.parents" in gp[i_strs:i_strs + 120],
         "ParentOptions::get_parent is no longer force / no parents -> SnapshotFile::latest / parents -> SnapshotFile::from_strs(&self.parents)")
    need("GlobalIndex::only_full_trees(self.dbe()" in " ".join(fnb(rp, "to_indexed_ids").split()), "Repository::to_indexed_ids no longer reads the index with GlobalIndex::only_full_trees")
    need("self.get_matching_snapshots(" in fnb(rp, "get_all_snapshots") and "self.update_matching_snapshots(" in fnb(rp, "get_matching_snapshots")
         and "SnapshotFile::update_from_backend(self.dbe()" in fnb(rp, "update_matching_snapshots"), "Repository::get_all_snapshots no longer ends in SnapshotFile::update_from_backend")
    need("self.update_snapshots(" in fnb(rp, "get_snapshots") and "SnapshotFile::update_from_ids(self.dbe()" in fnb(rp, "update_snapshots"),
         "Repository::get_snapshots no longer ends in SnapshotFile::update_from_ids")
    need("self.dbe().delete_list(true, ids.iter()" in " ".join(fnb(rp, "delete_snapshots").split()), "Repository::delete_snapshots no longer removes with the cacheable flag")
    fu = " ".join(fnb(pr, "find_used_blobs").split())
    a, b = fu.find(".list(FileType::Snapshot)?"), fu.find(".stream_list::<SnapshotFile>(list")
    need(0 <= a < b, "prune::find_used_blobs no longer lists the snapshots before streaming them")
    need("be.stream_all::<IndexFile>(" in fnb(pr, "from_prune_options") or "stream_all::<IndexFile>(" in pr, "prune no longer reads the index with stream_all")
    need(".get_all_snapshots()?" in fnb(rp, "check"), "Repository::check no longer takes the trees from get_all_snapshots")
    need("be.stream_all::<IndexFile>(" in fnb(ck, "check_packs"), "check_packs no longer reads the index with stream_all")
    cr = " ".join(fnb(ck, "check_repository").split())
    a, b = cr.find("raw_be.list_with_size(FileType::Snapshot)?"), cr.find("raw_be.read_full(file_type, &id)")
    need(a < 0 or a < b, "check_repository: snapshot hash test reads before listing")
    return [
        ("CmdBackup", [("IndexOnlyFullTrees", "Index"), ("SnapLatest", "Snapshot")], "backup, parent = latest snapshot of the group"),
        ("CmdBackupParentPrefix", [("IndexOnlyFullTrees", "Index"), ("SnapFromStrsPrefix", "Snapshot")], "backup, explicit parents, some id prefix"),
        ("CmdBackupParentLatest", [("IndexOnlyFullTrees", "Index"), ("SnapFromStrsLatest", "Snapshot")], "backup, explicit parents, some latest[~N]"),
        ("CmdBackupParentFullIds", [("IndexOnlyFullTrees", "Index"), ("SnapFromStrsIdsOnly", "Snapshot")], "backup, explicit parents, full ids only"),
        ("CmdForgetAll", [("SnapUpdateFromBackend", "Snapshot")], "forget: get_all_snapshots, keep rules, delete_snapshots"),
        ("CmdForgetPrefix", [("SnapUpdateFromIdsPrefix", "Snapshot")], "forget of snapshots named by id prefix: get_snapshots, delete_snapshots"),
        ("CmdForgetFullIds", [("SnapUpdateFromIdsFull", "Snapshot")], "forget of snapshots named by full id"),
        ("CmdPrune", [("StreamAll", "Index"), ("StreamAll", "Snapshot")], "prune: index by stream_all, snapshots by list + stream_list (find_used_blobs)"),
        ("CmdCheck", [("SnapUpdateFromBackend", "Snapshot"), ("StreamAll", "Snapshot"), ("StreamAll", "Index")], "check: get_all_snapshots, snapshot hash test (list_with_size + read_full), check_packs"),
    ]


def reader_table(repo):
    dec = read(repo, "crates/core/src/backend/decrypt.rs")
    be = read(repo, "crates/core/src/backend.rs")
    sn = read(repo, "crates/core/src/repofile/snapshotfile.rs")
    ix = read(repo, "crates/core/src/index.rs")
    cat = read(repo, "crates/core/src/commands/cat.rs")
    rp = read(repo, "crates/core/src/repository.rs")
    ca = read(repo, "crates/core/src/backend/cache.rs")
    B = {
        "get_file": fn_body_sig(dec, "get_file", "id: &F::Id", "DecryptReadBackend"),
        "stream_all": fnb(dec, "stream_all"),
        "stream_list": fnb(dec, "stream_list"),
        "find_starts_with": fnb(be, "find_starts_with"),
        "find_id": fnb(be, "find_id"),
        "find_ids": fnb(be, "find_ids"),
        "from_backend": fn_body_sig(sn, "from_backend", "id: &SnapshotId", "SnapshotFile"),
        "from_str": fn_body_sig(sn, "from_str", "be: &B", "SnapshotFile"),
        "from_strs": fn_body_sig(sn, "from_strs", "be: &B", "SnapshotFile"),
        "latest": fn_body_sig(sn, "latest", "be: &B", "SnapshotFile"),
        "latest_n": fn_body_sig(sn, "latest_n", "be: &B", "SnapshotFile"),
        "from_id": fn_body_sig(sn, "from_id", "be: &B", "SnapshotFile"),
        "update_from_ids": fnb(sn, "update_from_ids"),
        "fill_missing": fnb(sn, "fill_missing"),
        "iter_all_from_backend": fnb(sn, "iter_all_from_backend"),
        "update_from_backend": fnb(sn, "update_from_backend"),
        "new_from_collector": fnb(ix, "new_from_collector"),
        "index_new": fn_body_sig(ix, "new", "be: &impl DecryptReadBackend", "GlobalIndex"),
        "only_full_trees": fnb(ix, "only_full_trees"),
        "cat_file": fnb(cat, "cat_file"),
    }
    # find_ids: all strings parse as full ids => returned as they are; otherwise find_starts_with
    fi = B["find_ids"]
    k = fi.find(".or_else(")
    if k < 0 or ".parse()" not in fi[:k] or "find_starts_with" not in fi[k:] or RDR_TOK.search(fi[:k]):
        raise ExtractError("FindInBackend::find_ids no longer has the shape parse-all .or_else(find_starts_with)")
    # SnapshotFile::from_str: the three arms
    m = re.search(r"SnapshotRequest::Latest\(n\)\s*=>(.*?),\s*SnapshotRequest::StartsWith\(id\)\s*=>(.*?),\s*SnapshotRequest::Id\(id\)\s*=>(.*?),?\s*\}",
                  B["from_str"], re.S)
    if not m:
        raise ExtractError("SnapshotFile::from_str: the arms Latest / StartsWith / Id were not recognised")
    arm_latest, arm_prefix, arm_id = m.group(1), m.group(2), m.group(3)
    # the string of a StartsWith request is shorter than an id (so find_ids takes its listing branch)
    rq = fn_body_sig(sn, "from_str", "s: &str", "SnapshotRequest")
    if not re.search(r"if\s+s\.len\(\)\s*<\s*HEX_LEN\s*\{\s*Self::StartsWith\(", rq) or "Self::Id(s.parse()?)" not in rq:
        raise ExtractError("SnapshotRequest::from_str: StartsWith is no longer exactly the strings shorter than an id")
    # SnapshotFile::from_strs: no `latest` request (only prefixes and ids) / some `latest`
    fs = B["from_strs"]
    none_blk, e1 = block_after(fs, r"match\s+requests\.max_n_latest\s*\{\s*None\s*=>\s*\{", "SnapshotFile::from_strs")
    some_blk, _ = block_after(fs[e1:], r"Some\(max_n\)\s*=>\s*\{", "SnapshotFile::from_strs")
    mi = re.search(r"if\s+requests\.starts_with\.is_empty\(\)\s*\{", none_blk)
    if not mi:
        raise ExtractError("SnapshotFile::from_strs: `if requests.starts_with.is_empty()` not found")
    then_e = match_brace(none_blk, mi.end() - 1)
    me = re.match(r"\s*else\s*\{", none_blk[then_e + 1:])
    if not me:
        raise ExtractError("SnapshotFile::from_strs: else branch of the starts_with test not found")
    else_b = then_e + 1 + me.end() - 1
    else_e = match_brace(none_blk, else_b)
    ids_only = none_blk[:mi.start()] + none_blk[mi.end():then_e] + none_blk[else_e + 1:]
    with_prefix = none_blk[:mi.start()] + none_blk[else_b + 1:else_e] + none_blk[else_e + 1:]

    memo = {}

    def ev(text, ctx):
        out = ""
        for mm in RDR_TOK.finditer(text):
            tk = mm.group(0)
            if tk in (".list(", ".list_with_size("): out += "L"
            elif tk in (".read_full(", ".read_encrypted_full("): out += "R"
            else:
                callee = re.sub(r"^Self::", "", re.sub(r"(::<[^>()]*>)?\($", "", tk))
                out += call(callee, ctx)
        return out

    def call(name, ctx):
        key = (name, ctx)
        if key in memo:
            if memo[key] is None:
                raise ExtractError("recursive reader " + name)
            return memo[key]
        memo[key] = None
        if name == "find_ids":
            r = "" if ctx == "full" else ev(B["find_ids"], ctx)
        elif name not in B:
            raise ExtractError("reader calls unknown fn " + name)
        else:
            r = ev(B[name], ctx)
        memo[key] = r
        return r

    rows = [
        ("StreamAll", call("stream_all", "prefix"), "DecryptReadBackend::stream_all"),
        ("StreamList", call("stream_list", "prefix"), "DecryptReadBackend::stream_list (ids supplied by the caller)"),
        ("GetFile", call("get_file", "prefix"), "DecryptReadBackend::get_file (explicit id)"),
        ("FindStartsWith", call("find_starts_with", "prefix"), "FindInBackend::find_starts_with"),
        ("FindIdsFull", call("find_ids", "full"), "FindInBackend::find_ids / find_id, every string a full id"),
        ("FindIdsPrefix", call("find_ids", "prefix"), "FindInBackend::find_ids / find_id, some string not a full id"),
        ("SnapIterAll", call("iter_all_from_backend", "prefix"), "SnapshotFile::iter_all_from_backend"),
        ("SnapLatest", call("latest", "prefix"), "SnapshotFile::latest / latest_n"),
        ("SnapFromStrLatest", ev(arm_latest, "prefix"), "SnapshotFile::from_str(\"latest[~N]\")"),
        ("SnapFromStrPrefix", ev(arm_prefix, "prefix"), "SnapshotFile::from_str(<id prefix>) -> from_id"),
        ("SnapFromStrId", ev(arm_id, "full"), "SnapshotFile::from_str(<full id>) -> from_backend"),
        ("SnapFromStrsLatest", ev(some_blk, "prefix"), "SnapshotFile::from_strs, some request is latest[~N]"),
        ("SnapFromStrsPrefix", ev(with_prefix, "prefix"), "SnapshotFile::from_strs, no latest, some id prefix"),
        ("SnapFromStrsIdsOnly", ev(ids_only, "full"), "SnapshotFile::from_strs, full ids only"),
        ("SnapUpdateFromIdsFull", call("update_from_ids", "full"), "SnapshotFile::update_from_ids (Repository::get_snapshots), full ids only"),
        ("SnapUpdateFromIdsPrefix", call("update_from_ids", "prefix"), "SnapshotFile::update_from_ids, some id prefix"),
        ("SnapUpdateFromBackend", call("update_from_backend", "prefix"), "SnapshotFile::update_from_backend (Repository::get_all_snapshots)"),
        ("IndexNew", call("index_new", "prefix"), "GlobalIndex::new"),
        ("IndexOnlyFullTrees", call("only_full_trees", "prefix"), "GlobalIndex::only_full_trees"),
        ("CatFileFull", call("cat_file", "full"), "commands::cat::cat_file(<full id>)"),
        ("CatFilePrefix", call("cat_file", "prefix"), "commands::cat::cat_file(<id prefix>)"),
    ]
    # ---- does an id-only listing through the handle of the repository reach the cache clean-up?
    # trait default ReadBackend::list = list_with_size; DecryptBackend::list and Arc<dyn WriteBackend>::list forward
    # to the wrapped `list`; CachedBackend has no `list` of its own (or one that calls its list_with_size);
    # Repository::open wraps the backend in the CachedBackend before the DecryptBackend is built.
    if ".list_with_size(tpe)" not in " ".join(fnb(be, "list").split()):
        raise ExtractError("ReadBackend::list (trait default) no longer calls list_with_size")
    i0 = dec.find("ReadBackend for DecryptBackend")
    if i0 < 0:
        raise ExtractError("impl ReadBackend for DecryptBackend not found")
    dl = re.search(r"\bfn\s+list\s*\(", dec[i0:])
    if dl and "self.be.list(tpe)" not in fnb(dec[i0:], "list"):
        raise ExtractError("DecryptBackend::list does not forward to self.be.list")
    a0 = be.find("impl ReadBackend for Arc<dyn WriteBackend>")
    if a0 < 0 or (re.search(r"\bfn\s+list\s*\(", be[a0:]) and "self.deref().list(tpe)" not in fnb(be[a0:], "list")):
        raise ExtractError("Arc<dyn WriteBackend>::list does not forward to the wrapped list")
    c0 = ca.find("impl ReadBackend for CachedBackend")
    c1 = ca.find("impl WriteBackend for CachedBackend")
    own = re.search(r"\bfn\s+list\s*\(", ca[c0:c1])
    reaches = True
    if own:
        reaches = "self.list_with_size(" in fnb(ca[c0:c1], "list")
    w1, w2 = rp.find("CachedBackend::new_cache(self.be.clone()"), rp.find("DecryptBackend::new(self.be.clone()")
    if not (0 <= w1 < w2):
        raise ExtractError("Repository::open: the DecryptBackend is no longer built over the CachedBackend")
    return rows, reaches


def gen(repo):
    be = read(repo, "crates/core/src/backend.rs")
    bl = read(repo, "crates/core/src/blob.rs")
    ca = read(repo, "crates/core/src/backend/cache.rs")
    ft = bool_table(fn_body(be, "is_cacheable"), FT, "FileType::is_cacheable")
    bt = bool_table(fn_body(bl, "is_cacheable"), ["Tree", "Data"], "BlobType::is_cacheable")
    # directory names must be pairwise distinct (cache paths of different types never collide)
    dn = fn_body(be, "dirname")
    names = dict(re.findall(r"Self::(\w+)\s*=>\s*\"([^\"]*)\"", dn))
    if sorted(names) != sorted(FT) or len(set(names.values())) != len(FT):
        raise ExtractError("FileType::dirname: names missing or not distinct: %r" % names)
    # the CachedBackend impls come before `impl Cache`
    i0 = ca.find("impl ReadBackend for CachedBackend")
    i1 = ca.find("impl WriteBackend for CachedBackend")
    m2 = re.search(r"\bimpl\s+Cache\s*\{", ca)
    i2 = m2.start() if m2 else -1
    if not (0 <= i0 < i1 < i2):
        raise ExtractError("cache.rs: impl blocks of CachedBackend / Cache not in the expected order")
    rd, wr, cache = ca[i0:i1], ca[i1:i2], ca[i2:]
    guards = {}
    for name, src in (("list_with_size", rd), ("read_full", rd), ("read_partial", rd), ("write_bytes", wr), ("remove", wr)):
        guards[name] = guard_of(fn_body(src, name), "CachedBackend::" + name)
    # shape of the read paths: cache first, then full backend read + fill
    for name in ("read_full", "read_partial"):
        b = fn_body(rd, name)
        if not re.search(r"self\.cache\.%s\(" % name, b) or "self.be.read_full(tpe, id)" not in b \
           or "self.cache.write_bytes(tpe, id" not in b or "Ok(Some(data)) => return Ok(data)" not in b:
            raise ExtractError("CachedBackend::%s no longer has the shape cache-hit / full read + fill" % name)
    if "self.be.read_partial(tpe, id, cacheable, offset, length)" not in fn_body(rd, "read_partial"):
        raise ExtractError("CachedBackend::read_partial: uncached branch changed")
    lw = fn_body(rd, "list_with_size")
    if "self.be.list_with_size(tpe)?" not in lw or "self.cache.remove_not_in_list(tpe, &list)" not in lw:
        raise ExtractError("CachedBackend::list_with_size changed shape")
    wb = fn_body(wr, "write_bytes")
    if wb.find("self.cache.write_bytes(") < 0 or wb.find("self.cache.write_bytes(") > wb.find("self.be.write_bytes("):
        raise ExtractError("CachedBackend::write_bytes: cache write no longer precedes the backend write")
    rm = fn_body(wr, "remove")
    if rm.find("self.cache.remove(") < 0 or rm.find("self.cache.remove(") > rm.find("self.be.remove("):
        raise ExtractError("CachedBackend::remove: cache removal no longer precedes the backend removal")
    # Cache::remove_not_in_list
    rn = fn_body(cache, "remove_not_in_list")
    if not re.search(r"list_cache\.remove\(id\)\s*&&\s*&cached_size\s*!=\s*size", " ".join(rn.split())):
        raise ExtractError("remove_not_in_list: size test `cached_size != size` not found")
    if "for id in list_cache.keys()" not in rn:
        raise ExtractError("remove_not_in_list: second loop over the remaining cache entries not found")
    calls = re.findall(r"self\.remove\(tpe,\s*id\)\s*(\?)?", rn)
    if len(calls) != 2:
        raise ExtractError("remove_not_in_list: expected two calls of self.remove(tpe, id), found %d" % len(calls))
    if calls[0] != calls[1]:
        raise ExtractError("remove_not_in_list: the two removal calls propagate errors differently")
    early_exit = calls[0] == "?"
    # canonical path and listing filter
    pth = " ".join(fn_body(cache, "path").split())
    if ".join(tpe.dirname()) .join(&hex_id[0..2]) .join(hex_id)" not in pth.replace(")\n", ") "):
        if not re.search(r"join\(tpe\.dirname\(\)\)\s*\.join\(&hex_id\[0\.\.2\]\)\s*\.join\(hex_id\)", pth):
            raise ExtractError("Cache::path is no longer <dirname>/<hex[0..2]>/<hex>")
    ls = fn_body(cache, "list_with_size")
    if "e.file_name().len() == 64" not in ls or "WalkDir::new(path)" not in ls or "is_file()" not in ls:
        raise ExtractError("Cache::list_with_size: listing filter changed")
    # does the listing keep 64-hex files that are not at <dirname>/<hex[0..2]>/<hex>?
    lsn = " ".join(ls.split())
    canonical_only = "e.depth() == 2" in lsn and re.search(
        r"e\.path\(\)\.parent\(\)\.and_then\(Path::file_name\)\.and_then\(\|d\| d\.to_str\(\)\) == e\.file_name\(\)\.to_str\(\)\.map\(\|c\| &c\[0\.\.2\]\)", lsn) is not None
    if ("e.depth()" in lsn or "e.path()" in lsn) and not canonical_only:
        raise ExtractError("Cache::list_with_size: location filter has an unrecognised shape")
    wc = fn_body(cache, "write_bytes")
    if '"-tmp-"' not in wc or "fs::rename(&filename_tmp, &filename)" not in wc:
        raise ExtractError("Cache::write_bytes: tmp + rename shape changed")
    out = ["(* GENERATED by props/C19/extract.py from crates/core/src/backend.rs, blob.rs, backend/cache.rs - do not edit *)",
           "From Verif.Base Require Import Tactics.",
           "From Verif.C19 Require Import Types.", ""]
    out.append("Definition is_cacheable (t : ftype) : bool :=\n  match t with\n" +
               "".join("  | %s => %s\n" % (v, "true" if ft[v] else "false") for v in FT) + "  end.")
    out.append("Definition blob_is_cacheable (b : blob_type) : bool :=\n  match b with\n" +
               "".join("  | %s => %s\n" % (v, "true" if bt[v] else "false") for v in ["Tree", "Data"]) + "  end.")
    out.append("")
    for name in ("list_with_size", "read_full", "read_partial", "write_bytes", "remove"):
        out.append("(* CachedBackend::%s consults the cache iff: %s *)" % (name, guards[name][1]))
        out.append("Definition guard_%s (t : ftype) (c : bool) : bool := %s." % (name, guards[name][0]))
    out.append("")
    out.append("(* Cache::remove_not_in_list: `self.remove(tpe, id)%s` *)" % ("?" if early_exit else " (errors collected, loop continues)"))
    out.append("Definition early_exit : bool := %s." % ("true" if early_exit else "false"))
    out.append("(* Cache::list_with_size: %s *)" % ("only files at <dirname>/<hex[0..2]>/<hex>" if canonical_only else "every 64-hex file below <dirname>/"))
    out.append("Definition lists_strays : bool := %s." % ("false" if canonical_only else "true"))
    rows, reaches = reader_table(repo)
    sites = read_sites(repo)
    # check: index read + pack listing (check_packs), then the pack clean-up of the cache, then the tree walk
    ck = " ".join(fnb(read(repo, "crates/core/src/commands/check.rs"), "check_repository").split())
    p1, p2, p3 = ck.find("check_packs("), ck.find("cache.remove_not_in_list(FileType::Pack, &ids)"), ck.find("check_trees(")
    if not (0 <= p1 < p2 < p3) or "index_collector .tree_packs()" not in ck.replace("index_collector.tree_packs()", "index_collector .tree_packs()"):
        raise ExtractError("check_repository: order check_packs -> cache.remove_not_in_list(Pack, tree packs of the index) -> check_trees changed")
    # WHICH options guard the pack clean-up: every `if` whose block encloses the call, conjuncts of its condition
    conj = []
    for mi in re.finditer(r"\bif\b", ck[:p2]):
        b = ck.find("{", mi.end())
        if b < 0 or b > p2:
            continue
        if match_brace(ck, b) > p2:
            conj += [c.strip() for c in ck[mi.end():b].split("&&")]
    for c in conj:
        if c not in ("let Some(cache) = &cache", "!opts.trust_cache"):
            raise ExtractError("check_repository: the pack clean-up of the cache is guarded by an unrecognised condition `%s`" % c)
    if "let Some(cache) = &cache" not in conj:
        raise ExtractError("check_repository: the pack clean-up is no longer under `if let Some(cache) = &cache`")
    GUARD_FACTS["pack_cleanup_guard"] = conj
    GUARD_FACTS["cleanup_needs_untrusted"] = "!opts.trust_cache" in conj
    if not re.search(r"for file_type in \[FileType::Snapshot, FileType::Index\] \{ _ = be\.list_with_size\(file_type\)\?;", ck):
        raise ExtractError("check_repository: listing of snapshots and index files before the cache comparison changed")
    if sites != EXPECTED_SITES:
        raise ExtractError("call sites of the un-listed file readers changed: new %r, gone %r" %
                           (sorted(set(sites) - set(EXPECTED_SITES)), sorted(set(EXPECTED_SITES) - set(sites))))
    out.append("")
    out.append("(* Access pattern of the generic readers (events in program order, callees expanded: L = the reader")
    out.append("   lists the file type through ReadBackend::list / list_with_size, R = it reads a file). *)")
    for nme, evs, what in rows:
        out.append("(* %-24s %-8s %s *)" % (nme, evs or "-", what))
    out.append("Definition rdr_lists_first (r : rdr) : bool :=\n  match r with\n" +
               "".join("  | %s => %s\n" % (nme, "true" if evs[:1] == "L" else "false") for nme, evs, _ in rows) + "  end.")
    out.append("Definition rdr_reads (r : rdr) : bool :=\n  match r with\n" +
               "".join("  | %s => %s\n" % (nme, "true" if "R" in evs else "false") for nme, evs, _ in rows) + "  end.")
    cmds = command_table(repo)
    out.append("(* the generic readers each command uses for snapshot and index files (recognised in the command bodies) *)")
    out.append("Definition cmd_readers (c : cmd) : list (rdr * ftype) :=\n  match c with\n" +
               "".join("  | %s => [%s]  (* %s *)\n" % (n, "; ".join("(%s, %s)" % rt for rt in rows_), w) for n, rows_, w in cmds) + "  end.")
    out.append("(* check_repository: the clean-up of cached packs against the tree packs of the index is guarded by: %s *)" % " && ".join(GUARD_FACTS["pack_cleanup_guard"]))
    out.append("Definition pack_cleanup_needs_untrusted : bool := %s." % ("true" if GUARD_FACTS["cleanup_needs_untrusted"] else "false"))
    out.append("(* an id-only listing (ReadBackend::list) through DecryptBackend -> Arc<dyn WriteBackend> -> CachedBackend")
    out.append("   ends in CachedBackend::list_with_size, i.e. runs the cache clean-up *)")
    out.append("Definition list_reaches_cleanup : bool := %s." % ("true" if reaches else "false"))
    meta = {"check_pack_cleanup_guard": GUARD_FACTS["pack_cleanup_guard"], "command_readers": {n: ["%s/%s" % rt for rt in rows_] for n, rows_, _ in cmds}, "unlisted_reader_call_sites": sites, "readers": {nme: evs for nme, evs, _ in rows}, "list_reaches_cleanup": reaches, "lists_strays": not canonical_only, "file_type_cacheable": ft, "blob_type_cacheable": bt, "guards": {k: v[1] for k, v in guards.items()},
            "early_exit": early_exit, "dirnames": names}
    return "\n".join(out) + "\n", meta


if __name__ == "__main__":
    repo = sys.argv[1] if len(sys.argv) > 1 else "/repo"
    txt, meta = gen(repo)
    sys.stdout.write(txt)
