(* prelude: nat *)
(* (the zn prelude needs the extracted Z, which this model does not use: N conversions here) *)
let rec pos_of_int n = if n = 1 then XH else if n land 1 = 0 then XO (pos_of_int (n lsr 1)) else XI (pos_of_int (n lsr 1))
let n_of_int n = if n = 0 then N0 else if n < 0 then failwith "n_of_int: negative" else Npos (pos_of_int n)
let rec int_of_pos = function XH -> 1 | XO p -> 2 * int_of_pos p | XI p -> 2 * int_of_pos p + 1
let int_of_n = function N0 -> 0 | Npos p -> int_of_pos p
(* C19 driver: same case lines as harness/src/bin/c19.rs (format documented there).
   Per op: C=<cached result>;U=<uncached result>;B=1;K=<cache listing>;D=<history so far
   follows the list-then-read discipline>. *)
let ft_of_int = function 0 -> Config | 1 -> Index | 2 -> Key | 3 -> Snapshot | 4 -> Pack | _ -> failwith "file type"
let int_of_ft = function Config -> 0 | Index -> 1 | Key -> 2 | Snapshot -> 3 | Pack -> 4
let rd_bytes t = let n = ni t in ntimes n (fun () -> n_of_int (ni t))
let hex b = String.concat "" (List.map (fun x -> Printf.sprintf "%02x" (int_of_n x)) b)
let res_str = function
  | RData (Some b) -> "D:" ^ hex b
  | RData None -> "D:-"
  | RUnit ok -> if ok then "U:1" else "U:0"
  | RList l -> "L:" ^ String.concat "," (List.map (fun (i, s) -> Printf.sprintf "%d:%d" (int_of_n i) (int_of_nat s)) l)
  | RNone -> "N"

let listing (c : cache) =
  let fs = List.map (fun ((t, i), d) -> Printf.sprintf "F%d/%d=%s" (int_of_ft t) (int_of_n i) (hex d)) c.files in
  let ss = List.map (fun ((t, i), sz) -> Printf.sprintf "S%d/%d~%d" (int_of_ft t) (int_of_n i) (int_of_nat sz)) c.strays in
  String.concat "," (List.sort compare (fs @ ss))

let rd_op t =
  match ni t with
  | 0 -> let tp = ft_of_int (ni t) in let i = n_of_int (ni t) in OReadFull (tp, i)
  | 1 -> let tp = ft_of_int (ni t) in let i = n_of_int (ni t) in let c = ni t = 1 in
         let off = nat_of_int (ni t) in let len = nat_of_int (ni t) in OReadPartial (tp, i, c, off, len)
  | 2 -> let tp = ft_of_int (ni t) in let i = n_of_int (ni t) in let c = ni t = 1 in let ok = ni t = 1 in
         let d = rd_bytes t in OWrite (tp, i, c, ok, d)
  | 3 -> let tp = ft_of_int (ni t) in let i = n_of_int (ni t) in let c = ni t = 1 in ORemove (tp, i, c)
  | 4 -> let tp = ft_of_int (ni t) in OList (tp, [])
  | 5 -> let n = ni t in
         let l = ntimes n (fun () -> let i = n_of_int (ni t) in let s = nat_of_int (ni t) in (i, s)) in
         OCleanPacks (l, [])
  | 6 -> let tp = ft_of_int (ni t) in let i = n_of_int (ni t) in let d = rd_bytes t in EBeWrite (tp, i, d)
  | 7 -> let tp = ft_of_int (ni t) in let i = n_of_int (ni t) in EBeRemove (tp, i)
  | 8 -> let tp = ft_of_int (ni t) in let i = n_of_int (ni t) in let d = rd_bytes t in EPlant (tp, i, d)
  | 9 -> let tp = ft_of_int (ni t) in let i = n_of_int (ni t) in let s = nat_of_int (ni t) in EPlantStray (tp, i, s)
  | 10 -> let tp = ft_of_int (ni t) in let i = n_of_int (ni t) in EUnplant (tp, i)
  | _ -> failwith "op code"

let case line =
  let t = toks line in
  let nops = ni t in
  let s = ref { cch = { files = []; strays = [] }; bke = [] } in
  let u = ref [] in
  let coh = ref all_coh in
  let disc = ref true in
  let out = ref [] in
  for _ = 1 to nops do
    let o = rd_op t in
    if needs_coh o && not (!coh (op_type o)) then disc := false;
    coh := coh_after !coh o;
    let rc_special = (match o with
      | OCleanPacks (l, ord) -> Some (RUnit (snd (remove_not_in_list !s.cch Pack l ord)))
      | _ -> None) in
    let (rc, s') = step_c o !s in
    let (ru, u') = step_u o !u in
    s := s'; u := u';
    let rc = (match rc_special with Some r -> r | None -> rc) in
    out := Printf.sprintf "C=%s;U=%s;B=%d;K=%s;D=%d" (res_str rc) (res_str ru)
             (if s'.bke = u' then 1 else 0) (listing s'.cch) (if !disc then 1 else 0) :: !out
  done;
  let b x = if x then "1" else "0" in
  out := Printf.sprintf "blob_cacheable=%s%s" (b (blob_is_cacheable Tree)) (b (blob_is_cacheable Data)) :: !out;
  String.concat " | " (List.rev !out)

let () = main_loop case
