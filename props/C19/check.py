"""C19 — the local cache is transparent.
Stages: regenerate Extracted.v from backend.rs / blob.rs / backend/cache.rs; build + audit the
Coq theorems; correspondence of the extracted model with the real CachedBackend + Cache
(verif hook) on generated operation sequences (cached handle interleaved with a second
uncached handle and with files planted in the cache directory); oracle = transparency itself
(cached result == result of the same history without cache, on disciplined histories) and
"after a listing the cache holds no file of that type the repository does not have with
that size"; e2e: identical backup/forget/prune/check histories with no_cache true / false."""
import os, sys, json
import vlib
from vlib import ROOT, REPO, log

NT = 5          # file types 0 Config 1 Index 2 Key 3 Snapshot 4 Pack
OPN = ["read_full", "read_partial", "write", "remove", "list", "clean_packs", "be_write", "be_remove",
       "plant", "plant_stray", "unplant"]


def content(t, i):
    n = 2 + (i * 3 + t) % 9
    return [(i * 31 + t * 7 + j * 13 + 1) % 256 for j in range(n)]


def blist(b):
    return [len(b)] + list(b)


class Gen:
    """Generator that mirrors the ghost state of Model.disciplined (coh per type) so that
    'disciplined' cases are disciplined by construction; the model recomputes the flag."""

    def __init__(self, rng, kind, cacheable_ft, maxops):
        self.r, self.kind, self.cft, self.maxops = rng, kind, cacheable_ft, maxops
        self.coh = [True] * NT
        self.ops = []
        self.tags = set()

    def ptype(self):
        return self.r.choice([3, 3, 3, 3, 1, 1, 1, 4, 4, 4, 0, 2])

    def pid(self):
        return self.r.randint(1, 6)

    def consults(self, t, c):
        return c or self.cft[t]

    def emit(self, toks, tag):
        self.ops.append([int(x) for x in toks]); self.tags.add(tag)

    def gen(self):
        r = self.r
        n = r.randint(3, self.maxops)
        honest = self.kind != "wild"
        while len(self.ops) < n:
            x = r.random()
            t, i = self.ptype(), self.pid()
            c = (t == 4 and r.random() < 0.6) or r.random() < 0.05
            if x < 0.22:                                    # read_full
                if self.kind == "disciplined" and self.cft[t] and not self.coh[t]:
                    self.emit([4, t], "list"); self.coh[t] = True
                self.emit([0, t, i], "read_full")
            elif x < 0.40:                                  # read_partial
                if self.kind == "disciplined" and self.consults(t, c) and not self.coh[t]:
                    if self.cft[t]:
                        self.emit([4, t], "list"); self.coh[t] = True
                    else:
                        c = False                           # no listing can restore packs: read uncached
                L = len(content(t, i))
                k = r.random()
                if k < 0.3: off = r.randint(0, L); ln = L - off                       # exactly to the end
                elif k < 0.5: off = r.randint(0, L); ln = L - off + 1                 # one past the end
                elif k < 0.6: off = 0; ln = r.randint(1, 3)
                else: off = r.randint(0, L + 1); ln = r.randint(1, L + 2)
                if ln <= 0: ln = 1 if honest else 0
                if not honest and r.random() < 0.15: ln = 0
                self.emit([1, t, i, int(c), off, ln], "read_partial")
            elif x < 0.52:                                  # write through the cached handle
                ok = 0 if (r.random() < (0.25 if self.kind == "wild" else 0.06)) else 1
                d = content(t, i) if (honest or r.random() < 0.7) else [r.randint(0, 255) for _ in range(r.randint(0, 6))]
                self.emit([2, t, i, int(c), ok] + blist(d), "write" if ok else "write_rejected")
                if not ok: self.coh[t] = False
            elif x < 0.60:                                  # remove
                if self.kind == "disciplined" and t == 4 and r.random() < 0.7: c = True
                self.emit([3, t, i, int(c)], "remove")
                if not self.consults(t, c): self.coh[t] = False
            elif x < 0.68:                                  # list
                self.emit([4, t], "list")
                if self.cft[t]: self.coh[t] = True
            elif x < 0.72:                                  # check's pack clean-up
                l = []
                for j in r.sample(range(1, 7), r.randint(0, 4)):
                    sz = len(content(4, j)) + (0 if r.random() < 0.7 else r.choice([-1, 1]))
                    l += [j, max(sz, 0)]
                if r.random() < 0.3: l += [r.randint(100, 103), r.randint(0, 5)]
                self.emit([5, len(l) // 2] + l, "clean_packs")
            elif x < 0.80:                                  # second handle adds a file
                if r.random() < 0.2: i = r.randint(100, 103)   # ... possibly named like a misplaced cache file
                d = content(t, i) if (honest or r.random() < 0.8) else [r.randint(0, 255) for _ in range(r.randint(0, 6))]
                self.emit([6, t, i] + blist(d), "be_write")
            elif x < 0.87:                                  # second handle removes
                if r.random() < 0.15: i = r.randint(100, 103)
                self.emit([7, t, i], "be_remove"); self.coh[t] = False
            elif x < 0.95:                                  # planted canonical file
                good = content(t, i)
                k = r.random()
                if k < 0.35: d, tag = good, "plant_honest"                         # stale / foreign with honest content
                elif k < 0.6: d, tag = good[:r.randint(0, len(good) - 1)], "plant_truncated"
                elif k < 0.75: d, tag = good + [r.randint(0, 255) for _ in range(r.randint(1, 3))], "plant_extended"
                elif k < 0.9 or honest:
                    d = [r.randint(0, 255) for _ in range(r.choice([x for x in range(0, 14) if x != len(good)]))]; tag = "plant_wrong_size"
                else:
                    d = [(b + 1) % 256 for b in good]; tag = "plant_same_size_corrupt"
                self.emit([8, t, i] + blist(d), tag); self.coh[t] = False
            elif x < 0.98:                                  # misplaced 64-hex file
                self.emit([9, t, r.randint(100, 103), r.randint(0, 12)], "plant_stray")
            else:
                self.emit([10, t, i], "unplant")
        return self.ops


def line_of(ops):
    t = [len(ops)]
    for o in ops: t += o
    return " ".join(str(x) for x in t)


def parse_ops(line):
    t = [int(x) for x in line.split()]
    n, p, ops = t[0], 1, []
    for _ in range(n):
        c = t[p]
        if c == 0: k = 3
        elif c == 1: k = 6
        elif c == 2: k = 6 + t[p + 5]
        elif c == 3: k = 4
        elif c == 4: k = 2
        elif c == 5: k = 2 + 2 * t[p + 1]
        elif c in (6, 8): k = 4 + t[p + 3]
        elif c == 7 or c == 10: k = 3
        elif c == 9: k = 4
        else: raise ValueError("op code %d" % c)
        ops.append(t[p:p + k]); p += k
    return ops


def fields(opres):
    """'C=..;U=..;B=..;K=..[;D=..]' -> dict"""
    d = {}
    for part in opres.split(";"):
        k, _, v = part.partition("=")
        d[k] = v
    return d


def run_lines(exe, lines, mode=None, timeout=3000):
    path = os.path.join(vlib.BUILD, "C19", "in_%d.txt" % os.getpid())
    open(path, "w").write("\n".join(lines) + "\n")
    rc, out, err = vlib.sh2([exe, path] + ([mode] if mode else []), timeout=timeout)
    os.remove(path)
    res = out.splitlines()
    if rc != 0 or len(res) != len(lines):
        raise RuntimeError("%s failed rc=%s (%d of %d lines)\n%s" % (exe, rc, len(res), len(lines), err[-2000:]))
    return res


def cache_entries(K, t):
    """canonical entries of type t in a cache listing: {id: size}"""
    m = {}
    for e in K.split(","):
        if e.startswith("F%d/" % t):
            i, _, hx = e[len("F%d/" % t):].partition("=")
            m[int(i)] = len(hx) // 2
    return m


def listing_oracle(ops, res):
    """second sentence of the property, on the implementation's own results: after
    list_with_size t (t cacheable by observation: the listing is allowed to keep everything
    only for types the cache never cleans) / after check's pack clean-up, every canonical cache
    file of that type is in the list with its size.  Returns (op index, text) or None."""
    for k, (o, rr) in enumerate(zip(ops, res)):
        f = fields(rr)
        if o[0] == 4 and f["C"].startswith("L:") and o[1] in (1, 3):
            lst = dict((int(a), int(b)) for a, b in (x.split(":") for x in f["C"][2:].split(",") if x))
            for i, sz in cache_entries(f["K"], o[1]).items():
                if lst.get(i) != sz:
                    return k, "after list_with_size(%s) the cache still holds %s/%d (%d bytes); the repository lists %s" % (
                        ["config", "index", "key", "snapshot", "pack"][o[1]], ["config", "index", "key", "snapshot", "pack"][o[1]], i, sz,
                        ("size %d" % lst[i]) if i in lst else "no such file")
        if o[0] == 5:
            lst = dict((o[2 + 2 * j], o[3 + 2 * j]) for j in range(o[1]))
            for i, sz in cache_entries(f["K"], 4).items():
                if lst.get(i) != sz:
                    return k, "after remove_not_in_list(Pack) the cache still holds pack %d (%d bytes), not in the list with that size" % (i, sz)
    return None


def classify(ops, k):
    """signature of a failing case (for known_findings): does a misplaced 64-hex file of the
    listed type exist when the clean-up fails?"""
    t = ops[k][1] if ops[k][0] == 4 else 4
    if any(o[0] == 9 and o[1] == t for o in ops[:k]):
        return "misplaced-cache-file-aborts-cleanup"
    return None


def run(ctx):
    rng = ctx.rng
    cov = ctx.coverage
    meta, err = vlib.regen_extracted("C19")
    r = vlib.proof_stage(ctx)
    if err:
        r["ok"] = False
        r["failures"].append("fact extraction from backend.rs / blob.rs / backend/cache.rs failed: " + err)
    cov["trusted_base"] += ["props/C19/extract.py (tables FileType::is_cacheable / BlobType::is_cacheable, guards of the five CachedBackend methods, error propagation of remove_not_in_list, shape checks)",
                            "harness MemBe: an exact in-memory map backend written for this check (errors instead of panics)"]
    ctx.assumptions += [
        "file system by hypothesis: the cache directory is a finite map path -> bytes; fs::rename is atomic (the <hex>-tmp- file is never observed, never listed: its name is not 64 characters); no I/O error other than NotFound; no concurrent process changes the cache directory during one operation",
        "the backend is an exact finite map (writes succeed and overwrite; a rejected write changes nothing; read_partial fails iff the range exceeds the file)",
        "ids are content hashes: one byte string per name (`content`, universally quantified in the theorems); the fault list for cached files is stale / foreign / truncated / wrong size - a same-size corruption is outside (theorem tree_pack_same_size_corruption_served)",
        "reads are of at least one byte and offset+length < 2^32 (a zero-length read beyond the end succeeds on a cached file and fails on the backend; the u32 sum is unchecked in CachedBackend::read_partial)",
        "transparency of reads needs the list-then-read discipline (Model.disciplined): a read served from the cache is preceded by a listing of its type with no foreign removal / planting in between; every command reads snapshots and index files that way; cached tree packs are only cleaned by check",
        "a Bytes::slice panic (range beyond a freshly read file) and an Err are both 'failure'",
    ]
    try:
        model = vlib.build_model("C19")
    except RuntimeError as e:
        model = None
        if r["ok"]:
            r["ok"] = False; r["failures"].append("extracted model no longer builds: " + str(e)[-500:])
    impl = vlib.build_harness("c19")
    cft = [False] * NT
    if meta:
        for j, n in enumerate(["Config", "Index", "Key", "Snapshot", "Pack"]):
            cft[j] = meta["file_type_cacheable"][n]
    else:
        cft = [False, True, False, True, False]

    # ---- cases
    ncases = 8000 if ctx.thorough() else 1500
    maxops = 200 if ctx.thorough() else 60
    cases = []   # (kind, line)
    corpus = os.path.join(ctx.pdir, "corpus.txt")
    if os.path.exists(corpus):
        for ln in open(corpus):
            kind, _, body = ln.split("#")[0].strip().partition(":")
            if body.strip(): cases.append((kind.strip(), body.strip(), set()))
    if ctx.replay:
        rp = json.load(open(ctx.replay))
        cases = [(rp["witness"].get("kind", "free"), rp["witness"]["case"], set())] if "case" in rp["witness"] else []
    else:
        while len(cases) < ncases:
            x = rng.random()
            kind = "disciplined" if x < 0.6 else "free" if x < 0.85 else "wild"
            mo = rng.choice([6, 12, 25, maxops])
            g = Gen(rng, kind, cft, mo)
            cases.append((kind, line_of(g.gen()), g.tags))
    lines = [c[1] for c in cases]
    impl_out = run_lines(impl, lines)
    model_out = run_lines(model, lines) if model else None

    hist, nontriv, samples = {}, set(), []
    mism, viol = [], []
    n_ops = n_oracle_ops = n_list_checks = n_disc_full = 0
    for idx, (kind, line, tags) in enumerate(cases):
        ops = parse_ops(line)
        ires = impl_out[idx].split(" | ")
        if ires[0].strip() in ("panic",) or len(ires) != len(ops) + 1:
            viol.append(("the harness run of the real CachedBackend failed", kind, line, 0, None, impl_out[idx][:300])); continue
        mres = model_out[idx].split(" | ") if model_out else None
        n_ops += len(ops)
        hist["kind_" + kind] = hist.get("kind_" + kind, 0) + 1
        for o in ops: hist["op_" + OPN[o[0]]] = hist.get("op_" + OPN[o[0]], 0) + 1
        for tg in tags:
            if tg.startswith("plant") or tg == "write_rejected": hist["cases_with_" + tg] = hist.get("cases_with_" + tg, 0) + 1
        # 1. correspondence model == implementation, op by op
        if mres is not None:
            if len(mres) != len(ires):
                mism.append((line, "result count", impl_out[idx][:300], model_out[idx][:300]))
            else:
                for k in range(len(ires)):
                    fi, fm = fields(ires[k]), fields(mres[k])
                    fm.pop("D", None)
                    if fi != fm:
                        mism.append((line, "op %d (%s)" % (k, " ".join(map(str, ops[k])) if k < len(ops) else "tables"), ires[k][:400], mres[k][:400]))
                        break
        # 2. oracle: the backend never depends on the cache; transparency on the disciplined prefix of honest cases
        disc_all = True
        served = False
        for k, o in enumerate(ops):
            fi = fields(ires[k])
            if fi["B"] != "1":
                viol.append(("backend contents differ from the run without cache", kind, line, k, None, ires[k][:300])); break
            d = fields(mres[k]).get("D", "0") == "1" if mres is not None else False
            disc_all = disc_all and d
            if kind != "wild" and d and o[0] != 5:
                n_oracle_ops += 1
                if fi["C"] != fi["U"]:
                    viol.append(("an operation of a disciplined history returns a different result through the cached handle than without cache",
                                 kind, line, k, None, "cached %s, uncached %s" % (fi["C"][:120], fi["U"][:120]))); break
            if o[0] in (0, 1) and fi["C"].startswith("D:") and fi["C"] != "D:-" and fi["K"]:
                served = True
        if disc_all and kind != "wild": n_disc_full += 1
        # 3. oracle: after a listing no file of that type the repository does not have (with that size)
        lo = listing_oracle(ops, ires[:-1])
        n_list_checks += sum(1 for o in ops if (o[0] == 4 and o[1] in (1, 3)) or o[0] == 5)
        if lo:
            viol.append(("after a listing (or check's pack clean-up) the cache still holds a file of that type which the repository does not have with that size",
                         kind, line, lo[0], classify(ops, lo[0]), lo[1]))
        # non-trivial: something was planted or removed behind the cache and a read was served / a listing cleaned
        if (tags & {"plant_honest", "plant_truncated", "plant_extended", "plant_wrong_size", "be_remove", "plant_stray"}) and served:
            nontriv.add(line)
        if len(samples) < 3 and len(ops) <= 8 and kind == "disciplined" and ("plant_truncated" in tags or "be_remove" in tags):
            samples.append({"case": line, "impl": impl_out[idx][:600], "model": (model_out[idx][:600] if model_out else None)})

    # ---- e2e: identical histories with and without cache
    ne2e = 30 if ctx.thorough() else 8
    # regression histories first (they failed on the tree before the fix 'cache clean-up ignores misplaced files'), then fresh ones
    # the third line reproduces the open finding foreign-longer-pack-in-cache-read-by-command
    e2e_lines = ["712448054 6 1", "561891451 6 1", "457278160 6 1"]
    e2e_lines += ["%d %d %d" % (rng.randint(1, 10 ** 9), rng.choice([5, 6, 8]), 1 if j % 3 == 2 else 0) for j in range(ne2e - len(e2e_lines))]
    if ctx.replay:
        rp = json.load(open(ctx.replay))
        e2e_lines = [rp["witness"]["e2e"]] if "e2e" in rp["witness"] else []
    e2e_out = run_lines(impl, e2e_lines, "e2e", timeout=6000) if e2e_lines else []
    # a panic inside the library that does not reproduce (seen under heavy machine load:
    # GlobalIndex::into_index "index still in use" after its 100 ms grace period) is a scheduling
    # matter outside C19: re-run the history, record it
    retried = []
    for j, (ln, out) in enumerate(zip(e2e_lines, e2e_out)):
        tries = 0
        while out.startswith("panic") and tries < 2:
            tries += 1
            retried.append({"e2e": ln, "panic": out[:200]})
            out = run_lines(impl, [ln], "e2e", timeout=3000)[0]
        e2e_out[j] = out
    e2e_stats = {"histories": len(e2e_lines), "cached_steps": 0, "listing_checks": 0, "planted": 0, "bad_entries_before_cached_steps": 0, "steps": 0}
    for ln, out in zip(e2e_lines, e2e_out):
        head = out.split(" | ")[0]
        kv = dict(x.split("=", 1) for x in head.split()[1:] if "=" in x)
        if out.startswith("ok") or out.startswith("FAIL"):
            e2e_stats["cached_steps"] += int(kv["cached_steps"]); e2e_stats["listing_checks"] += int(kv["listing_checks"])
            e2e_stats["planted"] += int(kv["planted"]); e2e_stats["bad_entries_before_cached_steps"] += int(kv["bad_before"])
            e2e_stats["steps"] += len(kv["steps"].split(","))
        if out.startswith("ok"):
            continue
        parts = out.split(" | ")
        if out.startswith("FAIL"):
            sig = "misplaced-cache-file-aborts-cleanup" if (ln.split()[2] == "1" and kv.get("diffs") == "0") else None
            dl = [x for x in parts[1].split(" ;; ") if x.strip()] if len(parts) > 1 else []
            if kv.get("diffs") != "0" and kv.get("stale") == "0" and dl and all("[foreign-longer-pack-in-cache]" in x for x in dl):
                sig = "foreign-longer-pack-in-cache-read-by-command"
            what = "backup/forget/prune/check history: a step returns a different result with the cache than without" if kv.get("diffs") != "0" else \
                   "backup/forget/prune/check history: after a step of the cached handle the cache holds snapshot/index files the repository does not have"
            ctx.violation(what, {"e2e": ln, "detail": (parts[1] if kv.get("diffs") != "0" else parts[2])[:400], "result": out[:1500], "how_to_replay": "echo '<e2e>' > f; <target>/debug/c19 f e2e  (line: seed nsteps stray; harness/src/bin/c19.rs)"}, signature=sig)
        elif out.startswith("panic") and "index still in use" in out:
            e2e_stats["inconclusive_scheduling_panics"] = e2e_stats.get("inconclusive_scheduling_panics", 0) + 1
        else:
            ctx.violation("e2e history could not be run", {"e2e": ln, "result": out[:1500]}, no_input=True)

    # ---- the generic readers on the real Repository API
    rd_lines = ["%d" % rng.randint(1, 10 ** 9) for _ in range(3 if ctx.thorough() else 1)] if not ctx.replay else []
    if ctx.replay and "readers" in json.load(open(ctx.replay))["witness"]:
        rd_lines = [json.load(open(ctx.replay))["witness"]["readers"]]
    rd_out = run_lines(impl, rd_lines, "readers", timeout=1500) if rd_lines else []
    rd_stats = {"runs": len(rd_lines), "readers_observed": 0, "listing_readers_transparent_on_removed_snapshot": 0,
                "unlisted_readers_serving_removed_snapshot": []}
    table = (meta or {}).get("readers", {})
    for ln, out in zip(rd_lines, rd_out):
        tries = 0
        while out.startswith("panic") and tries < 2:
            tries += 1; out = run_lines(impl, [ln], "readers", timeout=1500)[0]
        if not out.startswith("ok "):
            ctx.violation("the generic readers could not be run on the Repository API", {"readers": ln, "result": out[:800]}, no_input=True)
            continue
        for item in out.split()[1:]:
            name, _, rest = item.partition("=")
            listed, a, b, still = rest.split(":")
            rd_stats["readers_observed"] += 1
            evs = table.get(name)
            if evs is not None and ("L" in evs) != (listed == "1"):
                # the table regenerated from the source disagrees with what the reader does below the cache
                r["ok"] = False
                r["failures"].append("reader table: %s has events %r in the source but %s the type at run time" % (name, evs, "lists" if listed == "1" else "does not list"))
            if a == b:
                if evs and evs[:1] == "L": rd_stats["listing_readers_transparent_on_removed_snapshot"] += 1
                continue
            lists_first = bool(evs) and evs[:1] == "L"
            if not lists_first and a == "ok" and b == "err":
                rd_stats["unlisted_readers_serving_removed_snapshot"].append(name)
                sig = "explicit-id-read-of-removed-file"
            else:
                sig = None
            ctx.violation("a snapshot removed by another process is returned through the cached handle and not without cache" if sig else
                          "a reader that lists the type first returns a different outcome through the cached handle for a snapshot another process removed",
                          {"readers": ln, "reader": name, "cached": a, "uncached": b, "source_events": evs,
                           "how_to_replay": "echo '<readers>' > f; <target>/debug/c19 f readers   (harness/src/bin/c19.rs readers_case)"}, signature=sig)
    # ---- check with every option combination that changes how the cache is used, over planted cache files
    co_lines = ["%d" % rng.randint(1, 10 ** 9) for _ in range(3 if ctx.thorough() else 1)] if not ctx.replay else []
    if ctx.replay and "checkopts" in json.load(open(ctx.replay))["witness"]:
        co_lines = [json.load(open(ctx.replay))["witness"]["checkopts"]]
    co_out = run_lines(impl, co_lines, "checkopts", timeout=1500) if co_lines else []
    co_stats = {"seeds": len(co_lines), "check_runs_compared": 0, "bad_cache_entries_before_the_runs": 0}
    for ln, out in zip(co_lines, co_out):
        tries = 0
        while out.startswith("panic") and "index still in use" in out and tries < 2:
            tries += 1; out = run_lines(impl, [ln], "checkopts", timeout=1500)[0]
        kv = dict(x.split("=", 1) for x in out.split(" | ")[0].split()[1:] if "=" in x)
        if out.startswith("ok "):
            co_stats["check_runs_compared"] += int(kv["runs"]); co_stats["bad_cache_entries_before_the_runs"] += int(kv["bad_entries_before"])
        elif out.startswith("FAIL"):
            co_stats["check_runs_compared"] += int(kv["runs"])
            ctx.violation("check (some combination of trust_cache / read_data) reports a different verdict through the cached handle than without cache, or leaves files in the cache that the repository does not have, for a planted stale / foreign / truncated / longer / misplaced cache file",
                          {"checkopts": ln, "failing_runs": out.split(" | ", 1)[1][:1500],
                           "how_to_replay": "echo '<checkopts>' > f; <target>/debug/c19 f checkopts   (harness/src/bin/c19.rs checkopts_case)"})
        elif not (out.startswith("panic") and "index still in use" in out):
            ctx.violation("check with option combinations could not be run", {"checkopts": ln, "result": out[:800]}, no_input=True)
    cov["check_option_combinations"] = co_stats
    # ---- recorded calls of the real commands on the cached handle, judged by the extracted Model.disciplined
    tr_lines = ["%d" % rng.randint(1, 10 ** 9) for _ in range(6 if ctx.thorough() else 2)] if not ctx.replay else []
    tr_out = run_lines(impl, tr_lines, "trace", timeout=1500) if tr_lines else []
    tr_stats = {"runs": len(tr_lines), "commands_traced": 0, "ops_on_snapshot_and_index_files": 0, "traces_disciplined": 0, "explicit_id_control_flagged": 0}
    for ln, out in zip(tr_lines, tr_out):
        tries = 0
        while out.startswith("panic") and tries < 2:
            tries += 1; out = run_lines(impl, [ln], "trace", timeout=1500)[0]
        parts = out.split(" ## ")
        if not out.startswith("ok ") or len(parts) != 3 or model is None:
            if model is not None:
                ctx.violation("the commands could not be traced on the cached handle", {"trace": ln, "result": out[:800]}, no_input=True)
            continue
        names = parts[0].split()[1].split(",")
        good, bad = run_lines(model, [parts[1], parts[2]])
        gd = [fields(x).get("D") for x in good.split(" | ")[:-1]]
        bd = [fields(x).get("D") for x in bad.split(" | ")[:-1]]
        tr_stats["commands_traced"] += len(names); tr_stats["ops_on_snapshot_and_index_files"] += len(gd)
        if all(d == "1" for d in gd):
            tr_stats["traces_disciplined"] += 1
        else:
            k = gd.index("0")
            ctx.violation("a command (%s) reads a snapshot or index file through the cached handle without listing the type first: commands_are_disciplined does not cover it" % ",".join(names),
                          {"trace": ln, "case": parts[1], "op_index": k, "op": " ".join(map(str, parse_ops(parts[1])[k])),
                           "how_to_replay": "echo '<trace>' > f; <target>/debug/c19 f trace"}, no_input=True)
        if bd and bd[-1] == "0":
            tr_stats["explicit_id_control_flagged"] += 1
        else:
            r["ok"] = False
            r["failures"].append("negative control: get_snapshots(<full id>) after interference is not flagged by Model.disciplined")
    cov.update({
        "command_traces": tr_stats,
        "readers": rd_stats,
        "evaluations": len(cases) + len(e2e_lines) + rd_stats["readers_observed"], "operations_compared": n_ops,
        "distinct_nontrivial": len(nontriv),
        "rule": "case = sequence of up to %d operations over 5 file types x ids 1..6 (+ ids 100..103 for misplaced files): cached-handle read_full / read_partial (ranges ending exactly at, one before and one past the end) / write (also rejected by the backend) / remove / list / check's pack clean-up, second-handle writes and removals on the same backend, files planted at canonical cache paths (honest stale/foreign, truncated, extended, wrong size; same-size corruption only in 'wild' cases), misplaced 64-hex files, deleted cache files; 60%% disciplined by construction, 25%% free (oracle on the disciplined prefix computed by the extracted Model.disciplined), 15%% wild (correspondence + listing oracle only); non-trivial = something was planted or removed behind the cache and a later read was answered while the cache was non-empty; distinct by full case text" % maxops,
        "samples": samples, "distribution": hist,
        "traces_validated_against_impl": len(cases) + tr_stats["traces_disciplined"], "disagreements_checked": len(mism) + len(viol),
        "model_impl_mismatches": len(mism), "oracle_violations": len(viol),
        "transparency_oracle_ops": n_oracle_ops, "fully_disciplined_cases": n_disc_full, "listing_oracle_checks": n_list_checks,
        "e2e": e2e_stats, "e2e_histories_rerun_after_unrelated_panic": retried, "extracted_facts": meta,
    })
    for what, kind, line, k, sig, detail in viol[:50]:
        ctx.violation(what, {"case": line, "kind": kind, "op_index": k, "detail": detail, "op": " ".join(map(str, parse_ops(line)[k])) if k is not None else None,
                             "how_to_replay": "echo '<case>' | <target>/debug/c19 -   (format: harness/src/bin/c19.rs)"}, signature=sig)
    if mism and not viol:
        ctx.violation("correspondence broken: extracted model of CachedBackend/Cache disagrees with the implementation (%d cases) although every oracle holds" % len(mism),
                      {"correspondence": "props/C19 Model.step_c vs CachedBackend over MemBe", "first": {"case": mism[0][0], "where": mism[0][1], "impl": mism[0][2], "model": mism[0][3]}}, no_input=True)
    vlib.finish_broken_obligations(ctx)
