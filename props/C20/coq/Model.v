(* C20 — executable model of the directory backend (crates/backend/src/local.rs), of the
   id/hex codec (crates/core/src/id.rs, crate `hex`) and of the path/listing logic of the
   object-store adapter (crates/backend/src/opendal.rs).  Definitions only.

   The file system is a finite map  path -> bytes  (association list), directories are
   implicit (write_bytes does create_dir_all first; theorem path_injective shows that no
   file path of the layout is a directory of another one), rename is atomic. *)
From Verif.Base Require Import Tactics.
From Verif.C20 Require Import ModelBase Extracted.
Local Open Scope N_scope.

(* ---------- hex codec (crate hex: encode_to_slice lower case, decode_to_slice) ---------- *)
Definition hex_digit (n : N) : N := if n <? 10 then 48 + n else 87 + n.
Definition hex_encode (b : bytes) : name :=
  flat_map (fun x => [hex_digit (x / 16); hex_digit (x mod 16)]) b.

Definition hex_val (c : N) : option N :=
  if (48 <=? c) && (c <=? 57) then Some (c - 48)          (* '0'..'9' *)
  else if (97 <=? c) && (c <=? 102) then Some (c - 87)    (* 'a'..'f' *)
  else if (65 <=? c) && (c <=? 70) then Some (c - 55)     (* 'A'..'F' *)
  else None.

Fixpoint hex_decode (s : name) : option bytes :=
  match s with
  | [] => Some []
  | h :: l :: r =>
      match hex_val h, hex_val l, hex_decode r with
      | Some a, Some b, Some t => Some (16 * a + b :: t)
      | _, _, _ => None
      end
  | _ => None
  end.

(* Id::from_str = hex::decode_to_slice(s, &mut [u8; LEN]): odd length and a length other
   than 2*LEN are errors; Id::parse_some = from_str(..).ok() *)
Definition parse_id (s : name) : option id :=
  let n := lenN s in
  if negb (n mod 2 =? 0) then None
  else if negb (n / 2 =? id_len) then None
  else hex_decode s.

Definition to_hex (i : id) : name := hex_encode i.
Definition zero_id : id := repeat 0 (N.to_nat id_len).      (* Id::default() *)

(* ---------- LocalBackend::base_path / filename / path ---------- *)
Definition lb_base_path (t : file_type) (i : id) : path :=
  match t with
  | Config => []
  | Pack => [lb_data_dir; takeN lb_prefix_len (to_hex i)]
  | _ => [dirname t]
  end.
Definition lb_filename (t : file_type) (i : id) : name :=
  match t with Config => lb_config_name | _ => to_hex i end.
Definition lb_path (t : file_type) (i : id) : path := lb_base_path t i ++ [lb_filename t i].
(* the temporary file: <parent>[/<lb_tmp_dir>]/<final name><lb_tmp_suffix>; both parts are
   regenerated from write_bytes (today: no sub-directory, suffix "-tmp-") *)
Definition lb_tmp_path (t : file_type) (i : id) : path :=
  lb_base_path t i ++ lb_tmp_dir ++ [lb_filename t i ++ lb_tmp_suffix].

(* OpenDALBackend::path *)
Definition od_path (t : file_type) (i : id) : path :=
  match t with
  | Config => [od_config_name]
  | Pack => [od_data_dir; takeN od_prefix_len (to_hex i); to_hex i]
  | _ => [dirname t; to_hex i]
  end.

(* ---------- the file system ---------- *)
Definition fs := list (path * bytes).
Definition fs_get : fs -> path -> option bytes := al_get path_eqb.
Definition fs_del : fs -> path -> fs := al_del path_eqb.
Definition fs_put : fs -> path -> bytes -> fs := al_put path_eqb.
(* rename(2): atomically replaces the destination; a missing source leaves everything *)
Definition fs_rename (f : fs) (src dst : path) : fs :=
  match fs_get f src with
  | Some b => fs_put (fs_del f src) dst b
  | None => f
  end.

(* ---------- listing ---------- *)
(* WalkDir::new(root/<dirname>) yields the root itself and everything below it; only
   regular files are kept; the root is a directory in every state the model describes, so
   a listed file has at least one component after <dirname> *)
Definition under (d : name) (p : path) : bool :=
  match p with
  | h :: _ :: _ => name_eqb h d
  | _ => false
  end.
Definition last_name (p : path) : name := last p [].
Definition entry_id (t : file_type) (p : path) : option id :=
  if under (dirname t) p then parse_id (last_name p) else None.
(* u64 file length -> u32 (try_into) *)
Definition u32_of_len (b : bytes) : option N :=
  let n := lenN b in if n <? 2 ^ 32 then Some n else None.

Definition walk_ids (t : file_type) (f : fs) : list id :=
  flat_map (fun e => match entry_id t (fst e) with Some i => [i] | None => [] end) f.
Definition walk_sizes (t : file_type) (f : fs) : list (id * N) :=
  flat_map (fun e => match entry_id t (fst e) with
                     | Some i => match u32_of_len (snd e) with Some n => [(i, n)] | None => [] end
                     | None => []
                     end) f.

Definition lb_list (f : fs) (t : file_type) : list id :=
  match t with
  | Config => match fs_get f [lb_list_config_name] with Some _ => [zero_id] | None => [] end
  | _ => walk_ids t f
  end.
Definition lb_list_with_size (f : fs) (t : file_type) : list (id * N) :=
  match t with
  | Config => match fs_get f [dirname Config] with
              | Some b => [(zero_id, match u32_of_len b with Some n => n | None => 0 end)]
              | None => []
              end
  | _ => walk_sizes t f
  end.
Definition od_list (f : fs) (t : file_type) : list id :=
  match t with
  | Config => match fs_get f [od_list_config_name] with Some _ => [zero_id] | None => [] end
  | _ => walk_ids t f
  end.
Definition od_list_with_size (f : fs) (t : file_type) : list (id * N) :=
  match t with
  | Config => match fs_get f [od_stat_config_name] with
              | Some b => [(zero_id, match u32_of_len b with Some n => n | None => 0 end)]
              | None => []
              end
  | _ => walk_sizes t f
  end.

(* ---------- reads ---------- *)
Definition slice (off len : N) (b : bytes) : bytes := takeN len (dropN off b).

Definition lb_read_full (f : fs) (t : file_type) (i : id) : res bytes :=
  match fs_get f (lb_path t i) with Some b => Ok b | None => Err end.
(* File::open; seek(Start(offset)) (seeking past the end succeeds); read_exact(length bytes):
   succeeds iff that many bytes are available at the position *)
Definition lb_read_partial (f : fs) (t : file_type) (i : id) (off len : N) : res bytes :=
  match fs_get f (lb_path t i) with
  | None => Err
  | Some b => let s := slice off len b in if lenN s =? len then Ok s else Err
  end.

Definition od_read_full (f : fs) (t : file_type) (i : id) : res bytes :=
  match fs_get f (od_path t i) with Some b => Ok b | None => Err end.
(* range = offset .. (offset + length computed in u32: overflow panics in a debug build);
   the fs and memory services answer a range that is not inside the file with an error
   (observed, see NOTES.md) and an empty range with the empty string - even for a missing file *)
Definition od_read_partial (f : fs) (t : file_type) (i : id) (off len : N) : res bytes :=
  if 2 ^ 32 <=? off + len then Panic
  else if len =? 0 then Ok []        (* an empty range is answered without looking at the file *)
  else match fs_get f (od_path t i) with
       | None => Err
       | Some b => let s := slice off len b in if lenN s =? len then Ok s else Err
       end.

(* ---------- write_bytes as micro-steps ---------- *)
(* the order the model assumes; Props.write_order_as_modelled compares it with the order
   regenerated from the source *)
Definition modelled_write_order : list wstep := [WMkdir; WOpenTrunc; WSetLen; WCopy; WSync; WRename].
Definition is_hook (s : wstep) : bool := match s with WHook => true | _ => false end.

Inductive wstage :=
| SOpened                 (* temp file created/truncated: empty *)
| SSized                  (* set_len: <length> zero bytes *)
| SCopied (k : nat)       (* io::copy has written the first k bytes *)
| SSynced                 (* complete temp file, sync_all done; the hook point / crash point *)
| SRenamed                (* published *)
| SAborted (k : nat).     (* an I/O error during the copy: temp file removed, Err returned *)

Definition tmp_content (c : bytes) (k : nat) : bytes :=
  firstn k c ++ repeat 0 (length c - k).

Definition micro_state (f : fs) (t : file_type) (i : id) (c : bytes) (st : wstage) : fs :=
  let tmp := lb_tmp_path t i in
  match st with
  | SOpened => fs_put f tmp []
  | SSized => fs_put f tmp (repeat 0 (length c))
  | SCopied k => fs_put f tmp (tmp_content c k)
  | SSynced => fs_put f tmp c
  | SRenamed => fs_rename (fs_put f tmp c) tmp (lb_path t i)
  | SAborted k => fs_del (fs_put f tmp (tmp_content c k)) tmp
  end.

Definition lb_write (f : fs) (t : file_type) (i : id) (c : bytes) : fs := micro_state f t i c SRenamed.
Definition od_write (f : fs) (t : file_type) (i : id) (c : bytes) : fs := fs_put f (od_path t i) c.

(* fs::remove_file: error when the file does not exist; opendal delete: idempotent *)
Definition lb_remove (f : fs) (t : file_type) (i : id) : fs * res unit :=
  match fs_get f (lb_path t i) with
  | Some _ => (fs_del f (lb_path t i), Ok tt)
  | None => (f, Err)
  end.
Definition od_remove (f : fs) (t : file_type) (i : id) : fs * res unit :=
  (fs_del f (od_path t i), Ok tt).

(* the adapter, statement by statement: write_bytes = drop empty chunks; operator.write(path)
   - one put, no look at the previous state, no early exit; remove = operator.delete(path);
   read_full = operator.read(path); read_partial = operator.read_options(path, range);
   list = [Config: return exists("config")] lister(<dirname>/, recursive) filtered by
   is_file + Id::parse_some (the `return None` of the filter); list_with_size likewise with stat.
   Props.opendal_calls_as_modelled compares this table with the one regenerated from the source. *)
Definition modelled_od_calls (f : odfn) : list odcall :=
  match f with
  | FWrite => [OcFilterEmpty; OcWrite]
  | FRemove => [OcDelete]
  | FReadFull => [OcRead]
  | FReadPartial => [OcReadOptions]
  | FList => [OcEarlyReturn; OcExists; OcLister; OcEarlyReturn]
  | FSizes => [OcEarlyReturn; OcStat; OcLister; OcEarlyReturn]
  end.
(* the directory backend's other methods, statement by statement: read_full = fs::read(path);
   read_partial = File::open; seek(Start(off)); read_exact(len bytes); list = [Config: return
   exists] WalkDir(<dirname>) keeping is_file entries whose name Id::parse_some accepts;
   list_with_size likewise with the metadata length; remove = fs::remove_file (+ the optional
   post-delete command).  Props.local_calls_as_modelled compares with the regenerated table. *)
Definition modelled_lb_calls (f : lbfn) : list lbcall :=
  match f with
  | LReadFull => [LcFsRead]
  | LReadPartial => [LcFileOpen; LcSeek; LcReadExact]
  | LList => [LcReturn; LcExists; LcWalkDir; LcIsFile; LcReturn; LcParseSome]
  | LSizes => [LcExists; LcReturn; LcMetadata; LcReturn; LcWalkDir; LcIsFile; LcReturn; LcParseSome; LcMetadata]
  | LRemove => [LcRemoveFile; LcCommand]
  end.
(* layers that hand every request and every answer through unchanged (retry repeats a failed
   request, throttle delays, concurrent-limit queues, logging logs): taken as a fact about opendal *)
Definition passthrough (l : odlayer) : bool := match l with LOther => false | _ => true end.

(* ---------- operations ---------- *)
Inductive flavour := Local | OpenDAL.

Inductive op :=
| OWrite (t : file_type) (i : id) (c : bytes)
| ORead (t : file_type) (i : id)
| OPartial (t : file_type) (i : id) (off len : N)
| OList (t : file_type)
| OSizes (t : file_type)
| ORemove (t : file_type) (i : id).

Inductive result :=
| RUnit (r : res unit)
| RBytes (r : res bytes)
| RIds (l : list id)
| RSizes (l : list (id * N)).

Definition step (fl : flavour) (f : fs) (o : op) : fs * result :=
  match fl, o with
  | Local, OWrite t i c => (lb_write f t i c, RUnit (Ok tt))
  | Local, ORead t i => (f, RBytes (lb_read_full f t i))
  | Local, OPartial t i off len => (f, RBytes (lb_read_partial f t i off len))
  | Local, OList t => (f, RIds (lb_list f t))
  | Local, OSizes t => (f, RSizes (lb_list_with_size f t))
  | Local, ORemove t i => let '(f', r) := lb_remove f t i in (f', RUnit r)
  | OpenDAL, OWrite t i c => (od_write f t i c, RUnit (Ok tt))
  | OpenDAL, ORead t i => (f, RBytes (od_read_full f t i))
  | OpenDAL, OPartial t i off len => (f, RBytes (od_read_partial f t i off len))
  | OpenDAL, OList t => (f, RIds (od_list f t))
  | OpenDAL, OSizes t => (f, RSizes (od_list_with_size f t))
  | OpenDAL, ORemove t i => let '(f', r) := od_remove f t i in (f', RUnit r)
  end.

Fixpoint run (fl : flavour) (f : fs) (ops : list op) : fs * list result :=
  match ops with
  | [] => (f, [])
  | o :: r => let '(f1, x) := step fl f o in let '(f2, xs) := run fl f1 r in (f2, x :: xs)
  end.
