(* C20 — lemmas about the path layout: injectivity, prefix-freedom, temporary names,
   which canonical paths a listing of a type parses. *)
From Verif.Base Require Import Tactics.
From Verif.C20 Require Import ModelBase Extracted Model Spec ProofsHex.
Local Open Scope N_scope.

Ltac closed_neq :=
  match goal with
  | H : @eq name ?a ?b |- _ => (vm_compute in H; discriminate H)
  | H : @eq (list N) ?a ?b |- _ => (vm_compute in H; discriminate H)
  end.

Lemma last_name_snoc b x : last_name (b ++ [x]) = x.
Proof. unfold last_name. apply last_last. Qed.
Lemma last_name_path t i : last_name (lb_path t i) = lb_filename t i.
Proof. apply last_name_snoc. Qed.
Lemma last_name_tmp t i : last_name (lb_tmp_path t i) = lb_filename t i ++ lb_tmp_suffix.
Proof. unfold lb_tmp_path. rewrite app_assoc. apply last_name_snoc. Qed.

(* the regenerated suffix makes the temporary name unparseable whatever directory it is in:
   neither 64 nor 6 ("config") characters plus the suffix give 64 characters *)
Lemma tmp_suffix_ok : (length lb_tmp_suffix <> 0 /\ length lb_tmp_suffix <> 58)%nat.
Proof. split; vm_compute; discriminate. Qed.

Lemma length_filename t i : wf_id i -> length (lb_filename t i) = 64%nat \/ length (lb_filename t i) = 6%nat.
Proof. intro H. destruct t; cbn [lb_filename]; try (left; apply length_to_hex; assumption). right; reflexivity. Qed.

Lemma lb_path_norm t i : lb_path t i = lb_path (fst (norm t i)) (snd (norm t i)).
Proof. destruct t; reflexivity. Qed.

Lemma norm_eq_path t i t' i' : norm t i = norm t' i' -> lb_path t i = lb_path t' i'.
Proof. intro E. rewrite (lb_path_norm t i), (lb_path_norm t' i'), E. reflexivity. Qed.

Lemma path_injective_lemma t i t' i' :
  wf_id i -> wf_id i' -> lb_path t i = lb_path t' i' -> norm t i = norm t' i'.
Proof.
  intros Hi Hi' E.
  destruct t, t'; unfold lb_path, lb_base_path, lb_filename in E; cbn [app] in E;
    try reflexivity; inversion E; try closed_neq;
    match goal with H : to_hex _ = to_hex _ |- _ => apply to_hex_inj in H; [subst; reflexivity | assumption | assumption] end.
Qed.

(* paths the backend ever creates: final and temporary *)
Definition created (p : path) : Prop :=
  exists t i, wf_id i /\ (p = lb_path t i \/ p = lb_tmp_path t i).

Lemma no_prefix_lemma p q rest : created p -> created q -> rest <> [] -> p ++ rest <> q.
Proof.
  intros (t & i & Hi & Hp) (t' & i' & Hi' & Hq) Hr E.
  destruct rest as [|r0 rest]; [congruence|].
  destruct Hp as [-> | ->], Hq as [-> | ->];
    destruct t, t'; unfold lb_path, lb_tmp_path, lb_tmp_dir, lb_base_path, lb_filename in E; cbn [app] in E;
    inversion E; try closed_neq;
    repeat match goal with H : _ ++ _ :: _ = [] |- _ => apply app_eq_nil in H; destruct H; discriminate
                     | H : [] = _ ++ _ :: _ |- _ => symmetry in H; apply app_eq_nil in H; destruct H; discriminate end;
    try (destruct rest; discriminate).
Qed.

Lemma tmp_ne_final t i t' i' : wf_id i -> wf_id i' -> lb_tmp_path t i <> lb_path t' i'.
Proof.
  intros Hi Hi' E. apply (f_equal last_name) in E. rewrite last_name_tmp, last_name_path in E.
  apply (f_equal (@length N)) in E. rewrite app_length in E.
  pose proof tmp_suffix_ok.
  destruct (length_filename t i Hi), (length_filename t' i' Hi'); lia.
Qed.

Lemma tmp_name_unparsed t i : wf_id i -> parse_id (lb_filename t i ++ lb_tmp_suffix) = None.
Proof.
  intro Hi. destruct (parse_id _) as [j|] eqn:E; [|reflexivity].
  apply parse_id_some in E. destruct E as [[L _] _]. rewrite app_length in L.
  pose proof tmp_suffix_ok. destruct (length_filename t i Hi); lia.
Qed.

Lemma tmp_entry_none t i t' : wf_id i -> entry_id t' (lb_tmp_path t i) = None.
Proof.
  intro Hi. unfold entry_id. rewrite last_name_tmp, tmp_name_unparsed by assumption.
  destruct (under _ _); reflexivity.
Qed.

Lemma dirname_inj t t' : name_eqb (dirname t) (dirname t') = true -> t = t'.
Proof. destruct t, t'; intro H; try reflexivity; vm_compute in H; discriminate. Qed.

(* which listing parses a canonical path *)
Lemma entry_id_canonical t i t' : wf_id i -> t' <> Config ->
  entry_id t' (lb_path t i) = if ft_eqb t t' then Some i else None.
Proof.
  intros Hi Hc. unfold entry_id. rewrite last_name_path.
  destruct t; unfold lb_path, lb_base_path, lb_filename; cbn [app under].
  - destruct t'; try contradiction; reflexivity.
  - destruct (name_eqb (dirname Index) (dirname t')) eqn:E.
    + apply dirname_inj in E. subst. cbn [ft_eqb]. apply parse_id_to_hex; assumption.
    + destruct t'; try reflexivity. vm_compute in E. discriminate.
  - destruct (name_eqb (dirname Key) (dirname t')) eqn:E.
    + apply dirname_inj in E. subst. cbn [ft_eqb]. apply parse_id_to_hex; assumption.
    + destruct t'; try reflexivity. vm_compute in E. discriminate.
  - destruct (name_eqb (dirname Snapshot) (dirname t')) eqn:E.
    + apply dirname_inj in E. subst. cbn [ft_eqb]. apply parse_id_to_hex; assumption.
    + destruct t'; try reflexivity. vm_compute in E. discriminate.
  - change lb_data_dir with (dirname Pack).
    destruct (name_eqb (dirname Pack) (dirname t')) eqn:E.
    + apply dirname_inj in E. subst. cbn [ft_eqb]. apply parse_id_to_hex; assumption.
    + destruct t'; try reflexivity. vm_compute in E. discriminate.
Qed.

Lemma od_path_eq t i : od_path t i = lb_path t i.
Proof. destruct t; reflexivity. Qed.

Lemma config_paths :
  [lb_list_config_name] = lb_path Config zero_id /\ [dirname Config] = lb_path Config zero_id /\
  [od_list_config_name] = lb_path Config zero_id /\ [od_stat_config_name] = lb_path Config zero_id.
Proof. repeat split; reflexivity. Qed.

Lemma ft_eqb_refl t : ft_eqb t t = true.
Proof. destruct t; reflexivity. Qed.
