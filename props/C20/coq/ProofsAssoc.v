(* C20 — association-list lemmas (generic in the key type). *)
From Verif.Base Require Import Tactics.
From Verif.C20 Require Import ModelBase.

Section AL.
  Context {K V : Type} (eqb : K -> K -> bool) (eqb_iff : forall a b, eqb a b = true <-> a = b).

  Lemma al_eqb_refl k : eqb k k = true.
  Proof. apply eqb_iff; reflexivity. Qed.
  Lemma al_eqb_neq a b : a <> b -> eqb a b = false.
  Proof. intro H. destruct (eqb a b) eqn:E; [apply eqb_iff in E; contradiction | reflexivity]. Qed.

  Lemma al_in_del (f : list (K * V)) k e : In e (al_del eqb f k) <-> In e f /\ fst e <> k.
  Proof.
    unfold al_del. rewrite filter_In. split; intros [A B]; split; try assumption.
    - intro E. rewrite E, al_eqb_refl in B. discriminate.
    - rewrite al_eqb_neq by assumption. reflexivity.
  Qed.

  Lemma al_keys_del (f : list (K * V)) k k' :
    In k' (map fst (al_del eqb f k)) <-> In k' (map fst f) /\ k' <> k.
  Proof.
    rewrite !in_map_iff. split.
    - intros (e & E & H). apply al_in_del in H. destruct H. subst. split; [exists e; auto | assumption].
    - intros [(e & E & H) N]. exists e. split; [assumption|]. apply al_in_del. subst. auto.
  Qed.

  Lemma al_nodup_del (f : list (K * V)) k : NoDup (map fst f) -> NoDup (map fst (al_del eqb f k)).
  Proof.
    induction f as [|[q v] f IH]; simpl; intro H; [constructor|]. inv H.
    destruct (eqb q k); simpl; [apply IH; assumption|].
    constructor; [|apply IH; assumption]. intro X. apply al_keys_del in X. tauto.
  Qed.

  Lemma al_nodup_put (f : list (K * V)) k v : NoDup (map fst f) -> NoDup (map fst (al_put eqb f k v)).
  Proof.
    intro H. unfold al_put. simpl. constructor; [|apply al_nodup_del; assumption].
    intro X. apply al_keys_del in X. tauto.
  Qed.

  Lemma al_get_del_same (f : list (K * V)) k : al_get eqb (al_del eqb f k) k = None.
  Proof.
    induction f as [|[q v] f IH]; simpl; [reflexivity|].
    destruct (eqb q k) eqn:E; simpl; [assumption|]. rewrite E. assumption.
  Qed.

  Lemma al_get_del_other (f : list (K * V)) k k' : k' <> k -> al_get eqb (al_del eqb f k) k' = al_get eqb f k'.
  Proof.
    intro N. induction f as [|[q v] f IH]; simpl; [reflexivity|].
    destruct (eqb q k) eqn:E; simpl.
    - apply eqb_iff in E. subst. rewrite (al_eqb_neq k k') by congruence. assumption.
    - destruct (eqb q k'); [reflexivity | assumption].
  Qed.

  Lemma al_get_put_same (f : list (K * V)) k v : al_get eqb (al_put eqb f k v) k = Some v.
  Proof. unfold al_put. simpl. rewrite al_eqb_refl. reflexivity. Qed.

  Lemma al_get_put_other (f : list (K * V)) k v k' : k' <> k -> al_get eqb (al_put eqb f k v) k' = al_get eqb f k'.
  Proof.
    intro N. unfold al_put. simpl. rewrite (al_eqb_neq k k') by congruence. apply al_get_del_other. assumption.
  Qed.

  Lemma al_get_some_in (f : list (K * V)) k v : al_get eqb f k = Some v -> In (k, v) f.
  Proof.
    induction f as [|[q w] f IH]; simpl; [discriminate|].
    destruct (eqb q k) eqn:E; intro H.
    - apply eqb_iff in E. inv H. left; reflexivity.
    - right. apply IH. assumption.
  Qed.

  Lemma al_in_get (f : list (K * V)) k v : NoDup (map fst f) -> In (k, v) f -> al_get eqb f k = Some v.
  Proof.
    induction f as [|[q w] f IH]; simpl; intros ND H; [contradiction|]. inv ND.
    destruct H as [H|H].
    - inv H. rewrite al_eqb_refl. reflexivity.
    - destruct (eqb q k) eqn:E.
      + apply eqb_iff in E. subst. exfalso. apply H2. apply in_map_iff. exists (k, v). auto.
      + apply IH; assumption.
  Qed.

  Lemma al_get_none (f : list (K * V)) k : al_get eqb f k = None <-> ~ In k (map fst f).
  Proof.
    induction f as [|[q w] f IH]; simpl; [tauto|].
    destruct (eqb q k) eqn:E.
    - apply eqb_iff in E. subst. split; [discriminate | intro H; exfalso; apply H; auto].
    - rewrite IH. split; [intros H [X|X]; [subst; rewrite al_eqb_refl in E; discriminate | tauto] | tauto].
  Qed.

  Lemma al_get_key_in (f : list (K * V)) k : al_get eqb f k <> None <-> In k (map fst f).
  Proof.
    pose proof (al_get_none f k). destruct (al_get eqb f k).
    - split; [intros _|discriminate]. destruct (in_dec (fun a b => match Bool.bool_dec (eqb a b) true with left e => left (proj1 (eqb_iff a b) e) | right n => right (fun e => n (proj2 (eqb_iff a b) e)) end) k (map fst f)); [assumption|].
      exfalso. apply H in n. discriminate.
    - split; [congruence|]. intros X _. apply H in X; [assumption | reflexivity].
  Qed.

  Lemma al_del_put_same (f : list (K * V)) k v : al_del eqb (al_put eqb f k v) k = al_del eqb f k.
  Proof.
    unfold al_put, al_del. simpl. rewrite al_eqb_refl. simpl.
    induction f as [|[q w] f IH]; simpl; [reflexivity|].
    destruct (eqb q k) eqn:E; simpl; [assumption|]. rewrite E. simpl. f_equal. assumption.
  Qed.
End AL.
