(* C20 — property theorems.  Nothing but statements closed by `exact`, each followed by
   Print Assumptions.  Model.v mirrors crates/backend/src/local.rs (and the path/listing
   logic of opendal.rs); directory names, the temporary suffix, the data sub-directory rule,
   the id length and the order of the steps of write_bytes are regenerated from the source
   into Extracted.v on every run. *)
From Verif.Base Require Import Tactics.
From Verif.C20 Require Import ModelBase Extracted Model Spec ProofsHex ProofsPath.
Local Open Scope N_scope.

(* The hex codec of ids is lossless: what Id::to_hex writes, Id::parse_some reads back;
   hence distinct ids have distinct names. *)
Theorem hex_roundtrip : forall i, wf_id i -> parse_id (to_hex i) = Some i.
Proof. exact parse_id_to_hex. Qed.
Print Assumptions hex_roundtrip.

Theorem hex_injective : forall i j, wf_id i -> wf_id j -> to_hex i = to_hex j -> i = j.
Proof. exact to_hex_inj. Qed.
Print Assumptions hex_injective.

(* Distinct (type, id) keys live at distinct paths (all ids name the one config file). *)
Theorem path_injective : forall t i t' i',
  wf_id i -> wf_id i' -> lb_path t i = lb_path t' i' -> norm t i = norm t' i'.
Proof. exact path_injective_lemma. Qed.
Print Assumptions path_injective.

(* No file the backend creates (final or temporary) is a directory on the way to another
   one: the implicit-directory file-system model is adequate for this layout. *)
Theorem path_prefix_free : forall p q rest, created p -> created q -> rest <> [] -> p ++ rest <> q.
Proof. exact no_prefix_lemma. Qed.
Print Assumptions path_prefix_free.
