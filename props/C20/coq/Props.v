(* C20 — property theorems.  Nothing but statements closed by `exact`, each followed by
   Print Assumptions.  Model.v mirrors crates/backend/src/local.rs (and the path/listing
   logic of opendal.rs); directory names, the temporary suffix, the data sub-directory rule,
   the id length and the order of the steps of write_bytes are regenerated from the source
   into Extracted.v on every run. *)
From Verif.Base Require Import Tactics.
From Verif.C20 Require Import ModelBase Extracted Model Spec ProofsHex ProofsPath ProofsAssoc ProofsRefine ProofsStep.
Local Open Scope N_scope.

(* The hex codec of ids is lossless: what Id::to_hex writes, Id::parse_some reads back;
   hence distinct ids have distinct names. *)
Theorem hex_roundtrip : forall i, wf_id i -> parse_id (to_hex i) = Some i.
Proof. exact parse_id_to_hex. Qed.
Print Assumptions hex_roundtrip.

Theorem hex_injective : forall i j, wf_id i -> wf_id j -> to_hex i = to_hex j -> i = j.
Proof. exact to_hex_inj. Qed.
Print Assumptions hex_injective.

(* Distinct (type, id) keys live at distinct paths (all ids name the one config file). *)
Theorem path_injective : forall t i t' i',
  wf_id i -> wf_id i' -> lb_path t i = lb_path t' i' -> norm t i = norm t' i'.
Proof. exact path_injective_lemma. Qed.
Print Assumptions path_injective.

(* No file the backend creates (final or temporary) is a directory on the way to another
   one: the implicit-directory file-system model is adequate for this layout. *)
Theorem path_prefix_free : forall p q rest, created p -> created q -> rest <> [] -> p ++ rest <> q.
Proof. exact no_prefix_lemma. Qed.
Print Assumptions path_prefix_free.

(* The temporary file of a write is parsed by no listing of any type. *)
Theorem tmp_never_listed : forall t i t', wf_id i -> entry_id t' (lb_tmp_path t i) = None.
Proof. exact tmp_entry_none. Qed.
Print Assumptions tmp_never_listed.

(* A file below a type directory is listed iff its name is exactly 64 hex digits (either
   case): every other foreign or temporary name is ignored - and a foreign file with such a
   name IS listed (hypothesis R_stray of the refinement excludes those). *)
Theorem foreign_ignored : forall t p,
  entry_id t p <> None <-> under (dirname t) p = true /\ is_hex64 (last_name p).
Proof. exact foreign_ignored_lemma. Qed.
Print Assumptions foreign_ignored.

(* Planting or removing any file that is neither a key's path nor listable changes no answer. *)
Theorem stray_files_invisible : forall f m p x,
  R f m -> ~ canonical p -> ~ listable p -> R (fs_put f p x) m /\ R (fs_del f p) m.
Proof. intros f m p x H1 H2 H3. split; [apply R_put_stray; assumption | apply R_del_stray; assumption]. Qed.
Print Assumptions stray_files_invisible.

(* One operation: related states stay related and the answers agree (listings as sets). *)
Theorem step_refines_map : forall fl f m o, R f m -> wf_op fl o ->
  R (fst (step fl f o)) (fst (am_step fl m o)) /\ res_equiv (snd (step fl f o)) (snd (am_step fl m o)).
Proof. exact step_refines_lemma. Qed.
Print Assumptions step_refines_map.

(* EVERY sequence of write/read_full/read_partial/list/list_with_size/remove gives the
   answers of the exact map; ranged reads are firstn len (skipn off bytes), an error beyond
   the end (Spec.range_of).  Both flavours: the directory backend and the adapter's logic. *)
Theorem local_refines_map : forall fl ops f m, R f m -> Forall (wf_op fl) ops ->
  R (fst (run fl f ops)) (fst (am_run fl m ops)) /\
  Forall2 res_equiv (snd (run fl f ops)) (snd (am_run fl m ops)).
Proof. exact run_refines_lemma. Qed.
Print Assumptions local_refines_map.
Example refinement_starts : R [] [].
Proof. exact R_empty. Qed.

(* At EVERY micro-step of write_bytes (temp created, sized, any number of bytes copied,
   synced = the hook/crash point, aborted with clean-up, renamed) the state is related to the
   old map or - only once renamed - to the new one, and every operation performed in that
   state (i.e. after a crash there and a re-open) answers like that map: never a partial file. *)
Theorem publish_atomic : forall f m t i c st, R f m -> wf_id i -> N.of_nat (length c) < 2 ^ 32 ->
  let f' := micro_state f t i c st in
  let m' := am_put m (norm t i) c in
  (R f' m /\ forall o, wf_op Local o -> res_equiv (snd (step Local f' o)) (snd (am_step Local m o))) \/
  (st = SRenamed /\ R f' m' /\ forall o, wf_op Local o -> res_equiv (snd (step Local f' o)) (snd (am_step Local m' o))).
Proof. exact publish_atomic_lemma. Qed.
Print Assumptions publish_atomic.

(* The order of the file-system calls found in the source is the modelled one (a hook,
   when compiled in, sits between sync and rename). *)
Theorem write_order_as_modelled :
  filter (fun s => negb (is_hook s)) lb_write_order = modelled_write_order /\
  (lb_write_order = modelled_write_order \/
   lb_write_order = [WMkdir; WOpenTrunc; WSetLen; WCopy; WSync; WHook; WRename]).
Proof. exact write_order_lemma. Qed.
Print Assumptions write_order_as_modelled.

(* The object-store adapter uses the same paths and listing roots as the directory backend. *)
Theorem opendal_same_layout : forall t i f,
  od_path t i = lb_path t i /\ od_list f t = lb_list f t /\ od_list_with_size f t = lb_list_with_size f t.
Proof. intros t i f. split; [apply od_path_eq | split; [apply od_list_eq | apply od_sizes_eq]]. Qed.
Print Assumptions opendal_same_layout.

(* The temporary NAME parses as no id - so the recursive, name-based walk ignores the temporary
   file in whatever (sub-)directory the code puts it.  Proved from the regenerated shape
   <parent>/<lb_tmp_dir>/<final name><lb_tmp_suffix>. *)
Theorem tmp_name_never_parses : forall t i, wf_id i -> parse_id (lb_filename t i ++ lb_tmp_suffix) = None.
Proof. exact tmp_name_unparsed. Qed.
Print Assumptions tmp_name_never_parses.

(* At every interleaving point between the creation of the temporary file and the rename (and
   after an aborted copy) both listings of every type are those of the state before the write. *)
Theorem listing_stable_during_write : forall f m t i c st,
  R f m -> wf_id i -> N.of_nat (length c) < 2 ^ 32 -> st <> SRenamed -> forall t',
  Permutation (lb_list (micro_state f t i c st) t') (lb_list f t') /\
  Permutation (lb_list_with_size (micro_state f t i c st) t') (lb_list_with_size f t').
Proof. exact listing_stable_lemma. Qed.
Print Assumptions listing_stable_during_write.

(* Ranged reads of the map: a range inside the file gives exactly len bytes from off; a
   non-empty range reaching beyond the end is an error; any successful answer has len bytes. *)
Theorem ranged_read_exact : forall b off len,
  (off + len <= N.of_nat (length b) ->
     range_of b off len = Ok (firstn (N.to_nat len) (skipn (N.to_nat off) b)) /\
     length (firstn (N.to_nat len) (skipn (N.to_nat off) b)) = N.to_nat len) /\
  (N.of_nat (length b) < off + len -> 0 < len -> range_of b off len = Err) /\
  (forall s, range_of b off len = Ok s -> length s = N.to_nat len).
Proof. exact ranged_read_lemma. Qed.
Print Assumptions ranged_read_exact.

(* The object-store adapter makes exactly the operator calls the model assumes, in that order:
   write_bytes = filter empty chunks; operator.write - no stat/exists before it, no early return. *)
Theorem opendal_calls_as_modelled : forall f, od_calls f = modelled_od_calls f.
Proof. exact od_calls_lemma. Qed.
Print Assumptions opendal_calls_as_modelled.

(* Only layers known to pass requests and answers through are wrapped around the operator. *)
Theorem opendal_layers_passthrough : forallb passthrough od_layers = true.
Proof. exact od_layers_lemma. Qed.
Print Assumptions opendal_layers_passthrough.

(* The directory backend's read_full/read_partial/list/list_with_size/remove make exactly the
   file-system calls the model assumes, in that order (write_bytes: write_order_as_modelled). *)
Theorem local_calls_as_modelled : forall f, lb_calls f = modelled_lb_calls f.
Proof. exact lb_calls_lemma. Qed.
Print Assumptions local_calls_as_modelled.
