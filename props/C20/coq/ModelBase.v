(* C20 — base types of the local-backend model (definitions only).
   Names and paths are byte strings: a [name] is the list of the bytes of one path
   component (the code compares and parses names bytewise: hex::decode_to_slice works on
   the UTF-8 bytes), a [path] is the list of components below the repository root. *)
From Verif.Base Require Import Tactics.
Local Open Scope N_scope.

Inductive file_type := Config | Index | Key | Snapshot | Pack.

Definition ft_eqb (a b : file_type) : bool :=
  match a, b with
  | Config, Config | Index, Index | Key, Key | Snapshot, Snapshot | Pack, Pack => true
  | _, _ => false
  end.

Definition bytes := list N.        (* every element < 256 where it matters (ids) *)
Definition id := list N.           (* 32 bytes *)
Definition name := list N.
Definition path := list name.

Fixpoint list_eqb {A} (eqb : A -> A -> bool) (a b : list A) : bool :=
  match a, b with
  | [], [] => true
  | x :: a', y :: b' => eqb x y && list_eqb eqb a' b'
  | _, _ => false
  end.

Definition name_eqb : name -> name -> bool := list_eqb N.eqb.
Definition path_eqb : path -> path -> bool := list_eqb name_eqb.

(* the steps of LocalBackend::write_bytes, in the order the source performs them
   (regenerated into Extracted.lb_write_order) *)
Inductive wstep := WMkdir | WOpenTrunc | WSetLen | WCopy | WSync | WHook | WRename.

(* the object-store adapter statement by statement: the calls each trait method makes on the
   opendal operator, in source order, plus the two control-flow shapes that matter
   (regenerated into Extracted.od_calls; anything unknown becomes OcOther) *)
Inductive odfn := FWrite | FRemove | FReadFull | FReadPartial | FList | FSizes.
Inductive odcall :=
| OcFilterEmpty        (* content.into_vec().into_iter().filter(|chunk| !chunk.is_empty()) *)
| OcWrite | OcDelete | OcRead | OcReadOptions | OcExists | OcStat | OcLister
| OcEarlyReturn        (* a `return` statement *)
| OcOther.
(* likewise the directory backend's read-side methods and remove: every file-system call and
   every `return`, in source order (write_bytes has its own table, wstep) *)
Inductive lbfn := LReadFull | LReadPartial | LList | LSizes | LRemove.
Inductive lbcall :=
| LcFsRead | LcFileOpen | LcSeek | LcReadExact | LcWalkDir | LcExists | LcMetadata | LcIsFile | LcParseSome
| LcRemoveFile | LcCommand | LcReturn | LcOther.
(* layers wrapped around the operator in OpenDALBackend::new *)
Inductive odlayer := LRetry | LThrottle | LConcurrentLimit | LLogging | LOther.

(* results: Ok / error return / panic (debug-build arithmetic overflow) *)
Inductive res (A : Type) := Ok (a : A) | Err | Panic.
Arguments Ok {A} a.
Arguments Err {A}.
Arguments Panic {A}.

(* association lists with a boolean key equality: first match wins on lookup,
   deletion removes every match, insertion deletes first *)
Section Assoc.
  Context {K V : Type} (eqb : K -> K -> bool).
  Fixpoint al_get (f : list (K * V)) (k : K) : option V :=
    match f with
    | [] => None
    | (q, v) :: r => if eqb q k then Some v else al_get r k
    end.
  Definition al_del (f : list (K * V)) (k : K) : list (K * V) :=
    filter (fun e => negb (eqb (fst e) k)) f.
  Definition al_put (f : list (K * V)) (k : K) (v : V) : list (K * V) :=
    (k, v) :: al_del f k.
End Assoc.

(* prefix / suffix of a list counted in N (no unary numbers at run time) *)
Fixpoint takeN {A} (n : N) (l : list A) : list A :=
  match l with
  | [] => []
  | x :: r => if n =? 0 then [] else x :: takeN (N.pred n) r
  end.
Fixpoint dropN {A} (n : N) (l : list A) : list A :=
  match l with
  | [] => []
  | x :: r => if n =? 0 then l else dropN (N.pred n) r
  end.
Fixpoint lenN {A} (l : list A) : N :=
  match l with [] => 0 | _ :: r => N.succ (lenN r) end.
