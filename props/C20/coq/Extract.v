(* C20 — extraction of the executable model and of the map specification (ExtrOcamlBasic only). *)
Require Extraction.
Require Import ExtrOcamlBasic.
From Coq Require Import ZArith.
From Verif.C20 Require Import ModelBase Extracted Model Spec.
Extraction "model_ml.ml" step am_step micro_state fs_put parse_id to_hex lb_path lb_tmp_path od_path
  wf_idb zero_id lb_write_order modelled_write_order is_hook
  Z.of_N. (* Z.of_N only so that the shared prelude (int <-> Z) links *)
