(* C20 — the specification: an exact map from (file type, id) to bytes.
   Executable (it is the oracle of the correspondence run) and declarative: reads are
   lookups, ranged reads are firstn/skipn of the stored bytes, listings are the domain
   with the true sizes.  The Config file has no id of its own: every id names the one
   config file, which is listed under the all-zero id (Id::default()). *)
From Verif.Base Require Import Tactics.
From Verif.C20 Require Import ModelBase Extracted Model.
Local Open Scope N_scope.

Definition key := (file_type * id)%type.
Definition id_eqb : id -> id -> bool := list_eqb N.eqb.
Definition key_eqb (a b : key) : bool := ft_eqb (fst a) (fst b) && id_eqb (snd a) (snd b).
Definition norm (t : file_type) (i : id) : key :=
  match t with Config => (Config, zero_id) | _ => (t, i) end.

Definition amap := list (key * bytes).
Definition am_get : amap -> key -> option bytes := al_get key_eqb.
Definition am_del : amap -> key -> amap := al_del key_eqb.
Definition am_put : amap -> key -> bytes -> amap := al_put key_eqb.

Definition am_ids (m : amap) (t : file_type) : list id :=
  flat_map (fun e => if ft_eqb (fst (fst e)) t then [snd (fst e)] else []) m.
Definition am_sizes (m : amap) (t : file_type) : list (id * N) :=
  flat_map (fun e => if ft_eqb (fst (fst e)) t then [(snd (fst e), N.of_nat (length (snd e)))] else []) m.

Definition am_read (m : amap) (t : file_type) (i : id) : res bytes :=
  match am_get m (norm t i) with Some b => Ok b | None => Err end.

(* a range inside the file: exactly those bytes.  A range reaching beyond the end: an
   error - except that an empty range (len = 0) is answered with the empty string wherever
   it starts (the object-store adapter answers it even for a missing file).  The adapter
   computes off+len in u32 (panic on overflow in a debug build). *)
Definition range_of (b : bytes) (off len : N) : res bytes :=
  if off + len <=? N.of_nat (length b)
  then Ok (firstn (N.to_nat len) (skipn (N.to_nat off) b))
  else if len =? 0 then Ok [] else Err.

Definition am_partial (fl : flavour) (m : amap) (t : file_type) (i : id) (off len : N) : res bytes :=
  match fl with
  | Local =>
      match am_get m (norm t i) with None => Err | Some b => range_of b off len end
  | OpenDAL =>
      if 2 ^ 32 <=? off + len then Panic
      else if len =? 0 then Ok []
      else match am_get m (norm t i) with None => Err | Some b => range_of b off len end
  end.

Definition am_remove (fl : flavour) (m : amap) (t : file_type) (i : id) : amap * res unit :=
  match am_get m (norm t i), fl with
  | Some _, _ => (am_del m (norm t i), Ok tt)
  | None, Local => (m, Err)
  | None, OpenDAL => (m, Ok tt)
  end.

Definition am_step (fl : flavour) (m : amap) (o : op) : amap * result :=
  match o with
  | OWrite t i c => (am_put m (norm t i) c, RUnit (Ok tt))
  | ORead t i => (m, RBytes (am_read m t i))
  | OPartial t i off len => (m, RBytes (am_partial fl m t i off len))
  | OList t => (m, RIds (am_ids m t))
  | OSizes t => (m, RSizes (am_sizes m t))
  | ORemove t i => let '(m', r) := am_remove fl m t i in (m', RUnit r)
  end.

Fixpoint am_run (fl : flavour) (m : amap) (ops : list op) : amap * list result :=
  match ops with
  | [] => (m, [])
  | o :: r => let '(m1, x) := am_step fl m o in let '(m2, xs) := am_run fl m1 r in (m2, x :: xs)
  end.

(* listings are sets: the order WalkDir / the object store yields is not specified *)
Definition res_equiv (a b : result) : Prop :=
  match a, b with
  | RIds l1, RIds l2 => Permutation l1 l2
  | RSizes l1, RSizes l2 => Permutation l1 l2
  | _, _ => a = b
  end.

(* ---------- well-formedness ---------- *)
Definition wf_id (i : id) : Prop := length i = N.to_nat id_len /\ Forall (fun b => b < 256) i.
Definition wf_idb (i : id) : bool := (lenN i =? id_len) && forallb (fun b => b <? 256) i.

(* operations the property quantifies over: 32-byte ids, contents shorter than 4 GiB
   (list_with_size reports u32 sizes), u32 offsets and lengths; for the object-store
   adapter additionally off + len < 2^32 *)
Definition wf_op (fl : flavour) (o : op) : Prop :=
  match o with
  | OWrite t i c => wf_id i /\ N.of_nat (length c) < 2 ^ 32
  | ORead t i => wf_id i
  | OPartial t i off len => wf_id i /\ off < 2 ^ 32 /\ len < 2 ^ 32
  | OList _ | OSizes _ => True
  | ORemove t i => wf_id i
  end.

Definition read_only (o : op) : bool :=
  match o with OWrite _ _ _ | ORemove _ _ => false | _ => true end.

(* ---------- names ---------- *)
Definition hexchar (c : N) : Prop :=
  (48 <= c <= 57) \/ (97 <= c <= 102) \/ (65 <= c <= 70).
Definition is_hex64 (s : name) : Prop := length s = 64%nat /\ Forall hexchar s.

(* ---------- the refinement relation ---------- *)
(* canonical = the path of some key; listable = some type's directory walk parses it *)
Definition canonical (p : path) : Prop := exists t i, wf_id i /\ p = lb_path t i.
Definition listable (p : path) : Prop := exists t, t <> Config /\ entry_id t p <> None.

Record R (f : fs) (m : amap) : Prop := {
  R_nodup : NoDup (map fst f);
  R_get : forall t i, wf_id i -> fs_get f (lb_path t i) = am_get m (norm t i);
  (* every other file (foreign, temporary, left over by a crash) has a name no listing parses *)
  R_stray : forall p, In p (map fst f) -> canonical p \/ ~ listable p;
  R_mnodup : NoDup (map fst m);
  R_mkeys : forall k, In k (map fst m) -> exists t i, wf_id i /\ k = norm t i;
  R_small : forall k b, In (k, b) m -> N.of_nat (length b) < 2 ^ 32
}.
