(* C20 — the directory backend refines the exact map; micro-steps of a write. *)
From Verif.Base Require Import Tactics.
From Verif.C20 Require Import ModelBase Extracted Model Spec ProofsHex ProofsPath ProofsAssoc.
Local Open Scope N_scope.

Definition PE := path_eqb_iff.
Definition KE := key_eqb_iff.

Lemma al_del_absent {K V} (eqb : K -> K -> bool) (f : list (K * V)) k :
  al_get eqb f k = None -> al_del eqb f k = f.
Proof.
  induction f as [|[q v] f IH]; simpl; [reflexivity|].
  destruct (eqb q k); [discriminate|]. intro H. simpl. f_equal. apply IH. assumption.
Qed.

(* ---------- ranged reads ---------- *)
Lemma slice_range b off len :
  (if lenN (slice off len b) =? len then Ok (slice off len b) else Err) = range_of b off len.
Proof.
  unfold slice, range_of. rewrite takeN_firstn, dropN_skipn, lenN_length, firstn_length, skipn_length.
  destruct (N.leb_spec (off + len) (N.of_nat (length b))).
  - replace (N.of_nat (Nat.min (N.to_nat len) (length b - N.to_nat off)) =? len) with true by lia. reflexivity.
  - destruct (N.eqb_spec len 0) as [->|Hn].
    + simpl. reflexivity.
    + replace (N.of_nat (Nat.min (N.to_nat len) (length b - N.to_nat off)) =? len) with false by lia. reflexivity.
Qed.

(* ---------- keys and paths ---------- *)
Lemma norm_path_iff t i t' i' : wf_id i -> wf_id i' ->
  (lb_path t i = lb_path t' i' <-> norm t i = norm t' i').
Proof. intros. split; [apply path_injective_lemma; assumption | apply norm_eq_path]. Qed.

Lemma tmp_not_canonical t i : wf_id i -> ~ canonical (lb_tmp_path t i).
Proof. intros Hi (t' & i' & Hi' & E). exact (tmp_ne_final t i t' i' Hi Hi' E). Qed.
Lemma tmp_not_listable t i : wf_id i -> ~ listable (lb_tmp_path t i).
Proof. intros Hi (t' & _ & H). apply H. apply tmp_entry_none. assumption. Qed.

Lemma norm_nonconfig t i : t <> Config -> norm t i = (t, i).
Proof. destruct t; try reflexivity. contradiction. Qed.
Lemma norm_fst_nonconfig t t' i i' : t <> Config -> norm t' i' = (t, i) -> t' = t /\ i' = i.
Proof. destruct t'; simpl; intros H E; inv E; auto. contradiction. Qed.

(* ---------- R is preserved ---------- *)
Lemma R_put_stray f m p x : R f m -> ~ canonical p -> ~ listable p -> R (fs_put f p x) m.
Proof.
  intros [A B C D E F] Hc Hl. constructor; try assumption.
  - apply al_nodup_put; [apply PE | assumption].
  - intros t i Hi. unfold fs_put, fs_get. rewrite al_get_put_other; [apply B; assumption | apply PE |].
    intro X. apply Hc. exists t, i. auto.
  - intros q Hq. unfold fs_put, al_put in Hq. simpl in Hq. destruct Hq as [<-|Hq]; [right; assumption|].
    apply (al_keys_del _ PE) in Hq. apply C. tauto.
Qed.

Lemma R_del_stray f m p : R f m -> ~ canonical p -> R (fs_del f p) m.
Proof.
  intros [A B C D E F] Hc. constructor; try assumption.
  - apply al_nodup_del; [apply PE | assumption].
  - intros t i Hi. unfold fs_del, fs_get. rewrite al_get_del_other; [apply B; assumption | apply PE |].
    intro X. apply Hc. exists t, i. auto.
  - intros q Hq. apply (al_keys_del _ PE) in Hq. apply C. tauto.
Qed.

Lemma R_write f m t i c : R f m -> wf_id i -> N.of_nat (length c) < 2 ^ 32 ->
  R (fs_put f (lb_path t i) c) (am_put m (norm t i) c).
Proof.
  intros [A B C D E F] Hi Hc. constructor.
  - apply al_nodup_put; [apply PE | assumption].
  - intros t' i' Hi'. unfold fs_put, fs_get, am_put, am_get.
    destruct (path_eqb (lb_path t' i') (lb_path t i)) eqn:X.
    + apply PE in X. rewrite X. apply norm_path_iff in X; try assumption. rewrite X.
      rewrite al_get_put_same by apply PE. rewrite al_get_put_same by apply KE. reflexivity.
    + assert (lb_path t' i' <> lb_path t i) by (intro Y; rewrite Y, path_eqb_refl in X; discriminate).
      rewrite al_get_put_other; [| apply PE | assumption].
      rewrite al_get_put_other; [apply B; assumption | apply KE |].
      intro Y. apply H. apply norm_eq_path. assumption.
  - intros q Hq. unfold fs_put, al_put in Hq. simpl in Hq. destruct Hq as [<-|Hq]; [left; exists t, i; auto|].
    apply (al_keys_del _ PE) in Hq. apply C. tauto.
  - apply al_nodup_put; [apply KE | assumption].
  - intros k Hk. unfold am_put, al_put in Hk. simpl in Hk. destruct Hk as [<-|Hk]; [exists t, i; auto|].
    apply (al_keys_del _ KE) in Hk. apply E. tauto.
  - intros k b Hk. unfold am_put, al_put in Hk. simpl in Hk. destruct Hk as [X|Hk]; [inv X; assumption|].
    apply (al_in_del _ KE) in Hk. eapply F. apply Hk.
Qed.

Lemma R_remove f m t i : R f m -> wf_id i -> R (fs_del f (lb_path t i)) (am_del m (norm t i)).
Proof.
  intros [A B C D E F] Hi. constructor.
  - apply al_nodup_del; [apply PE | assumption].
  - intros t' i' Hi'. unfold fs_del, fs_get, am_del, am_get.
    destruct (path_eqb (lb_path t' i') (lb_path t i)) eqn:X.
    + apply PE in X. rewrite X. apply norm_path_iff in X; try assumption. rewrite X.
      rewrite al_get_del_same. rewrite al_get_del_same. reflexivity.
    + assert (lb_path t' i' <> lb_path t i) by (intro Y; rewrite Y, path_eqb_refl in X; discriminate).
      rewrite al_get_del_other; [| apply PE | assumption].
      rewrite al_get_del_other; [apply B; assumption | apply KE |].
      intro Y. apply H. apply norm_eq_path. assumption.
  - intros q Hq. apply (al_keys_del _ PE) in Hq. apply C. tauto.
  - apply al_nodup_del; [apply KE | assumption].
  - intros k Hk. apply (al_keys_del _ KE) in Hk. apply E. tauto.
  - intros k b Hk. apply (al_in_del _ KE) in Hk. eapply F. apply Hk.
Qed.

Lemma lb_write_eq f t i c :
  lb_write f t i c = fs_put (fs_del f (lb_tmp_path t i)) (lb_path t i) c.
Proof.
  unfold lb_write, micro_state, fs_rename, fs_get, fs_put, fs_del.
  rewrite al_get_put_same by apply PE. rewrite al_del_put_same by apply PE. reflexivity.
Qed.

(* ---------- listings ---------- *)
Lemma NoDup_flat_map_opt {A B} (g : A -> option B) (l : list A) :
  NoDup l -> (forall a a' b, In a l -> In a' l -> g a = Some b -> g a' = Some b -> a = a') ->
  NoDup (flat_map (fun a => match g a with Some b => [b] | None => [] end) l).
Proof.
  induction l as [|a l IH]; simpl; intros ND H; [constructor|]. inv ND.
  assert (IH' : NoDup (flat_map (fun a => match g a with Some b => [b] | None => [] end) l)).
  { apply IH; [assumption|]. intros. eapply H; eauto. }
  destruct (g a) as [b|] eqn:E; [|assumption]. simpl. constructor; [|assumption].
  intro X. apply in_flat_map in X. destruct X as (a' & Ha' & X).
  destruct (g a') as [b'|] eqn:E'; [|contradiction]. destruct X as [X|[]]. subst b'.
  assert (a = a') by (eapply H; eauto). subst. contradiction.
Qed.

Lemma in_flat_map_opt {A B} (g : A -> option B) (l : list A) b :
  In b (flat_map (fun a => match g a with Some b => [b] | None => [] end) l) <-> exists a, In a l /\ g a = Some b.
Proof.
  rewrite in_flat_map. split; intros (a & Ha & X); exists a; split; try assumption.
  - destruct (g a); [destruct X as [X|[]]; congruence | contradiction].
  - rewrite X. left; reflexivity.
Qed.

Lemma NoDup_fst_entries {K V} (f : list (K * V)) : NoDup (map fst f) -> NoDup f.
Proof. apply NoDup_map_inv. Qed.

Lemma same_key_same_entry {K V} (f : list (K * V)) e e' :
  NoDup (map fst f) -> In e f -> In e' f -> fst e = fst e' -> e = e'.
Proof.
  induction f as [|x f IH]; simpl; intros ND H H' E; [contradiction|]. inv ND.
  destruct H as [->|H], H' as [->|H']; try reflexivity.
  - exfalso. apply H2. rewrite E. apply in_map. assumption.
  - exfalso. apply H2. rewrite <- E. apply in_map. assumption.
  - apply IH; assumption.
Qed.

Definition ids_g (t : file_type) (e : path * bytes) : option id := entry_id t (fst e).
Definition sizes_g (t : file_type) (e : path * bytes) : option (id * N) :=
  match entry_id t (fst e) with
  | Some i => match u32_of_len (snd e) with Some n => Some (i, n) | None => None end
  | None => None
  end.
Lemma walk_ids_g t f : walk_ids t f = flat_map (fun e => match ids_g t e with Some b => [b] | None => [] end) f.
Proof. reflexivity. Qed.
Lemma walk_sizes_g t f : walk_sizes t f = flat_map (fun e => match sizes_g t e with Some b => [b] | None => [] end) f.
Proof.
  unfold walk_sizes. apply flat_map_ext. intro e. unfold sizes_g.
  destruct (entry_id t (fst e)); [destruct (u32_of_len (snd e))|]; reflexivity.
Qed.

Definition aids_g (t : file_type) (e : key * bytes) : option id :=
  if ft_eqb (fst (fst e)) t then Some (snd (fst e)) else None.
Definition asizes_g (t : file_type) (e : key * bytes) : option (id * N) :=
  if ft_eqb (fst (fst e)) t then Some (snd (fst e), N.of_nat (length (snd e))) else None.
Lemma am_ids_g m t : am_ids m t = flat_map (fun e => match aids_g t e with Some b => [b] | None => [] end) m.
Proof. unfold am_ids. apply flat_map_ext. intro e. unfold aids_g. destruct (ft_eqb _ _); reflexivity. Qed.
Lemma am_sizes_g m t : am_sizes m t = flat_map (fun e => match asizes_g t e with Some b => [b] | None => [] end) m.
Proof. unfold am_sizes. apply flat_map_ext. intro e. unfold asizes_g. destruct (ft_eqb _ _); reflexivity. Qed.

(* a parsed entry of a related file system is the canonical path of its id *)
Lemma R_entry_canonical f m t p i : R f m -> t <> Config -> In p (map fst f) -> entry_id t p = Some i ->
  wf_id i /\ p = lb_path t i.
Proof.
  intros HR Ht Hp He. destruct (R_stray _ _ HR p Hp) as [(t' & i' & Hi' & ->)|N].
  - rewrite entry_id_canonical in He by assumption.
    destruct (ft_eqb t' t) eqn:X; [|discriminate]. apply ft_eqb_iff in X. inv He. auto.
  - exfalso. apply N. exists t. split; [assumption | congruence].
Qed.

Lemma in_keys {K V} (f : list (K * V)) k : In k (map fst f) <-> exists v, In (k, v) f.
Proof.
  rewrite in_map_iff. split; [intros ([q v] & E & H); simpl in E; subst; eauto | intros (v & H); exists (k, v); auto].
Qed.

Lemma ids_perm f m t : R f m -> t <> Config -> Permutation (walk_ids t f) (am_ids m t).
Proof.
  intros HR Ht. pose proof HR as [A B C D E F].
  apply NoDup_Permutation.
  - rewrite walk_ids_g. apply NoDup_flat_map_opt; [apply NoDup_fst_entries; assumption|].
    intros e e' i He He' G G'. unfold ids_g in *.
    apply (R_entry_canonical f m t) in G; try assumption; [|apply in_map; assumption].
    apply (R_entry_canonical f m t) in G'; try assumption; [|apply in_map; assumption].
    apply (same_key_same_entry f); try assumption. destruct G as [_ ->], G' as [_ ->]. reflexivity.
  - rewrite am_ids_g. apply NoDup_flat_map_opt; [apply NoDup_fst_entries; assumption|].
    intros e e' i He He' G G'. unfold aids_g in *.
    destruct (ft_eqb (fst (fst e)) t) eqn:X; [|discriminate]. destruct (ft_eqb (fst (fst e')) t) eqn:X'; [|discriminate].
    apply ft_eqb_iff in X, X'. inv G. inv G'.
    apply (same_key_same_entry m); try assumption. destruct e as [[a b] c], e' as [[a' b'] c']. simpl in *. congruence.
  - intro i. rewrite walk_ids_g, am_ids_g, !in_flat_map_opt. split.
    + intros ([p b] & He & G). unfold ids_g in G. simpl in G.
      assert (Hp : In p (map fst f)) by (apply in_keys; eauto).
      destruct (R_entry_canonical f m t p i HR Ht Hp G) as [Hi ->].
      assert (X : fs_get f (lb_path t i) = Some b) by (apply al_in_get; [apply PE | assumption | assumption]).
      rewrite B, norm_nonconfig in X by assumption.
      exists ((t, i), b). split; [apply (al_get_some_in _ KE); assumption|].
      unfold aids_g. simpl. rewrite ft_eqb_refl. reflexivity.
    + intros ([[t' i'] b] & He & G). unfold aids_g in G. simpl in G.
      destruct (ft_eqb t' t) eqn:X; [|discriminate]. apply ft_eqb_iff in X. inv G.
      destruct (E (t, i)) as (t' & i' & Hi' & Y); [apply in_keys; eauto|].
      symmetry in Y. apply norm_fst_nonconfig in Y; [|assumption]. destruct Y; subst.
      assert (X : am_get m (norm t i) = Some b) by (rewrite norm_nonconfig by assumption; apply al_in_get; [apply KE | assumption | assumption]).
      rewrite <- B in X by assumption.
      exists (lb_path t i, b). split; [apply (al_get_some_in _ PE); assumption|].
      unfold ids_g. simpl. rewrite entry_id_canonical, ft_eqb_refl by assumption. reflexivity.
Qed.

Lemma u32_small b : N.of_nat (length b) < 2 ^ 32 -> u32_of_len b = Some (N.of_nat (length b)).
Proof. intro H. unfold u32_of_len. rewrite lenN_length. destruct (N.ltb_spec (N.of_nat (length b)) (2 ^ 32)); [reflexivity | lia]. Qed.
Lemma u32_some b n : u32_of_len b = Some n -> n = N.of_nat (length b).
Proof. unfold u32_of_len. rewrite lenN_length. destruct (_ <? _); intro H; inv H. reflexivity. Qed.

Lemma sizes_perm f m t : R f m -> t <> Config -> Permutation (walk_sizes t f) (am_sizes m t).
Proof.
  intros HR Ht. pose proof HR as [A B C D E F].
  apply NoDup_Permutation.
  - rewrite walk_sizes_g. apply NoDup_flat_map_opt; [apply NoDup_fst_entries; assumption|].
    intros e e' [i n] He He' G G'. unfold sizes_g in *.
    destruct (entry_id t (fst e)) as [j|] eqn:X; [|discriminate]. destruct (u32_of_len (snd e)); inv G.
    destruct (entry_id t (fst e')) as [j'|] eqn:X'; [|discriminate]. destruct (u32_of_len (snd e')); inv G'.
    apply (R_entry_canonical f m t) in X; try assumption; [|apply in_map; assumption].
    apply (R_entry_canonical f m t) in X'; try assumption; [|apply in_map; assumption].
    apply (same_key_same_entry f); try assumption. destruct X as [_ ->], X' as [_ ->]. reflexivity.
  - rewrite am_sizes_g. apply NoDup_flat_map_opt; [apply NoDup_fst_entries; assumption|].
    intros e e' i He He' G G'. unfold asizes_g in *.
    destruct (ft_eqb (fst (fst e)) t) eqn:X; [|discriminate]. destruct (ft_eqb (fst (fst e')) t) eqn:X'; [|discriminate].
    apply ft_eqb_iff in X, X'. inv G. inv G'.
    apply (same_key_same_entry m); try assumption. destruct e as [[a b] c], e' as [[a' b'] c']. simpl in *. congruence.
  - intros [i n]. rewrite walk_sizes_g, am_sizes_g, !in_flat_map_opt. split.
    + intros ([p b] & He & G). unfold sizes_g in G. simpl in G.
      destruct (entry_id t p) as [j|] eqn:G1; [|discriminate].
      destruct (u32_of_len b) as [k|] eqn:G2; [|discriminate]. inv G. apply u32_some in G2. subst n.
      assert (Hp : In p (map fst f)) by (apply in_keys; eauto).
      destruct (R_entry_canonical f m t p i HR Ht Hp G1) as [Hi ->].
      assert (X : fs_get f (lb_path t i) = Some b) by (apply al_in_get; [apply PE | assumption | assumption]).
      rewrite B, norm_nonconfig in X by assumption.
      exists ((t, i), b). split; [apply (al_get_some_in _ KE); assumption|].
      unfold asizes_g. simpl. rewrite ft_eqb_refl. reflexivity.
    + intros ([[t' i'] b] & He & G). unfold asizes_g in G. simpl in G.
      destruct (ft_eqb t' t) eqn:X; [|discriminate]. apply ft_eqb_iff in X. inv G.
      destruct (E (t, i)) as (t' & i' & Hi' & Y); [apply in_keys; eauto|].
      symmetry in Y. apply norm_fst_nonconfig in Y; [|assumption]. destruct Y; subst.
      assert (X : am_get m (norm t i) = Some b) by (rewrite norm_nonconfig by assumption; apply al_in_get; [apply KE | assumption | assumption]).
      rewrite <- B in X by assumption.
      exists (lb_path t i, b). split; [apply (al_get_some_in _ PE); assumption|].
      unfold sizes_g. simpl. rewrite entry_id_canonical, ft_eqb_refl by assumption.
      rewrite u32_small by (eapply F; eassumption). reflexivity.
Qed.
