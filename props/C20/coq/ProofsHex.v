(* C20 — lemmas about lists counted in N, boolean equalities and the hex codec. *)
From Verif.Base Require Import Tactics.
From Verif.C20 Require Import ModelBase Extracted Model Spec.
Local Open Scope N_scope.

(* ---------- generic ---------- *)
Lemma list_eqb_iff {A} (eqb : A -> A -> bool) :
  (forall x y, eqb x y = true <-> x = y) ->
  forall a b, list_eqb eqb a b = true <-> a = b.
Proof.
  intros H a. induction a as [|x a IH]; intros [|y b]; simpl; split; intro E; try reflexivity; try discriminate.
  - apply andb_true_iff in E. destruct E as [E1 E2]. apply H in E1. apply IH in E2. congruence.
  - inv E. apply andb_true_iff. split; [apply H; reflexivity | apply IH; reflexivity].
Qed.

Lemma name_eqb_iff a b : name_eqb a b = true <-> a = b.
Proof. apply list_eqb_iff. intros; apply N.eqb_eq. Qed.
Lemma path_eqb_iff a b : path_eqb a b = true <-> a = b.
Proof. apply list_eqb_iff. apply name_eqb_iff. Qed.
Lemma id_eqb_iff a b : id_eqb a b = true <-> a = b.
Proof. apply list_eqb_iff. intros; apply N.eqb_eq. Qed.
Lemma ft_eqb_iff a b : ft_eqb a b = true <-> a = b.
Proof. destruct a, b; simpl; split; intro; try reflexivity; discriminate. Qed.
Lemma key_eqb_iff a b : key_eqb a b = true <-> a = b.
Proof.
  destruct a as [t i], b as [t' i']. unfold key_eqb; simpl. rewrite andb_true_iff, ft_eqb_iff, id_eqb_iff.
  split; [intros [-> ->]; reflexivity | intro E; inv E; auto].
Qed.
Lemma path_eqb_refl p : path_eqb p p = true.
Proof. apply path_eqb_iff; reflexivity. Qed.
Lemma path_eqb_neq p q : p <> q -> path_eqb p q = false.
Proof. intro H. destruct (path_eqb p q) eqn:E; [apply path_eqb_iff in E; contradiction | reflexivity]. Qed.
Lemma name_eqb_refl p : name_eqb p p = true.
Proof. apply name_eqb_iff; reflexivity. Qed.

Lemma lenN_length {A} (l : list A) : lenN l = N.of_nat (length l).
Proof. induction l; simpl; [reflexivity | rewrite IHl; lia]. Qed.

Lemma takeN_firstn {A} (l : list A) : forall n, takeN n l = firstn (N.to_nat n) l.
Proof.
  induction l as [|x l IH]; intro n; simpl.
  - destruct (N.to_nat n); reflexivity.
  - destruct (N.eqb_spec n 0) as [->|Hn]; [reflexivity|].
    replace (N.to_nat n) with (S (N.to_nat (N.pred n))) by lia. simpl. rewrite IH. reflexivity.
Qed.
Lemma dropN_skipn {A} (l : list A) : forall n, dropN n l = skipn (N.to_nat n) l.
Proof.
  induction l as [|x l IH]; intro n; simpl.
  - destruct (N.to_nat n); reflexivity.
  - destruct (N.eqb_spec n 0) as [->|Hn]; [reflexivity|].
    replace (N.to_nat n) with (S (N.to_nat (N.pred n))) by lia. simpl. rewrite IH. reflexivity.
Qed.

(* ---------- hex ---------- *)
Lemma hex_val_digit n : n < 16 -> hex_val (hex_digit n) = Some n.
Proof.
  intro H. unfold hex_digit, hex_val.
  destruct (N.ltb_spec n 10).
  - replace ((48 <=? 48 + n) && (48 + n <=? 57)) with true by lia. f_equal; lia.
  - replace ((48 <=? 87 + n) && (87 + n <=? 57)) with false by lia.
    replace ((97 <=? 87 + n) && (87 + n <=? 102)) with true by lia. f_equal; lia.
Qed.

Lemma hex_val_some c v : hex_val c = Some v -> hexchar c /\ v < 16.
Proof.
  unfold hex_val, hexchar. intro H.
  destruct ((48 <=? c) && (c <=? 57)) eqn:E1; [inv H; lia|].
  destruct ((97 <=? c) && (c <=? 102)) eqn:E2; [inv H; lia|].
  destruct ((65 <=? c) && (c <=? 70)) eqn:E3; [inv H; lia|]. discriminate.
Qed.
Lemma hex_val_hexchar c : hexchar c -> exists v, hex_val c = Some v.
Proof.
  unfold hex_val, hexchar. intro H.
  destruct ((48 <=? c) && (c <=? 57)) eqn:E1; [eauto|].
  destruct ((97 <=? c) && (c <=? 102)) eqn:E2; [eauto|].
  destruct ((65 <=? c) && (c <=? 70)) eqn:E3; [eauto|]. lia.
Qed.

Lemma hex_decode_encode b : Forall (fun x => x < 256) b -> hex_decode (hex_encode b) = Some b.
Proof.
  induction 1 as [|x b Hx Hb IH]; [reflexivity|].
  unfold hex_encode in *. cbn [flat_map app hex_decode].
  rewrite !hex_val_digit by lia. rewrite IH. f_equal. f_equal. lia.
Qed.

Lemma length_hex_encode b : length (hex_encode b) = (2 * length b)%nat.
Proof. induction b; simpl; [reflexivity|]. unfold hex_encode in *. simpl. rewrite IHb. lia. Qed.

(* induction two elements at a time *)
Lemma list_ind2 {A} (P : list A -> Prop) :
  P [] -> (forall x, P [x]) -> (forall x y l, P l -> P (x :: y :: l)) -> forall l, P l.
Proof.
  intros H0 H1 H2. fix IH 1. intros [|x [|y l]]; [apply H0 | apply H1 | apply H2; apply IH].
Qed.

Lemma hex_decode_some s : forall b, hex_decode s = Some b ->
  length s = (2 * length b)%nat /\ Forall hexchar s /\ Forall (fun x => x < 256) b.
Proof.
  induction s as [| x | x y s IH] using list_ind2; intros b H.
  - inv H. simpl; auto.
  - discriminate.
  - cbn [hex_decode] in H.
    destruct (hex_val x) as [a|] eqn:Ea; [|discriminate].
    destruct (hex_val y) as [c|] eqn:Ec; [|discriminate].
    destruct (hex_decode s) as [t|] eqn:Et; [|discriminate]. inv H.
    destruct (IH t eq_refl) as (L & F1 & F2).
    apply hex_val_some in Ea, Ec. simpl. repeat split.
    + lia.
    + constructor; [tauto|]. constructor; tauto.
    + constructor; [lia | assumption].
Qed.

Lemma hex_decode_hexchars s : Forall hexchar s -> Nat.even (length s) = true -> exists b, hex_decode s = Some b.
Proof.
  induction s as [| x | x y s IH] using list_ind2; intros F E.
  - eexists; reflexivity.
  - discriminate.
  - inv F. inv H2. cbn [hex_decode].
    destruct (hex_val_hexchar x H1) as [a ->]. destruct (hex_val_hexchar y H3) as [c ->].
    destruct (IH H4 E) as [t ->]. eauto.
Qed.

Lemma id_len_32 : id_len = 32. Proof. reflexivity. Qed.

Lemma parse_id_some s i : parse_id s = Some i -> is_hex64 s /\ wf_id i.
Proof.
  unfold parse_id. rewrite lenN_length.
  destruct (N.eqb_spec (N.of_nat (length s) mod 2) 0) as [E1|]; [|discriminate]. cbn [negb].
  destruct (N.eqb_spec (N.of_nat (length s) / 2) id_len) as [E2|]; [|discriminate]. cbn [negb].
  intro H. apply hex_decode_some in H. destruct H as (L & F1 & F2).
  rewrite id_len_32 in *. unfold is_hex64, wf_id. rewrite id_len_32. repeat split; try assumption; lia.
Qed.

Lemma parse_id_hex64 s : is_hex64 s -> exists i, parse_id s = Some i.
Proof.
  intros [L F]. unfold parse_id. rewrite lenN_length, L. change (N.of_nat 64) with 64.
  change (64 mod 2 =? 0) with true. change (64 / 2 =? id_len) with true. cbn [negb].
  apply hex_decode_hexchars; [assumption | rewrite L; reflexivity].
Qed.

Lemma parse_id_to_hex i : wf_id i -> parse_id (to_hex i) = Some i.
Proof.
  intros [L F]. unfold parse_id, to_hex. rewrite lenN_length, length_hex_encode, L.
  rewrite id_len_32. change (N.of_nat (2 * N.to_nat 32)) with 64.
  change (64 mod 2 =? 0) with true. change (64 / 2 =? 32) with true. cbn [negb].
  apply hex_decode_encode; assumption.
Qed.

Lemma to_hex_inj i j : wf_id i -> wf_id j -> to_hex i = to_hex j -> i = j.
Proof.
  intros Hi Hj E. apply parse_id_to_hex in Hi, Hj. rewrite E in Hi. congruence.
Qed.

Lemma length_to_hex i : wf_id i -> length (to_hex i) = 64%nat.
Proof. intros [L _]. unfold to_hex. rewrite length_hex_encode, L. reflexivity. Qed.

Lemma wf_idb_iff i : wf_idb i = true <-> wf_id i.
Proof.
  unfold wf_idb, wf_id. rewrite andb_true_iff, lenN_length, N.eqb_eq, forallb_forall, Forall_forall.
  split; intros [A B]; split; try lia; intros x Hx; specialize (B x Hx); lia.
Qed.

Lemma wf_zero_id : wf_id zero_id.
Proof. apply wf_idb_iff. reflexivity. Qed.
