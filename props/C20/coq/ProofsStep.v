(* C20 — every operation and every micro-step of a write preserves the refinement. *)
From Verif.Base Require Import Tactics.
From Verif.C20 Require Import ModelBase Extracted Model Spec ProofsHex ProofsPath ProofsAssoc ProofsRefine.
Local Open Scope N_scope.

Lemma am_ids_in m t i : In i (am_ids m t) <-> exists b, In ((t, i), b) m.
Proof.
  rewrite am_ids_g, in_flat_map_opt. split.
  - intros ([[t' i'] b] & He & G). unfold aids_g in G. simpl in G.
    destruct (ft_eqb t' t) eqn:X; [|discriminate]. apply ft_eqb_iff in X. inv G. eauto.
  - intros (b & H). exists ((t, i), b). split; [assumption|]. unfold aids_g. simpl. rewrite ft_eqb_refl. reflexivity.
Qed.
Lemma am_sizes_in m t i n : In (i, n) (am_sizes m t) <-> exists b, In ((t, i), b) m /\ n = N.of_nat (length b).
Proof.
  rewrite am_sizes_g, in_flat_map_opt. split.
  - intros ([[t' i'] b] & He & G). unfold asizes_g in G. simpl in G.
    destruct (ft_eqb t' t) eqn:X; [|discriminate]. apply ft_eqb_iff in X. inv G. eauto.
  - intros (b & H & ->). exists ((t, i), b). split; [assumption|]. unfold asizes_g. simpl. rewrite ft_eqb_refl. reflexivity.
Qed.
Lemma am_ids_nodup m t : NoDup (map fst m) -> NoDup (am_ids m t).
Proof.
  intro D. rewrite am_ids_g. apply NoDup_flat_map_opt; [apply NoDup_fst_entries; assumption|].
  intros e e' i He He' G G'. unfold aids_g in *.
  destruct (ft_eqb (fst (fst e)) t) eqn:X; [|discriminate]. destruct (ft_eqb (fst (fst e')) t) eqn:X'; [|discriminate].
  apply ft_eqb_iff in X, X'. inv G. inv G'.
  apply (same_key_same_entry m); try assumption. destruct e as [[a b] c], e' as [[a' b'] c']. simpl in *. congruence.
Qed.
Lemma am_sizes_nodup m t : NoDup (map fst m) -> NoDup (am_sizes m t).
Proof.
  intro D. rewrite am_sizes_g. apply NoDup_flat_map_opt; [apply NoDup_fst_entries; assumption|].
  intros e e' i He He' G G'. unfold asizes_g in *.
  destruct (ft_eqb (fst (fst e)) t) eqn:X; [|discriminate]. destruct (ft_eqb (fst (fst e')) t) eqn:X'; [|discriminate].
  apply ft_eqb_iff in X, X'. inv G. inv G'.
  apply (same_key_same_entry m); try assumption. destruct e as [[a b] c], e' as [[a' b'] c']. simpl in *. congruence.
Qed.

Lemma am_key_config f m i : R f m -> In (Config, i) (map fst m) -> i = zero_id.
Proof.
  intros HR H. destruct (R_mkeys _ _ HR _ H) as (t' & i' & _ & Y). destruct t'; simpl in Y; inv Y; reflexivity.
Qed.

Lemma config_get f m : R f m -> fs_get f (lb_path Config zero_id) = am_get m (Config, zero_id).
Proof. intro HR. apply (R_get _ _ HR Config zero_id wf_zero_id). Qed.

Lemma config_ids f m : R f m -> Permutation (lb_list f Config) (am_ids m Config).
Proof.
  intro HR. unfold lb_list. change [lb_list_config_name] with (lb_path Config zero_id). rewrite (config_get f m HR).
  apply NoDup_Permutation.
  - destruct (am_get m (Config, zero_id)); repeat constructor. simpl; tauto.
  - apply am_ids_nodup. apply (R_mnodup _ _ HR).
  - intro i. rewrite am_ids_in. destruct (am_get m (Config, zero_id)) as [b|] eqn:G; split.
    + intros [<-|[]]. exists b. apply (al_get_some_in _ KE). assumption.
    + intros (b' & H). left. symmetry. apply (am_key_config f m); [assumption | apply in_keys; eauto].
    + intros [].
    + intros (b' & H). assert (i = zero_id) by (apply (am_key_config f m); [assumption | apply in_keys; eauto]). subst.
      apply (al_in_get _ KE) in H; [|apply (R_mnodup _ _ HR)]. unfold am_get in G. congruence.
Qed.

Lemma config_sizes f m : R f m -> Permutation (lb_list_with_size f Config) (am_sizes m Config).
Proof.
  intro HR. unfold lb_list_with_size. change [dirname Config] with (lb_path Config zero_id). rewrite (config_get f m HR).
  apply NoDup_Permutation.
  - destruct (am_get m (Config, zero_id)); repeat constructor. simpl; tauto.
  - apply am_sizes_nodup. apply (R_mnodup _ _ HR).
  - intros [i n]. rewrite am_sizes_in. destruct (am_get m (Config, zero_id)) as [b|] eqn:G; split.
    + intros [X|[]]. inv X. exists b. pose proof (al_get_some_in _ KE _ _ _ G) as Hin. split; [assumption|].
      rewrite u32_small; [reflexivity | apply (R_small _ _ HR _ _ Hin)].
    + intros (b' & H & ->). assert (i = zero_id) by (apply (am_key_config f m); [assumption | apply in_keys; eauto]). subst.
      pose proof H as H'. apply (al_in_get _ KE) in H; [|apply (R_mnodup _ _ HR)]. unfold am_get in G. rewrite G in H. inv H.
      left. rewrite u32_small; [reflexivity | apply (R_small _ _ HR _ _ H')].
    + intros [].
    + intros (b' & H & _). assert (i = zero_id) by (apply (am_key_config f m); [assumption | apply in_keys; eauto]). subst.
      apply (al_in_get _ KE) in H; [|apply (R_mnodup _ _ HR)]. unfold am_get in G. congruence.
Qed.

Lemma list_perm f m t : R f m -> Permutation (lb_list f t) (am_ids m t).
Proof. intro HR. destruct t; [apply config_ids; assumption | | | |]; apply ids_perm; try assumption; discriminate. Qed.
Lemma sizes_perm_all f m t : R f m -> Permutation (lb_list_with_size f t) (am_sizes m t).
Proof. intro HR. destruct t; [apply config_sizes; assumption | | | |]; apply sizes_perm; try assumption; discriminate. Qed.

Lemma od_list_eq f t : od_list f t = lb_list f t.
Proof. destruct t; reflexivity. Qed.
Lemma od_sizes_eq f t : od_list_with_size f t = lb_list_with_size f t.
Proof. destruct t; reflexivity. Qed.

Lemma step_refines_lemma fl f m o : R f m -> wf_op fl o ->
  R (fst (step fl f o)) (fst (am_step fl m o)) /\ res_equiv (snd (step fl f o)) (snd (am_step fl m o)).
Proof.
  intros HR Hw. destruct fl, o; cbn [step am_step fst snd wf_op] in *.
  - destruct Hw as [Hi Hc]. split; [|reflexivity]. rewrite lb_write_eq.
    apply R_write; try assumption. apply R_del_stray; [assumption | apply tmp_not_canonical; assumption].
  - split; [assumption|]. unfold lb_read_full, am_read. rewrite (R_get _ _ HR) by assumption. reflexivity.
  - destruct Hw as [Hi _]. split; [assumption|]. unfold lb_read_partial, am_partial. rewrite (R_get _ _ HR) by assumption.
    destruct (am_get m (norm t i)); [|reflexivity]. cbv zeta. rewrite slice_range. reflexivity.
  - split; [assumption|]. apply list_perm; assumption.
  - split; [assumption|]. apply sizes_perm_all; assumption.
  - unfold lb_remove, am_remove. rewrite (R_get _ _ HR) by assumption.
    destruct (am_get m (norm t i)); cbn [fst snd]; split; try reflexivity; try assumption.
    apply R_remove; assumption.
  - destruct Hw as [Hi Hc]. split; [|reflexivity]. unfold od_write. rewrite od_path_eq. apply R_write; assumption.
  - split; [assumption|]. unfold od_read_full, am_read. rewrite od_path_eq, (R_get _ _ HR) by assumption. reflexivity.
  - destruct Hw as [Hi _]. split; [assumption|]. unfold od_read_partial, am_partial.
    destruct (2 ^ 32 <=? off + len); [reflexivity|]. destruct (len =? 0); [reflexivity|].
    rewrite od_path_eq, (R_get _ _ HR) by assumption.
    destruct (am_get m (norm t i)); [|reflexivity]. cbv zeta. rewrite slice_range. reflexivity.
  - split; [assumption|]. rewrite od_list_eq. apply list_perm; assumption.
  - split; [assumption|]. rewrite od_sizes_eq. apply sizes_perm_all; assumption.
  - unfold od_remove, am_remove. rewrite od_path_eq. cbn [fst snd].
    destruct (am_get m (norm t i)) eqn:G; cbn [fst snd]; split; try reflexivity.
    + apply R_remove; assumption.
    + unfold fs_del. rewrite al_del_absent; [assumption|]. fold fs_get. rewrite (R_get _ _ HR) by assumption. assumption.
Qed.

Lemma run_refines_lemma fl ops : forall f m, R f m -> Forall (wf_op fl) ops ->
  R (fst (run fl f ops)) (fst (am_run fl m ops)) /\
  Forall2 res_equiv (snd (run fl f ops)) (snd (am_run fl m ops)).
Proof.
  induction ops as [|o ops IH]; intros f m HR Hw; cbn [run am_run].
  - split; [assumption | constructor].
  - inv Hw. pose proof (step_refines_lemma fl f m o HR H1) as [S1 S2].
    destruct (step fl f o) as [f1 x], (am_step fl m o) as [m1 y]. cbn [fst snd] in *.
    specialize (IH f1 m1 S1 H2). destruct (run fl f1 ops) as [f2 xs], (am_run fl m1 ops) as [m2 ys].
    cbn [fst snd] in *. destruct IH. split; [assumption | constructor; assumption].
Qed.

(* ---------- micro-steps of a write ---------- *)
Lemma micro_R f m t i c st : R f m -> wf_id i -> N.of_nat (length c) < 2 ^ 32 ->
  match st with
  | SRenamed => R (micro_state f t i c st) (am_put m (norm t i) c)
  | _ => R (micro_state f t i c st) m
  end.
Proof.
  intros HR Hi Hc. pose proof (tmp_not_canonical t i Hi) as N1. pose proof (tmp_not_listable t i Hi) as N2.
  destruct st; unfold micro_state; try (apply R_put_stray; assumption).
  - fold (micro_state f t i c SRenamed). fold (lb_write f t i c). rewrite lb_write_eq.
    apply R_write; try assumption. apply R_del_stray; assumption.
  - apply R_del_stray; [|assumption]. apply R_put_stray; assumption.
Qed.

Lemma publish_atomic_lemma f m t i c st : R f m -> wf_id i -> N.of_nat (length c) < 2 ^ 32 ->
  let f' := micro_state f t i c st in
  let m' := am_put m (norm t i) c in
  (R f' m /\ forall o, wf_op Local o -> res_equiv (snd (step Local f' o)) (snd (am_step Local m o))) \/
  (st = SRenamed /\ R f' m' /\ forall o, wf_op Local o -> res_equiv (snd (step Local f' o)) (snd (am_step Local m' o))).
Proof.
  intros HR Hi Hc f' m'. pose proof (micro_R f m t i c st HR Hi Hc) as H.
  destruct st; [left | left | left | left | right; split; [reflexivity|] | left];
    (split; [exact H | intros o Ho; apply step_refines_lemma; [exact H | exact Ho]]).
Qed.

Lemma foreign_ignored_lemma t p :
  entry_id t p <> None <-> under (dirname t) p = true /\ is_hex64 (last_name p).
Proof.
  unfold entry_id. destruct (under (dirname t) p); split.
  - intro H. split; [reflexivity|]. destruct (parse_id (last_name p)) eqn:E; [|congruence]. apply parse_id_some in E. tauto.
  - intros [_ H]. apply parse_id_hex64 in H. destruct H as [i ->]. discriminate.
  - congruence.
  - intros [H _]. discriminate.
Qed.

Lemma R_empty : R [] [].
Proof. constructor; simpl; try constructor; intros; try contradiction; reflexivity. Qed.

Lemma write_order_lemma :
  filter (fun s => negb (is_hook s)) lb_write_order = modelled_write_order /\
  (lb_write_order = modelled_write_order \/
   lb_write_order = [WMkdir; WOpenTrunc; WSetLen; WCopy; WSync; WHook; WRename]).
Proof. split; [reflexivity | first [left; reflexivity | right; reflexivity]]. Qed.

(* ---------- every interleaving point of a write ---------- *)
Lemma listing_stable_lemma f m t i c st : R f m -> wf_id i -> N.of_nat (length c) < 2 ^ 32 ->
  st <> SRenamed -> forall t',
  Permutation (lb_list (micro_state f t i c st) t') (lb_list f t') /\
  Permutation (lb_list_with_size (micro_state f t i c st) t') (lb_list_with_size f t').
Proof.
  intros HR Hi Hc Hs t'. pose proof (micro_R f m t i c st HR Hi Hc) as H.
  destruct st; try congruence;
    (split; [eapply perm_trans; [apply list_perm; exact H | apply Permutation_sym, list_perm; assumption]
            | eapply perm_trans; [apply sizes_perm_all; exact H | apply Permutation_sym, sizes_perm_all; assumption]]).
Qed.

(* ---------- ranged reads, explicitly ---------- *)
Lemma ranged_read_lemma b off len :
  (off + len <= N.of_nat (length b) ->
     range_of b off len = Ok (firstn (N.to_nat len) (skipn (N.to_nat off) b)) /\
     length (firstn (N.to_nat len) (skipn (N.to_nat off) b)) = N.to_nat len) /\
  (N.of_nat (length b) < off + len -> 0 < len -> range_of b off len = Err) /\
  (forall s, range_of b off len = Ok s -> length s = N.to_nat len).
Proof.
  unfold range_of. repeat split.
  - destruct (N.leb_spec (off + len) (N.of_nat (length b))); [reflexivity | lia].
  - rewrite firstn_length, skipn_length. lia.
  - intros H1 H2. destruct (N.leb_spec (off + len) (N.of_nat (length b))); [lia|].
    destruct (N.eqb_spec len 0); [lia | reflexivity].
  - intros s. destruct (N.leb_spec (off + len) (N.of_nat (length b))).
    + intro E. inv E. rewrite firstn_length, skipn_length. lia.
    + destruct (N.eqb_spec len 0) as [->|]; intro E; inv E. reflexivity.
Qed.

Lemma od_calls_lemma : forall f, od_calls f = modelled_od_calls f.
Proof. intro f. destruct f; reflexivity. Qed.
Lemma od_layers_lemma : forallb passthrough od_layers = true.
Proof. reflexivity. Qed.
Lemma lb_calls_lemma : forall f, lb_calls f = modelled_lb_calls f.
Proof. intro f. destruct f; reflexivity. Qed.
