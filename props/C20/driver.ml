(* prelude: zn *)
(* C20 driver: same case lines as harness/src/bin/c20.rs (format documented there).
   Prints  <results of the extracted backend model> ## <results of the extracted map spec>.
   Parsing, deterministic content expansion and digests only; every decision is made by
   extracted code (step, am_step, micro_state, parse_id, to_hex). *)
let ntab = Array.init 256 n_of_int
let content seed len =
  let s = seed land 0xFFFF in
  let byte k = if s = 0 then 0 else ((((k mod 65521) * (2 * s + 1) + s * 7 + (k / 65521) * 131) lsr 3) land 255) in
  let rec go k acc = if k < 0 then acc else go (k - 1) (ntab.(byte k) :: acc) in
  go (len - 1) []

let digest (b : n list) =
  let h1 = ref 7 and h2 = ref 11 and n = ref 0 in
  List.iter (fun x -> let x = int_of_n x in incr n;
    h1 := (!h1 * 257 + x + 1) mod 2147483629; h2 := (!h2 * 263 + x + 1) mod 2147483587) b;
  Printf.sprintf "ok:%d:%d:%d" !n !h1 !h2

let name_of_string s = List.init (String.length s) (fun i -> ntab.(Char.code s.[i]))
let string_of_name (nm : n list) = String.concat "" (List.map (fun c -> String.make 1 (Char.chr (int_of_n c land 255))) nm)
let id_of_hex s = match parse_id (name_of_string s) with Some i -> i | None -> failwith ("bad id " ^ s)
let hex_of_id i = string_of_name (to_hex i)
let types = [| Config; Index; Key; Snapshot; Pack |]

let show = function
  | RUnit (Ok _) -> "ok" | RUnit Err -> "err" | RUnit Panic -> "panic"
  | RBytes (Ok b) -> digest b | RBytes Err -> "err" | RBytes Panic -> "panic"
  | RIds l -> "ok:" ^ String.concat "," (List.sort compare (List.map hex_of_id l))
  | RSizes l -> "ok:" ^ String.concat "," (List.sort compare (List.map (fun (i, n) -> Printf.sprintf "%s=%d" (hex_of_id i) (int_of_n n)) l))

(* everything a second handle can see: both listings of every type and the target file *)
let observe stepf st t i =
  let parts = ref [] in
  Array.iter (fun ty ->
    parts := show (snd (stepf st (OList ty))) :: !parts;
    parts := show (snd (stepf st (OSizes ty))) :: !parts) types;
  parts := show (snd (stepf st (ORead (t, i)))) :: !parts;
  String.concat "/" (List.rev !parts)

let run_case line =
  let t = toks line in
  let be = ni t in
  let _create = ni t in
  let fl = if be = 0 then Local else OpenDAL in
  let f = ref [] and m = ref [] in
  let nstray = ni t in
  for _ = 1 to nstray do
    let rel = next t in let len = ni t in let seed = ni t in
    if be <> 2 then
      f := fs_put !f (List.map name_of_string (String.split_on_char '/' rel)) (content seed len)
  done;
  let nops = ni t in
  let mo = ref [] and so = ref [] in
  for _ = 1 to nops do
    let op = next t in
    let ty = types.(ni t) in
    let plain o =
      let (f', r) = step fl !f o in let (m', r') = am_step fl !m o in
      f := f'; m := m'; mo := show r :: !mo; so := show r' :: !so in
    (match op with
     | "L" -> plain (OList ty)
     | "S" -> plain (OSizes ty)
     | "R" -> let i = id_of_hex (next t) in plain (ORead (ty, i))
     | "P" -> let i = id_of_hex (next t) in let off = ni t in let len = ni t in
       plain (OPartial (ty, i, n_of_int off, n_of_int len))
     | "D" -> let i = id_of_hex (next t) in plain (ORemove (ty, i))
     | "W" | "H" | "C" ->
       let i = id_of_hex (next t) in let len = ni t in let seed = ni t in let _nch = ni t in
       let c = content seed len in
       if op = "W" || be <> 0 then plain (OWrite (ty, i, c))
       else begin
         (* the pre-publish point: temp file complete and synced, not renamed *)
         let fpre = micro_state !f ty i c SSynced in
         let tmplen = match (let rec get = function [] -> None | (q, b) :: r -> if q = lb_tmp_path ty i then Some b else get r in get fpre) with
           | Some b -> string_of_int (List.length b) | None -> "none" in
         let obs = observe (step Local) fpre ty i in
         let (m', _) = am_step fl !m (OWrite (ty, i, c)) in
         let old_obs = observe (am_step Local) !m ty i and new_obs = observe (am_step Local) m' ty i in
         if op = "H" then begin
           let (f', r) = step fl !f (OWrite (ty, i, c)) in
           f := f'; mo := (Printf.sprintf "H[%s/tmp=%s]%s" obs tmplen (show r)) :: !mo;
           so := (Printf.sprintf "H[%s]~[%s]ok" old_obs new_obs) :: !so; m := m'
         end else begin
           f := fpre; mo := (Printf.sprintf "H[%s/tmp=%s]crash" obs tmplen) :: !mo;
           so := (Printf.sprintf "H[%s]~[%s]crash" old_obs new_obs) :: !so
         end
       end
     | _ -> failwith ("bad op " ^ op))
  done;
  String.concat " | " (List.rev !mo) ^ " ## " ^ String.concat " | " (List.rev !so)

let facts () =
  let nm = function WMkdir -> "WMkdir" | WOpenTrunc -> "WOpenTrunc" | WSetLen -> "WSetLen" | WCopy -> "WCopy"
    | WSync -> "WSync" | WHook -> "WHook" | WRename -> "WRename" in
  String.concat "," (List.map nm lb_write_order)

let () =
  if Array.length Sys.argv > 2 && Sys.argv.(2) = "facts" then print_endline (facts ())
  else main_loop run_case
