"""C20 — local storage backends are exact maps and publish files atomically.
Stages: regenerate Extracted.v from backend.rs/id.rs/local.rs/opendal.rs; build + audit the
Coq theorems; correspondence of the extracted backend model with the real LocalBackend and
OpenDALBackend (fs, memory) on generated operation sequences with stray files, a listing at
the pre-publish hook and a simulated crash there; oracle = the extracted map specification."""
import os, sys, json
import vlib
from vlib import ROOT, REPO, log

TYPES = ["Config", "Index", "Key", "Snapshot", "Pack"]
DIRS = {1: "index", 2: "keys", 3: "snapshots", 4: "data"}
U32 = 2 ** 32


def hexid(rng, pool):
    r = rng.random()
    if r < 0.08: return "00" * 32
    if r < 0.14: return "ff" * 32
    if r < 0.22 and pool:                      # same data sub-directory as an existing id
        return pool[rng.randrange(len(pool))][:2] + "".join(rng.choice("0123456789abcdef") for _ in range(62))
    if r < 0.30 and pool:                      # differs in the last nibble only
        b = pool[rng.randrange(len(pool))]
        return b[:63] + rng.choice("0123456789abcdef")
    if r < 0.36: return "".join(rng.choice("abcdef") for _ in range(64))
    return "".join(rng.choice("0123456789abcdef") for _ in range(64))


def size_class(rng, thorough):
    r = rng.random()
    if r < 0.10: return 0
    if r < 0.18: return 1
    if r < 0.50: return rng.randint(2, 300)
    if r < 0.70: return rng.choice([4095, 4096, 4097, 8191, 8192, 8193, rng.randint(1000, 20000)])
    if r < 0.90: return rng.choice([65535, 65536, 65537, 131072 + rng.randint(-2, 2), rng.randint(20000, 200000)])
    if r < 0.97: return rng.randint(200000, 600000) if thorough else rng.randint(20000, 100000)
    if thorough and r < 0.985: return rng.choice([4 * 1048576, 3 * 1048576 + rng.randint(1, 999)])
    return rng.choice([1048576, 1048575, 1048577, 1048576 + rng.randint(2, 5000)])


def stray(rng, pool, listable):
    hx = rng.choice(pool)
    if listable:
        k = rng.randint(0, 3)
        fresh = "".join(rng.choice("0123456789ABCDEF") for _ in range(64))
        t = rng.choice([1, 2, 3])
        if k == 0: return "%s/%s" % (DIRS[t], fresh)                      # upper-case hex name
        if k == 1: return "%s/sub/%s" % (DIRS[t], fresh.lower())          # nested below the type directory
        if k == 2: return "data/%s" % fresh.lower()                       # pack outside its two-digit directory
        return "data/zz/%s" % fresh.lower()
    t = rng.choice([1, 2, 3, 4])
    d = rng.choice(["", DIRS[t], DIRS[t], DIRS[t] + "/sub", "data/" + hx[:2], "data/" + hx[:2], "locks", "other/deep/er"])
    k = rng.randint(0, 11)
    nm = [hx + "-tmp-", hx[:63], hx + "0", hx[:rng.randint(0, 63)] + "g" + hx[:63][rng.randint(0, 63):][:0] + hx[rng.randint(1, 63):][:0],
          "README.md", ".lock", hx + ".tmp", hx[:62], hx + "/x", hx.upper() + "-tmp-", "tmp", "-tmp-"][k]
    if k == 8:   # a DIRECTORY named like an id - of an id that is never written (else it would sit at the file's own path)
        nm = "".join(rng.choice("0123456789abcdef") for _ in range(64)) + "/x"
    if k == 3:
        p = rng.randint(0, 63); nm = hx[:p] + rng.choice("gGzZ-_. xX") .replace(" ", "_") + hx[p + 1:]
    if d == "":
        if k in (8,): nm = "x" + nm       # no id-named directory at the root needed
        if rng.random() < 0.3: nm = "config-tmp-"
        return nm
    return d + "/" + nm


def chunking(rng, ln):
    """chunking code k + 16*pat (harness blist): k evenly split data chunks (non-empty: k <= len),
    e_j in 0..3 EMPTY chunks in front of data chunk j (j = k: behind the last).  Empty chunks at
    every position: leading, between data, several in a row, trailing, all-empty contents."""
    k = min(ln, rng.choice([1, 1, 2, 3, 7])) if ln else rng.choice([0, 1, 2])
    r = rng.random()
    e = [0] * (k + 1)
    if r < 0.45: pass
    elif r < 0.55: e[0] = rng.randint(1, 3)                                  # leading
    elif r < 0.65: e[k] = rng.randint(1, 3)                                  # trailing
    elif r < 0.85 and k >= 2: e[rng.randint(1, k - 1)] = rng.randint(1, 3)   # between data chunks (1..3 in a row)
    else: e = [rng.choice([0, 0, 1, 2, 3]) for _ in range(k + 1)]            # anywhere
    return k + 16 * sum(x * 4 ** j for j, x in enumerate(e))


def chunk_class(code, ln):
    k, pat = code % 16, code // 16
    e = [(pat // 4 ** j) % 4 for j in range(k + 1)]
    if not any(e): return "chunks_no_empty"
    if ln == 0: return "chunks_all_empty"
    if any(e[1:k]): return "chunks_empty_between_data"
    return "chunks_empty_leading_or_trailing"


def gen_case(rng, thorough, be=None, want_listable=False):
    if be is None:
        be = rng.choice([0, 0, 1, 2])
    create = 1 if rng.random() < 0.4 else 0
    pool = []
    for _ in range(rng.randint(3, 8)):
        pool.append(hexid(rng, pool))
    toks = [be, create]
    strays = []
    listable = want_listable and be != 2
    if be != 2 and rng.random() < 0.7 or listable:
        seen = set()
        for _ in range(rng.randint(1, 6)):
            s = stray(rng, pool, listable and rng.random() < 0.6)
            # a stray must not sit where the layout needs a directory or a file of its own
            parts = s.split("/")
            if any("/".join(parts[:k]) in seen for k in range(1, len(parts) + 1)): continue
            if any(x.startswith(s + "/") for x in seen): continue
            seen.add(s)
            strays.append((s, rng.choice([0, 1, 5, 64, 1000]), rng.randint(0, 65535)))
    toks += [len(strays)]
    for s in strays: toks += list(s)
    nops = rng.randint(6, 40 if thorough else 24)
    sizes = {}
    ops = []
    big_budget = (1 if rng.random() < 0.15 else 0) if not thorough else 3
    for _ in range(nops):
        r = rng.random()
        t = rng.choice([0, 1, 2, 3, 3, 4, 4, 4])
        i = rng.choice(pool)
        key = (t, i if t else "")
        if r < 0.30 or (r < 0.45 and not sizes):
            ln = size_class(rng, thorough)
            if ln > 700000:
                if big_budget == 0: ln = rng.randint(0, 5000)
                else: big_budget -= 1
            seed = 0 if rng.random() < 0.1 else rng.randint(1, 65535)
            same_len = False
            if sizes and rng.random() < 0.25:
                # overwrite an existing file with different bytes of exactly the same length
                (t, ii), ln = rng.choice(sorted(sizes.items()))
                i = ii or rng.choice(pool)
                key = (t, ii)
                seed = rng.randint(1, 65535)
                same_len = True
            nch = chunking(rng, ln)
            kind = "W"
            if be == 0:
                q = rng.random()
                kind = "H" if q < 0.15 else "C" if q < 0.25 else "W"
            ops.append([kind, t, i, ln, seed, nch])
            if kind != "C": sizes[key] = ln
            if same_len: ops.append(["R", t, i])
            if kind == "C" and ln > 0 and rng.random() < 0.5:
                # a write cut off before publication leaves its temporary file behind; the next write of the
                # same name - here the boundary case, empty content - must not publish any of it
                ops.append(["W", t, i, 0, 0, chunking(rng, 0)])
                sizes[key] = 0
                ops.append(["R", t, i]); ops.append(["S", t])
        elif r < 0.42:
            ops.append(["R", t, i])
        elif r < 0.70:
            if sizes and rng.random() < 0.85:
                (t, ii), sz = rng.choice(sorted(sizes.items()))
                i = ii or rng.choice(pool)
            else:
                sz = sizes.get(key, 0)
            c = rng.randint(0, 13)
            k = rng.randint(0, sz) if sz else 0
            off, ln = [(0, sz), (0, 0), (sz, 0), (sz + 1, 0), (k, sz - k), (k, sz - k + 1), (max(sz - 1, 0), 1), (sz, 1),
                       (k, rng.randint(0, sz - k)), (k, rng.randint(0, sz - k)), (U32 - 1, 1), (U32 - 1, 0),
                       (U32 - rng.randint(1, 50), rng.randint(1, 50)), (sz + rng.randint(1, 5000), rng.randint(1, 5000))][c]
            ops.append(["P", t, i, off, ln])
        elif r < 0.79:
            ops.append(["L", t])
        elif r < 0.88:
            ops.append(["S", t])
        else:
            if sizes and rng.random() < 0.7:
                (t, ii), _ = rng.choice(sorted(sizes.items()))
                i = ii or rng.choice(pool)
                key = (t, ii)
            ops.append(["D", t, i])
            sizes.pop(key, None)
    toks += [len(ops)]
    for o in ops: toks += o
    return " ".join(str(x) for x in toks), {"be": be, "listable": listable, "ops": ops, "nstray": len(strays)}


def run_lines(exe, lines, tag, timeout=900, unlimited_stack=False):
    path = os.path.join(vlib.BUILD, "C20", "in_%s_%d.txt" % (tag, os.getpid()))
    open(path, "w").write("\n".join(lines) + "\n")
    cmd = "ulimit -s unlimited 2>/dev/null || ulimit -s 1000000; exec '%s' '%s'" % (exe, path) if unlimited_stack else "exec '%s' '%s'" % (exe, path)
    rc, out, err = vlib.sh2(["bash", "-c", cmd], timeout=timeout)
    os.remove(path)
    res = out.splitlines()
    if rc != 0 or len(res) != len(lines):
        raise RuntimeError("%s failed rc=%s (%d of %d lines)\n%s" % (exe, rc, len(res), len(lines), err[-2000:]))
    return res


def hook_parts(s):
    """'H[obs/tmp=n]res' -> (obs, n, res)"""
    body, _, res = s[2:].rpartition("]")
    obs, _, tmp = body.rpartition("/tmp=")
    return obs, tmp, res


def parse_ops(case):
    """re-derive the op list from a case line (for corpus / replay lines)"""
    t = case.split()
    i = 2; ns = int(t[i]); i += 1 + 3 * ns
    n = int(t[i]); i += 1
    ops = []
    for _ in range(n):
        k = t[i]
        w = {"L": 2, "S": 2, "R": 3, "D": 3, "P": 5, "W": 6, "H": 6, "C": 6}[k]
        o = [k, int(t[i + 1])] + t[i + 2:i + w]
        ops.append([o[0], o[1]] + [x if len(str(x)) == 64 else int(x) for x in o[2:]])
        i += w
    return {"be": int(t[0]), "listable": None, "ops": ops, "nstray": ns}


def run(ctx):
    rng = ctx.rng
    cov = ctx.coverage
    meta, err = vlib.regen_extracted("C20")
    r = vlib.proof_stage(ctx)
    if err:
        r["ok"] = False
        r["failures"].append("fact extraction from local.rs/opendal.rs/backend.rs/id.rs failed: " + err)
    ctx.level = "proof"
    cov["trusted_base"] += [
        "opendal layers Retry/Throttle/ConcurrentLimit/Logging pass every request and answer through unchanged (fact about opendal; the list of layers is regenerated and checked by opendal_layers_passthrough)",
        "props/C20/extract.py (directory names, temp suffix, data sub-directory rule, id length, order of the write steps, shapes of list/read/remove in local.rs and opendal.rs)",
        "POSIX file system as a finite map path -> bytes with atomic rename and implicit directories (hypothesis of the model; fsync/durability not modelled)",
        "opendal runtime (fs and memory services), walkdir, std::fs, crate hex: observed through the correspondence, not proved"]
    ctx.assumptions += [
        "file system = finite map from paths to byte strings; rename replaces the destination atomically; create_dir_all never fails; no I/O errors other than 'file not found' (the error clean-up path of write_bytes is modelled as the SAborted stage)",
        "durability: sync_all is a no-op in the model; a crash is the file-system state at a micro-step of write_bytes",
        "stray files: names that do not parse as an id (not exactly 64 hex digits) or that lie outside the type directories; a foreign file whose name is 64 hex digits (any case) below a type directory IS listed by the code (theorem foreign_ignored is an iff) and is excluded by the hypothesis R_stray",
        "contents shorter than 2^32 bytes (list_with_size silently drops larger files); offsets/lengths are u32; the object-store adapter panics in a debug build when off+len >= 2^32 (wf_op excludes nothing here: the model returns Panic and the spec says so)",
        "no stray file or directory sits at or below a path the layout uses for a file (a directory named like a written id at that id's place makes write fail with an error)",
        "single writer: no concurrent write to the same (type, id) (both would use the same temporary name)",
        "case-sensitive file system",
        "OpenDALBackend: only its path function and listing filter are modelled (write = one atomic put, as the memory service does; the fs service writes in place - atomicity of opendal writes is NOT claimed)"]
    try:
        model = vlib.build_model("C20")
    except RuntimeError as e:
        model = None
        if r["ok"]:
            r["ok"] = False; r["failures"].append("extracted model no longer builds: " + str(e)[-500:])
    impl = vlib.build_harness("c20")
    # cases
    ncases = 1200 if ctx.thorough() else 110
    cases = []
    corpus = os.path.join(ctx.pdir, "corpus.txt")
    if os.path.exists(corpus):
        for ln in open(corpus):
            ln = ln.split("#")[0].strip()
            if ln: cases.append((ln, parse_ops(ln)))
    k = 0
    while len(cases) < ncases:
        k += 1
        cases.append(gen_case(rng, ctx.thorough(), want_listable=(k % 12 == 0)))
    if ctx.replay:
        rp = json.load(open(ctx.replay))
        cases = [(rp["witness"]["case"], parse_ops(rp["witness"]["case"]))]
    lines = [c for c, _ in cases]
    # known finding probe: a BytesList whose first chunks are empty and whose last one is not
    probe_hang = []
    for be in (1, 2):
        pl = "%d 0 0 2 W 3 %s 1 5 3 R 3 %s" % (be, "ab" * 32, "ab" * 32)
        pth = os.path.join(vlib.BUILD, "C20", "probe_%d.txt" % os.getpid())
        open(pth, "w").write(pl + "\n")
        rc, out, _ = vlib.sh2([impl, pth], timeout=45)
        os.remove(pth)
        if rc == 124 or out.strip() != "ok | ok:1:1804:2898":
            probe_hang.append((be, pl, "timeout after 45 s" if rc == 124 else out.strip()))
    for be, pl, got in probe_hang:
        ctx.violation("OpenDALBackend::write_bytes never returns when the BytesList has an empty chunk in front of a non-empty one",
                      {"case": pl, "impl": got, "expected": "ok | ok:1:1804:2898", "how_to_replay": "echo '<case>' | timeout 15 .cache/target*/debug/c20 -"},
                      signature="opendal-write-empty-leading-chunk-hangs")
    cov["known_finding_probe_hangs"] = len(probe_hang)
    if probe_hang:
        # the (fixed) hang is back: reported above; keep the main run finite by writing the
        # object-store cases without empty chunks
        def strip(line):
            t = line.split()
            if t[0] == "0": return line
            i = 3 + 3 * int(t[2]); n = int(t[i]); i += 1
            for _ in range(n):
                w = {"L": 2, "S": 2, "R": 3, "D": 3, "P": 5, "W": 6, "H": 6, "C": 6}[t[i]]
                if w == 6: t[i + 5] = str(max(1, min(int(t[i + 3]), int(t[i + 5]) % 16)) if int(t[i + 3]) else 1)
                i += w
            return " ".join(t)
        cases = [(strip(c), parse_ops(strip(c)) | {"listable": inf["listable"]}) for c, inf in cases]
        lines = [c for c, _ in cases]
    impl_out = run_lines(impl, lines, "impl")
    hist, samples = {}, []
    mism, viol = [], []
    nontriv = set()
    nops_total = hooks = hooks_old = crashes = 0
    def bump(k, n=1): hist[k] = hist.get(k, 0) + n
    if model:
        model_out = run_lines(model, lines, "model", unlimited_stack=True)
        for (case, info), io, mo in zip(cases, impl_out, model_out):
            bump("backend_" + ["local", "opendal_fs", "opendal_memory"][info["be"]])
            if info["nstray"]: bump("cases_with_stray_files")
            if info["listable"]: bump("cases_with_id_named_foreign_files")
            if mo.startswith("model-") or " ## " not in mo:
                mism.append((case, -1, io, mo)); continue
            ms, _, ss = mo.partition(" ## ")
            I, M, S = io.split(" | "), ms.split(" | "), ss.split(" | ")
            if io.strip() == "panic" or len(I) != len(M) or len(I) != len(S):
                mism.append((case, -1, io, mo)); continue
            interesting = False
            for j, (a, b, c, o) in enumerate(zip(I, M, S, info["ops"])):
                nops_total += 1
                bump("op_" + o[0])
                if a != b:
                    mism.append((case, j, a, b))
                if o[0] in "RP" and a.startswith("ok:") and not a.startswith("ok:0:"): interesting = True
                if o[0] in "RPD" and a == "err": bump("error_results")
                if a == "panic" or a.endswith("]panic"): bump("panic_results")
                if o[0] == "P":
                    off, ln = int(o[3]), int(o[4])
                    bump("partial_" + ("len0" if ln == 0 else "u32_overflow" if off + ln >= U32 else "ok" if a.startswith("ok") else "beyond_end_or_missing"))
                if o[0] in "WHC":
                    ln = int(o[3])
                    bump(chunk_class(int(o[5]), ln))
                    bump("write_size_" + ("0" if ln == 0 else "1-300" if ln <= 300 else "301-20000" if ln <= 20000 else "20001-700000" if ln <= 700000 else "1MiB+" if ln < 3000000 else "3MiB+"))
                # ---- oracle: the map property evaluated on the implementation's answers
                if info["listable"]:
                    continue
                if a.startswith("H["):
                    obs, tmpl, res = hook_parts(a)
                    old, _, rest = c[2:].partition("]~[")
                    new, _, sres = rest.rpartition("]")
                    hooks += 1
                    if res == "crash": crashes += 1
                    if obs == old: hooks_old += 1
                    if obs != old and obs != new:
                        viol.append(("at the pre-publish point the directory backend shows neither the old nor the new map state (partial or foreign file listed)", case, j, a, c))
                    elif obs != old:
                        viol.append(("a file is visible before it is published (state at the pre-publish point is already the new one)", case, j, a, c))
                    elif tmpl != str(o[3]):
                        viol.append(("temporary file is not complete at the pre-publish point", case, j, a, "tmp length %s" % o[3]))
                    elif res != sres:
                        viol.append(("write result differs from the map specification", case, j, a, c))
                elif a != c:
                    viol.append(("result differs from the exact-map specification (%s)" % {"W": "write", "R": "read_full", "P": "read_partial", "L": "list", "S": "list_with_size", "D": "remove", "H": "write observed before it is published", "C": "write cut off before it is published"}.get(o[0], o[0]), case, j, a, c))
            if interesting: nontriv.add(case)
            if len(samples) < 3 and len(info["ops"]) <= 12 and interesting:
                samples.append({"case": case, "impl": io, "model ## spec": mo})
    cov.update({"evaluations": nops_total, "cases": len(cases), "distinct_nontrivial": len(nontriv),
                "rule": "case = backend (LocalBackend on a temp dir, OpenDALBackend fs, OpenDALBackend memory) x optional create() x stray files (leftover temporaries, 63/65-digit names, non-hex characters, id-named directories, files outside the type directories) x 8-40 operations write/read_full/read_partial/list/list_with_size/remove over all five file types and a pool of ids sharing prefixes, contents 0..1 MiB (4 MiB in thorough) in 0-7 data chunks with EMPTY chunks inserted at every position (leading, between data chunks, several in a row, trailing, all-empty), offsets/lengths at 0, inside, exactly at the end, one beyond, len=0 beyond the end, u32 overflow; on the local backend 25% of the writes list everything at the pre-publish hook, 10% crash there and re-open; every result is compared with the extracted model and with the extracted map specification; non-trivial = a read returned non-empty data; distinct by full case text",
                "samples": samples, "distribution": hist,
                "hook_observations": hooks, "hook_observations_equal_old_state": hooks_old, "simulated_crashes": crashes,
                "traces_validated_against_impl": len(cases), "disagreements_checked": len(mism) + len(viol),
                "model_impl_mismatches": len(mism), "oracle_violations": len(viol),
                "source_facts": meta})
    how = "echo '<case>' | .cache/target*/debug/c20 -   (format: harness/src/bin/c20.rs); model: build/C20/model"
    for what, case, j, a, c in viol[:20]:
        ctx.violation(what, {"case": case, "op_index": j, "impl": a, "expected": c, "how_to_replay": how}, signature=None)
    if mism and not viol:
        case, j, a, b = mism[0]
        ctx.violation("correspondence broken: extracted model of the storage backend disagrees with the implementation (%d results) although every answer matches the map specification" % len(mism),
                      {"correspondence": "props/C20 Model.step vs LocalBackend/OpenDALBackend", "first": {"case": case, "op_index": j, "impl": a, "model": b}}, no_input=True)
    vlib.finish_broken_obligations(ctx)
