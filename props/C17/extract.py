"""C17 fact extractor: regenerates props/C17/coq/Extracted.v and Extracted2.v from the source —
the pack-size constants of repofile/packfile.rs, the type given to an empty pack by
IndexPack::blob_type, and which sections of an index file
GlobalIndex::new_from_collector feeds into the collector."""
import re, sys, os
sys.path.insert(0, os.path.join(os.path.dirname(__file__), "..", "..", "lib"))
from rustscan import *


def gen(repo):
    pf = read(repo, "crates/core/src/repofile/packfile.rs")
    consts = {}
    for n in ("COMP_OVERHEAD", "LENGTH_LEN", "ENTRY_LEN", "ENTRY_LEN_COMPRESSED"):
        consts[n] = int_expr(const_value(pf, n))
    # HeaderEntry::length: uncompressed arms -> ENTRY_LEN, compressed arms -> ENTRY_LEN_COMPRESSED
    body = " ".join(fn_body(pf, "length").split())
    if not re.search(r"Self::Data \{ \.\. \} \| Self::Tree \{ \.\. \} => Self::ENTRY_LEN ?,", body) or \
       not re.search(r"Self::CompData \{ \.\. \} \| Self::CompTree \{ \.\. \} => Self::ENTRY_LEN_COMPRESSED ?,?", body):
        raise ExtractError("HeaderEntry::length no longer has the expected two arms: " + body)
    # PackHeaderRef::pack_size: fold from COMP_OVERHEAD + LENGTH_LEN adding length + entry length
    bodies = [" ".join(fn_body(pf, "pack_size", i).split()) for i in range(2)]
    if not any(re.search(r"fold\( constants::COMP_OVERHEAD \+ constants::LENGTH_LEN, \|acc, blob\| acc \+ blob\.location\.length \+ HeaderEntry::from_blob\(blob\)\.length\(\), \)", b)
               for b in bodies):
        raise ExtractError("PackHeaderRef::pack_size no longer has the expected fold: " + repr(bodies))
    # IndexPack::blob_type / pack_size
    ixf = read(repo, "crates/core/src/repofile/indexfile.rs")
    bt = " ".join(fn_body(ixf, "blob_type").split())
    m = re.fullmatch(r"if self\.blobs\.is_empty\(\) \{ BlobType::(\w+) \} else \{ self\.blobs\[0\]\.tpe \}", bt)
    if not m or m.group(1) not in ("Data", "Tree"):
        raise ExtractError("IndexPack::blob_type no longer has the expected shape: " + bt)
    empty_type = m.group(1)
    ps = " ".join(fn_body(ixf, "pack_size").split())
    if ps != "self.size .unwrap_or_else(|| PackHeaderRef::from_index_pack(self).pack_size())":
        raise ExtractError("IndexPack::pack_size no longer has the expected shape: " + ps)
    # GlobalIndex::new_from_collector: which sections are loaded
    ix = read(repo, "crates/core/src/index.rs")
    nfc = " ".join(fn_body(ix, "new_from_collector").split())
    ext = re.findall(r"collector\.extend\(([^;]*)\);", nfc)
    uses_packs = any(re.fullmatch(r"index\?\.1\.packs(\.clone\(\))?", e.strip()) for e in ext)
    uses_marked = "packs_to_delete" in nfc or "all_packs" in nfc
    if not ext or not (uses_packs or uses_marked):
        raise ExtractError("GlobalIndex::new_from_collector: cannot tell which sections are loaded: " + nfc)
    # PrunePlan::from_prune_options: the index prune builds for itself
    pr = read(repo, "crates/core/src/commands/prune.rs")
    fpo = " ".join(fn_body(pr, "from_prune_options").split())
    mt = re.search(r"let mut index_collector = IndexCollector::new\(IndexType::(\w+)\);", fpo)
    if not mt or mt.group(1) not in ("Full", "DataIds", "OnlyTrees"):
        raise ExtractError("from_prune_options: IndexCollector::new(IndexType::..) not found")
    prune_type = mt.group(1)
    pext = [e.strip() for e in re.findall(r"index_collector\.extend\(([^;]*)\);", fpo)]
    known = {"index.packs.clone()": "packs", "index.packs": "packs",
             "index.packs_to_delete.clone()": "marked", "index.packs_to_delete": "marked"}
    if not pext or any(e not in known for e in pext):
        raise ExtractError("from_prune_options: unrecognised index_collector.extend calls: %r" % pext)
    order = [known[e] for e in pext]
    if order not in (["packs"], ["marked"], ["packs", "marked"]):
        raise ExtractError("from_prune_options: sections are extended in an unexpected order: %r" % order)
    if not re.search(r"GlobalIndex::new_from_index\(index_collector\.into_index\(\)\)", fpo):
        raise ExtractError("from_prune_options: the index is no longer built by into_index + new_from_index")
    # check_packs (commands/check.rs): the index `check` builds for itself
    ck = read(repo, "crates/core/src/commands/check.rs")
    cpk = " ".join(fn_body(ck, "check_packs").split())
    mck = re.search(r"let mut index_collector = IndexCollector::new\(IndexType::(\w+)\);", cpk)
    if not mck or mck.group(1) not in ("Full", "DataIds", "OnlyTrees"):
        raise ExtractError("check_packs: IndexCollector::new(IndexType::..) not found")
    cext = [e.strip() for e in re.findall(r"index_collector\.extend\(([^;]*)\);", cpk)]
    if not cext or any(e not in known for e in cext):
        raise ExtractError("check_packs: unrecognised index_collector.extend calls: %r" % cext)
    corder = [known[e] for e in cext]
    if corder not in (["packs"], ["marked"], ["packs", "marked"]):
        raise ExtractError("check_packs: sections are extended in an unexpected order: %r" % corder)
    # BlobType::is_cacheable
    bl = read(repo, "crates/core/src/blob.rs")
    ic = " ".join(fn_body(bl, "is_cacheable").split())
    mc = re.fullmatch(r"match self \{ Self::Tree => (true|false), Self::Data => (true|false), \}", ic)
    if not mc:
        raise ExtractError("BlobType::is_cacheable no longer has the expected shape: " + ic)
    # IndexEntry::read_data / read_encrypted_partial: which fields of the entry reach the backend read
    ixs = read(repo, "crates/core/src/index.rs")
    rd = " ".join(fn_body(ixs, "read_data").split())
    if not re.search(r"be\.read_encrypted_partial\( FileType::Pack, &self\.pack, self\.blob_type\.is_cacheable\(\), self\.location, \)\?", rd):
        raise ExtractError("IndexEntry::read_data no longer has the expected shape: " + rd)
    dc = read(repo, "crates/core/src/backend/decrypt.rs")
    rep = " ".join(fn_body(dc, "read_encrypted_partial").split())
    if not re.search(r"self\.read_encrypted_from_partial\( &self\.read_partial\(tpe, id, cacheable, location\.offset, location\.length\)\?, location\.uncompressed_length, \)", rep):
        raise ExtractError("read_encrypted_partial no longer has the expected shape: " + rep)
    bfb = " ".join(fn_body(ixs, "blob_from_backend").split())
    if not re.search(r"self\.get_id\(tpe, id\)\.map_or_else\(", bfb) or not re.search(r"\|ie\| ie\.read_data\(be\)", bfb):
        raise ExtractError("ReadIndex::blob_from_backend no longer has the expected shape: " + bfb)
    out = ["(* GENERATED by props/C17/extract.py from packfile.rs, indexfile.rs, index.rs - do not edit *)",
           "From Verif.Base Require Import Tactics.",
           "From Verif.C17 Require Import Base17.",
           "Local Open Scope N_scope.", ""]
    for n, v in consts.items():
        out.append("Definition %s : N := %d." % (n, v))
    out.append("Definition EMPTY_PACK_TYPE : blob_type := %s." % empty_type)
    out.append("Definition LOADER_USES_PACKS : bool := %s." % ("true" if uses_packs else "false"))
    out.append("Definition LOADER_USES_MARKED : bool := %s." % ("true" if uses_marked else "false"))
    out.append("Definition PRUNE_INDEX_TYPE : imode := %s." % prune_type)
    out.append("Definition PRUNE_USES_PACKS : bool := %s." % ("true" if "packs" in order else "false"))
    out.append("Definition PRUNE_USES_MARKED : bool := %s." % ("true" if "marked" in order else "false"))
    out.append("Definition CHECK_INDEX_TYPE : imode := %s." % mck.group(1))
    out.append("Definition CHECK_USES_PACKS : bool := %s." % ("true" if "packs" in corder else "false"))
    out.append("Definition CHECK_USES_MARKED : bool := %s." % ("true" if "marked" in corder else "false"))
    out.append("Definition TREE_IS_CACHEABLE : bool := %s." % mc.group(1))
    out.append("Definition DATA_IS_CACHEABLE : bool := %s." % mc.group(2))
    meta = dict(consts)
    meta.update({"check_index_type": mck.group(1), "check_sections": corder, "prune_index_type": prune_type, "prune_sections": order,
                 "tree_is_cacheable": mc.group(1) == "true", "data_is_cacheable": mc.group(2) == "true"})
    meta.update({"empty_pack_type": empty_type, "loader_uses_packs": uses_packs, "loader_uses_marked": uses_marked})
    return "\n".join(out) + "\n", meta


if __name__ == "__main__":
    t, m = gen(sys.argv[1] if len(sys.argv) > 1 else "/repo")
    print(t); print(m)
