(* C17 — pack type versus the blob's own listed type: both readings of "listed" agree on
   index files whose packs are homogeneous; a mixed pack separates them. *)
From Verif.Base Require Import Tactics.
From Verif.C17 Require Import Base17 Extracted Sorts Model Spec ProofsSearch ProofsCollect Proofs Exec ProofsExec.
Local Open Scope N_scope.

Lemma existsb_filter : forall A (f g : A -> bool) l,
  existsb f (filter g l) = existsb (fun x => g x && f x) l.
Proof.
  induction l as [|a l IH]; cbn [filter existsb]; [reflexivity|].
  destruct (g a); cbn [existsb andb]; rewrite IH; reflexivity.
Qed.

Lemma listed_homogeneous : forall files t id, all_homogeneous files = true ->
  listed files t id = listed_by_blob_type files t id.
Proof.
  intros files t id H. unfold listed, listed_in, listed_by_blob_type, packs_of_type, all_homogeneous in *.
  rewrite existsb_filter. apply existsb_ext_local. intros p Hp.
  rewrite forallb_forall in H. specialize (H p Hp). unfold homogeneous in H. rewrite forallb_forall in H.
  unfold lists_id. destruct (bt_eqb (pack_type p) t) eqn:Et; cbn [andb].
  - apply bt_eqb_eq in Et. subst t. apply existsb_ext_local. intros b Hb. rewrite (H b Hb). reflexivity.
  - symmetry. apply Bool.not_true_iff_false. intro Hc. apply existsb_exists in Hc.
    destruct Hc as (b & Hb & Hc). apply andb_prop in Hc. destruct Hc as (Hc & _).
    specialize (H b Hb). apply bt_eqb_eq in H, Hc. rewrite H in Hc. subst t.
    rewrite bt_eqb_refl in Et. discriminate.
Qed.

Lemma has_blob_type_lemma : forall sort_e sort_i,
  sort_ok e_id sort_e -> sort_ok (fun x => x) sort_i ->
  forall files ix, index_of_with sort_e sort_i Full files = Some ix ->
  all_homogeneous files = true ->
  forall t id, has ix t id = listed_by_blob_type files t id.
Proof.
  intros se si He Hi files ix H Hh t id.
  rewrite (has_char_dbg se si He Hi _ _ _ H), <- (listed_homogeneous _ _ _ Hh). destruct t; reflexivity.
Qed.

(* a restic-v1-style pack holding a data blob (id 1) first and a tree blob (id 2) second *)
Definition mixed_files : list ifile :=
  [ {| packs := [ {| pid := 7;
                     blobs := [ {| bid := 1; btpe := Data; bloc := {| off := 0; len := 40; ulen := None |} |};
                                {| bid := 2; btpe := Tree; bloc := {| off := 40; len := 50; ulen := None |} |} ];
                     psize := None |} ];
       packs_to_delete := [] |} ].

Lemma mixed_pack_refuted_lemma :
  exists files ix id, index_of Full files = Some ix /\ all_homogeneous files = false /\
    listed_by_blob_type files Tree id = true /\ has ix Tree id = false /\ get_id ix Tree id = None /\
    (* ... and it is found under the wrong type *)
    has ix Data id = true.
Proof. exists mixed_files. eexists. exists 2. vm_compute. repeat split; reflexivity. Qed.
