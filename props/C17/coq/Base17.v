(* C17 — basic types of the index model (executable definitions only).
   Anchors: crates/core/src/blob.rs (BlobType, BlobLocation),
   crates/core/src/repofile/indexfile.rs (IndexBlob, IndexPack, IndexFile),
   crates/core/src/index/binarysorted.rs (SortedEntry). *)
From Verif.Base Require Import Tactics.
Local Open Scope N_scope.

Inductive blob_type := Tree | Data.
Definition bt_eqb (a b : blob_type) : bool :=
  match a, b with Tree, Tree => true | Data, Data => true | _, _ => false end.

(* BlobLocation { offset: u32, length: u32, uncompressed_length: Option<NonZeroU32> } *)
Record loc := { off : N; len : N; ulen : option N }.
(* IndexBlob { id, tpe, location } — ids are 256-bit numbers (byte order = numeric order) *)
Record iblob := { bid : N; btpe : blob_type; bloc : loc }.
(* IndexPack { id, blobs, time, size } — `time` plays no role in the index *)
Record ipack := { pid : N; blobs : list iblob; psize : option N }.
(* IndexFile { supersedes, packs, packs_to_delete } *)
Record ifile := { packs : list ipack; packs_to_delete : list ipack }.

(* SortedEntry { id, pack_idx: u32, location } *)
Record sentry := { e_id : N; e_pack : nat; e_loc : loc }.

(* IndexType *)
Inductive imode := Full | DataIds | OnlyTrees.
