(* C17 deepening — u64 total bound, release build, prune's own index, blob_from_backend. *)
From Verif.Base Require Import Tactics.
From Verif.C17 Require Import Base17 Extracted Model Spec ProofsSearch ProofsCollect Proofs.
Local Open Scope N_scope.

(* ------------------------------------------------------------------ total_size fits u64 *)
Lemma sum_sizes_by_bound : forall sz qs, (forall p, In p qs -> sz p < U32) ->
  sum_sizes_by sz qs <= N.of_nat (length qs) * (U32 - 1).
Proof.
  intros sz. induction qs as [|q qs IH]; intro H; cbn [sum_sizes_by fold_right length].
  - cbn. lia.
  - fold (sum_sizes_by sz qs). specialize (IH (fun p Hp => H p (or_intror Hp))).
    specialize (H q (or_introl eq_refl)). unfold U32 in *. lia.
Qed.

Lemma size_spec_lt : forall p, size_fits p = true ->
  (match psize p with Some s => s <? U32 | None => true end) = true -> size_spec p < U32.
Proof. unfold size_fits, size_spec. intros p H1 H2. destruct (psize p); lia. Qed.

Definition U64 : N := 18446744073709551616.

Lemma total_no_overflow_lemma : forall sort_e sort_i m files ix,
  index_of_with sort_e sort_i m files = Some ix ->
  sizes_are_u32 (unmarked files) = true ->
  forall t, total_size ix t < U64.
Proof.
  intros se si m files ix H Hu t. rewrite (total_size_dbg se si m files ix H t).
  assert (Hd : no_overflow files = true) by (apply (index_defined_iff_lemma se si m files); eauto).
  unfold no_overflow, no_overflow_in, count_fits in Hd.
  apply andb_prop in Hd. destruct Hd as (Hd & H3). apply andb_prop in Hd. destruct Hd as (H1 & H2).
  unfold total_spec, total_in, sum_sizes.
  assert (Hb : forall p, In p (packs_of_type t (unmarked files)) -> size_spec p < U32).
  { intros p Hp. apply filter_In in Hp. destruct Hp as (Hp & _).
    unfold sizes_are_u32 in Hu. rewrite forallb_forall in H1, Hu. apply size_spec_lt; auto. }
  pose proof (sum_sizes_by_bound size_spec _ Hb) as Hs.
  assert (N.of_nat (length (packs_of_type t (unmarked files))) <= U32) by (destruct t; lia).
  unfold U32, U64 in *. nia.
Qed.

(* ------------------------------------------------------------------ release build *)
Lemma extend_psz_mono : forall psz1 psz2, (forall p s, psz1 p = Some s -> psz2 p = Some s) ->
  forall ps c c', extend_with psz1 c ps = Some c' -> extend_with psz2 c ps = Some c'.
Proof.
  intros psz1 psz2 Hm. unfold extend_with. induction ps as [|p ps IH]; intros c c' H; cbn [fold_left] in *.
  - assumption.
  - cbn [extend_step_with] in *. destruct (extend_one_with psz1 c p) as [c1|] eqn:E1.
    + assert (E2 : extend_one_with psz2 c p = Some c1).
      { unfold extend_one_with in *. destruct (psz1 p) as [s|] eqn:Es; [|discriminate].
        rewrite (Hm p s Es). exact E1. }
      rewrite E2. apply IH. assumption.
    + exfalso. clear -H. induction ps; simpl in H; [discriminate|auto].
Qed.

Lemma builds_agree_lemma : forall sort_e sort_i m files ix,
  index_of_with sort_e sort_i m files = Some ix ->
  index_of_release_with sort_e sort_i m files = Some ix.
Proof.
  intros se si m files ix H. unfold index_of_with, index_of_release_with, index_of_gen, collect_gen in *.
  rewrite (collect_is_extend pack_size size_spec size_fits pack_size_is_spec pack_size_fits_iff) in H.
  rewrite (collect_is_extend pack_size_release size_release (fun _ => true) release_sz release_fits).
  destruct (extend_with pack_size _ _) as [c|] eqn:E; [|discriminate].
  erewrite extend_psz_mono; [exact H| |exact E].
  intros p s Hs. unfold pack_size_release. f_equal. apply pack_size_builds_agree. assumption.
Qed.

Section Release.
  Variable sort_e : list sentry -> list sentry.
  Variable sort_i : list N -> list N.
  Hypothesis sort_e_ok : sort_ok e_id sort_e.
  Hypothesis sort_i_ok : sort_ok (fun x => x) sort_i.
  Notation G := (pack_size_release) (only parsing).

  Lemma release_defined_iff_lemma : forall m files,
    (exists ix, index_of_release_with sort_e sort_i m files = Some ix) <-> counts_fit files = true.
  Proof.
    intros m files. unfold index_of_release_with.
    rewrite (index_defined_iff_g pack_size_release size_release (fun _ => true) release_sz release_fits loaded_packs sort_e sort_i m files).
    rewrite loaded_is_unmarked. unfold counts_fit, count_fits. split.
    - intros (_ & Hl). pose proof (Hl Tree). pose proof (Hl Data). lia.
    - intro H. split; [apply forallb_forall; reflexivity|]. intros []; lia.
  Qed.

  Lemma release_has_lemma : forall m files ix, index_of_release_with sort_e sort_i m files = Some ix ->
    forall t id, has ix t id = retains m t && listed files t id.
  Proof.
    intros m files ix H t id. unfold listed. rewrite <- loaded_is_unmarked.
    exact (has_char pack_size_release size_release (fun _ => true) release_sz release_fits loaded_packs
                    sort_e sort_i sort_e_ok sort_i_ok m files ix H t id).
  Qed.

  Lemma release_get_id_lemma : forall m files ix, index_of_release_with sort_e sort_i m files = Some ix ->
    forall t id t' pk lc, get_id ix t id = Some (t', pk, lc) -> t' = t /\ In (pk, lc) (listings files t id).
  Proof.
    intros m files ix H t id t' pk lc G0. unfold listings. rewrite <- loaded_is_unmarked.
    exact (get_id_listing_lemma pack_size_release size_release (fun _ => true) release_sz release_fits loaded_packs
                                sort_e sort_i sort_e_ok m files ix H t id t' pk lc G0).
  Qed.

  Lemma release_total_lemma : forall m files ix, index_of_release_with sort_e sort_i m files = Some ix ->
    forall t, total_size ix t = total_release files t.
  Proof.
    intros m files ix H t. unfold total_release. rewrite <- loaded_is_unmarked.
    exact (total_size_lemma pack_size_release size_release (fun _ => true) release_sz release_fits loaded_packs
                            sort_e sort_i m files ix H t).
  Qed.
End Release.

Lemma size_release_fits : forall p, size_fits p = true -> size_release p = size_spec p.
Proof.
  unfold size_fits, size_release, size_spec. intros p H. destruct (psize p); [reflexivity|].
  apply N.mod_small. lia.
Qed.

Lemma total_release_fits : forall files t, forallb size_fits (unmarked files) = true ->
  total_release files t = total_spec files t.
Proof.
  intros files t H. unfold total_release, total_spec, total_in, sum_sizes.
  assert (G : forall qs, (forall p, In p qs -> size_fits p = true) ->
              sum_sizes_by size_release qs = sum_sizes_by size_spec qs).
  { induction qs as [|q qs IH]; intro Hq; cbn [sum_sizes_by fold_right]; [reflexivity|].
    fold (sum_sizes_by size_release qs). fold (sum_sizes_by size_spec qs).
    rewrite IH by (intros; apply Hq; right; assumption).
    rewrite size_release_fits by (apply Hq; left; reflexivity). reflexivity. }
  apply G. intros p Hp. apply filter_In in Hp. rewrite forallb_forall in H. apply H. tauto.
Qed.

(* ------------------------------------------------------------------ prune's own index *)
Section Prune.
  Variable sort_e : list sentry -> list sentry.
  Variable sort_i : list N -> list N.
  Hypothesis sort_e_ok : sort_ok e_id sort_e.
  Hypothesis sort_i_ok : sort_ok (fun x => x) sort_i.

  Lemma prune_index_lemma : forall files ix, prune_index_of_with sort_e sort_i files = Some ix ->
    forall id,
      has ix Tree id = listed_anywhere files Tree id /\
      has ix Data id = false /\
      get_id ix Data id = None /\
      is_some (get_id ix Tree id) = has ix Tree id /\
      (forall t' pk lc, get_id ix Tree id = Some (t', pk, lc) ->
         t' = Tree /\ In (pk, lc) (listings_in (all_packs files) Tree id)) /\
      (forall t, total_size ix t = total_in (all_packs files) t).
  Proof.
    intros files ix H id. unfold prune_index_of_with in H. unfold listed_anywhere, total_in, sum_sizes.
    rewrite <- prune_loaded_is_all.
    pose proof (has_char pack_size size_spec size_fits pack_size_is_spec pack_size_fits_iff prune_loaded_packs
                         sort_e sort_i sort_e_ok sort_i_ok _ files ix H) as Hh.
    pose proof (get_id_some_lemma pack_size size_spec size_fits pack_size_is_spec pack_size_fits_iff prune_loaded_packs
                         sort_e sort_i sort_e_ok _ files ix H) as Hg.
    split; [rewrite Hh; reflexivity|]. split; [rewrite Hh; reflexivity|].
    split; [specialize (Hg Data id); cbn in Hg; destruct (get_id ix Data id); [discriminate|reflexivity]|].
    split; [exact (Hg Tree id)|]. split.
    - intros t' pk lc G0.
      exact (get_id_listing_lemma pack_size size_spec size_fits pack_size_is_spec pack_size_fits_iff prune_loaded_packs
                                  sort_e sort_i sort_e_ok _ files ix H Tree id t' pk lc G0).
    - intro t.
      exact (total_size_lemma pack_size size_spec size_fits pack_size_is_spec pack_size_fits_iff prune_loaded_packs
                              sort_e sort_i _ files ix H t).
  Qed.
End Prune.

(* listed anywhere = listed in `packs` or listed in `packs_to_delete` *)
Definition marked (files : list ifile) : list ipack := flat_map packs_to_delete files.

Lemma listed_in_app : forall a b t id, listed_in (a ++ b) t id = listed_in a t id || listed_in b t id.
Proof.
  intros. unfold listed_in, packs_of_type. rewrite filter_app, existsb_app. reflexivity.
Qed.

Lemma listed_anywhere_split : forall files t id,
  listed_anywhere files t id = listed files t id || listed_in (marked files) t id.
Proof.
  intros files t id. unfold listed_anywhere, listed, all_packs, unmarked, marked.
  induction files as [|f fs IH]; cbn [flat_map]; [reflexivity|].
  rewrite !listed_in_app, IH.
  destruct (listed_in (packs f) t id), (listed_in (packs_to_delete f) t id),
           (listed_in (flat_map packs fs) t id), (listed_in (flat_map packs_to_delete fs) t id); reflexivity.
Qed.

(* ------------------------------------------------------------------ blob_from_backend *)
Lemma blob_read_lemma : forall sort_e sort_i, sort_ok e_id sort_e ->
  forall m files ix, index_of_with sort_e sort_i m files = Some ix ->
  forall t id rq, blob_read_request ix t id = Some rq ->
    exists pk lc, In (pk, lc) (listings files t id) /\
      rq = {| r_pack := pk; r_cacheable := is_cacheable t; r_off := off lc; r_len := len lc; r_ulen := ulen lc |}.
Proof.
  intros se si He m files ix H t id rq G. unfold blob_read_request in G.
  destruct (get_id ix t id) as [[[t' pk] lc]|] eqn:E; [|discriminate]. inv G.
  destruct (get_id_listing_dbg se si He m files ix H t id t' pk lc E) as (-> & Hin).
  exists pk, lc. split; [assumption|reflexivity].
Qed.

Lemma blob_from_backend_lemma : forall sort_e sort_i, sort_ok e_id sort_e ->
  forall m files ix, index_of_with sort_e sort_i m files = Some ix ->
  forall (R : Type) (rp : N -> bool -> N -> N -> R) (dec : R -> option N -> R) t id,
    match blob_from_backend rp dec ix t id with
    | Some r => exists pk lc, In (pk, lc) (listings files t id) /\
                              r = dec (rp pk (is_cacheable t) (off lc) (len lc)) (ulen lc)
    | None => get_id ix t id = None
    end.
Proof.
  intros se si He m files ix H R rp dec t id. unfold blob_from_backend.
  destruct (blob_read_request ix t id) as [rq|] eqn:E.
  - destruct (blob_read_lemma se si He m files ix H t id rq E) as (pk & lc & Hin & ->).
    exists pk, lc. split; [assumption|reflexivity].
  - unfold blob_read_request in E. destruct (get_id ix t id); [discriminate|reflexivity].
Qed.
