(* C17 — main lemmas: the index built from any list of index files, with ANY correct sort,
   answers exactly what the declarative specification says. *)
From Verif.Base Require Import Tactics.
From Verif.C17 Require Import Base17 Extracted Model Spec ProofsSearch ProofsCollect.
Local Open Scope N_scope.

(* a correct (possibly unstable) sort by a key *)
Definition sort_ok {A} (key : A -> N) (s : list A -> list A) : Prop :=
  forall l, Permutation l (s l) /\ Sorted (fun a b => key a <= key b) (s l).

Lemma sorted_keys_mono : forall A (key : A -> N) l,
  Sorted (fun a b => key a <= key b) l -> mono (map key l).
Proof.
  intros A key l H. apply StronglySorted_mono.
  apply Sorted_StronglySorted in H; [|intros x y z; lia].
  induction H as [|a l Hs IH Hf]; cbn [map]; constructor; [assumption|].
  rewrite Forall_forall in *. intros k Hk. apply in_map_iff in Hk. destruct Hk as (x & <- & Hx). auto.
Qed.

Definition sorted_entries_with (sort_e : list sentry -> list sentry) (sort_i : list N -> list N) (e : entries) : entries :=
  match e with ENone => ENone | EIds l => EIds (sort_i l) | EFull l => EFull (sort_e l) end.
(* presence, all modes and types at once *)
Definition retains (m : imode) (t : blob_type) : bool :=
  match m, t with OnlyTrees, Data => false | _, _ => true end.

(* Generic in the build (psz/sz/fits) and the loader (ld): see ProofsCollect.Gen. *)
Section Generic.
  Variable psz : ipack -> option N.
  Variable sz : ipack -> N.
  Variable fits : ipack -> bool.
  Hypothesis psz_sz : forall p s, psz p = Some s -> s = sz p.
  Hypothesis psz_fits : forall p, fits p = true <-> exists s, psz p = Some s.
  Variable ld : ifile -> list ipack.
  Variable sort_e : list sentry -> list sentry.
  Variable sort_i : list N -> list N.
  Hypothesis sort_e_ok : sort_ok e_id sort_e.
  Hypothesis sort_i_ok : sort_ok (fun x => x) sort_i.
  Notation src files := (flat_map ld files).
  Notation index_of_g := (index_of_gen psz ld sort_e sort_i).
  Collection base := psz sz fits psz_sz psz_fits ld sort_e sort_i.

  Notation sorted_entries := (sorted_entries_with sort_e sort_i).

  Lemma index_char : forall m files ix, index_of_g m files = Some ix ->
    forall t, let qs := packs_of_type t (src files) in
      i_packs (bget ix t) = map pid qs /\
      i_entries (bget ix t) = sorted_entries (mode_entries m t qs) /\
      i_total (bget ix t) = sum_sizes_by sz qs.
  Proof using base.
    intros m files ix H t qs. unfold index_of_gen in H.
    destruct (collect_gen psz ld m files) as [c|] eqn:Ec; [|discriminate]. inv H.
    destruct (collect_char psz sz fits psz_sz psz_fits ld _ _ _ Ec t) as (I1 & I2 & I3). fold qs in I1, I2, I3.
    unfold into_index_with.
    assert (G : forall A B (f : blob_type -> A -> B) mm, bget (bmap f mm) t = f t (bget mm t))
      by (intros; destruct t; reflexivity).
    rewrite G. cbn [i_packs i_entries i_total]. rewrite I1, I2, I3. split; [|split]; try reflexivity.
    rewrite map_map. reflexivity.
  Qed.

  Lemma index_defined_iff_g : forall m files,
    (exists ix, index_of_g m files = Some ix) <->
    (forallb fits (src files) = true /\ forall t, N.of_nat (length (packs_of_type t (src files))) <= U32).
  Proof using base.
    intros m files. rewrite <- (collect_defined_iff psz sz fits psz_sz psz_fits ld m files). unfold index_of_gen.
    destruct (collect_gen psz ld m files); split; intros (x & Hx); try discriminate; eexists; reflexivity.
  Qed.

  Lemma search_entries : forall es id,
    is_some (bsearch (map e_id (sort_e es)) id) = true <-> In id (map e_id es).
  Proof using sort_e sort_e_ok.
    intros es id. destruct (sort_e_ok es) as (Hp & Hs).
    rewrite bsearch_is_some_iff by (apply sorted_keys_mono; assumption).
    split; apply Permutation_in; [symmetry|]; apply Permutation_map; assumption.
  Qed.

  Lemma search_ids : forall l id, is_some (bsearch (sort_i l) id) = true <-> In id l.
  Proof using sort_i sort_i_ok.
    intros l id. destruct (sort_i_ok l) as (Hp & Hs).
    assert (Hm : mono (sort_i l)).
    { rewrite <- (map_id (sort_i l)). apply sorted_keys_mono with (key := fun x => x). assumption. }
    rewrite bsearch_is_some_iff by assumption.
    split; apply Permutation_in; [symmetry|]; assumption.
  Qed.

  Lemma has_char : forall m files ix, index_of_g m files = Some ix ->
    forall t id, has ix t id = retains m t && listed_in (src files) t id.
  Proof using base sort_e_ok sort_i_ok.
    intros m files ix H t id. destruct (index_char _ _ _ H t) as (_ & I2 & _).
    unfold has. rewrite I2. unfold listed_in.
    set (qs := packs_of_type t (src files)).
    apply Bool.eq_iff_eq_true.
    destruct t, m; cbn [mode_entries sorted_entries retains andb];
      try (rewrite search_entries, entries_of_ids, in_ids_of; reflexivity);
      try (rewrite search_ids, in_ids_of; reflexivity).
    split; discriminate.
  Qed.


  (* get_id *)
  Lemma get_id_listing_lemma : forall m files ix, index_of_g m files = Some ix ->
    forall t id t' pk lc, get_id ix t id = Some (t', pk, lc) ->
      t' = t /\ In (pk, lc) (listings_in (src files) t id).
  Proof using base sort_e_ok.
    intros m files ix H t id t' pk lc G. destruct (index_char _ _ _ H t) as (I1 & I2 & _).
    unfold get_id in G. rewrite I1, I2 in G. unfold listings_in.
    set (qs := packs_of_type t (src files)) in *.
    destruct (sorted_entries (mode_entries m t qs)) as [| |srt] eqn:Es; try discriminate.
    assert (exists es, srt = sort_e es /\ es = entries_of 0 qs) as (es & -> & Hes).
    { destruct t, m; cbn in Es; inv Es; eauto. }
    destruct (bsearch _ id) as [i|] eqn:Eb; [|discriminate].
    destruct (nth_error (sort_e es) i) as [e|] eqn:En; [|discriminate].
    destruct (nth_error (map pid qs) (e_pack e)) as [pk'|] eqn:Ep; [|discriminate].
    inv G. split; [reflexivity|].
    apply bsearch_sound in Eb. destruct Eb as (Hi & Hid).
    assert (He : e_id e = id).
    { rewrite <- Hid. erewrite nth_indep with (d' := e_id e) by assumption.
      rewrite map_nth. f_equal. apply nth_error_nth with (d := e) in En. symmetry. exact En. }
    assert (Hin : In e (entries_of 0 qs)).
    { destruct (sort_e_ok (entries_of 0 qs)) as (Hp & _).
      eapply Permutation_in; [symmetry; exact Hp|]. eapply nth_error_In; exact En. }
    apply in_entries_of in Hin. destruct Hin as (j & p & b & Hj & Hb & Hmk). subst e.
    cbn [mk_entry e_pack e_loc e_id Nat.add] in *.
    rewrite nth_error_map, Hj in Ep. cbn in Ep. inv Ep.
    apply in_flat_map. exists p. split; [eapply nth_error_In; exact Hj|].
    unfold pack_listings. apply in_map_iff. exists b. split; [reflexivity|].
    apply filter_In. split; [assumption|lia].
  Qed.

  Lemma get_id_some_lemma : forall m files ix, index_of_g m files = Some ix ->
    forall t id, is_some (get_id ix t id) =
                 match m, t with Full, _ => has ix t id | _, Tree => has ix t id | _, Data => false end.
  Proof using base sort_e_ok.
    intros m files ix H t id. destruct (index_char _ _ _ H t) as (I1 & I2 & _).
    unfold get_id, has. rewrite I1, I2.
    set (qs := packs_of_type t (src files)) in *.
    assert (Full_case : forall es, es = entries_of 0 qs ->
      is_some match bsearch (map e_id (sort_e es)) id with
              | Some i => match nth_error (sort_e es) i with
                          | Some e => match nth_error (map pid qs) (e_pack e) with
                                      | Some pk => Some (t, pk, e_loc e) | None => None end
                          | None => None end
              | None => None end = is_some (bsearch (map e_id (sort_e es)) id)).
    { intros es Hes. destruct (bsearch _ id) as [i|] eqn:Eb; [|reflexivity].
      apply bsearch_sound in Eb. destruct Eb as (Hi & _). rewrite map_length in Hi.
      destruct (nth_error (sort_e es) i) as [e|] eqn:En.
      2:{ apply nth_error_None in En. lia. }
      assert (Hin : In e (entries_of 0 qs)).
      { subst es. destruct (sort_e_ok (entries_of 0 qs)) as (Hp & _).
        eapply Permutation_in; [symmetry; exact Hp|]. eapply nth_error_In; exact En. }
      apply in_entries_of in Hin. destruct Hin as (j & p & b & Hj & Hb & Hmk). subst e.
      cbn [mk_entry e_pack Nat.add]. rewrite nth_error_map, Hj. reflexivity. }
    destruct t, m; cbn [mode_entries sorted_entries]; try reflexivity; apply Full_case; reflexivity.
  Qed.

  Lemma total_size_lemma : forall m files ix, index_of_g m files = Some ix ->
    forall t, total_size ix t = sum_sizes_by sz (packs_of_type t (src files)).
  Proof using base. intros m files ix H t. destruct (index_char _ _ _ H t) as (_ & _ & I3). exact I3. Qed.
End Generic.

(* ------------------------------------------------------------------ the checked build, GlobalIndex loader *)
Section WithSorts.
  Variable sort_e : list sentry -> list sentry.
  Variable sort_i : list N -> list N.
  Hypothesis sort_e_ok : sort_ok e_id sort_e.
  Hypothesis sort_i_ok : sort_ok (fun x => x) sort_i.
  Notation sorted_entries := (sorted_entries_with sort_e sort_i).

  Lemma index_char_dbg : forall m files ix, index_of_with sort_e sort_i m files = Some ix ->
    forall t, let qs := packs_of_type t (unmarked files) in
      i_packs (bget ix t) = map pid qs /\
      i_entries (bget ix t) = sorted_entries (mode_entries m t qs) /\
      i_total (bget ix t) = sum_sizes qs.
  Proof.
    intros m files ix H t. rewrite <- loaded_is_unmarked.
    exact (index_char pack_size size_spec size_fits pack_size_is_spec pack_size_fits_iff loaded_packs sort_e sort_i m files ix H t).
  Qed.

  Lemma index_defined_iff_lemma : forall m files,
    (exists ix, index_of_with sort_e sort_i m files = Some ix) <-> no_overflow files = true.
  Proof.
    intros m files. unfold index_of_with.
    rewrite (index_defined_iff_g pack_size size_spec size_fits pack_size_is_spec pack_size_fits_iff loaded_packs sort_e sort_i m files).
    rewrite loaded_is_unmarked. unfold no_overflow, no_overflow_in, count_fits. split.
    - intros (Hf & Hl). rewrite Hf. pose proof (Hl Tree). pose proof (Hl Data). lia.
    - intro H. apply andb_prop in H. destruct H as (H & H3). apply andb_prop in H. destruct H as (H1 & H2).
      split; [assumption|]. intros []; lia.
  Qed.

  Lemma index_defined : forall m files, no_overflow files = true ->
    exists ix, index_of_with sort_e sort_i m files = Some ix.
  Proof. intros m files H. apply index_defined_iff_lemma. assumption. Qed.

  Lemma has_char_dbg : forall m files ix, index_of_with sort_e sort_i m files = Some ix ->
    forall t id, has ix t id = retains m t && listed files t id.
  Proof.
    intros m files ix H t id. unfold listed. rewrite <- loaded_is_unmarked.
    exact (has_char pack_size size_spec size_fits pack_size_is_spec pack_size_fits_iff loaded_packs sort_e sort_i sort_e_ok sort_i_ok m files ix H t id).
  Qed.

  Lemma has_iff_listed_lemma : forall files ix, index_of_with sort_e sort_i Full files = Some ix ->
    forall t id, has ix t id = true <-> listed files t id = true.
  Proof. intros files ix H t id. rewrite (has_char_dbg _ _ _ H). destruct t; reflexivity. Qed.

  Lemma get_id_listing_dbg : forall m files ix, index_of_with sort_e sort_i m files = Some ix ->
    forall t id t' pk lc, get_id ix t id = Some (t', pk, lc) ->
      t' = t /\ In (pk, lc) (listings files t id).
  Proof.
    intros m files ix H t id t' pk lc G. unfold listings. rewrite <- loaded_is_unmarked.
    exact (get_id_listing_lemma pack_size size_spec size_fits pack_size_is_spec pack_size_fits_iff loaded_packs sort_e sort_i sort_e_ok m files ix H t id t' pk lc G).
  Qed.

  Lemma get_id_some_dbg : forall m files ix, index_of_with sort_e sort_i m files = Some ix ->
    forall t id, is_some (get_id ix t id) =
                 match m, t with Full, _ => has ix t id | _, Tree => has ix t id | _, Data => false end.
  Proof.
    exact (get_id_some_lemma pack_size size_spec size_fits pack_size_is_spec pack_size_fits_iff loaded_packs sort_e sort_i sort_e_ok).
  Qed.

  Lemma total_size_dbg : forall m files ix, index_of_with sort_e sort_i m files = Some ix ->
    forall t, total_size ix t = total_spec files t.
  Proof.
    intros m files ix H t. unfold total_spec, total_in. rewrite <- loaded_is_unmarked.
    exact (total_size_lemma pack_size size_spec size_fits pack_size_is_spec pack_size_fits_iff loaded_packs sort_e sort_i m files ix H t).
  Qed.
End WithSorts.
