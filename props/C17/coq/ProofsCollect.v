(* C17 — what the collector holds after extending it with a list of packs. *)
From Verif.Base Require Import Tactics.
From Verif.C17 Require Import Base17 Extracted Model Spec.
Local Open Scope N_scope.

(* ------------------------------------------------------------------ pack size *)
Lemma u32_add_some : forall a b r, u32_add a b = Some r -> r = a + b /\ a + b < U32.
Proof. unfold u32_add. intros a b r. destruct (a + b <? U32) eqn:E; intro H; inv H. lia. Qed.

Lemma pack_size_fold : forall bs a0 r,
  fold_left pack_size_step bs (Some a0) = Some r -> r = a0 + blobs_size bs.
Proof.
  induction bs as [|b bs IH]; intros a0 r H; cbn [fold_left blobs_size fold_right] in *.
  - inv H. lia.
  - unfold pack_size_step at 2 in H.
    destruct (u32_add a0 (len (bloc b))) as [a1|] eqn:E1.
    + destruct (u32_add a1 (entry_len b)) as [a2|] eqn:E2.
      * apply IH in H. apply u32_add_some in E1, E2. fold (blobs_size bs). lia.
      * exfalso. clear -H. induction bs; simpl in H; [discriminate|auto].
    + exfalso. clear -H. induction bs; simpl in H; [discriminate|auto].
Qed.

Lemma pack_size_fold_none : forall bs, fold_left pack_size_step bs None = None.
Proof. induction bs; simpl; auto. Qed.

Lemma pack_size_fold_fits : forall bs a0,
  a0 + blobs_size bs < U32 -> fold_left pack_size_step bs (Some a0) = Some (a0 + blobs_size bs).
Proof.
  induction bs as [|b bs IH]; intros a0 H; cbn [fold_left blobs_size fold_right] in *.
  - f_equal. lia.
  - fold (blobs_size bs) in *. unfold pack_size_step at 2. unfold u32_add.
    destruct (a0 + len (bloc b) <? U32) eqn:E1; [|lia].
    destruct (a0 + len (bloc b) + entry_len b <? U32) eqn:E2; [|lia].
    rewrite IH by lia. f_equal. lia.
Qed.

Lemma pack_size_is_spec : forall p s, pack_size p = Some s -> s = size_spec p.
Proof.
  unfold pack_size, size_spec, pack_size_computed. intros p s H.
  destruct (psize p); [inv H; reflexivity|].
  destruct (u32_add COMP_OVERHEAD LENGTH_LEN) as [a|] eqn:E.
  - apply pack_size_fold in H. apply u32_add_some in E. lia.
  - rewrite pack_size_fold_none in H. discriminate.
Qed.

Lemma pack_size_fits : forall p, size_fits p = true -> pack_size p = Some (size_spec p).
Proof.
  unfold size_fits, pack_size, size_spec, pack_size_computed. intros p H.
  destruct (psize p); [reflexivity|]. cbv beta iota in H.
  unfold u32_add at 1. cbv zeta.
  assert (blobs_size (blobs p) >= 0) by lia.
  destruct (COMP_OVERHEAD + LENGTH_LEN <? U32) eqn:E. 2:{ lia. }
  apply pack_size_fold_fits. lia.
Qed.

(* more on the checked pack size: Some exactly when the unbounded size fits u32 *)
Lemma pack_size_fold_lt : forall bs a0 r,
  fold_left pack_size_step bs (Some a0) = Some r -> a0 < U32 -> r < U32.
Proof.
  induction bs as [|b bs IH]; intros a0 r H Ha; cbn [fold_left] in H.
  - inv H. assumption.
  - unfold pack_size_step at 2 in H.
    destruct (u32_add a0 (len (bloc b))) as [a1|] eqn:E1; [|rewrite pack_size_fold_none in H; discriminate].
    destruct (u32_add a1 (entry_len b)) as [a2|] eqn:E2; [|rewrite pack_size_fold_none in H; discriminate].
    apply u32_add_some in E2. eapply IH; [exact H|lia].
Qed.

Lemma pack_size_some_fits : forall p s, pack_size p = Some s -> size_fits p = true.
Proof.
  intros p s H. pose proof (pack_size_is_spec p s H) as Hs. unfold size_fits, pack_size, pack_size_computed in *.
  destruct (psize p); [reflexivity|].
  destruct (u32_add COMP_OVERHEAD LENGTH_LEN) as [a|] eqn:E; [|rewrite pack_size_fold_none in H; discriminate].
  apply u32_add_some in E. apply pack_size_fold_lt in H; lia.
Qed.

Lemma pack_size_fits_iff : forall p, size_fits p = true <-> exists s, pack_size p = Some s.
Proof.
  intro p. split; [intro H; eexists; apply pack_size_fits; assumption|].
  intros (s & H). eapply pack_size_some_fits; eassumption.
Qed.

(* ------------------------------------------------------------------ the release build *)
Lemma wadd_mod : forall a b, u32_wadd (a mod U32) b = (a + b) mod U32.
Proof. intros a b. unfold u32_wadd. rewrite N.add_mod_idemp_l by (unfold U32; lia). reflexivity. Qed.

Lemma wrapping_fold : forall bs a0,
  fold_left (fun a b => u32_wadd (u32_wadd a (len (bloc b))) (entry_len b)) bs (a0 mod U32)
  = (a0 + blobs_size bs) mod U32.
Proof.
  induction bs as [|b bs IH]; intro a0; cbn [fold_left blobs_size fold_right].
  - f_equal. lia.
  - fold (blobs_size bs). rewrite !wadd_mod, IH. f_equal. lia.
Qed.

Lemma pack_size_wrapping_char : forall p, pack_size_wrapping p = size_release p.
Proof.
  intro p. unfold pack_size_wrapping, size_release, size_spec, pack_size_wrapping_computed.
  destruct (psize p); [reflexivity|].
  unfold u32_wadd at 3. apply wrapping_fold.
Qed.

(* the two builds compute the same size whenever the checked build does not panic *)
Lemma pack_size_builds_agree : forall p s, pack_size p = Some s -> pack_size_wrapping p = s.
Proof.
  intros p s H. rewrite pack_size_wrapping_char. pose proof (pack_size_some_fits p s H) as Hf.
  apply pack_size_is_spec in H. subst s. unfold size_release, size_fits, size_spec in *.
  destruct (psize p); [reflexivity|]. apply N.mod_small. lia.
Qed.

(* ------------------------------------------------------------------ entries of a pack list *)
Fixpoint entries_of (k : nat) (qs : list ipack) : list sentry :=
  match qs with
  | [] => []
  | p :: r => map (mk_entry k) (blobs p) ++ entries_of (S k) r
  end.
Definition ids_of (qs : list ipack) : list N := flat_map (fun p => map bid (blobs p)) qs.

Definition app_entries (e : entries) (k : nat) (qs : list ipack) : entries :=
  match e with
  | ENone => ENone
  | EIds l => EIds (l ++ ids_of qs)
  | EFull l => EFull (l ++ entries_of k qs)
  end.

Lemma bget_bset_same : forall A (m : btmap A) t v, bget (bset m t v) t = v.
Proof. intros A m [] v; reflexivity. Qed.
Lemma bget_bset_other : forall A (m : btmap A) t t' v, t <> t' -> bget (bset m t v) t' = bget m t'.
Proof. intros A m [] [] v H; try reflexivity; congruence. Qed.
Lemma bt_eqb_eq : forall a b, bt_eqb a b = true <-> a = b.
Proof. intros [] []; simpl; split; congruence. Qed.
Lemma bt_eqb_refl : forall a, bt_eqb a a = true.
Proof. intros []; reflexivity. Qed.

Definition mode_entries (m : imode) (t : blob_type) (qs : list ipack) : entries :=
  match t, m with
  | Tree, _ => EFull (entries_of 0 qs)
  | Data, Full => EFull (entries_of 0 qs)
  | Data, DataIds => EIds (ids_of qs)
  | Data, OnlyTrees => ENone
  end.

(* Generic in the build (psz: pack-size function, sz: the size it yields when it yields one,
   fits: when it yields one) and in the loader (ld: sections of a file fed to the collector). *)
#[local] Set Default Proof Using "All".
Section Gen.
  Variable psz : ipack -> option N.
  Variable sz : ipack -> N.
  Variable fits : ipack -> bool.
  Hypothesis psz_sz : forall p s, psz p = Some s -> s = sz p.
  Hypothesis psz_fits : forall p, fits p = true <-> exists s, psz p = Some s.
  Variable ld : ifile -> list ipack.

  Definition tc_after (tc0 : tcoll) (qs : list ipack) (tc : tcoll) : Prop :=
    c_packs tc = c_packs tc0 ++ map (fun p => (pid p, sz p)) qs /\
    c_entries tc = app_entries (c_entries tc0) (length (c_packs tc0)) qs /\
    c_total tc = c_total tc0 + sum_sizes_by sz qs.

  Lemma tc_after_nil : forall tc, tc_after tc [] tc.
  Proof.
    intro tc. unfold tc_after. cbn. rewrite app_nil_r. repeat split; try lia.
    destruct (c_entries tc); cbn; rewrite ?app_nil_r; reflexivity.
  Qed.

  Lemma extend_none : forall ps, fold_left (extend_step_with psz) ps None = None.
  Proof. induction ps; simpl; auto. Qed.

  Lemma extend_char : forall ps c0 c, extend_with psz c0 ps = Some c ->
    forall t, tc_after (bget c0 t) (packs_of_type t ps) (bget c t).
  Proof.
    unfold extend_with. induction ps as [|p ps IH]; intros c0 c H t; cbn [fold_left] in H.
    - inv H. apply tc_after_nil.
    - cbn [extend_step_with] in H. destruct (extend_one_with psz c0 p) as [c1|] eqn:E1;
        [|rewrite extend_none in H; discriminate].
      specialize (IH c1 c H t). clear H.
      unfold extend_one_with in E1. destruct (psz p) as [s|] eqn:Es; [|discriminate].
      apply psz_sz in Es. subst s.
      destruct (N.of_nat _ <? U32) eqn:El; [|discriminate]. inv E1.
      cbn [packs_of_type filter]. fold (packs_of_type t ps).
      destruct (bt_eqb (pack_type p) t) eqn:Et.
      + apply bt_eqb_eq in Et. subst t. rewrite bget_bset_same in IH.
        destruct IH as (I1 & I2 & I3). cbn [c_packs c_entries c_total] in *.
        unfold tc_after. cbn [map sum_sizes_by fold_right]. fold (sum_sizes_by sz (packs_of_type (pack_type p) ps)).
        split; [|split].
        * rewrite I1, <- app_assoc. reflexivity.
        * rewrite I2. rewrite app_length. cbn [length]. replace (_ + 1)%nat with (S (length (c_packs (bget c0 (pack_type p))))) by lia.
          destruct (c_entries (bget c0 (pack_type p))); cbn [app_entries entries_of ids_of flat_map];
            rewrite <- ?app_assoc; reflexivity.
        * rewrite I3. lia.
      + rewrite bget_bset_other in IH; [exact IH|].
        intro Hc. subst t. rewrite bt_eqb_refl in Et. discriminate.
  Qed.

  (* two extend calls in a row = one extend with the concatenation *)
  Lemma extend_app : forall ps qs c, extend_with psz c (ps ++ qs) =
    match extend_with psz c ps with Some c1 => extend_with psz c1 qs | None => None end.
  Proof.
    unfold extend_with. intros. rewrite fold_left_app.
    destruct (fold_left (extend_step_with psz) ps (Some c)); [reflexivity|apply extend_none].
  Qed.

  Lemma load_none : forall fs, fold_left (load_step_with psz ld) fs None = None.
  Proof. induction fs; simpl; auto. Qed.

  Lemma collect_is_extend : forall files c,
    fold_left (load_step_with psz ld) files (Some c) = extend_with psz c (flat_map ld files).
  Proof.
    induction files as [|f fs IH]; intro c; cbn [fold_left flat_map].
    - reflexivity.
    - rewrite extend_app. cbn [load_step_with]. destruct (extend_with psz c (ld f)); [apply IH|apply load_none].
  Qed.

  Lemma collect_char : forall m files c, collect_gen psz ld m files = Some c ->
    forall t, let qs := packs_of_type t (flat_map ld files) in
      c_packs (bget c t) = map (fun p => (pid p, sz p)) qs /\
      c_entries (bget c t) = mode_entries m t qs /\
      c_total (bget c t) = sum_sizes_by sz qs.
  Proof.
    intros m files c H t qs. unfold collect_gen in H. rewrite collect_is_extend in H.
    destruct (extend_char _ _ _ H t) as (I1 & I2 & I3). fold qs in I1, I2, I3.
    split; [|split].
    - rewrite I1. destruct t; reflexivity.
    - rewrite I2. destruct t, m; reflexivity.
    - rewrite I3. destruct t; cbn; lia.
  Qed.

  (* definedness: exactly when every size is defined and the pack counters fit *)
  Lemma extend_defined : forall ps c0,
    forallb fits ps = true ->
    (forall t, N.of_nat (length (c_packs (bget c0 t)) + length (packs_of_type t ps)) <= U32) ->
    exists c, extend_with psz c0 ps = Some c.
  Proof.
    unfold extend_with. induction ps as [|p ps IH]; intros c0 Hf Hl; cbn [fold_left].
    - eexists; reflexivity.
    - cbn [forallb] in Hf. apply andb_prop in Hf. destruct Hf as (Hp & Hf).
      cbn [extend_step_with]. unfold extend_one_with.
      destruct (proj1 (psz_fits p) Hp) as (s & ->).
      pose proof (Hl (pack_type p)) as Hlp. cbn [packs_of_type filter] in Hlp.
      rewrite bt_eqb_refl in Hlp. cbn [length] in Hlp.
      destruct (N.of_nat (length (c_packs (bget c0 (pack_type p)))) <? U32) eqn:E; [|lia].
      apply IH; [assumption|].
      intro t. specialize (Hl t). cbn [packs_of_type filter] in Hl. fold (packs_of_type t ps) in Hl.
      destruct (bt_eqb (pack_type p) t) eqn:Et.
      + apply bt_eqb_eq in Et. subst t. rewrite bget_bset_same. cbn [c_packs]. rewrite app_length.
        cbn [length] in *. lia.
      + rewrite bget_bset_other; [exact Hl|].
        intro Hc. subst t. rewrite bt_eqb_refl in Et. discriminate.
  Qed.

  Lemma extend_defined_conv : forall ps c0 c,
    (forall t, N.of_nat (length (c_packs (bget c0 t))) <= U32) ->
    extend_with psz c0 ps = Some c ->
    forallb fits ps = true /\
    (forall t, N.of_nat (length (c_packs (bget c0 t)) + length (packs_of_type t ps)) <= U32).
  Proof.
    unfold extend_with. induction ps as [|p ps IH]; intros c0 c H0 H; cbn [fold_left] in H.
    - split; [reflexivity|]. intro t. specialize (H0 t). cbn. lia.
    - cbn [extend_step_with] in H. destruct (extend_one_with psz c0 p) as [c1|] eqn:E1;
        [|rewrite extend_none in H; discriminate].
      unfold extend_one_with in E1. destruct (psz p) as [s|] eqn:Es; [|discriminate].
      destruct (N.of_nat _ <? U32) eqn:El; [|discriminate]. inv E1.
      match type of H with fold_left _ _ (Some ?cc) = _ => set (c1 := cc) in * end.
      assert (H1 : forall t, N.of_nat (length (c_packs (bget c1 t))) <= U32).
      { intro t. subst c1. destruct (bt_eqb (pack_type p) t) eqn:Et.
        - apply bt_eqb_eq in Et. subst t. rewrite bget_bset_same. cbn [c_packs]. rewrite app_length. cbn [length]. lia.
        - rewrite bget_bset_other; [apply H0|]. intro Hc. subst t. rewrite bt_eqb_refl in Et. discriminate. }
      destruct (IH c1 c H1 H) as (Hf & Hl). split.
      + cbn [forallb]. rewrite Hf. rewrite (proj2 (psz_fits p)) by eauto. reflexivity.
      + intro t. specialize (Hl t). cbn [packs_of_type filter]. fold (packs_of_type t ps). subst c1.
        destruct (bt_eqb (pack_type p) t) eqn:Et.
        * apply bt_eqb_eq in Et. subst t. rewrite bget_bset_same in Hl. cbn [c_packs] in Hl.
          rewrite app_length in Hl. cbn [length] in *. lia.
        * rewrite bget_bset_other in Hl; [exact Hl|]. intro Hc. subst t. rewrite bt_eqb_refl in Et. discriminate.
  Qed.

  Lemma collect_defined_iff : forall m files,
    (exists c, collect_gen psz ld m files = Some c) <->
    (forallb fits (flat_map ld files) = true /\
     forall t, N.of_nat (length (packs_of_type t (flat_map ld files))) <= U32).
  Proof.
    intros m files. unfold collect_gen. rewrite collect_is_extend. split.
    - intros (c & H). apply extend_defined_conv in H.
      + destruct H as (Hf & Hl). split; [assumption|]. intro t. specialize (Hl t).
        destruct t, m; cbn in Hl; lia.
      + intro t. destruct t, m; cbn; unfold U32; lia.
    - intros (Hf & Hl). apply extend_defined; [assumption|].
      intro t. specialize (Hl t). destruct t, m; cbn; lia.
  Qed.
End Gen.

Lemma loaded_is_unmarked : forall files, flat_map loaded_packs files = unmarked files.
Proof.
  intro files. unfold unmarked. apply flat_map_ext. intro f. unfold loaded_packs.
  cbn. apply app_nil_r.
Qed.

Lemma prune_loaded_is_all : forall files, flat_map prune_loaded_packs files = all_packs files.
Proof. intro files. unfold all_packs. apply flat_map_ext. intro f. reflexivity. Qed.

Lemma release_sz : forall p s, pack_size_release p = Some s -> s = size_release p.
Proof. unfold pack_size_release. intros p s H. inv H. apply pack_size_wrapping_char. Qed.
Lemma release_fits : forall p, (fun _ : ipack => true) p = true <-> exists s, pack_size_release p = Some s.
Proof. intro p. split; [intros _; eexists; reflexivity|reflexivity]. Qed.

(* membership in entries_of *)
Lemma in_entries_of : forall qs k e, In e (entries_of k qs) <->
  exists i p b, nth_error qs i = Some p /\ In b (blobs p) /\ e = mk_entry (k + i) b.
Proof.
  induction qs as [|q qs IH]; intros k e; cbn [entries_of].
  - split; [intros []|]. intros (i & p & b & H & _). destruct i; discriminate.
  - rewrite in_app_iff, in_map_iff, IH. split.
    + intros [(b & He & Hb)|(i & p & b & Hn & Hb & He)].
      * exists 0%nat, q, b. rewrite Nat.add_0_r. auto.
      * exists (S i), p, b. cbn [nth_error]. replace (k + S i)%nat with (S k + i)%nat by lia. auto.
    + intros (i & p & b & Hn & Hb & He). destruct i as [|i]; cbn [nth_error] in Hn.
      * inv Hn. left. exists b. rewrite Nat.add_0_r. auto.
      * right. exists i, p, b. replace (S k + i)%nat with (k + S i)%nat by lia. auto.
Qed.

Lemma entries_of_ids : forall qs k, map e_id (entries_of k qs) = ids_of qs.
Proof.
  induction qs as [|q qs IH]; intro k; cbn [entries_of ids_of flat_map]; [reflexivity|].
  rewrite map_app, map_map. cbn [mk_entry e_id]. fold (ids_of qs). rewrite IH. reflexivity.
Qed.

Lemma in_ids_of : forall qs id, In id (ids_of qs) <-> existsb (lists_id id) qs = true.
Proof.
  intros qs id. unfold ids_of. rewrite in_flat_map, existsb_exists. split.
  - intros (p & Hp & Hi). exists p. split; [assumption|]. unfold lists_id. rewrite existsb_exists.
    apply in_map_iff in Hi. destruct Hi as (b & Hb & Hin). exists b. split; [assumption|lia].
  - intros (p & Hp & Hl). exists p. split; [assumption|]. unfold lists_id in Hl. rewrite existsb_exists in Hl.
    destruct Hl as (b & Hb & He). apply in_map_iff. exists b. split; [lia|assumption].
Qed.
