(* C17 — the model instantiated with the executable merge sorts (what is extracted and run). *)
From Verif.Base Require Import Tactics.
From Verif.C17 Require Import Base17 Extracted Sorts Model.
Local Open Scope N_scope.

Definition index_of (m : imode) (files : list ifile) : option index :=
  index_of_with msort_entries_by_id msort_ids m files.
Definition into_iter (ix : index) : list ipack := into_iter_with msort_entries_by_pack ix.

(* ids on the wire: 8 leading bytes `hi`, 16 zero bytes, 8 trailing bytes `lo` *)
Definition mkid (hi lo : N) : N := hi * 2 ^ 192 + lo.
Definition id_hi (i : N) : N := i / 2 ^ 192.
Definition id_lo (i : N) : N := i mod 2 ^ 192.

(* the shared OCaml prelude converts to Z as well; make sure the type is extracted *)
Definition z_unused : Z := 0%Z.

(* release build of the same loader; prune's own index *)
Definition index_of_release (m : imode) (files : list ifile) : option index :=
  index_of_release_with msort_entries_by_id msort_ids m files.
Definition prune_index_of (files : list ifile) : option index :=
  prune_index_of_with msort_entries_by_id msort_ids files.
Definition prune_index_of_release (files : list ifile) : option index :=
  index_of_gen pack_size_release prune_loaded_packs msort_entries_by_id msort_ids PRUNE_INDEX_TYPE files.
