(* C17 — declarative specification (executable: it is also the oracle of the correspondence).
   "Listed" means: some index file lists, in its `packs` section (not `packs_to_delete`), a pack
   of the queried type that contains a blob with the queried id.  The type of a pack is the type
   of its first blob (see NOTES.md, mixed packs). *)
From Verif.Base Require Import Tactics.
From Verif.C17 Require Import Base17 Extracted Model.
Local Open Scope N_scope.

Definition unmarked (files : list ifile) : list ipack := flat_map packs files.
Definition packs_of_type (t : blob_type) (ps : list ipack) : list ipack :=
  filter (fun p => bt_eqb (pack_type p) t) ps.
Definition lists_id (id : N) (p : ipack) : bool := existsb (fun b => bid b =? id) (blobs p).

(* presence, over an arbitrary list of source packs *)
Definition listed_in (src : list ipack) (t : blob_type) (id : N) : bool :=
  existsb (lists_id id) (packs_of_type t src).
Definition listed (files : list ifile) (t : blob_type) (id : N) : bool :=
  listed_in (unmarked files) t id.
(* all (pack, location) pairs under which the blob is listed *)
Definition pack_listings (id : N) (p : ipack) : list (N * loc) :=
  map (fun b => (pid p, bloc b)) (filter (fun b => bid b =? id) (blobs p)).
Definition listings_in (src : list ipack) (t : blob_type) (id : N) : list (N * loc) :=
  flat_map (pack_listings id) (packs_of_type t src).
Definition listings (files : list ifile) (t : blob_type) (id : N) : list (N * loc) :=
  listings_in (unmarked files) t id.

(* sizes, in unbounded arithmetic *)
Definition blobs_size (bs : list iblob) : N :=
  fold_right (fun b a => len (bloc b) + entry_len b + a) 0 bs.
Definition size_spec (p : ipack) : N :=
  match psize p with Some s => s | None => COMP_OVERHEAD + LENGTH_LEN + blobs_size (blobs p) end.
Definition sum_sizes_by (sz : ipack -> N) (ps : list ipack) : N := fold_right (fun p a => sz p + a) 0 ps.
Definition sum_sizes (ps : list ipack) : N := sum_sizes_by size_spec ps.
Definition total_in (src : list ipack) (t : blob_type) : N := sum_sizes (packs_of_type t src).
Definition total_spec (files : list ifile) (t : blob_type) : N := total_in (unmarked files) t.

(* both sections of every file, in the order prune feeds them to its collector *)
Definition all_packs (files : list ifile) : list ipack :=
  flat_map (fun f => packs f ++ packs_to_delete f) files.
Definition listed_anywhere (files : list ifile) (t : blob_type) (id : N) : bool :=
  listed_in (all_packs files) t id.

(* what a release build reports as the size of a pack: the header-derived size modulo 2^32 *)
Definition size_release (p : ipack) : N :=
  match psize p with Some s => s | None => size_spec p mod U32 end.
Definition total_release (files : list ifile) (t : blob_type) : N :=
  sum_sizes_by size_release (packs_of_type t (unmarked files)).

(* inputs on which the checked build does not panic *)
Definition size_fits (p : ipack) : bool :=
  match psize p with Some _ => true | None => size_spec p <? U32 end.
Definition count_fits (src : list ipack) (t : blob_type) : bool :=
  N.of_nat (length (packs_of_type t src)) <=? U32.
Definition no_overflow_in (src : list ipack) : bool :=
  forallb size_fits src && count_fits src Tree && count_fits src Data.
Definition no_overflow (files : list ifile) : bool := no_overflow_in (unmarked files).
(* the release build only panics on the pack counter *)
Definition counts_fit (files : list ifile) : bool :=
  count_fits (unmarked files) Tree && count_fits (unmarked files) Data.
(* explicit sizes are u32 values (the type of IndexPack::size) *)
Definition sizes_are_u32 (src : list ipack) : bool :=
  forallb (fun p => match psize p with Some s => s <? U32 | None => true end) src.

(* the reading by the blob's own listed type, and the packs on which both readings agree *)
Definition listed_by_blob_type (files : list ifile) (t : blob_type) (id : N) : bool :=
  existsb (fun p => existsb (fun b => bt_eqb (btpe b) t && (bid b =? id)) (blobs p)) (unmarked files).
Definition homogeneous (p : ipack) : bool :=
  forallb (fun b => bt_eqb (btpe b) (pack_type p)) (blobs p).
Definition all_homogeneous (files : list ifile) : bool := forallb homogeneous (unmarked files).

(* what into_iter gives back for one loaded pack: same id, the blobs re-labelled with the pack type,
   no explicit size *)
Definition retyped (p : ipack) : list iblob :=
  map (fun b => {| bid := bid b; btpe := pack_type p; bloc := bloc b |}) (blobs p).
