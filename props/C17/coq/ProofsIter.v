(* C17 — into_iter gives the loaded packs back: per type, the same pack ids in the same order,
   and in each pack slot a permutation of the blobs that were loaded for it (re-labelled with the
   pack type; nothing where the mode keeps no locations). *)
From Verif.Base Require Import Tactics.
From Verif.C17 Require Import Base17 Extracted Model Spec ProofsSearch ProofsCollect Proofs.
Local Open Scope N_scope.

Definition keeps_full (m : imode) (t : blob_type) : bool :=
  match m, t with Full, _ => true | _, Tree => true | _, Data => false end.

Definition at_pack (k : nat) (e : sentry) : bool := (e_pack e =? k)%nat.
Definition le_pack (a b : sentry) : Prop := (e_pack a <= e_pack b)%nat.

Lemma Permutation_filter_ : forall A (f : A -> bool) l l',
  Permutation l l' -> Permutation (filter f l) (filter f l').
Proof.
  induction 1; cbn [filter].
  - constructor.
  - destruct (f x); auto.
  - destruct (f x), (f y); auto using perm_swap, Permutation_refl.
  - eapply perm_trans; eauto.
Qed.

Lemma filter_none : forall A (f : A -> bool) l, (forall x, In x l -> f x = false) -> filter f l = [].
Proof.
  induction l as [|a l IH]; intro H; cbn [filter]; [reflexivity|].
  rewrite (H a) by (left; reflexivity). apply IH. intros x Hx. apply H. right. assumption.
Qed.

Lemma filter_all : forall A (f : A -> bool) l, (forall x, In x l -> f x = true) -> filter f l = l.
Proof.
  induction l as [|a l IH]; intro H; cbn [filter]; [reflexivity|].
  rewrite (H a) by (left; reflexivity). f_equal. apply IH. intros x Hx. apply H. right. assumption.
Qed.

Lemma filter_filter_imp : forall A (f g : A -> bool) l,
  (forall x, f x = true -> g x = true) -> filter f (filter g l) = filter f l.
Proof.
  induction l as [|a l IH]; intro H; cbn [filter]; [reflexivity|].
  destruct (g a) eqn:Eg; cbn [filter].
  - destruct (f a); rewrite IH by assumption; reflexivity.
  - destruct (f a) eqn:Ef; [rewrite (H a Ef) in Eg; discriminate|]. apply IH. assumption.
Qed.

Lemma StronglySorted_filter : forall A (R : A -> A -> Prop) (f : A -> bool) l,
  StronglySorted R l -> StronglySorted R (filter f l).
Proof.
  induction 1 as [|a l Hs IH Hf]; cbn [filter]; [constructor|].
  destruct (f a); [|assumption]. constructor; [assumption|].
  rewrite Forall_forall in *. intros x Hx. apply filter_In in Hx. apply Hf. tauto.
Qed.

(* the inner while loop on a list sorted by pack index *)
Lemma span_pack_sorted : forall L k, StronglySorted le_pack L ->
  (forall e, In e L -> (k <= e_pack e)%nat) ->
  span_pack k L = (filter (at_pack k) L, filter (fun e => negb (at_pack k e)) L).
Proof.
  induction L as [|e r IH]; intros k Hs Hk; cbn [span_pack filter]; [reflexivity|].
  inversion Hs as [|? ? Hs' Hf]; subst. rewrite Forall_forall in Hf.
  change (e_pack e =? k)%nat with (at_pack k e).
  destruct (at_pack k e) eqn:E; cbn [negb]; unfold at_pack in E.
  - rewrite IH; [reflexivity|assumption|]. intros x Hx. apply Hk. right. assumption.
  - assert (Hgt : (k < e_pack e)%nat) by (specialize (Hk e (or_introl eq_refl)); lia).
    rewrite filter_none, filter_all; [reflexivity| |].
    + intros x Hx. specialize (Hf x Hx). unfold le_pack in Hf. unfold at_pack. lia.
    + intros x Hx. specialize (Hf x Hx). unfold le_pack in Hf. unfold at_pack. lia.
Qed.

Definition mk_pack (t : blob_type) (p : N) (es : list sentry) : ipack :=
  {| pid := p; blobs := map (entry_blob t) es; psize := None |}.

Fixpoint iter_spec (t : blob_type) (pks : list N) (k : nat) (L : list sentry) : list ipack :=
  match pks with
  | [] => []
  | p :: ps => mk_pack t p (filter (at_pack k) L) :: iter_spec t ps (S k) L
  end.

Lemma iter_spec_drop : forall t ps k k' L, (k < k')%nat ->
  iter_spec t ps k' (filter (fun e => negb (at_pack k e)) L) = iter_spec t ps k' L.
Proof.
  induction ps as [|p ps IH]; intros k k' L H; cbn [iter_spec]; [reflexivity|].
  rewrite IH by lia. f_equal. f_equal. apply filter_filter_imp.
  intros x Hx. unfold at_pack in *. lia.
Qed.

Lemma iter_packs_spec : forall t pks k L, StronglySorted le_pack L ->
  (forall e, In e L -> (k <= e_pack e)%nat) ->
  iter_packs t pks k L = iter_spec t pks k L.
Proof.
  induction pks as [|p ps IH]; intros k L Hs Hk; cbn [iter_packs iter_spec]; [reflexivity|].
  rewrite span_pack_sorted by assumption. unfold mk_pack. f_equal.
  rewrite IH.
  - apply iter_spec_drop. lia.
  - apply StronglySorted_filter. assumption.
  - intros e He. apply filter_In in He. destruct He as (He & Hn). specialize (Hk e He).
    unfold at_pack in Hn. lia.
Qed.

Lemma filter_at_mk : forall k j bs,
  filter (at_pack j) (map (mk_entry k) bs) = if (k =? j)%nat then map (mk_entry k) bs else [].
Proof.
  intros k j bs. destruct (k =? j)%nat eqn:E.
  - apply filter_all. intros x Hx. apply in_map_iff in Hx. destruct Hx as (b & <- & _). unfold at_pack. cbn. lia.
  - apply filter_none. intros x Hx. apply in_map_iff in Hx. destruct Hx as (b & <- & _). unfold at_pack. cbn. lia.
Qed.

Lemma entries_of_ge : forall qs k e, In e (entries_of k qs) -> (k <= e_pack e)%nat.
Proof.
  intros qs k e H. apply in_entries_of in H. destruct H as (i & p & b & _ & _ & ->). cbn. lia.
Qed.

Lemma iter_spec_entries : forall t qs k L,
  (forall p, In p qs -> pack_type p = t) ->
  (forall j, (k <= j)%nat -> Permutation (filter (at_pack j) L) (filter (at_pack j) (entries_of k qs))) ->
  Forall2 (fun p q => pid q = pid p /\ psize q = None /\ Permutation (blobs q) (retyped p))
          qs (iter_spec t (map pid qs) k L).
Proof.
  induction qs as [|p r IH]; intros k L Ht HP; cbn [map iter_spec]; constructor.
  - cbn [mk_pack pid psize blobs]. split; [reflexivity|]. split; [reflexivity|].
    specialize (HP k (le_n k)). cbn [entries_of] in HP. rewrite filter_app, filter_at_mk, Nat.eqb_refl in HP.
    rewrite (filter_none _ _ (entries_of (S k) r)), app_nil_r in HP.
    2:{ intros x Hx. apply entries_of_ge in Hx. unfold at_pack. lia. }
    apply Permutation_map with (f := entry_blob t) in HP. rewrite map_map in HP.
    unfold retyped. rewrite (Ht p (or_introl eq_refl)). exact HP.
  - apply IH.
    + intros q Hq. apply Ht. right. assumption.
    + intros j Hj. specialize (HP j ltac:(lia)). cbn [entries_of] in HP.
      rewrite filter_app, filter_at_mk in HP. destruct (k =? j)%nat eqn:E; [lia|]. exact HP.
Qed.

Lemma iter_packs_nil : forall t qs k,
  Forall2 (fun p q => pid q = pid p /\ psize q = None /\ Permutation (blobs q) [])
          qs (iter_packs t (map pid qs) k []).
Proof.
  induction qs as [|p r IH]; intro k; cbn [map iter_packs span_pack]; constructor; [|apply IH].
  cbn. auto.
Qed.

Section WithSorts.
  Variable sort_p : list sentry -> list sentry.
  Variable sort_e : list sentry -> list sentry.
  Variable sort_i : list N -> list N.
  Hypothesis sort_p_ok : sort_ok (fun e => N.of_nat (e_pack e)) sort_p.
  Hypothesis sort_e_ok : sort_ok e_id sort_e.

  Lemma into_iter_lemma : forall m files ix, index_of_with sort_e sort_i m files = Some ix ->
    forall t, Forall2 (fun p q => pid q = pid p /\ psize q = None /\
                                  Permutation (blobs q) (if keeps_full m t then retyped p else []))
                      (packs_of_type t (unmarked files)) (iter_type sort_p ix t).
  Proof.
    intros m files ix H t. destruct (index_char_dbg sort_e sort_i _ _ _ H t) as (I1 & I2 & _).
    unfold iter_type. rewrite I1, I2.
    set (qs := packs_of_type t (unmarked files)).
    assert (Full_case : Forall2 (fun p q => pid q = pid p /\ psize q = None /\ Permutation (blobs q) (retyped p))
                                qs (iter_packs t (map pid qs) 0 (sort_p (sort_e (entries_of 0 qs))))).
    { destruct (sort_p_ok (sort_e (entries_of 0 qs))) as (Pp & Sp).
      destruct (sort_e_ok (entries_of 0 qs)) as (Pe & _).
      rewrite iter_packs_spec.
      - apply iter_spec_entries.
        + intros p Hp. apply filter_In in Hp. apply bt_eqb_eq. tauto.
        + intros j _. apply Permutation_filter_. symmetry. eapply perm_trans; eassumption.
      - apply Sorted_StronglySorted; [intros x y z; unfold le_pack; lia|].
        clear -Sp. induction Sp as [|a l Hs IH Hh]; constructor; [assumption|].
        destruct Hh; constructor. unfold le_pack. lia.
      - intros; lia. }
    destruct t, m; cbn [keeps_full mode_entries sorted_entries_with]; try exact Full_case; apply iter_packs_nil.
  Qed.
End WithSorts.
