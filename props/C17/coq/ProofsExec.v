(* C17 — the executable merge sorts are correct sorts, so every theorem applies to the
   extracted model (Exec.index_of / Exec.into_iter). *)
From Verif.Base Require Import Tactics.
From Coq Require Import Mergesort.
From Verif.C17 Require Import Base17 Extracted Sorts Model Spec ProofsSearch ProofsCollect Proofs Exec.
Local Open Scope N_scope.

Lemma Sorted_impl : forall A (R R' : A -> A -> Prop) l,
  (forall a b, R a b -> R' a b) -> Sorted R l -> Sorted R' l.
Proof.
  intros A R R' l HR. induction 1 as [|a l Hs IH Hh]; constructor; [assumption|].
  destruct Hh; constructor; auto.
Qed.

Lemma msort_entries_by_id_ok : sort_ok e_id msort_entries_by_id.
Proof.
  intro l. split; [apply EntryIdSort.Permuted_sort|].
  eapply Sorted_impl; [|apply EntryIdSort.Sorted_sort].
  intros a b H. unfold is_true, EntryIdOrder.leb in H. lia.
Qed.

Lemma msort_ids_ok : sort_ok (fun x => x) msort_ids.
Proof.
  intro l. split; [apply IdSort.Permuted_sort|].
  eapply Sorted_impl; [|apply IdSort.Sorted_sort].
  intros a b H. unfold is_true, IdOrder.leb in H. lia.
Qed.

Lemma msort_entries_by_pack_ok : sort_ok (fun e => N.of_nat (e_pack e)) msort_entries_by_pack.
Proof.
  intro l. split; [apply EntryPackSort.Permuted_sort|].
  eapply Sorted_impl; [|apply EntryPackSort.Sorted_sort].
  intros a b H. unfold is_true, EntryPackOrder.leb in H. lia.
Qed.
