(* C17 — executable model of the in-memory index (definitions only).
   Anchors:
     crates/core/src/repofile/indexfile.rs   IndexPack::blob_type, IndexPack::pack_size
     crates/core/src/repofile/packfile.rs    PackHeaderRef::pack_size, HeaderEntry::length
     crates/core/src/index/binarysorted.rs   IndexCollector::{new, extend, into_index},
                                             ReadIndex for Index {get_id, has, total_size},
                                             IntoIterator for Index / PackIndexes::next
     crates/core/src/index.rs                GlobalIndex::new_from_collector
   Constants and the two small decision facts come from Extracted.v (regenerated from
   the source on every run). *)
From Verif.Base Require Import Tactics.
From Verif.C17 Require Import Base17 Extracted.
Local Open Scope N_scope.

(* ---------------------------------------------------------------- u32 arithmetic *)
Definition U32 : N := 4294967296.
(* checked add of the debug build: None = "attempt to add with overflow" *)
Definition u32_add (a b : N) : option N := let r := a + b in if r <? U32 then Some r else None.

(* ---------------------------------------------------------------- IndexPack *)
(* IndexPack::blob_type: type of the first blob; a pack without blobs counts as Data *)
Definition pack_type (p : ipack) : blob_type :=
  match blobs p with [] => EMPTY_PACK_TYPE | b :: _ => btpe b end.

(* HeaderEntry::from_blob(blob).length() *)
Definition entry_len (b : iblob) : N :=
  match ulen (bloc b) with None => ENTRY_LEN | Some _ => ENTRY_LEN_COMPRESSED end.

(* PackHeaderRef::pack_size: fold(COMP_OVERHEAD + LENGTH_LEN, |acc, blob| acc + length + entry_len) in u32 *)
Definition pack_size_step (acc : option N) (b : iblob) : option N :=
  match acc with
  | None => None
  | Some a => match u32_add a (len (bloc b)) with
              | None => None
              | Some a1 => u32_add a1 (entry_len b)
              end
  end.
Definition pack_size_computed (bs : list iblob) : option N :=
  fold_left pack_size_step bs (u32_add COMP_OVERHEAD LENGTH_LEN).
(* IndexPack::pack_size: self.size.unwrap_or_else(computed) *)
Definition pack_size (p : ipack) : option N :=
  match psize p with Some s => Some s | None => pack_size_computed (blobs p) end.

(* ---------------------------------------------------------------- collector *)
Inductive entries := ENone | EIds (l : list N) | EFull (l : list sentry).
(* TypeIndexCollector { packs: Vec<(PackId, u32)>, entries, total_size: u64 } *)
Record tcoll := { c_packs : list (N * N); c_entries : entries; c_total : N }.
(* BlobTypeMap<T> *)
Record btmap (A : Type) := { m_tree : A; m_data : A }.
Arguments m_tree {A}. Arguments m_data {A}.
Definition bget {A} (m : btmap A) (t : blob_type) : A :=
  match t with Tree => m_tree m | Data => m_data m end.
Definition bset {A} (m : btmap A) (t : blob_type) (v : A) : btmap A :=
  match t with Tree => {| m_tree := v; m_data := m_data m |}
             | Data => {| m_tree := m_tree m; m_data := v |} end.
Definition bmap {A B} (f : blob_type -> A -> B) (m : btmap A) : btmap B :=
  {| m_tree := f Tree (m_tree m); m_data := f Data (m_data m) |}.


(* IndexCollector::new *)
Definition collector_new (m : imode) : btmap tcoll :=
  {| m_tree := {| c_packs := []; c_entries := EFull []; c_total := 0 |};
     m_data := {| c_packs := []; c_entries := match m with
                                               | OnlyTrees => ENone
                                               | DataIds => EIds []
                                               | Full => EFull []
                                               end; c_total := 0 |} |}.

Definition mk_entry (idx : nat) (b : iblob) : sentry :=
  {| e_id := bid b; e_pack := idx; e_loc := bloc b |}.

(* one iteration of the loop of `impl Extend<IndexPack> for IndexCollector`;
   None = panic (pack-size overflow in the checked build, or "pack count doesn't fit into u32") *)
Definition extend_one_with (psz : ipack -> option N) (c : btmap tcoll) (p : ipack) : option (btmap tcoll) :=
  let bt := pack_type p in
  match psz p with
  | None => None
  | Some size =>
    let tc := bget c bt in
    let idx := length (c_packs tc) in
    if N.of_nat idx <? U32 then
      let ents := match c_entries tc with
                  | ENone => ENone
                  | EIds l => EIds (l ++ map bid (blobs p))
                  | EFull l => EFull (l ++ map (mk_entry idx) (blobs p))
                  end in
      Some (bset c bt {| c_packs := c_packs tc ++ [(pid p, size)];
                         c_entries := ents;
                         c_total := c_total tc + size |})
    else None
  end.
Definition extend_step_with (psz : ipack -> option N) (oc : option (btmap tcoll)) (p : ipack) : option (btmap tcoll) :=
  match oc with None => None | Some c => extend_one_with psz c p end.
Definition extend_with (psz : ipack -> option N) (c : btmap tcoll) (ps : list ipack) : option (btmap tcoll) :=
  fold_left (extend_step_with psz) ps (Some c).
(* the checked (debug) build *)
Definition extend_one := extend_one_with pack_size.
Definition extend_step := extend_step_with pack_size.
Definition extend := extend_with pack_size.

(* the release build: u32 additions wrap, nothing panics in pack_size *)
Definition u32_wadd (a b : N) : N := (a + b) mod U32.
Definition pack_size_wrapping_computed (bs : list iblob) : N :=
  fold_left (fun a b => u32_wadd (u32_wadd a (len (bloc b))) (entry_len b)) bs (u32_wadd COMP_OVERHEAD LENGTH_LEN).
Definition pack_size_wrapping (p : ipack) : N :=
  match psize p with Some s => s | None => pack_size_wrapping_computed (blobs p) end.
Definition pack_size_release (p : ipack) : option N := Some (pack_size_wrapping p).

(* ---------------------------------------------------------------- index *)
(* TypeIndex { packs: Vec<PackId>, entries, total_size } *)
Record tindex := { i_packs : list N; i_entries : entries; i_total : N }.
Definition index := btmap tindex.

(* IndexCollector::into_index with the two sorts as parameters
   (par_sort_unstable_by_key(|e| e.id) for entries, par_sort_unstable for ids) *)
Definition into_index_with (sort_e : list sentry -> list sentry) (sort_i : list N -> list N)
           (c : btmap tcoll) : index :=
  bmap (fun _ tc =>
          {| i_packs := map fst (c_packs tc);
             i_entries := match c_entries tc with
                          | ENone => ENone
                          | EIds l => EIds (sort_i l)
                          | EFull l => EFull (sort_e l)
                          end;
             i_total := c_total tc |}) c.

(* slice::binary_search_by of the pinned toolchain (size-halving loop, no early exit),
   on the list of keys.  `fuel` = length is enough (Proofs: bs_loop_inv).  Only the
   Ok(index) result is used by the callers (`.ok()`, `.is_ok()`), Err(_) is None here. *)
Fixpoint bs_loop (fuel : nat) (ks : list N) (t : N) (base size : nat) : nat :=
  match fuel with
  | O => base
  | S f =>
    if (size <=? 1)%nat then base
    else
      let half := (size / 2)%nat in
      let mid := (base + half)%nat in
      (* cmp = f(self[mid]); base = if cmp == Greater { base } else { mid } *)
      let base' := if t <? nth mid ks 0 then base else mid in
      bs_loop f ks t base' (size - half)%nat
  end.
Definition bsearch (ks : list N) (t : N) : option nat :=
  match ks with
  | [] => None
  | _ => let base := bs_loop (length ks) ks t 0%nat (length ks) in
         if nth base ks 0 =? t then Some base else None
  end.

Definition is_some {A} (o : option A) : bool := match o with Some _ => true | None => false end.

(* ReadIndex::has *)
Definition has (ix : index) (t : blob_type) (id : N) : bool :=
  match i_entries (bget ix t) with
  | EFull l => is_some (bsearch (map e_id l) id)
  | EIds l => is_some (bsearch l id)
  | ENone => false
  end.

(* ReadIndex::get_id: IndexEntry { blob_type, pack, location }.  The two inner `None`s are the
   out-of-bounds panics of vec[index] / packs[pack_idx]; Props.get_id_some_iff_has shows they
   cannot occur. *)
Definition get_id (ix : index) (t : blob_type) (id : N) : option (blob_type * N * loc) :=
  match i_entries (bget ix t) with
  | EFull l =>
    match bsearch (map e_id l) id with
    | Some i => match nth_error l i with
                | Some e => match nth_error (i_packs (bget ix t)) (e_pack e) with
                            | Some pk => Some (t, pk, e_loc e)
                            | None => None
                            end
                | None => None
                end
    | None => None
    end
  | _ => None
  end.

(* ReadIndex::total_size *)
Definition total_size (ix : index) (t : blob_type) : N := i_total (bget ix t).

(* ---------------------------------------------------------------- into_iter *)
(* inner `while *idx < entries.len() && entries[*idx].pack_idx == *pack_idx` of PackIndexes::next *)
Fixpoint span_pack (pi : nat) (es : list sentry) : list sentry * list sentry :=
  match es with
  | e :: r => if (e_pack e =? pi)%nat
              then let (a, b) := span_pack pi r in (e :: a, b)
              else ([], es)
  | [] => ([], [])
  end.
Definition entry_blob (t : blob_type) (e : sentry) : iblob :=
  {| bid := e_id e; btpe := t; bloc := e_loc e |}.
(* PackIndexes::next for one blob type, pack slots pi, pi+1, ... *)
Fixpoint iter_packs (t : blob_type) (pks : list N) (pi : nat) (es : list sentry) : list ipack :=
  match pks with
  | [] => []
  | p :: ps => let (mine, rest) := span_pack pi es in
               {| pid := p; blobs := map (entry_blob t) mine; psize := None |}
                 :: iter_packs t ps (S pi) rest
  end.
(* IntoIterator for Index: re-sort FullEntries by pack_idx (par_sort_unstable_by), then all
   tree packs, then all data packs; without FullEntries the packs come back without blobs *)
Definition iter_type (sort_p : list sentry -> list sentry) (ix : index) (t : blob_type) : list ipack :=
  let ti := bget ix t in
  iter_packs t (i_packs ti) 0%nat
             (match i_entries ti with EFull l => sort_p l | _ => [] end).
Definition into_iter_with (sort_p : list sentry -> list sentry) (ix : index) : list ipack :=
  iter_type sort_p ix Tree ++ iter_type sort_p ix Data.

(* ---------------------------------------------------------------- loading *)
(* generic loader: `for index in stream_all { collector.extend(<sections of index>) }`, then
   into_index; psz = pack-size function of the build, ld = the sections fed to the collector *)
Definition load_step_with (psz : ipack -> option N) (ld : ifile -> list ipack)
           (oc : option (btmap tcoll)) (f : ifile) : option (btmap tcoll) :=
  match oc with None => None | Some c => extend_with psz c (ld f) end.
Definition collect_gen (psz : ipack -> option N) (ld : ifile -> list ipack)
           (m : imode) (files : list ifile) : option (btmap tcoll) :=
  fold_left (load_step_with psz ld) files (Some (collector_new m)).
Definition index_of_gen (psz : ipack -> option N) (ld : ifile -> list ipack)
           (sort_e : list sentry -> list sentry) (sort_i : list N -> list N)
           (m : imode) (files : list ifile) : option index :=
  match collect_gen psz ld m files with Some c => Some (into_index_with sort_e sort_i c) | None => None end.

(* GlobalIndex::new_from_collector: `collector.extend(index.packs)` *)
Definition loaded_packs (f : ifile) : list ipack :=
  (if LOADER_USES_PACKS then packs f else []) ++ (if LOADER_USES_MARKED then packs_to_delete f else []).
Definition load_step := load_step_with pack_size loaded_packs.
Definition collect := collect_gen pack_size loaded_packs.
Definition index_of_with := index_of_gen pack_size loaded_packs.
(* the same loader in a release build *)
Definition index_of_release_with := index_of_gen pack_size_release loaded_packs.

(* PrunePlan::from_prune_options builds its own index: IndexCollector::new(PRUNE_INDEX_TYPE), per
   file `extend(index.packs.clone())` then `extend(index.packs_to_delete.clone())`, into_index,
   GlobalIndex::new_from_index.  Two extend calls in a row = one extend with the concatenation
   (ProofsCollect.extend_app). *)
Definition prune_loaded_packs (f : ifile) : list ipack :=
  (if PRUNE_USES_PACKS then packs f else []) ++ (if PRUNE_USES_MARKED then packs_to_delete f else []).
Definition prune_index_of_with := fun se si => index_of_gen pack_size prune_loaded_packs se si PRUNE_INDEX_TYPE.

(* check_packs (commands/check.rs) builds the index `check` walks the trees with:
   IndexCollector::new(CHECK_INDEX_TYPE), per file `extend(index.packs.clone())` *)
Definition check_loaded_packs (f : ifile) : list ipack :=
  (if CHECK_USES_PACKS then packs f else []) ++ (if CHECK_USES_MARKED then packs_to_delete f else []).
Definition check_index_of_with := fun se si => index_of_gen pack_size check_loaded_packs se si CHECK_INDEX_TYPE.

(* ---------------------------------------------------------------- GlobalIndex level *)
(* ReadIndex::{has_tree, has_data, get_tree, get_data}; GlobalIndex delegates to the Index *)
Definition has_tree (ix : index) (id : N) : bool := has ix Tree id.
Definition has_data (ix : index) (id : N) : bool := has ix Data id.
Definition get_tree (ix : index) (id : N) := get_id ix Tree id.
Definition get_data (ix : index) (id : N) := get_id ix Data id.

(* IndexEntry::read_data: be.read_encrypted_partial(FileType::Pack, &self.pack,
   self.blob_type.is_cacheable(), self.location), which is
   decode(read_partial(Pack, pack, cacheable, location.offset, location.length), location.uncompressed_length).
   The backend read and the decryption/decompression are parameters (no crypto here). *)
Record read_req := { r_pack : N; r_cacheable : bool; r_off : N; r_len : N; r_ulen : option N }.
Definition is_cacheable (t : blob_type) : bool :=
  match t with Tree => TREE_IS_CACHEABLE | Data => DATA_IS_CACHEABLE end.
Definition read_request (ie : blob_type * N * loc) : read_req :=
  let '(t, pk, lc) := ie in
  {| r_pack := pk; r_cacheable := is_cacheable t; r_off := off lc; r_len := len lc; r_ulen := ulen lc |}.
(* ReadIndex::blob_from_backend: None = Err("Blob not found in index") *)
Definition blob_read_request (ix : index) (t : blob_type) (id : N) : option read_req :=
  match get_id ix t id with Some ie => Some (read_request ie) | None => None end.
Definition blob_from_backend {R : Type} (read_partial : N -> bool -> N -> N -> R) (decode : R -> option N -> R)
           (ix : index) (t : blob_type) (id : N) : option R :=
  match blob_read_request ix t id with
  | Some rq => Some (decode (read_partial (r_pack rq) (r_cacheable rq) (r_off rq) (r_len rq)) (r_ulen rq))
  | None => None
  end.
