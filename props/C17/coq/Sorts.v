(* C17 — the executable sorts used to run the model.  The real code sorts with
   rayon's par_sort_unstable(_by_key); the theorems are stated for ANY function
   that returns a sorted permutation (Proofs.v, `sort_ok`); these merge sorts
   (Coq standard library, Sorting.Mergesort) are one instance, used for execution. *)
From Verif.Base Require Import Tactics.
From Coq Require Import Orders Mergesort.
From Verif.C17 Require Import Base17.
Local Open Scope N_scope.

Module EntryIdOrder <: TotalLeBool.
  Definition t := sentry.
  Definition leb (x y : sentry) := e_id x <=? e_id y.
  Theorem leb_total : forall x y, leb x y = true \/ leb y x = true.
  Proof. intros x y. unfold leb. lia. Qed.
End EntryIdOrder.
Module EntryIdSort := Sort EntryIdOrder.

Module IdOrder <: TotalLeBool.
  Definition t := N.
  Definition leb (x y : N) := x <=? y.
  Theorem leb_total : forall x y, leb x y = true \/ leb y x = true.
  Proof. intros x y. unfold leb. lia. Qed.
End IdOrder.
Module IdSort := Sort IdOrder.

Module EntryPackOrder <: TotalLeBool.
  Definition t := sentry.
  Definition leb (x y : sentry) := (e_pack x <=? e_pack y)%nat.
  Theorem leb_total : forall x y, leb x y = true \/ leb y x = true.
  Proof. intros x y. unfold leb. lia. Qed.
End EntryPackOrder.
Module EntryPackSort := Sort EntryPackOrder.

Definition msort_entries_by_id : list sentry -> list sentry := EntryIdSort.sort.
Definition msort_ids : list N -> list N := IdSort.sort.
Definition msort_entries_by_pack : list sentry -> list sentry := EntryPackSort.sort.
