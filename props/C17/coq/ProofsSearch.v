(* C17 — the binary search: on keys sorted ascending it finds an equal key iff one exists. *)
From Verif.Base Require Import Tactics.
From Verif.C17 Require Import Base17 Extracted Model.
Local Open Scope N_scope.

Definition mono (ks : list N) : Prop :=
  forall i j, (i <= j)%nat -> (j < length ks)%nat -> nth i ks 0 <= nth j ks 0.

Lemma StronglySorted_mono : forall ks, StronglySorted N.le ks -> mono ks.
Proof.
  induction 1 as [|a l Hs IH Hf]; intros i j Hij Hj; simpl in *; [lia|].
  destruct i, j; try lia.
  - rewrite Forall_forall in Hf. apply Hf. apply nth_In. lia.
  - apply IH; lia.
Qed.

(* loop invariant: everything at or after base+size is greater than t; base is 0 or holds a key <= t *)
Lemma bs_loop_inv : forall ks t, mono ks ->
  forall fuel base size,
    (1 <= size)%nat -> (size <= S fuel)%nat -> (base + size <= length ks)%nat ->
    (forall j, (base + size <= j)%nat -> (j < length ks)%nat -> t < nth j ks 0) ->
    (base = 0%nat \/ nth base ks 0 <= t) ->
    let r := bs_loop fuel ks t base size in
    (r < length ks)%nat /\
    (forall j, (r < j)%nat -> (j < length ks)%nat -> t < nth j ks 0) /\
    (r = 0%nat \/ nth r ks 0 <= t).
Proof.
  intros ks t Hm. induction fuel as [|f IH]; intros base size H1 Hsz Hb HA HB; cbn [bs_loop].
  - assert (size = 1%nat) by lia. subst. repeat split; try lia; auto.
    intros j Hj Hl. apply HA; lia.
  - destruct (size <=? 1)%nat eqn:E.
    + assert (size = 1%nat) by lia. subst. repeat split; try lia; auto.
      intros j Hj Hl. apply HA; lia.
    + assert (Hs2 : (2 <= size)%nat) by lia.
      pose proof (Nat.div_mod size 2 ltac:(lia)) as Hdm.
      pose proof (Nat.mod_upper_bound size 2 ltac:(lia)) as Hmu.
      set (half := (size / 2)%nat) in *.
      assert (Hh1 : (1 <= half)%nat) by lia.
      assert (Hh2 : (half <= size - half)%nat) by lia.
      destruct (t <? nth (base + half) ks 0) eqn:C.
      * apply IH; try lia; auto.
        intros j Hj Hl.
        assert (nth (base + half) ks 0 <= nth j ks 0) by (apply Hm; lia). lia.
      * apply IH; first [lia | intros j Hj Hl; apply HA; lia | right; lia].
Qed.

Lemma bs_loop_range : forall l t fuel base size, (1 <= size)%nat -> (base + size <= length l)%nat ->
  (bs_loop fuel l t base size < length l)%nat.
Proof.
  intros l t. induction fuel as [|f IH]; intros base size H1 H2; cbn [bs_loop]; [lia|].
  destruct (size <=? 1)%nat eqn:E1; [lia|].
  pose proof (Nat.div_mod size 2 ltac:(lia)) as Hdm.
  pose proof (Nat.mod_upper_bound size 2 ltac:(lia)) as Hmu.
  destruct (t <? nth (base + size / 2) l 0); apply IH; lia.
Qed.

Lemma bsearch_sound : forall ks t i, bsearch ks t = Some i ->
  (i < length ks)%nat /\ nth i ks 0 = t.
Proof.
  intros ks t i H. unfold bsearch in H.
  destruct ks as [|k ks'] eqn:Eks; [discriminate|]. rewrite <- Eks in *.
  assert (Hlen : (1 <= length ks)%nat) by (subst ks; simpl; lia).
  destruct (nth _ ks 0 =? t) eqn:E; [|discriminate].
  injection H as <-. split; [|apply N.eqb_eq; exact E].
  apply bs_loop_range; lia.
Qed.

Lemma bsearch_complete : forall ks t, mono ks -> In t ks -> exists i, bsearch ks t = Some i.
Proof.
  intros ks t Hm Hin. unfold bsearch. destruct ks as [|k ks']; [inv Hin|].
  set (l := k :: ks') in *.
  assert (Hlen : (1 <= length l)%nat) by (subst l; simpl; lia).
  destruct (bs_loop_inv l t Hm (length l) 0%nat (length l)) as (Hr & HA & HB);
    first [lia | left; reflexivity | idtac].
  set (r := bs_loop (length l) l t 0 (length l)) in *.
  destruct (In_nth _ _ 0 Hin) as (j & Hj & Hjt).
  assert (Hjr : (j <= r)%nat).
  { destruct (le_lt_dec j r); [assumption|]. specialize (HA j l0 Hj). lia. }
  assert (nth r l 0 = t).
  { destruct HB as [HB|HB].
    - assert (j = 0%nat) by lia. subst j. rewrite HB. assumption.
    - assert (nth j l 0 <= nth r l 0) by (apply Hm; lia). lia. }
  exists r. destruct (nth r l 0 =? t) eqn:E; [reflexivity|lia].
Qed.

Lemma bsearch_is_some_iff : forall ks t, mono ks -> (is_some (bsearch ks t) = true <-> In t ks).
Proof.
  intros ks t Hm. split.
  - destruct (bsearch ks t) as [i|] eqn:E; [|discriminate]. intros _.
    destruct (bsearch_sound _ _ _ E) as (Hi & Ht). rewrite <- Ht. apply nth_In. assumption.
  - intro Hin. destruct (bsearch_complete ks t Hm Hin) as (i & ->). reflexivity.
Qed.
