(* C17 — property theorems.  Statements closed by `exact`, each followed by Print Assumptions.
   `index_of_with sort_e sort_i m files` is the model of
       let mut c = IndexCollector::new(m); for f in files { c.extend(f.packs) }; c.into_index()
   (GlobalIndex::new_from_collector), `None` = the checked build panics (pack-size overflow).
   Every theorem is quantified over ALL lists of index files and over EVERY correct sort
   (`sort_ok`: returns a sorted permutation) — the real code sorts with an unstable parallel sort.
   `listed`/`listings`/`total_spec` (Spec.v) read only the `packs` sections of the files. *)
From Verif.Base Require Import Tactics.
From Verif.C17 Require Import Base17 Extracted Sorts Model Spec ProofsSearch ProofsCollect Proofs Exec ProofsExec ProofsTypes ProofsIter ProofsDeep.
Local Open Scope N_scope.

(* A lookup by (type, id) succeeds exactly when some index file lists, in `packs`, a pack of
   that type containing a blob with that id. *)
Theorem has_iff_listed : forall sort_e sort_i,
  sort_ok e_id sort_e -> sort_ok (fun x => x) sort_i ->
  forall files ix, index_of_with sort_e sort_i Full files = Some ix ->
  forall t id, has ix t id = true <-> listed files t id = true.
Proof. exact has_iff_listed_lemma. Qed.
Print Assumptions has_iff_listed.

(* What get_id returns is one of the listings: same type, and (pack, offset, length,
   uncompressed length) are those of a blob with that id in an unmarked pack of that type. *)
Theorem get_id_is_a_listing : forall sort_e sort_i,
  sort_ok e_id sort_e ->
  forall m files ix, index_of_with sort_e sort_i m files = Some ix ->
  forall t id t' pk lc, get_id ix t id = Some (t', pk, lc) ->
    t' = t /\ In (pk, lc) (listings files t id).
Proof. exact get_id_listing_dbg. Qed.
Print Assumptions get_id_is_a_listing.

(* get_id succeeds exactly when has does wherever full entries are kept (so the two indexing
   operations vec[index], packs[pack_idx] inside get_id never go out of bounds); where only ids
   or nothing is kept it is None. *)
Theorem get_id_some_iff_has : forall sort_e sort_i,
  sort_ok e_id sort_e ->
  forall m files ix, index_of_with sort_e sort_i m files = Some ix ->
  forall t id, is_some (get_id ix t id) =
               match m, t with Full, _ => has ix t id | _, Tree => has ix t id | _, Data => false end.
Proof. exact get_id_some_dbg. Qed.
Print Assumptions get_id_some_iff_has.

(* Size totals equal the sum of the listed pack sizes (explicit size, else header-derived size),
   per type, in every mode. *)
Theorem total_size_sum : forall sort_e sort_i m files ix, index_of_with sort_e sort_i m files = Some ix ->
  forall t, total_size ix t = total_spec files t.
Proof. exact total_size_dbg. Qed.
Print Assumptions total_size_sum.

(* The reduced modes answer presence identically for what they retain: trees in every mode,
   data ids in DataIds; OnlyTrees retains nothing for data. *)
Theorem mode_agreement : forall sort_e sort_i,
  sort_ok e_id sort_e -> sort_ok (fun x => x) sort_i ->
  forall m files ix, index_of_with sort_e sort_i m files = Some ix ->
  forall t id, has ix t id = retains m t && listed files t id.
Proof. exact has_char_dbg. Qed.
Print Assumptions mode_agreement.

(* No panic on inputs whose computed pack sizes fit u32. *)
Theorem index_defined_when_sizes_fit : forall sort_e sort_i m files,
  no_overflow files = true -> exists ix, index_of_with sort_e sort_i m files = Some ix.
Proof. exact index_defined. Qed.
Print Assumptions index_defined_when_sizes_fit.

(* The sorts the model is executed with are correct sorts: the theorems apply to Exec.index_of. *)
Theorem executable_sorts_ok :
  sort_ok e_id msort_entries_by_id /\ sort_ok (fun x => x) msort_ids /\
  sort_ok (fun e => N.of_nat (e_pack e)) msort_entries_by_pack.
Proof. exact (conj msort_entries_by_id_ok (conj msort_ids_ok msort_entries_by_pack_ok)). Qed.
Print Assumptions executable_sorts_ok.

(* In terms of the blob's own listed type: the same statement holds for index files whose packs
   are homogeneous (every blob has the type of the first one) ... *)
Theorem has_iff_listed_by_blob_type : forall sort_e sort_i,
  sort_ok e_id sort_e -> sort_ok (fun x => x) sort_i ->
  forall files ix, index_of_with sort_e sort_i Full files = Some ix ->
  all_homogeneous files = true ->
  forall t id, has ix t id = listed_by_blob_type files t id.
Proof. exact has_blob_type_lemma. Qed.
Print Assumptions has_iff_listed_by_blob_type.

(* ... and fails for a pack that mixes types (restic-v1 style): a tree blob listed after a data
   blob is not found as a tree, and is found as data.  Full-strength statement without the
   homogeneity premise:
     forall files ix, index_of Full files = Some ix -> forall t id, has ix t id = listed_by_blob_type files t id
   is refuted by this witness.  rustic_core never writes such packs and `check` reports them. *)
Theorem has_iff_listed_mixed_pack_refuted :
  exists files ix id, index_of Full files = Some ix /\ all_homogeneous files = false /\
    listed_by_blob_type files Tree id = true /\ has ix Tree id = false /\ get_id ix Tree id = None /\
    has ix Data id = true.
Proof. exact mixed_pack_refuted_lemma. Qed.
Print Assumptions has_iff_listed_mixed_pack_refuted.

(* Iterating the index gives the loaded packs back: per type (trees first), the same pack ids in
   loading order, no explicit size, and in every pack slot a permutation of the blobs loaded for
   it, labelled with the pack type — or no blobs where the mode keeps no locations.  For every
   correct sort by pack index. *)
Theorem into_iter_roundtrip : forall sort_p sort_e sort_i,
  sort_ok (fun e => N.of_nat (e_pack e)) sort_p -> sort_ok e_id sort_e ->
  forall m files ix, index_of_with sort_e sort_i m files = Some ix ->
  into_iter_with sort_p ix = iter_type sort_p ix Tree ++ iter_type sort_p ix Data /\
  forall t, Forall2 (fun p q => pid q = pid p /\ psize q = None /\
                                Permutation (blobs q) (if keeps_full m t then retyped p else []))
                    (packs_of_type t (unmarked files)) (iter_type sort_p ix t).
Proof.
  exact (fun sp se si Hp He m files ix H => conj eq_refl (into_iter_lemma sp se si Hp He m files ix H)).
Qed.
Print Assumptions into_iter_roundtrip.

(* ================================================================== deepening *)

(* The index exists (the checked build does not panic) EXACTLY when every header-derived pack size
   fits u32 and each type has at most 2^32 packs. *)
Theorem index_defined_iff_sizes_fit : forall sort_e sort_i m files,
  (exists ix, index_of_with sort_e sort_i m files = Some ix) <-> no_overflow files = true.
Proof. exact index_defined_iff_lemma. Qed.
Print Assumptions index_defined_iff_sizes_fit.

(* The u64 accumulator `total_size += u64::from(size)` cannot overflow: with explicit sizes being
   u32 values, the (unbounded) total of every existing index is below 2^64 — and so is every
   partial sum, the summands being non-negative. *)
Theorem total_size_no_overflow : forall sort_e sort_i m files ix,
  index_of_with sort_e sort_i m files = Some ix ->
  sizes_are_u32 (unmarked files) = true ->
  forall t, total_size ix t < 18446744073709551616.
Proof. exact total_no_overflow_lemma. Qed.
Print Assumptions total_size_no_overflow.

(* Release build (u32 additions wrap).  The wrapped pack size is the true header-derived size
   modulo 2^32, and equals the checked one whenever the checked build does not panic. *)
Theorem pack_size_wrapping_is_mod : forall p,
  pack_size_wrapping p = match psize p with Some s => s | None => size_spec p mod 4294967296 end.
Proof. exact pack_size_wrapping_char. Qed.
Print Assumptions pack_size_wrapping_is_mod.

Theorem pack_size_builds_equal : forall p s, pack_size p = Some s -> pack_size_wrapping p = s.
Proof. exact pack_size_builds_agree. Qed.
Print Assumptions pack_size_builds_equal.

(* Whenever the checked build yields an index, the release build yields the same index. *)
Theorem release_equals_checked : forall sort_e sort_i m files ix,
  index_of_with sort_e sort_i m files = Some ix ->
  index_of_release_with sort_e sort_i m files = Some ix.
Proof. exact builds_agree_lemma. Qed.
Print Assumptions release_equals_checked.

(* Otherwise the release build still answers lookups exactly as the index files say (it only
   panics on the pack counter), but reports totals with the wrapped sizes. *)
Theorem release_build_characterisation : forall sort_e sort_i,
  sort_ok e_id sort_e -> sort_ok (fun x => x) sort_i ->
  forall m files,
    ((exists ix, index_of_release_with sort_e sort_i m files = Some ix) <-> counts_fit files = true) /\
    forall ix, index_of_release_with sort_e sort_i m files = Some ix ->
      (forall t id, has ix t id = retains m t && listed files t id) /\
      (forall t id t' pk lc, get_id ix t id = Some (t', pk, lc) -> t' = t /\ In (pk, lc) (listings files t id)) /\
      (forall t, total_size ix t = total_release files t) /\
      (forallb size_fits (unmarked files) = true -> forall t, total_size ix t = total_spec files t).
Proof.
  exact (fun se si He Hi m files =>
    conj (release_defined_iff_lemma se si m files)
      (fun ix H => conj (release_has_lemma se si He Hi m files ix H)
                  (conj (release_get_id_lemma se si He m files ix H)
                  (conj (release_total_lemma se si m files ix H)
                        (fun Hf t => eq_trans (release_total_lemma se si m files ix H t) (total_release_fits files t Hf)))))).
Qed.
Print Assumptions release_build_characterisation.

(* Full-strength total_size_sum does not hold in the release build: *)
Definition overflow_files : list ifile :=
  [ {| packs := [ {| pid := 1; blobs := [ {| bid := 1; btpe := Data; bloc := {| off := 0; len := 4294967223; ulen := None |} |} ];
                     psize := None |} ]; packs_to_delete := [] |} ].
Theorem release_total_size_sum_refuted :
  exists ix, index_of Full overflow_files = None /\ index_of_release Full overflow_files = Some ix /\
    total_spec overflow_files Data = 4294967296 /\ total_size ix Data = 0 /\ has ix Data 1 = true.
Proof. eexists. vm_compute. repeat split; reflexivity. Qed.
Print Assumptions release_total_size_sum_refuted.

(* The index `prune` builds for itself (PrunePlan::from_prune_options: IndexType and sections
   regenerated from commands/prune.rs) retains trees only and is fed BOTH sections of every index
   file: a tree lookup succeeds exactly when the tree is listed anywhere — in `packs` or in
   `packs_to_delete` —, get_id returns one of those listings, data lookups never succeed, and
   the totals (which size prune's PackSizer) count the packs of both sections. *)
Theorem prune_index_has_iff_listed_anywhere : forall sort_e sort_i,
  sort_ok e_id sort_e -> sort_ok (fun x => x) sort_i ->
  forall files ix, prune_index_of_with sort_e sort_i files = Some ix ->
  forall id,
    has ix Tree id = listed_anywhere files Tree id /\
    has ix Data id = false /\
    get_id ix Data id = None /\
    is_some (get_id ix Tree id) = has ix Tree id /\
    (forall t' pk lc, get_id ix Tree id = Some (t', pk, lc) ->
       t' = Tree /\ In (pk, lc) (listings_in (all_packs files) Tree id)) /\
    (forall t, total_size ix t = total_in (all_packs files) t).
Proof. exact prune_index_lemma. Qed.
Print Assumptions prune_index_has_iff_listed_anywhere.

Theorem listed_anywhere_is_listed_or_marked : forall files t id,
  listed_anywhere files t id = listed files t id || listed_in (marked files) t id.
Proof. exact listed_anywhere_split. Qed.
Print Assumptions listed_anywhere_is_listed_or_marked.

(* The index `check` builds for itself (check_packs: IndexType and sections regenerated from
   commands/check.rs) IS the Full index of GlobalIndex::new: every theorem above applies to it. *)
Theorem check_index_is_full_global_index : forall sort_e sort_i files,
  check_index_of_with sort_e sort_i files = index_of_with sort_e sort_i Full files.
Proof. exact (fun _ _ _ => eq_refl). Qed.
Print Assumptions check_index_is_full_global_index.

(* GlobalIndex level: blob_from_backend reads exactly one listed location — the partial read goes
   to the listed pack, with cacheable = (type is tree), at the listed offset and length, and the
   listed uncompressed length is what the decoder gets; `None` (the "not found in index" error)
   exactly when get_id finds nothing.  Backend read and decryption are arbitrary functions. *)
Theorem blob_read_uses_listed_location : forall sort_e sort_i, sort_ok e_id sort_e ->
  forall m files ix, index_of_with sort_e sort_i m files = Some ix ->
  forall (R : Type) (rp : N -> bool -> N -> N -> R) (dec : R -> option N -> R) t id,
    match blob_from_backend rp dec ix t id with
    | Some r => exists pk lc, In (pk, lc) (listings files t id) /\
                              r = dec (rp pk (is_cacheable t) (off lc) (len lc)) (ulen lc)
    | None => get_id ix t id = None
    end.
Proof. exact blob_from_backend_lemma. Qed.
Print Assumptions blob_read_uses_listed_location.

(* the typed convenience wrappers are the typed lookups *)
Theorem typed_wrappers : forall sort_e sort_i,
  sort_ok e_id sort_e -> sort_ok (fun x => x) sort_i ->
  forall m files ix, index_of_with sort_e sort_i m files = Some ix ->
  forall id, has_tree ix id = listed files Tree id /\
             has_data ix id = retains m Data && listed files Data id /\
             get_tree ix id = get_id ix Tree id /\ get_data ix id = get_id ix Data id.
Proof.
  exact (fun se si He Hi m files ix H id =>
    conj (eq_trans (has_char_dbg se si He Hi m files ix H Tree id)
                   (match m as m0 return retains m0 Tree && listed files Tree id = listed files Tree id with
                    | Full | DataIds | OnlyTrees => eq_refl end))
         (conj (has_char_dbg se si He Hi m files ix H Data id) (conj eq_refl eq_refl))).
Qed.
Print Assumptions typed_wrappers.

(* ------------------------------------------------------------------ non-vacuity *)
Definition L (o l : N) (u : option N) : loc := {| off := o; len := l; ulen := u |}.
Definition ex_files : list ifile :=
  [ {| packs := [ {| pid := 101; blobs := [ {| bid := 10; btpe := Tree; bloc := L 0 50 None |};
                                            {| bid := 11; btpe := Tree; bloc := L 50 60 (Some 200) |} ]; psize := None |};
                  {| pid := 102; blobs := [ {| bid := 10; btpe := Data; bloc := L 0 70 None |};      (* same id, other type *)
                                            {| bid := 20; btpe := Data; bloc := L 70 80 None |} ]; psize := None |};
                  {| pid := 103; blobs := []; psize := Some 36 |} ];                                   (* empty pack *)
       packs_to_delete := [ {| pid := 104; blobs := [ {| bid := 30; btpe := Data; bloc := L 0 90 None |} ]; psize := None |} ] |};
    {| packs := [ {| pid := 105; blobs := [ {| bid := 20; btpe := Data; bloc := L 5 80 None |} ]; psize := Some 1000 |} ];  (* duplicate *)
       packs_to_delete := [] |} ].

(* the premise `index_of ... = Some ix` of the theorems holds, lookups succeed and fail, the id
   that only a marked pack lists is absent, totals are the listed sizes *)
Example ex_full : exists ix, index_of Full ex_files = Some ix /\
  has ix Tree 10 = true /\ has ix Data 10 = true /\ has ix Tree 20 = false /\ has ix Data 30 = false /\
  get_id ix Tree 11 = Some (Tree, 101, L 50 60 (Some 200)) /\
  In (get_id ix Data 20) [Some (Data, 102, L 70 80 None); Some (Data, 105, L 5 80 None)] /\
  listings ex_files Data 20 = [(102, L 70 80 None); (105, L 5 80 None)] /\
  total_size ix Tree = 36 + 50 + 37 + 60 + 41 /\ total_size ix Data = (36 + 70 + 37 + 80 + 37) + 36 + 1000.
Proof. eexists. vm_compute. repeat split; auto. Qed.

Example ex_data_ids : exists ix, index_of DataIds ex_files = Some ix /\
  has ix Data 20 = true /\ get_id ix Data 20 = None /\ has ix Data 30 = false /\
  has ix Tree 10 = true /\ get_id ix Tree 10 = Some (Tree, 101, L 0 50 None).
Proof. eexists. vm_compute. repeat split; auto. Qed.

Example ex_only_trees : exists ix, index_of OnlyTrees ex_files = Some ix /\
  has ix Data 20 = false /\ has ix Tree 11 = true /\ total_size ix Data = 1296.
Proof. eexists. vm_compute. repeat split; auto. Qed.

(* the panic case exists too: a header-derived pack size that does not fit u32 *)
Example ex_overflow :
  index_of Full [ {| packs := [ {| pid := 1; blobs := [ {| bid := 1; btpe := Data; bloc := L 0 4294967295 None |} ];
                                   psize := None |} ]; packs_to_delete := [] |} ] = None.
Proof. vm_compute. reflexivity. Qed.

Example ex_into_iter : exists ix, index_of Full ex_files = Some ix /\
  map pid (into_iter ix) = [101; 102; 103; 105] /\
  map (fun p => length (blobs p)) (into_iter ix) = [2; 2; 0; 1]%nat.
Proof. eexists. vm_compute. repeat split; auto. Qed.

(* prune's index sees the tree that only a marked pack lists; the loader of GlobalIndex does not *)
Definition ex_marked_tree : list ifile :=
  [ {| packs := [ {| pid := 201; blobs := [ {| bid := 40; btpe := Tree; bloc := L 0 50 None |} ]; psize := None |} ];
       packs_to_delete := [ {| pid := 202; blobs := [ {| bid := 41; btpe := Tree; bloc := L 7 60 (Some 99) |} ]; psize := Some 500 |} ] |} ].
Example ex_prune : exists ixp ixg, prune_index_of ex_marked_tree = Some ixp /\ index_of Full ex_marked_tree = Some ixg /\
  has ixp Tree 41 = true /\ has ixg Tree 41 = false /\ has ixp Tree 40 = true /\
  get_id ixp Tree 41 = Some (Tree, 202, L 7 60 (Some 99)) /\
  total_size ixp Tree = 123 + 500 /\ total_size ixg Tree = 123.
Proof. do 2 eexists. vm_compute. repeat split; auto. Qed.

(* blob_from_backend with a backend that just records its arguments *)
Example ex_blob_read : exists ix, index_of Full ex_files = Some ix /\
  blob_read_request ix Tree 11 = Some {| r_pack := 101; r_cacheable := true; r_off := 50; r_len := 60; r_ulen := Some 200 |} /\
  blob_read_request ix Data 10 = Some {| r_pack := 102; r_cacheable := false; r_off := 0; r_len := 70; r_ulen := None |} /\
  blob_read_request ix Data 30 = None.
Proof. eexists. vm_compute. repeat split; auto. Qed.

(* boundary of the u32 pack size: 36 + 4294967222 + 37 = 2^32 - 1 fits *)
Example ex_boundary : exists ix,
  index_of Full [ {| packs := [ {| pid := 1; blobs := [ {| bid := 1; btpe := Data; bloc := L 0 4294967222 None |} ]; psize := None |} ];
                     packs_to_delete := [] |} ] = Some ix /\ total_size ix Data = 4294967295.
Proof. eexists. vm_compute. repeat split; auto. Qed.
