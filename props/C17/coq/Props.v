(* C17 — property theorems.  Statements closed by `exact`, each followed by Print Assumptions.
   `index_of_with sort_e sort_i m files` is the model of
       let mut c = IndexCollector::new(m); for f in files { c.extend(f.packs) }; c.into_index()
   (GlobalIndex::new_from_collector), `None` = the checked build panics (pack-size overflow).
   Every theorem is quantified over ALL lists of index files and over EVERY correct sort
   (`sort_ok`: returns a sorted permutation) — the real code sorts with an unstable parallel sort.
   `listed`/`listings`/`total_spec` (Spec.v) read only the `packs` sections of the files. *)
From Verif.Base Require Import Tactics.
From Verif.C17 Require Import Base17 Extracted Sorts Model Spec ProofsSearch ProofsCollect Proofs Exec ProofsExec ProofsTypes ProofsIter.
Local Open Scope N_scope.

(* A lookup by (type, id) succeeds exactly when some index file lists, in `packs`, a pack of
   that type containing a blob with that id. *)
Theorem has_iff_listed : forall sort_e sort_i,
  sort_ok e_id sort_e -> sort_ok (fun x => x) sort_i ->
  forall files ix, index_of_with sort_e sort_i Full files = Some ix ->
  forall t id, has ix t id = true <-> listed files t id = true.
Proof. exact has_iff_listed_lemma. Qed.
Print Assumptions has_iff_listed.

(* What get_id returns is one of the listings: same type, and (pack, offset, length,
   uncompressed length) are those of a blob with that id in an unmarked pack of that type. *)
Theorem get_id_is_a_listing : forall sort_e sort_i,
  sort_ok e_id sort_e ->
  forall m files ix, index_of_with sort_e sort_i m files = Some ix ->
  forall t id t' pk lc, get_id ix t id = Some (t', pk, lc) ->
    t' = t /\ In (pk, lc) (listings files t id).
Proof. exact get_id_listing_dbg. Qed.
Print Assumptions get_id_is_a_listing.

(* get_id succeeds exactly when has does wherever full entries are kept (so the two indexing
   operations vec[index], packs[pack_idx] inside get_id never go out of bounds); where only ids
   or nothing is kept it is None. *)
Theorem get_id_some_iff_has : forall sort_e sort_i,
  sort_ok e_id sort_e ->
  forall m files ix, index_of_with sort_e sort_i m files = Some ix ->
  forall t id, is_some (get_id ix t id) =
               match m, t with Full, _ => has ix t id | _, Tree => has ix t id | _, Data => false end.
Proof. exact get_id_some_dbg. Qed.
Print Assumptions get_id_some_iff_has.

(* Size totals equal the sum of the listed pack sizes (explicit size, else header-derived size),
   per type, in every mode. *)
Theorem total_size_sum : forall sort_e sort_i m files ix, index_of_with sort_e sort_i m files = Some ix ->
  forall t, total_size ix t = total_spec files t.
Proof. exact total_size_dbg. Qed.
Print Assumptions total_size_sum.

(* The reduced modes answer presence identically for what they retain: trees in every mode,
   data ids in DataIds; OnlyTrees retains nothing for data. *)
Theorem mode_agreement : forall sort_e sort_i,
  sort_ok e_id sort_e -> sort_ok (fun x => x) sort_i ->
  forall m files ix, index_of_with sort_e sort_i m files = Some ix ->
  forall t id, has ix t id = retains m t && listed files t id.
Proof. exact has_char_dbg. Qed.
Print Assumptions mode_agreement.

(* No panic on inputs whose computed pack sizes fit u32. *)
Theorem index_defined_when_sizes_fit : forall sort_e sort_i m files,
  no_overflow files = true -> exists ix, index_of_with sort_e sort_i m files = Some ix.
Proof. exact index_defined. Qed.
Print Assumptions index_defined_when_sizes_fit.

(* The sorts the model is executed with are correct sorts: the theorems apply to Exec.index_of. *)
Theorem executable_sorts_ok :
  sort_ok e_id msort_entries_by_id /\ sort_ok (fun x => x) msort_ids /\
  sort_ok (fun e => N.of_nat (e_pack e)) msort_entries_by_pack.
Proof. exact (conj msort_entries_by_id_ok (conj msort_ids_ok msort_entries_by_pack_ok)). Qed.
Print Assumptions executable_sorts_ok.

(* In terms of the blob's own listed type: the same statement holds for index files whose packs
   are homogeneous (every blob has the type of the first one) ... *)
Theorem has_iff_listed_by_blob_type : forall sort_e sort_i,
  sort_ok e_id sort_e -> sort_ok (fun x => x) sort_i ->
  forall files ix, index_of_with sort_e sort_i Full files = Some ix ->
  all_homogeneous files = true ->
  forall t id, has ix t id = listed_by_blob_type files t id.
Proof. exact has_blob_type_lemma. Qed.
Print Assumptions has_iff_listed_by_blob_type.

(* ... and fails for a pack that mixes types (restic-v1 style): a tree blob listed after a data
   blob is not found as a tree, and is found as data.  Full-strength statement without the
   homogeneity premise:
     forall files ix, index_of Full files = Some ix -> forall t id, has ix t id = listed_by_blob_type files t id
   is refuted by this witness.  rustic_core never writes such packs and `check` reports them. *)
Theorem has_iff_listed_mixed_pack_refuted :
  exists files ix id, index_of Full files = Some ix /\ all_homogeneous files = false /\
    listed_by_blob_type files Tree id = true /\ has ix Tree id = false /\ get_id ix Tree id = None /\
    has ix Data id = true.
Proof. exact mixed_pack_refuted_lemma. Qed.
Print Assumptions has_iff_listed_mixed_pack_refuted.

(* Iterating the index gives the loaded packs back: per type (trees first), the same pack ids in
   loading order, no explicit size, and in every pack slot a permutation of the blobs loaded for
   it, labelled with the pack type — or no blobs where the mode keeps no locations.  For every
   correct sort by pack index. *)
Theorem into_iter_roundtrip : forall sort_p sort_e sort_i,
  sort_ok (fun e => N.of_nat (e_pack e)) sort_p -> sort_ok e_id sort_e ->
  forall m files ix, index_of_with sort_e sort_i m files = Some ix ->
  into_iter_with sort_p ix = iter_type sort_p ix Tree ++ iter_type sort_p ix Data /\
  forall t, Forall2 (fun p q => pid q = pid p /\ psize q = None /\
                                Permutation (blobs q) (if keeps_full m t then retyped p else []))
                    (packs_of_type t (unmarked files)) (iter_type sort_p ix t).
Proof.
  exact (fun sp se si Hp He m files ix H => conj eq_refl (into_iter_lemma sp se si Hp He m files ix H)).
Qed.
Print Assumptions into_iter_roundtrip.

(* ------------------------------------------------------------------ non-vacuity *)
Definition L (o l : N) (u : option N) : loc := {| off := o; len := l; ulen := u |}.
Definition ex_files : list ifile :=
  [ {| packs := [ {| pid := 101; blobs := [ {| bid := 10; btpe := Tree; bloc := L 0 50 None |};
                                            {| bid := 11; btpe := Tree; bloc := L 50 60 (Some 200) |} ]; psize := None |};
                  {| pid := 102; blobs := [ {| bid := 10; btpe := Data; bloc := L 0 70 None |};      (* same id, other type *)
                                            {| bid := 20; btpe := Data; bloc := L 70 80 None |} ]; psize := None |};
                  {| pid := 103; blobs := []; psize := Some 36 |} ];                                   (* empty pack *)
       packs_to_delete := [ {| pid := 104; blobs := [ {| bid := 30; btpe := Data; bloc := L 0 90 None |} ]; psize := None |} ] |};
    {| packs := [ {| pid := 105; blobs := [ {| bid := 20; btpe := Data; bloc := L 5 80 None |} ]; psize := Some 1000 |} ];  (* duplicate *)
       packs_to_delete := [] |} ].

(* the premise `index_of ... = Some ix` of the theorems holds, lookups succeed and fail, the id
   that only a marked pack lists is absent, totals are the listed sizes *)
Example ex_full : exists ix, index_of Full ex_files = Some ix /\
  has ix Tree 10 = true /\ has ix Data 10 = true /\ has ix Tree 20 = false /\ has ix Data 30 = false /\
  get_id ix Tree 11 = Some (Tree, 101, L 50 60 (Some 200)) /\
  In (get_id ix Data 20) [Some (Data, 102, L 70 80 None); Some (Data, 105, L 5 80 None)] /\
  listings ex_files Data 20 = [(102, L 70 80 None); (105, L 5 80 None)] /\
  total_size ix Tree = 36 + 50 + 37 + 60 + 41 /\ total_size ix Data = (36 + 70 + 37 + 80 + 37) + 36 + 1000.
Proof. eexists. vm_compute. repeat split; auto. Qed.

Example ex_data_ids : exists ix, index_of DataIds ex_files = Some ix /\
  has ix Data 20 = true /\ get_id ix Data 20 = None /\ has ix Data 30 = false /\
  has ix Tree 10 = true /\ get_id ix Tree 10 = Some (Tree, 101, L 0 50 None).
Proof. eexists. vm_compute. repeat split; auto. Qed.

Example ex_only_trees : exists ix, index_of OnlyTrees ex_files = Some ix /\
  has ix Data 20 = false /\ has ix Tree 11 = true /\ total_size ix Data = 1296.
Proof. eexists. vm_compute. repeat split; auto. Qed.

(* the panic case exists too: a header-derived pack size that does not fit u32 *)
Example ex_overflow :
  index_of Full [ {| packs := [ {| pid := 1; blobs := [ {| bid := 1; btpe := Data; bloc := L 0 4294967295 None |} ];
                                   psize := None |} ]; packs_to_delete := [] |} ] = None.
Proof. vm_compute. reflexivity. Qed.

Example ex_into_iter : exists ix, index_of Full ex_files = Some ix /\
  map pid (into_iter ix) = [101; 102; 103; 105] /\
  map (fun p => length (blobs p)) (into_iter ix) = [2; 2; 0; 1]%nat.
Proof. eexists. vm_compute. repeat split; auto. Qed.
