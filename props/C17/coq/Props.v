(* C17 — property theorems.  Statements closed by `exact`, each followed by Print Assumptions.
   `index_of_with sort_e sort_i m files` is the model of
       let mut c = IndexCollector::new(m); for f in files { c.extend(f.packs) }; c.into_index()
   (GlobalIndex::new_from_collector), `None` = the checked build panics (pack-size overflow).
   Every theorem is quantified over ALL lists of index files and over EVERY correct sort
   (`sort_ok`: returns a sorted permutation) — the real code sorts with an unstable parallel sort.
   `listed`/`listings`/`total_spec` (Spec.v) read only the `packs` sections of the files. *)
From Verif.Base Require Import Tactics.
From Verif.C17 Require Import Base17 Extracted Sorts Model Spec ProofsSearch ProofsCollect Proofs Exec ProofsExec.
Local Open Scope N_scope.

(* A lookup by (type, id) succeeds exactly when some index file lists, in `packs`, a pack of
   that type containing a blob with that id. *)
Theorem has_iff_listed : forall sort_e sort_i,
  sort_ok e_id sort_e -> sort_ok (fun x => x) sort_i ->
  forall files ix, index_of_with sort_e sort_i Full files = Some ix ->
  forall t id, has ix t id = true <-> listed files t id = true.
Proof. exact has_iff_listed_lemma. Qed.
Print Assumptions has_iff_listed.

(* What get_id returns is one of the listings: same type, and (pack, offset, length,
   uncompressed length) are those of a blob with that id in an unmarked pack of that type. *)
Theorem get_id_is_a_listing : forall sort_e sort_i,
  sort_ok e_id sort_e ->
  forall m files ix, index_of_with sort_e sort_i m files = Some ix ->
  forall t id t' pk lc, get_id ix t id = Some (t', pk, lc) ->
    t' = t /\ In (pk, lc) (listings files t id).
Proof. exact get_id_listing_lemma. Qed.
Print Assumptions get_id_is_a_listing.

(* get_id succeeds exactly when has does wherever full entries are kept (so the two indexing
   operations vec[index], packs[pack_idx] inside get_id never go out of bounds); where only ids
   or nothing is kept it is None. *)
Theorem get_id_some_iff_has : forall sort_e sort_i,
  sort_ok e_id sort_e ->
  forall m files ix, index_of_with sort_e sort_i m files = Some ix ->
  forall t id, is_some (get_id ix t id) =
               match m, t with Full, _ => has ix t id | _, Tree => has ix t id | _, Data => false end.
Proof. exact get_id_some_lemma. Qed.
Print Assumptions get_id_some_iff_has.

(* Size totals equal the sum of the listed pack sizes (explicit size, else header-derived size),
   per type, in every mode. *)
Theorem total_size_sum : forall sort_e sort_i m files ix, index_of_with sort_e sort_i m files = Some ix ->
  forall t, total_size ix t = total_spec files t.
Proof. exact total_size_lemma. Qed.
Print Assumptions total_size_sum.

(* The reduced modes answer presence identically for what they retain: trees in every mode,
   data ids in DataIds; OnlyTrees retains nothing for data. *)
Theorem mode_agreement : forall sort_e sort_i,
  sort_ok e_id sort_e -> sort_ok (fun x => x) sort_i ->
  forall m files ix, index_of_with sort_e sort_i m files = Some ix ->
  forall t id, has ix t id = retains m t && listed files t id.
Proof. exact has_char. Qed.
Print Assumptions mode_agreement.

(* No panic on inputs whose computed pack sizes fit u32. *)
Theorem index_defined_when_sizes_fit : forall sort_e sort_i m files,
  no_overflow files = true -> exists ix, index_of_with sort_e sort_i m files = Some ix.
Proof. exact index_defined. Qed.
Print Assumptions index_defined_when_sizes_fit.

(* The sorts the model is executed with are correct sorts: the theorems apply to Exec.index_of. *)
Theorem executable_sorts_ok :
  sort_ok e_id msort_entries_by_id /\ sort_ok (fun x => x) msort_ids /\
  sort_ok (fun e => N.of_nat (e_pack e)) msort_entries_by_pack.
Proof. exact (conj msort_entries_by_id_ok (conj msort_ids_ok msort_entries_by_pack_ok)). Qed.
Print Assumptions executable_sorts_ok.
