(* C17 — extraction of the executable model and the oracle (ExtrOcamlBasic only). *)
Require Extraction.
Require Import ExtrOcamlBasic.
From Verif.C17 Require Import Base17 Extracted Sorts Model Spec Exec.
Extraction "model_ml.ml" index_of into_iter has get_id total_size listed listings total_spec
  no_overflow all_homogeneous listed_by_blob_type mkid id_hi id_lo pack_type z_unused.
