(* C17 — extraction of the executable model and the oracle (ExtrOcamlBasic only). *)
Require Extraction.
Require Import ExtrOcamlBasic.
From Verif.C17 Require Import Base17 Extracted Sorts Model Spec Exec.
Extraction "model_ml.ml" index_of into_iter has get_id total_size listed listings total_spec
  no_overflow all_homogeneous listed_by_blob_type mkid id_hi id_lo pack_type z_unused
  index_of_release prune_index_of prune_index_of_release listed_anywhere all_packs listings_in total_in
  no_overflow_in blob_read_request counts_fit total_release has_tree has_data get_tree get_data.
