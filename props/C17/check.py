"""C17 — the in-memory index answers exactly what the index files say.
Stages: regenerate Extracted.v from packfile.rs / indexfile.rs / index.rs; build + audit the
Coq theorems; correspondence of the extracted model with the hooked IndexCollector/Index/
GlobalIndex in the three IndexTypes (has, get_id, total_size, into_iter); the same questions
against the index a real repository loads from crafted index files (to_indexed,
to_indexed_ids); oracle = the extracted declarative spec (listed in an unmarked pack of that
type; one of the listings; sum of listed pack sizes) evaluated on the implementation's answers."""
import os, sys, json
import vlib
from vlib import ROOT, REPO, sh, log

U32 = 1 << 32
HI = (1 << 62) - 1
MODES = ["Full", "DataIds", "OnlyTrees"]


# ------------------------------------------------------------------ generation

def gen_case(rng, maxblobs):
    """One case as a dict {files:[{packs:[pack], del:[pack]}], queries:[(tpe,(hi,lo))]}.
    pack = {id:(hi,lo), size:None|int, blobs:[(id,tpe,off,len,ulen)]}; tpe 0 = tree, 1 = data."""
    # id pool with neighbours in sort order: differing in the last byte, the first bytes, both
    bh, bl = rng.choice([0, 1, rng.randint(0, HI - 8)]), rng.choice([0, 1, rng.randint(0, HI - 8)])
    npool = rng.choice([1, 2, 3, 5, 8, 13, 30])
    pool = []
    for _ in range(npool):
        r = rng.random()
        if r < 0.35: pool.append((bh, bl + rng.randint(0, 4)))
        elif r < 0.55: pool.append((bh + rng.randint(0, 3), bl))
        elif r < 0.7: pool.append((bh + rng.randint(0, 2), rng.choice([0, HI, bl + rng.randint(0, 2)])))
        elif r < 0.8: pool.append((rng.choice([0, HI]), rng.choice([0, HI])))
        else: pool.append((rng.randint(0, HI), rng.randint(0, HI)))
    ppool = [(rng.randint(0, HI), rng.randint(0, HI)) for _ in range(rng.choice([1, 2, 4, 8]))]
    budget = [rng.choice([3, 10, 40, maxblobs, maxblobs])]
    style = rng.randint(0, 9)   # 0: overflow-prone lengths, 1: mixed packs allowed, 2: all sizes explicit

    def pack(force_type=None):
        tp = force_type if force_type is not None else rng.choice([0, 1])
        nb = rng.choice([0, 0, 1, 1, 2, 3, 5, rng.randint(0, 12), rng.randint(0, 80)])
        nb = min(nb, budget[0]); budget[0] -= nb
        blobs = []
        for _ in range(nb):
            bid = rng.choice(pool)
            t = tp
            if style == 1 and rng.random() < 0.3: t = 1 - tp
            if style == 0 and rng.random() < 0.3:
                ln = rng.choice([U32 - 1, U32 - 37, U32 - 73, U32 - 74, U32 - 77, U32 - 78, U32 // 2, rng.randint(0, U32 - 1)])
            else:
                ln = rng.choice([0, 1, 32, 33, rng.randint(0, 5000), rng.randint(0, 1 << 24)])
            off = rng.choice([0, rng.randint(0, 1 << 20), rng.randint(0, U32 - 1), U32 - 1])
            ul = rng.choice([0, 0, 1, rng.randint(1, 1 << 20), U32 - 1])
            blobs.append((bid, t, off, ln, ul))
        if style == 2 or rng.random() < 0.45:
            size = rng.choice([0, 1, 36, rng.randint(0, 1 << 26), U32 - 1])
        else:
            size = None
        return {"id": rng.choice(ppool) if rng.random() < 0.5 else (rng.randint(0, HI), rng.randint(0, HI)),
                "size": size, "blobs": blobs}

    files = []
    for _ in range(rng.choice([0, 1, 1, 2, 3, 5])):
        np_ = rng.choice([0, 1, 2, 3, 6])
        nd = rng.choice([0, 0, 1, 2])
        files.append({"packs": [pack() for _ in range(np_)], "del": [pack() for _ in range(nd)]})
    # queries: pool ids under both types, some neighbours that are absent
    qs = []
    ids = list(dict.fromkeys(pool))
    rng.shuffle(ids)
    for i in ids[:12]:
        qs.append((0, i)); qs.append((1, i))
    for _ in range(rng.choice([0, 1, 3])):
        h, l = rng.choice(pool)
        qs.append((rng.choice([0, 1]), (min(HI, max(0, h + rng.choice([-1, 0, 1]))), min(HI, max(0, l + rng.choice([-1, 1]))))))
    return {"files": files, "queries": qs}


def pack_toks(p):
    t = [p["id"][0], p["id"][1]]
    t += [1, p["size"]] if p["size"] is not None else [0]
    t.append(len(p["blobs"]))
    for (bid, tp, off, ln, ul) in p["blobs"]:
        t += [bid[0], bid[1], tp, off, ln, ul]
    return t


def line_of(c):
    t = [len(c["files"])]
    for f in c["files"]:
        t.append(len(f["packs"]))
        for p in f["packs"]: t += pack_toks(p)
        t.append(len(f["del"]))
        for p in f["del"]: t += pack_toks(p)
    t.append(len(c["queries"]))
    for (tp, i) in c["queries"]: t += [tp, i[0], i[1]]
    return " ".join(map(str, t))


def parse_line(line):
    """inverse of line_of (corpus / replay)"""
    t = [int(x) for x in line.split()]
    pos = [0]
    def nx():
        pos[0] += 1
        return t[pos[0] - 1]
    def rd_pack():
        pid = (nx(), nx())
        size = nx() if nx() == 1 else None
        blobs = []
        for _ in range(nx()):
            bid = (nx(), nx()); tp = nx(); off = nx(); ln = nx(); ul = nx()
            blobs.append((bid, tp, off, ln, ul))
        return {"id": pid, "size": size, "blobs": blobs}
    files = []
    for _ in range(nx()):
        ps = [rd_pack() for _ in range(nx())]
        ds = [rd_pack() for _ in range(nx())]
        files.append({"packs": ps, "del": ds})
    qs = []
    for _ in range(nx()):
        tp = nx(); qs.append((tp, (nx(), nx())))
    return {"files": files, "queries": qs}


def case_features(c):
    """structure of a case, for the distribution histogram (independent of both sides)"""
    f = set()
    unm = [p for fl in c["files"] for p in fl["packs"]]
    mk = [p for fl in c["files"] for p in fl["del"]]
    def ptype(p): return p["blobs"][0][1] if p["blobs"] else 1
    seen = {}
    for p in unm:
        for b in p["blobs"]:
            seen.setdefault((ptype(p), b[0]), 0)
            seen[(ptype(p), b[0])] += 1
    if any(v > 1 for v in seen.values()): f.add("duplicate_listing")
    if any((0, i) in seen and (1, i) in seen for (_, i) in seen): f.add("same_id_both_types")
    if any(not p["blobs"] for p in unm): f.add("empty_pack")
    if mk: f.add("marked_packs")
    mids = {b[0] for p in mk for b in p["blobs"]}
    uids = {b[0] for p in unm for b in p["blobs"]}
    if mids - uids: f.add("id_only_in_marked_pack")
    if any(len({b[1] for b in p["blobs"]}) > 1 for p in unm): f.add("mixed_type_pack")
    ids = sorted(uids)
    if any(a[0] == b[0] and b[1] - a[1] == 1 for a, b in zip(ids, ids[1:])): f.add("adjacent_ids_last_byte")
    if any(b[0] - a[0] == 1 for a, b in zip(ids, ids[1:])): f.add("adjacent_ids_first_bytes")
    if any(p["size"] is None for p in unm): f.add("computed_pack_size")
    if any(p["size"] is not None for p in unm): f.add("explicit_pack_size")
    if len({p["id"] for p in unm}) < len(unm): f.add("same_pack_id_twice")
    return f


# ------------------------------------------------------------------ running / parsing

def run_lines(exe, lines, mode=None, timeout=3000):
    """run `exe` over the case lines, split into chunks processed in parallel; order preserved"""
    import subprocess
    bdir = os.path.join(vlib.BUILD, "C17")
    os.makedirs(bdir, exist_ok=True)
    nchunk = max(1, min(8, vlib.NCPU // 2, (len(lines) + 199) // 200))
    size = (len(lines) + nchunk - 1) // nchunk if lines else 1
    procs = []
    for k in range(nchunk):
        part = lines[k * size:(k + 1) * size]
        if not part: continue
        path = os.path.join(bdir, "in_%d_%d.txt" % (os.getpid(), k))
        open(path, "w").write("\n".join(part) + "\n")
        pr = subprocess.Popen("ulimit -s unlimited 2>/dev/null; '%s' '%s' %s" % (exe, path, mode or ""), shell=True,
                              stdout=subprocess.PIPE, stderr=subprocess.PIPE, text=True, errors="replace")
        procs.append((pr, path, len(part)))
    res = []
    for pr, path, n in procs:
        try:
            out, err = pr.communicate(timeout=timeout)
        except subprocess.TimeoutExpired:
            pr.kill(); out, err = "", "[timeout]"
        os.remove(path)
        got = out.splitlines()
        if pr.returncode != 0 or len(got) != n:
            raise RuntimeError("%s failed rc=%s (%d of %d lines)\n%s" % (exe, pr.returncode, len(got), n, err[-2000:]))
        res += got
    return res


def parse_modes(s, nq, with_iter=True):
    """'M tt td (h g)* [I pack*]' repeated -> list of dicts (or 'panic')"""
    toks = s.split()
    res, i = [], 0
    while i < len(toks):
        assert toks[i] == "M", s[:200]
        if toks[i + 1] == "panic":
            res.append("panic"); i += 2; continue
        d = {"tt": int(toks[i + 1]), "td": int(toks[i + 2]), "q": [], "iter": None}
        i += 3
        for _ in range(nq):
            d["q"].append((toks[i], toks[i + 1])); i += 2
        if with_iter:
            assert toks[i] == "I", s[:200]
            i += 1
            it = []
            while i < len(toks) and toks[i] != "M":
                it.append(toks[i]); i += 1
            d["iter"] = it
        res.append(d)
    return res


def parse_oracle(s, nq):
    toks = s.split()
    assert toks[0] == "S"
    o = {"tt": int(toks[1]), "td": int(toks[2]), "noov": toks[3] == "1", "homog": toks[4] == "1", "q": []}
    i = 5
    for _ in range(nq):
        o["q"].append({"listed": toks[i] == "1", "lbt": toks[i + 1] == "1",
                       "cands": [] if toks[i + 2] == "-" else toks[i + 2].split(",")})
        i += 3
    return o


def check_against_oracle(c, modes_res, orc, mode_names):
    """The property itself, evaluated on the implementation's answers.  Returns list of (what, detail)."""
    bad = []
    for mname, r in zip(mode_names, modes_res):
        if r == "panic":
            if orc["noov"]:
                bad.append(("index construction panics on index files whose pack sizes fit u32", mname))
            continue
        if r["tt"] != orc["tt"] or r["td"] != orc["td"]:
            bad.append(("total_size differs from the sum of listed pack sizes", "%s: impl %d/%d, listed %d/%d" % (mname, r["tt"], r["td"], orc["tt"], orc["td"])))
        for (tp, i), (h, g), o in zip(c["queries"], r["q"], orc["q"]):
            retained = not (mname == "OnlyTrees" and tp == 1)
            full = mname == "Full" or tp == 0
            want = o["listed"] and retained
            if (h == "1") != want:
                bad.append(("has() differs from 'listed in an unmarked pack of that type'", "%s: query %s %s: has=%s listed=%s" % (mname, "TD"[tp], i, h, o["listed"])))
            if full:
                if (g != "-") != o["listed"]:
                    bad.append(("get_id() succeeds differently from 'listed in an unmarked pack of that type'", "%s: query %s %s: get_id=%s listed=%s" % (mname, "TD"[tp], i, g, o["listed"])))
                elif g != "-":
                    tl, rest = g.split(":", 1)
                    if tl != "TD"[tp] or rest not in o["cands"]:
                        bad.append(("get_id() returns something that is not one of the listings", "%s: query %s %s: get_id=%s listings=%s" % (mname, "TD"[tp], i, g, o["cands"])))
            elif g != "-":
                bad.append(("get_id() answers in a mode that keeps no locations", "%s: query %s %s: %s" % (mname, "TD"[tp], i, g)))
    return bad


def diff_model(c, impl_res, model_res, orc, mode_names, with_iter=True):
    """model vs implementation; get_id may differ only among several listings of the same blob"""
    d = []
    for mname, a, b in zip(mode_names, impl_res, model_res):
        if a == "panic" or b == "panic":
            if a != b: d.append("%s: impl %s, model %s" % (mname, "panic" if a == "panic" else "ok", "panic" if b == "panic" else "ok"))
            continue
        if (a["tt"], a["td"]) != (b["tt"], b["td"]):
            d.append("%s: totals impl %s model %s" % (mname, (a["tt"], a["td"]), (b["tt"], b["td"])))
        for (tp, i), qa, qb, o in zip(c["queries"], a["q"], b["q"], orc["q"]):
            if qa[0] != qb[0]:
                d.append("%s: has %s %s impl %s model %s" % (mname, "TD"[tp], i, qa[0], qb[0]))
            if qa[1] != qb[1]:
                ok = len(o["cands"]) > 1 and qa[1] != "-" and qb[1] != "-" and qa[1].split(":", 1)[0] == qb[1].split(":", 1)[0] \
                     and qa[1].split(":", 1)[1] in o["cands"]
                if not ok:
                    d.append("%s: get_id %s %s impl %s model %s" % (mname, "TD"[tp], i, qa[1], qb[1]))
        if with_iter and a["iter"] != b["iter"]:
            d.append("%s: into_iter impl %s model %s" % (mname, a["iter"][:6], b["iter"][:6]))
    return d


# ------------------------------------------------------------------ the check

def run(ctx):
    rng = ctx.rng
    cov = ctx.coverage
    # 1. facts from the source
    meta, err = vlib.regen_extracted("C17")
    # 2. theorems
    r = vlib.proof_stage(ctx)
    if err:
        r["ok"] = False
        r["failures"].append("fact extraction from packfile.rs/indexfile.rs/index.rs failed: " + err)
    cov["extracted_facts"] = meta
    cov["trusted_base"] += ["props/C17/extract.py (pack-size constants, type of an empty pack, sections loaded by GlobalIndex::new_from_collector -> Extracted.v)",
                            "crates/core/src/verif_hooks/c17.rs (thin wrappers: IndexCollector::new/extend/into_index, ReadIndex, IntoIterator, GlobalIndex::new_from_index, save_file, Repository::index)"]
    ctx.assumptions += [
        "the sort in into_index / into_iter is any function returning a sorted permutation (sort_ok); rayon's par_sort_unstable(_by_key) is assumed to be one (theorems quantify over all such functions; the executable instance is the standard-library merge sort, proved correct)",
        "slice::binary_search_by is the size-halving loop of the pinned toolchain (transcribed as Model.bs_loop); the theorems only use that it returns an index holding an equal key iff one exists, so they hold for any correct binary search",
        "ids are natural numbers ordered like the 32-byte arrays (lexicographic byte order = numeric order)",
        "u32 additions in PackHeaderRef::pack_size are the checked additions of the debug build (model result None = panic); in a release build they wrap and total_size then differs from the unbounded sum — total_size_sum is stated for the non-overflowing case (index_of = Some)",
        "the type of a pack is the type of its first blob (IndexPack::blob_type); for packs that mix blob types the reading by the blob's own type differs (has_iff_listed_mixed_pack_refuted); packs written by the library are homogeneous",
        "u64 total_size and u32 pack counters cannot overflow below 2^32 packs per type (Model checks the pack counter; total_size < 2^64 follows)",
        "serde/JSON decoding of index files is outside the model (the harness feeds JSON text; the model gets the same numbers)",
    ]
    # 3. builds
    try:
        model = vlib.build_model("C17")
    except RuntimeError as e:
        model = None
        if r["ok"]:
            r["ok"] = False; r["failures"].append("extracted model no longer builds: " + str(e)[-500:])
    impl = vlib.build_harness("c17")
    # 4. cases
    ncases = 20000 if ctx.thorough() else 2000
    maxblobs = 400
    cases = []
    corpus = os.path.join(ctx.pdir, "corpus.txt")
    if os.path.exists(corpus):
        for ln in open(corpus):
            ln = ln.split("#")[0].strip()
            if ln: cases.append(parse_line(ln))
    while len(cases) < ncases:
        cases.append(gen_case(rng, maxblobs))
    if ctx.replay:
        rp = json.load(open(ctx.replay))
        cases = [parse_line(rp["witness"]["case"])]
    lines = [line_of(c) for c in cases]
    impl_out = run_lines(impl, lines)
    viol, mism, nontriv, hist, samples = [], [], set(), {}, []
    nq_total = 0
    nondet_ok = 0
    if model:
        model_out = run_lines(model, lines)
        for c, ln, io, mo in zip(cases, lines, impl_out, model_out):
            nq = len(c["queries"])
            mpart, _, opart = mo.partition(" | ")
            if io.strip() == "panic" or not opart:
                mism.append((ln, ["unparsable result: impl=%r model=%r" % (io[:100], mo[:100])])); continue
            ir = parse_modes(io, nq); mr = parse_modes(mpart, nq); orc = parse_oracle(opart, nq)
            nq_total += nq * 3
            for ft in case_features(c): hist[ft] = hist.get(ft, 0) + 1
            nb = sum(len(p["blobs"]) for f in c["files"] for p in f["packs"] + f["del"])
            k = "blobs_" + ("0" if nb == 0 else "1-10" if nb <= 10 else "11-100" if nb <= 100 else "101-400")
            hist[k] = hist.get(k, 0) + 1
            k = "files_%s" % (len(c["files"]) if len(c["files"]) < 3 else "3+")
            hist[k] = hist.get(k, 0) + 1
            if not orc["noov"]: hist["pack_size_overflow"] = hist.get("pack_size_overflow", 0) + 1
            if any(o["listed"] != o["lbt"] for o in orc["q"]): hist["blob_type_reading_differs"] = hist.get("blob_type_reading_differs", 0) + 1
            if any(len(o["cands"]) > 1 for o in orc["q"]): hist["query_with_several_listings"] = hist.get("query_with_several_listings", 0) + 1
            if any(o["listed"] for o in orc["q"]) and any(not o["listed"] for o in orc["q"]) and orc["noov"]:
                nontriv.add(ln)
            bad = check_against_oracle(c, ir, orc, MODES)
            for what, detail in bad:
                viol.append((what, ln, detail, orc))
            d = diff_model(c, ir, mr, orc, MODES)
            if d: mism.append((ln, d))
            # count tolerated get_id differences (several listings)
            for a, b in zip(ir, mr):
                if a != "panic" and b != "panic":
                    nondet_ok += sum(1 for qa, qb in zip(a["q"], b["q"]) if qa[1] != qb[1])
            if len(samples) < 3 and 0 < nb <= 6 and nq <= 8 and orc["noov"]:
                samples.append({"case": ln, "impl": io, "model": mpart, "oracle": opart})
    # 5. end to end: the index a repository loads itself
    e2e_n = 0
    e2e_viol, e2e_mism = [], []
    if model and not ctx.replay:
        want = 400 if ctx.thorough() else 60
        sub, sublines = [], []
        for c, mo in zip(cases, model_out):
            if len(sub) >= want: break
            if " | S " not in mo or mo.partition(" | ")[2].split()[3] != "1": continue   # no overflow only
            # identical index files are one file in a repository (content-addressed): drop repeats
            seen, fs = set(), []
            for f in c["files"]:
                key = json.dumps(f, sort_keys=True)
                if key not in seen:
                    seen.add(key); fs.append(f)
            c2 = {"files": fs, "queries": c["queries"]}
            sub.append(c2); sublines.append(line_of(c2))
        if sub:
            eo = run_lines(impl, sublines, "e2e")
            em = run_lines(model, sublines)
            for c, ln, io, mo in zip(sub, sublines, eo, em):
                nq = len(c["queries"])
                mpart, _, opart = mo.partition(" | ")
                if io.strip() == "panic":
                    e2e_mism.append((ln, ["e2e harness panicked"])); continue
                ir = parse_modes(io, nq, with_iter=False); mr = parse_modes(mpart, nq)[:2]; orc = parse_oracle(opart, nq)
                e2e_n += 1
                for what, detail in check_against_oracle(c, ir, orc, MODES[:2]):
                    e2e_viol.append((what + " (index loaded by Repository::to_indexed/to_indexed_ids)", ln, detail, orc))
                d = diff_model(c, ir, mr, orc, MODES[:2], with_iter=False)
                if d: e2e_mism.append((ln, d))
    cov.update({
        "evaluations": len(cases) + e2e_n, "distinct_nontrivial": len(nontriv),
        "rule": "case = 0-5 index files x 0-6 packs + 0-2 packs_to_delete each, <= %d blobs, ids drawn from a small pool (duplicates across packs and files, same id under both types, ids adjacent in the first and in the last byte, 0 and max), empty packs, explicit and header-derived pack sizes incl. u32 overflow, occasional mixed-type packs; every pool id queried under both types plus absent neighbours, in all three IndexTypes; non-trivial = at least one query listed and one not listed, no overflow; distinct by case text" % maxblobs,
        "samples": samples, "distribution": hist,
        "queries_evaluated": nq_total,
        "traces_validated_against_impl": len(cases) + e2e_n,
        "e2e_repository_cases": e2e_n,
        "disagreements_checked": len(mism) + len(viol) + len(e2e_mism) + len(e2e_viol),
        "get_id_differences_within_candidate_set": nondet_ok,
        "model_impl_mismatches": len(mism) + len(e2e_mism), "oracle_violations": len(viol) + len(e2e_viol)})
    # 6. decide
    seen_what = set()
    for what, ln, detail, orc in (viol + e2e_viol)[:50]:
        if what in seen_what: continue
        seen_what.add(what)
        ctx.violation(what, {"case": ln, "detail": detail,
                             "how_to_replay": "echo '<case>' | <target>/debug/c17 -   (format: harness/src/bin/c17.rs); ./check C17 --replay <this file>"},
                      signature=None)
    allm = mism + e2e_mism
    if allm and not (viol or e2e_viol):
        ctx.violation("correspondence broken: extracted index model disagrees with the implementation (%d cases) although every answer still matches the index files" % len(allm),
                      {"correspondence": "props/C17 Exec.index_of/has/get_id/total_size/into_iter vs IndexCollector/Index (hook c17)",
                       "first": {"case": allm[0][0], "differences": allm[0][1][:5]}}, no_input=True)
    vlib.finish_broken_obligations(ctx)
