"""C17 — the in-memory index answers exactly what the index files say.
Stages: regenerate Extracted.v from packfile.rs / indexfile.rs / index.rs; build + audit the
Coq theorems; correspondence of the extracted model with the hooked IndexCollector/Index/
GlobalIndex in the three IndexTypes (has, get_id, total_size, into_iter); the same questions
against the index a real repository loads from crafted index files (to_indexed,
to_indexed_ids); oracle = the extracted declarative spec (listed in an unmarked pack of that
type; one of the listings; sum of listed pack sizes) evaluated on the implementation's answers."""
import os, sys, json
import vlib
from vlib import ROOT, REPO, sh, log

U32 = 1 << 32
HI = (1 << 62) - 1
MODES = ["Full", "DataIds", "OnlyTrees", "Prune"]


# ------------------------------------------------------------------ generation

def gen_case(rng, maxblobs):
    """One case as a dict {files:[{packs:[pack], del:[pack]}], queries:[(tpe,(hi,lo))]}.
    pack = {id:(hi,lo), size:None|int, blobs:[(id,tpe,off,len,ulen)]}; tpe 0 = tree, 1 = data."""
    # id pool with neighbours in sort order: differing in the last byte, the first bytes, both
    bh, bl = rng.choice([0, 1, rng.randint(0, HI - 8)]), rng.choice([0, 1, rng.randint(0, HI - 8)])
    npool = rng.choice([1, 2, 3, 5, 8, 13, 30])
    pool = []
    for _ in range(npool):
        r = rng.random()
        if r < 0.35: pool.append((bh, bl + rng.randint(0, 4)))
        elif r < 0.55: pool.append((bh + rng.randint(0, 3), bl))
        elif r < 0.7: pool.append((bh + rng.randint(0, 2), rng.choice([0, HI, bl + rng.randint(0, 2)])))
        elif r < 0.8: pool.append((rng.choice([0, HI]), rng.choice([0, HI])))
        else: pool.append((rng.randint(0, HI), rng.randint(0, HI)))
    ppool = [(rng.randint(0, HI), rng.randint(0, HI)) for _ in range(rng.choice([1, 2, 4, 8]))]
    budget = [rng.choice([3, 10, 40, maxblobs, maxblobs])]
    style = rng.randint(0, 9)   # 0: overflow-prone lengths, 1: mixed packs allowed, 2: all sizes explicit

    def pack(force_type=None):
        tp = force_type if force_type is not None else rng.choice([0, 1])
        nb = rng.choice([0, 0, 1, 1, 2, 3, 5, rng.randint(0, 12), rng.randint(0, 80)])
        nb = min(nb, budget[0]); budget[0] -= nb
        blobs = []
        for _ in range(nb):
            bid = rng.choice(pool)
            t = tp
            if style == 1 and rng.random() < 0.3: t = 1 - tp
            if style == 0 and rng.random() < 0.3:
                ln = rng.choice([U32 - 1, U32 - 37, U32 - 73, U32 - 74, U32 - 77, U32 - 78, U32 // 2, rng.randint(0, U32 - 1)])
            else:
                ln = rng.choice([0, 1, 32, 33, rng.randint(0, 5000), rng.randint(0, 1 << 24)])
            off = rng.choice([0, rng.randint(0, 1 << 20), rng.randint(0, U32 - 1), U32 - 1])
            ul = rng.choice([0, 0, 1, rng.randint(1, 1 << 20), U32 - 1])
            blobs.append((bid, t, off, ln, ul))
        if style == 2 or rng.random() < 0.45:
            size = rng.choice([0, 1, 36, rng.randint(0, 1 << 26), U32 - 1])
        else:
            size = None
        return {"id": rng.choice(ppool) if rng.random() < 0.5 else (rng.randint(0, HI), rng.randint(0, HI)),
                "size": size, "blobs": blobs}

    files = []
    for _ in range(rng.choice([0, 1, 1, 2, 3, 5])):
        np_ = rng.choice([0, 1, 2, 3, 6])
        nd = rng.choice([0, 0, 1, 2])
        files.append({"packs": [pack() for _ in range(np_)], "del": [pack() for _ in range(nd)]})
    # queries: pool ids under both types, some neighbours that are absent
    qs = []
    ids = list(dict.fromkeys(pool))
    rng.shuffle(ids)
    for i in ids[:12]:
        qs.append((0, i)); qs.append((1, i))
    for _ in range(rng.choice([0, 1, 3])):
        h, l = rng.choice(pool)
        qs.append((rng.choice([0, 1]), (min(HI, max(0, h + rng.choice([-1, 0, 1]))), min(HI, max(0, l + rng.choice([-1, 1]))))))
    return {"files": files, "queries": qs}


def pack_toks(p):
    t = [p["id"][0], p["id"][1]]
    t += [1, p["size"]] if p["size"] is not None else [0]
    t.append(len(p["blobs"]))
    for (bid, tp, off, ln, ul) in p["blobs"]:
        t += [bid[0], bid[1], tp, off, ln, ul]
    return t


def line_of(c):
    t = [len(c["files"])]
    for f in c["files"]:
        t.append(len(f["packs"]))
        for p in f["packs"]: t += pack_toks(p)
        t.append(len(f["del"]))
        for p in f["del"]: t += pack_toks(p)
    t.append(len(c["queries"]))
    for (tp, i) in c["queries"]: t += [tp, i[0], i[1]]
    return " ".join(map(str, t))


def parse_line(line):
    """inverse of line_of (corpus / replay)"""
    t = [int(x) for x in line.split()]
    pos = [0]
    def nx():
        pos[0] += 1
        return t[pos[0] - 1]
    def rd_pack():
        pid = (nx(), nx())
        size = nx() if nx() == 1 else None
        blobs = []
        for _ in range(nx()):
            bid = (nx(), nx()); tp = nx(); off = nx(); ln = nx(); ul = nx()
            blobs.append((bid, tp, off, ln, ul))
        return {"id": pid, "size": size, "blobs": blobs}
    files = []
    for _ in range(nx()):
        ps = [rd_pack() for _ in range(nx())]
        ds = [rd_pack() for _ in range(nx())]
        files.append({"packs": ps, "del": ds})
    qs = []
    for _ in range(nx()):
        tp = nx(); qs.append((tp, (nx(), nx())))
    return {"files": files, "queries": qs}


def case_features(c):
    """structure of a case, for the distribution histogram (independent of both sides)"""
    f = set()
    unm = [p for fl in c["files"] for p in fl["packs"]]
    mk = [p for fl in c["files"] for p in fl["del"]]
    def ptype(p): return p["blobs"][0][1] if p["blobs"] else 1
    seen = {}
    for p in unm:
        for b in p["blobs"]:
            seen.setdefault((ptype(p), b[0]), 0)
            seen[(ptype(p), b[0])] += 1
    if any(v > 1 for v in seen.values()): f.add("duplicate_listing")
    if any((0, i) in seen and (1, i) in seen for (_, i) in seen): f.add("same_id_both_types")
    if any(not p["blobs"] for p in unm): f.add("empty_pack")
    if mk: f.add("marked_packs")
    mids = {b[0] for p in mk for b in p["blobs"]}
    uids = {b[0] for p in unm for b in p["blobs"]}
    if mids - uids: f.add("id_only_in_marked_pack")
    if any(len({b[1] for b in p["blobs"]}) > 1 for p in unm): f.add("mixed_type_pack")
    ids = sorted(uids)
    if any(a[0] == b[0] and b[1] - a[1] == 1 for a, b in zip(ids, ids[1:])): f.add("adjacent_ids_last_byte")
    if any(b[0] - a[0] == 1 for a, b in zip(ids, ids[1:])): f.add("adjacent_ids_first_bytes")
    if any(p["size"] is None for p in unm): f.add("computed_pack_size")
    if any(p["size"] is not None for p in unm): f.add("explicit_pack_size")
    if len({p["id"] for p in unm}) < len(unm): f.add("same_pack_id_twice")
    return f


# ------------------------------------------------------------------ running / parsing

def run_lines(exe, lines, mode=None, timeout=3000):
    """run `exe` over the case lines, split into chunks processed in parallel; order preserved"""
    import subprocess
    bdir = os.path.join(vlib.BUILD, "C17")
    os.makedirs(bdir, exist_ok=True)
    nchunk = max(1, min(8, vlib.NCPU // 2, (len(lines) + 199) // 200))
    size = (len(lines) + nchunk - 1) // nchunk if lines else 1
    procs = []
    for k in range(nchunk):
        part = lines[k * size:(k + 1) * size]
        if not part: continue
        path = os.path.join(bdir, "in_%d_%d.txt" % (os.getpid(), k))
        open(path, "w").write("\n".join(part) + "\n")
        pr = subprocess.Popen("ulimit -s unlimited 2>/dev/null; '%s' '%s' %s" % (exe, path, mode or ""), shell=True,
                              stdout=subprocess.PIPE, stderr=subprocess.PIPE, text=True, errors="replace")
        procs.append((pr, path, len(part)))
    res = []
    for pr, path, n in procs:
        try:
            out, err = pr.communicate(timeout=timeout)
        except subprocess.TimeoutExpired:
            pr.kill(); out, err = "", "[timeout]"
        os.remove(path)
        got = out.splitlines()
        if pr.returncode != 0 or len(got) != n:
            raise RuntimeError("%s failed rc=%s (%d of %d lines)\n%s" % (exe, pr.returncode, len(got), n, err[-2000:]))
        res += got
    return res


def parse_modes(s, nq, with_iter=True, ntok=2):
    """'M tt td (h g [r])* [I pack*]' repeated -> list of dicts (or 'panic')"""
    toks = s.split()
    res, i = [], 0
    while i < len(toks):
        assert toks[i] == "M", s[:200]
        if toks[i + 1] == "panic":
            res.append("panic"); i += 2; continue
        d = {"tt": int(toks[i + 1]), "td": int(toks[i + 2]), "q": [], "iter": None}
        i += 3
        for _ in range(nq):
            d["q"].append(tuple(toks[i:i + ntok])); i += ntok
        if with_iter:
            assert toks[i] == "I", s[:200]
            i += 1
            it = []
            while i < len(toks) and toks[i] != "M":
                it.append(toks[i]); i += 1
            d["iter"] = it
        res.append(d)
    return res


def parse_oracle(s, nq):
    toks = s.split()
    assert toks[0] == "S"
    o = {"tt": int(toks[1]), "td": int(toks[2]), "noov": toks[3] == "1", "homog": toks[4] == "1",
         "rtt": int(toks[5]), "rtd": int(toks[6]), "cfit": toks[7] == "1",
         "att": int(toks[8]), "atd": int(toks[9]), "anoov": toks[10] == "1", "q": []}
    i = 11
    for _ in range(nq):
        o["q"].append({"listed": toks[i] == "1", "lbt": toks[i + 1] == "1",
                       "cands": [] if toks[i + 2] == "-" else toks[i + 2].split(","),
                       "listed_any": toks[i + 3] == "1",
                       "cands_any": [] if toks[i + 4] == "-" else toks[i + 4].split(",")})
        i += 5
    return o


def check_against_oracle(c, modes_res, orc, mode_names, release=False):
    """The property itself, evaluated on the implementation's answers.  Returns list of (what, detail).
    Block `Prune` is the index prune builds (both sections, trees only): its statement is
    prune_index_has_iff_listed_anywhere.  release=True: wrapped totals, no pack-size panic."""
    bad = []
    for mname, r in zip(mode_names, modes_res):
        prune = mname == "Prune"
        if r == "panic":
            fits = orc["cfit"] if release else (orc["anoov"] if prune else orc["noov"])
            if fits:
                bad.append(("index construction panics on index files whose pack sizes fit u32", mname))
            continue
        if prune:
            want_tot = None if release else (orc["att"], orc["atd"])
        else:
            want_tot = (orc["rtt"], orc["rtd"]) if release else (orc["tt"], orc["td"])
        if want_tot is not None and (r["tt"], r["td"]) != want_tot:
            bad.append(("total_size differs from the sum of listed pack sizes" + (" (release build: wrapped header-derived sizes)" if release else ""),
                        "%s: impl %d/%d, listed %d/%d" % (mname, r["tt"], r["td"], want_tot[0], want_tot[1])))
        for (tp, i), q, o in zip(c["queries"], r["q"], orc["q"]):
            h, g = q[0], q[1]
            listed = o["listed_any"] if prune else o["listed"]
            cands = o["cands_any"] if prune else o["cands"]
            retained = not (mname in ("OnlyTrees", "Prune") and tp == 1)
            full = mname == "Full" or tp == 0
            want = listed and retained
            where = "listed anywhere (packs or packs_to_delete)" if prune else "listed in an unmarked pack of that type"
            if (h == "1") != want:
                bad.append(("has() differs from '%s'" % where, "%s: query %s %s: has=%s listed=%s" % (mname, "TD"[tp], i, h, listed)))
            if full:
                if (g != "-") != listed:
                    bad.append(("get_id() succeeds differently from '%s'" % where, "%s: query %s %s: get_id=%s listed=%s" % (mname, "TD"[tp], i, g, listed)))
                elif g != "-":
                    tl, rest = g.split(":", 1)
                    if tl != "TD"[tp] or rest not in cands:
                        bad.append(("get_id() returns something that is not one of the listings", "%s: query %s %s: get_id=%s listings=%s" % (mname, "TD"[tp], i, g, cands)))
            elif g != "-":
                bad.append(("get_id() answers in a mode that keeps no locations", "%s: query %s %s: %s" % (mname, "TD"[tp], i, g)))
            if len(q) > 2:
                # blob_from_backend: exactly the looked-up location goes to the backend read
                rr = q[2]
                if g == "-":
                    if rr != "-":
                        bad.append(("blob_from_backend reads although the blob is not in the index", "%s: query %s %s: read=%s" % (mname, "TD"[tp], i, rr)))
                else:
                    pk_off_len = ":".join(g.split(":")[1:4])
                    if rr != "%d:%s" % (1 if tp == 0 else 0, pk_off_len):
                        bad.append(("blob_from_backend does not read the listed location (pack, cacheable = tree, offset, length)", "%s: query %s %s: get_id=%s read=%s" % (mname, "TD"[tp], i, g, rr)))
    return bad


def diff_model(c, impl_res, model_res, orc, mode_names, with_iter=True):
    """model vs implementation; get_id may differ only among several listings of the same blob"""
    d = []
    for mname, a, b in zip(mode_names, impl_res, model_res):
        if a == "panic" or b == "panic":
            if a != b: d.append("%s: impl %s, model %s" % (mname, "panic" if a == "panic" else "ok", "panic" if b == "panic" else "ok"))
            continue
        if (a["tt"], a["td"]) != (b["tt"], b["td"]):
            d.append("%s: totals impl %s model %s" % (mname, (a["tt"], a["td"]), (b["tt"], b["td"])))
        for (tp, i), qa, qb, o in zip(c["queries"], a["q"], b["q"], orc["q"]):
            if qa[0] != qb[0]:
                d.append("%s: has %s %s impl %s model %s" % (mname, "TD"[tp], i, qa[0], qb[0]))
            cands = o["cands_any"] if mname == "Prune" else o["cands"]
            if qa[1] != qb[1]:
                ok = len(cands) > 1 and qa[1] != "-" and qb[1] != "-" and qa[1].split(":", 1)[0] == qb[1].split(":", 1)[0] \
                     and qa[1].split(":", 1)[1] in cands
                if not ok:
                    d.append("%s: get_id %s %s impl %s model %s" % (mname, "TD"[tp], i, qa[1], qb[1]))
            if len(qa) > 2 and len(qb) > 2:
                # model r = c:pack:off:len:ulen, impl r = c:pack:off:len (ulen never reaches the backend)
                mr_ = qb[2] if qb[2] == "-" else qb[2].rsplit(":", 1)[0]
                if qa[2] != mr_ and not (len(cands) > 1 and qa[2] != "-" and mr_ != "-"):
                    d.append("%s: blob_from_backend read %s %s impl %s model %s" % (mname, "TD"[tp], i, qa[2], qb[2]))
        if with_iter and a["iter"] != b["iter"]:
            d.append("%s: into_iter impl %s model %s" % (mname, a["iter"][:6], b["iter"][:6]))
    return d


# ------------------------------------------------------------------ the check

def run(ctx):
    rng = ctx.rng
    cov = ctx.coverage
    # 1. facts from the source
    meta, err = vlib.regen_extracted("C17")
    # 2. theorems
    r = vlib.proof_stage(ctx)
    if err:
        r["ok"] = False
        r["failures"].append("fact extraction from packfile.rs/indexfile.rs/index.rs/prune.rs/blob.rs/decrypt.rs failed: " + err)
    cov["extracted_facts"] = meta
    cov["trusted_base"] += ["props/C17/extract.py (pack-size constants, type of an empty pack, sections loaded by GlobalIndex::new_from_collector -> Extracted.v)",
                            "crates/core/src/verif_hooks/c17.rs (thin wrappers: IndexCollector::new/extend/into_index, the collector loop of prune, ReadIndex incl. typed wrappers and blob_from_backend, IntoIterator, GlobalIndex::new_from_index, save_file, Repository::index)", "harness/src/e2e.rs RecBackend (records read_partial calls)"]
    ctx.assumptions += [
        "the sort in into_index / into_iter is any function returning a sorted permutation (sort_ok); rayon's par_sort_unstable(_by_key) is assumed to be one (theorems quantify over all such functions; the executable instance is the standard-library merge sort, proved correct)",
        "slice::binary_search_by is the size-halving loop of the pinned toolchain (transcribed as Model.bs_loop); the theorems only use that it returns an index holding an equal key iff one exists, so they hold for any correct binary search",
        "ids are natural numbers ordered like the 32-byte arrays (lexicographic byte order = numeric order)",
        "u32 additions in PackHeaderRef::pack_size: both builds are modelled — checked (debug, None = panic) and wrapping (release, pack_size_wrapping); equal whenever the checked build does not panic (release_equals_checked); otherwise the release build reports totals with sizes modulo 2^32 (release_build_characterisation, release_total_size_sum_refuted); both builds of the harness are run",
        "prune's own index is modelled from the facts regenerated from PrunePlan::from_prune_options (IndexType, the two extend calls); tied to prune.rs by the extractor and by running the real Repository::prune_plan on repositories with crafted index files and one snapshot per queried tree (the pack read it issues shows what its index found); its totals (PackSizer input) are only compared through the hook that repeats the loop",
        "blob_from_backend: backend read and decryption/decompression are arbitrary functions; only which pack/cacheable/offset/length/uncompressed_length reach them is stated (the recording backend sees pack, cacheable, offset, length)",
        "the type of a pack is the type of its first blob (IndexPack::blob_type); for packs that mix blob types the reading by the blob's own type differs (has_iff_listed_mixed_pack_refuted); packs written by the library are homogeneous",
        "explicit pack sizes are u32 values (type of IndexPack::size): premise sizes_are_u32 of total_size_no_overflow",
        "serde/JSON decoding of index files is outside the model (the harness feeds JSON text; the model gets the same numbers)",
    ]
    # 3. builds
    try:
        model = vlib.build_model("C17")
    except RuntimeError as e:
        model = None
        if r["ok"]:
            r["ok"] = False; r["failures"].append("extracted model no longer builds: " + str(e)[-500:])
    impl = vlib.build_harness("c17")
    # 4. cases
    ncases = 20000 if ctx.thorough() else 1500
    maxblobs = 400
    cases = []
    corpus = os.path.join(ctx.pdir, "corpus.txt")
    if os.path.exists(corpus):
        for ln in open(corpus):
            ln = ln.split("#")[0].strip()
            if ln: cases.append(parse_line(ln))
    while len(cases) < ncases:
        cases.append(gen_case(rng, maxblobs))
    if ctx.replay:
        rp = json.load(open(ctx.replay))
        cases = [parse_line(rp["witness"]["case"])]
    lines = [line_of(c) for c in cases]
    impl_out = run_lines(impl, lines)
    viol, mism, nontriv, hist, samples = [], [], set(), {}, []
    nq_total = 0
    nondet_ok = 0
    if model:
        model_out = run_lines(model, lines)
        for c, ln, io, mo in zip(cases, lines, impl_out, model_out):
            nq = len(c["queries"])
            mpart, _, opart = mo.partition(" | ")
            if io.strip() == "panic" or not opart:
                mism.append((ln, ["unparsable result: impl=%r model=%r" % (io[:100], mo[:100])])); continue
            ir = parse_modes(io, nq); mr = parse_modes(mpart, nq, ntok=3); orc = parse_oracle(opart, nq)
            nq_total += nq * 4
            for ft in case_features(c): hist[ft] = hist.get(ft, 0) + 1
            nb = sum(len(p["blobs"]) for f in c["files"] for p in f["packs"] + f["del"])
            k = "blobs_" + ("0" if nb == 0 else "1-10" if nb <= 10 else "11-100" if nb <= 100 else "101-400")
            hist[k] = hist.get(k, 0) + 1
            k = "files_%s" % (len(c["files"]) if len(c["files"]) < 3 else "3+")
            hist[k] = hist.get(k, 0) + 1
            if not orc["noov"]: hist["pack_size_overflow"] = hist.get("pack_size_overflow", 0) + 1
            if orc["noov"] and not orc["anoov"]: hist["overflow_only_in_marked_pack"] = hist.get("overflow_only_in_marked_pack", 0) + 1
            if any(o["listed_any"] and not o["listed"] for o in orc["q"]): hist["query_listed_only_in_marked_pack"] = hist.get("query_listed_only_in_marked_pack", 0) + 1
            if any(o["listed"] != o["lbt"] for o in orc["q"]): hist["blob_type_reading_differs"] = hist.get("blob_type_reading_differs", 0) + 1
            if any(len(o["cands"]) > 1 for o in orc["q"]): hist["query_with_several_listings"] = hist.get("query_with_several_listings", 0) + 1
            if any(o["listed"] for o in orc["q"]) and any(not o["listed"] for o in orc["q"]) and orc["noov"]:
                nontriv.add(ln)
            bad = check_against_oracle(c, ir, orc, MODES)
            for what, detail in bad:
                viol.append((what, ln, detail, orc))
            d = diff_model(c, ir, mr, orc, MODES)
            if d: mism.append((ln, d))
            # count tolerated get_id differences (several listings)
            for a, b in zip(ir, mr):
                if a != "panic" and b != "panic":
                    nondet_ok += sum(1 for qa, qb in zip(a["q"], b["q"]) if qa[1] != qb[1])
            if len(samples) < 3 and 0 < nb <= 6 and nq <= 8 and orc["noov"]:
                samples.append({"case": ln, "impl": io, "model": mpart, "oracle": opart})
    # 4b. release build of the harness (u32 additions wrap): every overflow case + a sample of the others
    rel_n = rel_over = 0
    rel_viol, rel_mism = [], []
    if model and not ctx.replay:
        impl_rel = vlib.build_harness("c17", release=True)
        want = 2000 if ctx.thorough() else 150
        rl, rc = [], []
        for c, ln, mo in zip(cases, lines, model_out):
            opart = mo.partition(" | ")[2].split()
            over = len(opart) > 10 and (opart[3] != "1" or opart[10] != "1")
            if over or len(rl) < want:
                rl.append(ln); rc.append(c); rel_over += 1 if over else 0
        ro = run_lines(impl_rel, rl)
        rm = run_lines(model, rl, "release")
        for c, ln, io, mo in zip(rc, rl, ro, rm):
            nq = len(c["queries"])
            mpart, _, opart = mo.partition(" | ")
            if io.strip() == "panic" or not opart:
                rel_mism.append((ln, ["unparsable result (release): impl=%r model=%r" % (io[:100], mo[:100])])); continue
            ir = parse_modes(io, nq); mr = parse_modes(mpart, nq, ntok=3); orc = parse_oracle(opart, nq)
            rel_n += 1
            for what, detail in check_against_oracle(c, ir, orc, MODES, release=True):
                rel_viol.append((what + " (release build)", ln, detail, orc))
            d = diff_model(c, ir, mr, orc, MODES)
            if d: rel_mism.append((ln, ["release build: " + x for x in d]))
    # 5. end to end: the index a repository loads itself
    e2e_n = 0
    e2e_viol, e2e_mism = [], []
    fault_res = {}
    if model and not ctx.replay:
        want = 400 if ctx.thorough() else 60
        sub, sublines = [], []
        for c, mo in zip(cases, model_out):
            if len(sub) >= want: break
            if " | S " not in mo or mo.partition(" | ")[2].split()[3] != "1": continue   # no overflow only
            # identical index files are one file in a repository (content-addressed): drop repeats
            seen, fs = set(), []
            for f in c["files"]:
                key = json.dumps(f, sort_keys=True)
                if key not in seen:
                    seen.add(key); fs.append(f)
            c2 = {"files": fs, "queries": c["queries"]}
            sub.append(c2); sublines.append(line_of(c2))
        if sub:
            eo = run_lines(impl, sublines, "e2e")
            em = run_lines(model, sublines)
            for c, ln, io, mo in zip(sub, sublines, eo, em):
                nq = len(c["queries"])
                mpart, _, opart = mo.partition(" | ")
                if io.strip() == "panic":
                    e2e_mism.append((ln, ["e2e harness panicked"])); continue
                io, _, fres = io.partition(" | F ")
                fault_res[fres.strip()] = fault_res.get(fres.strip(), 0) + 1
                if fres.strip() == "differs":
                    e2e_viol.append(("an index built although the read of one index file failed answers differently from what the index files say (read fault while Repository::to_indexed loads the index)", ln, "fault: the (number of queries mod number of index files)-th read_full(Index) fails once; to_indexed returned Ok", parse_oracle(mo.partition(" | ")[2], nq)))
                ir = parse_modes(io, nq, with_iter=False, ntok=3); mr = parse_modes(mpart, nq, ntok=3)[:2]; orc = parse_oracle(opart, nq)
                e2e_n += 1
                for what, detail in check_against_oracle(c, ir, orc, MODES[:2]):
                    e2e_viol.append((what + " (index loaded by Repository::to_indexed/to_indexed_ids)", ln, detail, orc))
                d = diff_model(c, ir, mr, orc, MODES[:2], with_iter=False)
                if d: e2e_mism.append((ln, d))
    # 5b. prune's own index observed through the real Repository::prune_plan
    pr_n = 0
    pr_viol, pr_mism = [], []
    if model and not ctx.replay:
        want = 200 if ctx.thorough() else 40
        sub, sublines = [], []
        for c, mo in zip(cases, model_out):
            if len(sub) >= want: break
            op = mo.partition(" | ")[2].split()
            if len(op) < 11 or op[10] != "1" or not any(tp == 0 for tp, _ in c["queries"]): continue
            seen, fs = set(), []
            for f in c["files"]:
                key = json.dumps(f, sort_keys=True)
                if key not in seen:
                    seen.add(key); fs.append(f)
            c2 = {"files": fs, "queries": c["queries"]}
            sub.append(c2); sublines.append(line_of(c2))
        if sub:
            po = run_lines(impl, sublines, "prune")
            pm = run_lines(model, sublines)
            for c, ln, io, mo in zip(sub, sublines, po, pm):
                nq = len(c["queries"])
                mpart, _, opart = mo.partition(" | ")
                mr = parse_modes(mpart, nq, ntok=3); orc = parse_oracle(opart, nq)
                toks = io.split()
                if not toks or toks[0] != "P" or mr[3] == "panic":
                    pr_mism.append((ln, ["prune_plan harness: %r" % io[:120]])); continue
                pr_n += 1
                tq = [(k, i) for k, (tp, i) in enumerate(c["queries"]) if tp == 0][:8]
                for (k, i), tok in zip(tq, toks[1:]):
                    rr = tok.split("=", 1)[1]
                    o = orc["q"][k]
                    if (rr != "-") != o["listed_any"]:
                        pr_viol.append(("prune's index finds a tree differently from 'listed anywhere (packs or packs_to_delete)'", ln, "tree %s: read=%s listed_anywhere=%s" % (i, rr, o["listed_any"]), orc))
                    elif rr != "-" and (not rr.startswith("1:") or not any(cd.rsplit(":", 1)[0] == rr[2:] for cd in o["cands_any"])):
                        pr_viol.append(("prune reads a tree at a location that is not one of its listings", ln, "tree %s: read=%s listings=%s" % (i, rr, o["cands_any"]), orc))
                    m_r = mr[3]["q"][k][2]
                    m_r = m_r if m_r == "-" else m_r.rsplit(":", 1)[0]
                    if rr != m_r and not (len(o["cands_any"]) > 1 and rr != "-" and m_r != "-"):
                        pr_mism.append((ln, ["prune_plan: tree %s read impl %s model %s" % (i, rr, m_r)]))
    cov.update({
        "evaluations": len(cases) + e2e_n + rel_n + pr_n, "distinct_nontrivial": len(nontriv),
        "rule": "case = 0-5 index files x 0-6 packs + 0-2 packs_to_delete each, <= %d blobs, ids drawn from a small pool (duplicates across packs and files, same id under both types, ids adjacent in the first and in the last byte, 0 and max), empty packs, explicit and header-derived pack sizes incl. u32 overflow, occasional mixed-type packs; every pool id queried under both types plus absent neighbours, in all three IndexTypes and in the index prune builds for itself (both sections, trees only); the overflow cases and a sample of the others also against a release build of the harness (wrapping u32); repository cases also issue blob_from_backend over a recording backend, and every second index file of a repository case carries a `supersedes` list naming its (still present) predecessor and an id that does not exist - the model has no such field, a present file counts whatever others say about it; each repository case is loaded once more with one failing read of an index file: the load must fail or answer as the fault-free load does; non-trivial = at least one query listed and one not listed, no overflow; distinct by case text" % maxblobs,
        "samples": samples, "distribution": hist,
        "queries_evaluated": nq_total,
        "traces_validated_against_impl": len(cases) + e2e_n + rel_n + pr_n,
        "e2e_repository_cases": e2e_n, "e2e_index_read_fault_outcomes": fault_res, "prune_plan_cases": pr_n, "release_build_cases": rel_n, "release_build_overflow_cases": rel_over,
        "disagreements_checked": len(mism) + len(viol) + len(e2e_mism) + len(e2e_viol) + len(rel_mism) + len(rel_viol) + len(pr_mism) + len(pr_viol),
        "get_id_differences_within_candidate_set": nondet_ok,
        "model_impl_mismatches": len(mism) + len(e2e_mism) + len(rel_mism) + len(pr_mism), "oracle_violations": len(viol) + len(e2e_viol) + len(rel_viol) + len(pr_viol)})
    # 6. decide
    seen_what = set()
    for what, ln, detail, orc in (viol + e2e_viol + rel_viol + pr_viol)[:50]:
        if what in seen_what: continue
        seen_what.add(what)
        ctx.violation(what, {"case": ln, "detail": detail,
                             "how_to_replay": "echo '<case>' | <target>/debug/c17 -   (format: harness/src/bin/c17.rs); ./check C17 --replay <this file>"},
                      signature=None)
    allm = mism + e2e_mism + rel_mism + pr_mism
    if allm and not (viol or e2e_viol or rel_viol or pr_viol):
        ctx.violation("correspondence broken: extracted index model disagrees with the implementation (%d cases) although every answer still matches the index files" % len(allm),
                      {"correspondence": "props/C17 Exec.index_of/has/get_id/total_size/into_iter vs IndexCollector/Index (hook c17)",
                       "first": {"case": allm[0][0], "differences": allm[0][1][:5]}}, no_input=True)
    vlib.finish_broken_obligations(ctx)
