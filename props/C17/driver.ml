(* prelude: zn nat *)
(* C17 driver: same case lines as harness/src/bin/c17.rs (see there for the format).
   Output: the model's answers in the format of the harness, then ` | ` and the oracle
   (declarative spec): S tt td no_overflow all_homogeneous, then per query
   listed listed_by_blob_type candidates. *)
let rd_id t = let hi = ni t in let lo = ni t in mkid (n_of_int hi) (n_of_int lo)
let idstr i = Printf.sprintf "%d_%d" (int_of_n (id_hi i)) (int_of_n (id_lo i))

let rd_pack t =
  let id = rd_id t in
  let size = if ni t = 1 then Some (n_of_int (ni t)) else None in
  let nb = ni t in
  let bl = ntimes nb (fun () ->
    let bid = rd_id t in
    let tp = if ni t = 0 then Tree else Data in
    let off = ni t in let len = ni t in let ul = ni t in
    { bid = bid; btpe = tp; bloc = { off = n_of_int off; len = n_of_int len;
                                     ulen = if ul = 0 then None else Some (n_of_int ul) } }) in
  { pid = id; blobs = bl; psize = size }

let tstr = function Tree -> "T" | Data -> "D"
let ulen_int = function None -> 0 | Some u -> int_of_n u
let loc_str l = Printf.sprintf "%d:%d:%d" (int_of_n l.off) (int_of_n l.len) (ulen_int l.ulen)

let pack_str p =
  let bs = List.map (fun b -> (idstr b.bid, tstr b.btpe, int_of_n b.bloc.off, int_of_n b.bloc.len, ulen_int b.bloc.ulen)) p.blobs in
  let bs = List.sort compare bs in
  let size = match p.psize with None -> "-" | Some s -> string_of_int (int_of_n s) in
  Printf.sprintf "%s/%s[%s]" (idstr p.pid) size
    (String.concat ";" (List.map (fun (i, t, o, l, u) -> Printf.sprintf "%s.%s.%d.%d.%d" i t o l u) bs))

let case release line =
  let t = toks line in
  let nf = ni t in
  let files = ntimes nf (fun () ->
    let np = ni t in let ps = ntimes np (fun () -> rd_pack t) in
    let nd = ni t in let ds = ntimes nd (fun () -> rd_pack t) in
    { packs = ps; packs_to_delete = ds }) in
  let nq = ni t in
  let qs = ntimes nq (fun () -> let tp = if ni t = 0 then Tree else Data in let id = rd_id t in (tp, id)) in
  let b = Buffer.create 1024 in
  let block k ixo =
    if k > 0 then Buffer.add_char b ' ';
    match ixo with
    | None -> Buffer.add_string b "M panic"
    | Some ix ->
      Buffer.add_string b (Printf.sprintf "M %d %d" (int_of_n (total_size ix Tree)) (int_of_n (total_size ix Data)));
      List.iter (fun (tp, id) ->
        let h = if has ix tp id then 1 else 0 in
        (* the typed wrappers must be the typed lookups *)
        (match tp with
         | Tree -> if has_tree ix id <> has ix tp id || get_tree ix id <> get_id ix tp id then failwith "wrapper"
         | Data -> if has_data ix id <> has ix tp id || get_data ix id <> get_id ix tp id then failwith "wrapper");
        let g = match get_id ix tp id with
          | None -> "-"
          | Some ((tp', pk), lc) -> Printf.sprintf "%s:%s:%s" (tstr tp') (idstr pk) (loc_str lc) in
        (* blob_from_backend: the partial read it would issue *)
        let r = match blob_read_request ix tp id with
          | None -> "-"
          | Some rq -> Printf.sprintf "%d:%s:%d:%d:%d" (if rq.r_cacheable then 1 else 0) (idstr rq.r_pack)
                         (int_of_n rq.r_off) (int_of_n rq.r_len) (ulen_int rq.r_ulen) in
        Buffer.add_string b (Printf.sprintf " %d %s %s" h g r)) qs;
      Buffer.add_string b " I";
      List.iter (fun p -> Buffer.add_char b ' '; Buffer.add_string b (pack_str p)) (into_iter ix) in
  List.iteri (fun k m -> block k (if release then index_of_release m files else index_of m files))
    [Full; DataIds; OnlyTrees];
  block 3 (if release then prune_index_of_release files else prune_index_of files);
  let ap = all_packs files in
  let b01 x = if x then 1 else 0 in
  Buffer.add_string b (Printf.sprintf " | S %d %d %d %d %d %d %d %d %d %d" (int_of_n (total_spec files Tree)) (int_of_n (total_spec files Data))
    (b01 (no_overflow files)) (b01 (all_homogeneous files))
    (int_of_n (total_release files Tree)) (int_of_n (total_release files Data)) (b01 (counts_fit files))
    (int_of_n (total_in ap Tree)) (int_of_n (total_in ap Data)) (b01 (no_overflow_in ap)));
  let cands c = if c = [] then "-" else String.concat "," (List.map (fun (pk, lc) -> Printf.sprintf "%s:%s" (idstr pk) (loc_str lc)) c) in
  List.iter (fun (tp, id) ->
    Buffer.add_string b (Printf.sprintf " %d %d %s %d %s" (b01 (listed files tp id))
      (b01 (listed_by_blob_type files tp id)) (cands (listings files tp id))
      (b01 (listed_anywhere files tp id)) (cands (listings_in ap tp id)))) qs;
  Buffer.contents b

let () =
  let release = Array.length Sys.argv > 2 && Sys.argv.(2) = "release" in
  main_loop (case release)
