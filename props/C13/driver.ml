(* prelude: n nat *)
(* C13 driver.  A case line: `<npacks> { <t> <n> id.. }*` = the packs one real command wrote, in
   write order (t: 0 data, 1 tree).  The driver builds a schedule of the model that reproduces
   them (all items pass the filters before anything is indexed, then pack by pack: add, flush,
   write, index), runs it, and prints whether the run is admitted, final, and its index.
   Mode "random <seed> <nsends>": a random maximal run of the model; prints the invariants'
   observable consequences (used as a sanity check of the extracted model). *)
let bt_of = function 0 -> Data | _ -> Tree
let bt_s = function Data -> "d" | Tree -> "t"

let show_idx ix =
  String.concat " " (List.map (fun (t, pk) -> bt_s t ^ ":" ^ String.concat "," (List.map (fun i -> string_of_int (int_of_n i)) pk)) ix)

let replay line =
  let t = toks line in
  let np = ni t in
  let packs = ntimes np (fun () -> let ty = bt_of (ni t) in let n = ni t in (ty, ntimes n (fun () -> n_of_int (ni t)))) in
  (* 1. send everything *)
  let sends = List.concat_map (fun (ty, ids) -> List.map (fun i -> Send (ty, i)) ids) packs in
  (* 2. advance every in-flight item of both packers to stage 4: four passes over all positions *)
  let count ty = List.fold_left (fun a (t', ids) -> if t' = ty then a + List.length ids else a) 0 packs in
  let adv4 ty = List.concat (ntimes 4 (fun () -> List.init (count ty) (fun k -> Adv (ty, nat_of_int k)))) in
  (* 3. pack by pack: add its items (always the first in-flight ones of that packer), flush, write, index *)
  let per_pack = List.concat_map (fun (ty, ids) ->
      List.map (fun _ -> Adv (ty, O)) ids @ [Flush ty; WriteP ty; IndexP ty]) packs in
  let es = sends @ adv4 Data @ adv4 Tree @ per_pack in
  match run init es with
  | None -> "rejected"
  | Some s -> Printf.sprintf "ok final=%b idx=[%s]" (final s) (show_idx s.idx)

let random_run line =
  let t = toks line in
  let seed = ni t in let nsend = ni t in let nids = ni t in
  Random.init seed;
  let s = ref init in
  let left = ref nsend in
  let steps = ref 0 in
  let stuck = ref false in
  while not !stuck && (!left > 0 || not (final !s)) do
    let en = enabled_internal !s in
    let choose_send = !left > 0 && (en = [] || Random.int 3 = 0) in
    let e = if choose_send then (decr left; Send ((if Random.bool () then Data else Tree), n_of_int (Random.int nids)))
            else if en = [] then (stuck := true; Flush Data)
            else List.nth en (Random.int (List.length en)) in
    if not !stuck then begin
      match step !s e with
      | Some s' -> s := s'; incr steps
      | None -> stuck := true
    end
  done;
  let s = !s in
  let all_ix = List.for_all (fun (ty, i) -> ix_has s ty i) s.requested in
  let written_ix = List.for_all (fun p -> List.mem p s.idx) s.written in
  Printf.sprintf "stuck=%b final=%b steps=%d requested=%d packs=%d all_indexed=%b written_indexed=%b"
    !stuck (final s) !steps (List.length s.requested) (List.length s.idx) all_ix written_ix

(* mode walker: `<nroots> root.. <ntrees> { <id> <nch> ch.. }*` = the tree graph a real walk saw (dense
   ids).  Runs the walker model with the capacities found in the source under the first-enabled
   scheduler; prints whether it got stuck, whether it ended in a final state and the delivered ids (sorted). *)
let walker line =
  let t = toks line in
  let nr = ni t in
  let roots = ntimes nr (fun () -> n_of_int (ni t)) in
  let nt = ni t in
  let tbl = Hashtbl.create 1024 in
  let edges = ref 0 in
  for _ = 1 to nt do
    let id = ni t in let nc = ni t in
    let ch = ntimes nc (fun () -> n_of_int (ni t)) in
    edges := !edges + nc;
    Hashtbl.replace tbl id ch
  done;
  let children x = match Hashtbl.find_opt tbl (int_of_n x) with Some l -> l | None -> [] in
  let fuel = nat_of_int (10 * (nt + !edges + nr) + 100) in
  let (s, stuck) = wrun_fuel children wcfg_src fuel (winit wcfg_src roots) in
  let del = List.sort compare (List.map int_of_n s.delivered) in
  Printf.sprintf "stuck=%b final=%b delivered=%s" stuck (wfinal s) (String.concat "," (List.map string_of_int del))

let () =
  let mode = if Array.length Sys.argv > 2 then Sys.argv.(2) else "replay" in
  main_loop (if mode = "random" then random_run else if mode = "walker" then walker else replay)
