"""C13 — results do not depend on thread scheduling, latency or pack boundaries.
Stages: facts from the source (typed indexer?, writer queue capacity); Coq theorems about
the packer pipeline as a transition system over ALL interleavings; real backups of seeded
trees under several schedules (seeded delays at backend calls, pack sizes from one blob per
pack upward, several rayon pool sizes) compared with each other (oracle = the property) and
replayed through the extracted transition system."""
import os, sys, json
import vlib
from vlib import ROOT, REPO, sh2, log


def run_lines(exe, lines, mode=None, env=None, timeout=1500, wrap=False):
    path = os.path.join(vlib.BUILD, "C13", "in_%d.txt" % os.getpid())
    open(path, "w").write("\n".join(lines) + "\n")
    cmd = [exe, path] + ([mode] if mode else [])
    rc, out, err = sh2(cmd, timeout=timeout, env=env)
    os.remove(path)
    res = out.splitlines()
    if rc != 0 or len(res) != len(lines):
        raise RuntimeError("%s failed rc=%s (%d of %d lines)\n%s" % (exe, rc, len(res), len(lines), err[-2000:]))
    return res


def run_chunk(exe, lines, pool, tag):
    path = os.path.join(vlib.BUILD, "C13", "in_%d_%d.txt" % (os.getpid(), tag))
    open(path, "w").write("\n".join(lines) + "\n")
    rc, out, err = sh2([exe, path], timeout=1500, env={"RAYON_NUM_THREADS": pool})
    os.remove(path)
    res = out.splitlines()
    if rc != 0 or len(res) != len(lines):
        raise RuntimeError("%s failed rc=%s (%d of %d lines)\n%s" % (exe, rc, len(res), len(lines), err[-2000:]))
    return res


def parse_sched(seg):
    toks = seg.split()
    d = {}
    i = 1
    while i < len(toks) and "=" in toks[i]:
        k, v = toks[i].split("=", 1); d[k] = v; i += 1
    packs = []
    while i < len(toks):
        assert toks[i] == "P"
        t, n = int(toks[i + 1]), int(toks[i + 2])
        packs.append((t, [int(x) for x in toks[i + 3:i + 3 + n]]))
        i += 3 + n
    d["packs"] = packs
    return d


def run(ctx):
    rng, cov = ctx.rng, ctx.coverage
    meta, err = vlib.regen_extracted("C13")
    r = vlib.proof_stage(ctx)
    if err:
        r["ok"] = False; r["failures"].append("fact extraction failed: " + err)
    cov["trusted_base"] += ["props/C13/extract.py (reads Indexer.indexed's element type, the Actor queue length, the order write/index in the file writer, and from blob/tree.rs the channel capacities and loader count of TreeStreamerOnce)"]
    cov["source_facts"] = meta
    ctx.assumptions += [
        "the model lets any in-flight item advance at any time and any pack be flushed at any time: a superset of the order-preserving readahead/parallel_map schedules and of should_save's size/time rule",
        "real thread interleavings inside rayon/crossbeam/pariter are not modelled beyond this; a hang of the real pipeline can only be observed by the watchdog (120 s), not excluded by the theorem (PARTIAL)",
        "backend writes return (no fault injection here; faults are C03)",
        "tree id / referenced set equality across schedules is observed on real runs; in the model it is the statement that `requested` depends on the Send events only"]
    try:
        model = vlib.build_model("C13")
    except RuntimeError as e:
        model = None
        if r["ok"]:
            r["ok"] = False; r["failures"].append("extracted model no longer builds: " + str(e)[-400:])
    impl = vlib.build_harness("c13")
    ncase = 120 if ctx.thorough() else 24
    nsched = 10 if ctx.thorough() else 6
    if not r["ok"]:
        ncase *= 3
    lines = []
    nstall = 6 if ctx.thorough() else 1
    nwide = 3 if ctx.thorough() else 1
    # a bounded pending queue found in the source: go well beyond its capacity
    wcap = (meta or {}).get("walker_in_cap")
    wide_min = (wcap + 4 * ((meta or {}).get("walker_out_cap") or 4) + 300) if wcap else 0
    if not r["ok"]:
        nwide *= 2
    for k in range(ncase):
        # last field: bit 0 = one more schedule in which a pack write stalls for 21 s behind one-blob
        # packs; bit 1 = prune (repack_all, fast and re-encoding repack into one-blob packs) under the watchdog
        extra = 2 | (1 if k < nstall else 0)
        ne, fs = rng.choice([6, 15, 30, 60]), rng.choice([2000, 20000, 70000, 200000])
        if extra & 1:
            ne, fs = 60, 200000     # enough one-blob packs to queue up behind the stalled write
        # bit 2 = the parallel tree walker (TreeStreamerOnce) is run over both snapshot roots and compared
        # with the walker model; in a few cases the source gets one directory with `wide` sub-directories
        # (more pending trees at once than any small queue bound; widened when an obligation is broken)
        extra |= 4
        wide_here = nstall <= k < nstall + nwide
        wide = (max(1300, wide_min) if wide_here else 0)
        lines.append("%d %d %d %d %d %d" % (rng.randrange(1, 2 ** 40), nsched, ne, fs, extra, wide))
    outs = []
    pools = ["1", "2", "4", "16"]
    per = (len(lines) + len(pools) - 1) // len(pools)
    import concurrent.futures
    def one(pi):
        chunk = lines[pi * per:(pi + 1) * per]
        return run_chunk(impl, chunk, pools[pi], pi) if chunk else []
    with concurrent.futures.ThreadPoolExecutor(max_workers=len(pools)) as ex:
        for res in ex.map(one, range(len(pools))):
            outs += res
    viol, replays, samples, hist = [], [], [], {"schedules": 0, "packs": 0, "dup_across_packs": 0}
    walks = []
    nontriv = set()
    for li, (ln, out) in enumerate(zip(lines, outs)):
        pool = pools[min(li // per, len(pools) - 1)]
        if not out.startswith("ok"):
            viol.append(("backup under a perturbed schedule did not complete: " + out.split()[0], ln, out, pool)); continue
        segs = [x.strip() for x in out.split("|")]
        scheds = [parse_sched(s) for s in segs[1:]]
        head0 = segs[0]
        if " walk=" in head0:
            wnote = head0.split(" walk=", 1)[1].split(";")[0].strip()
            head0 = head0.split(" walk=", 1)[0]
            counts, graph = wnote.split(" W ", 1)
            nd, dups, missing, order_bad = [int(x) for x in counts.split(":")]
            hist["walks"] = hist.get("walks", 0) + 1
            hist["walk_trees"] = hist.get("walk_trees", 0) + nd
            if dups or missing or order_bad:
                viol.append(("the parallel tree walker (TreeStreamerOnce) delivered a tree twice / missed a listed subtree / delivered a tree before anything named it", ln,
                             "delivered=%d duplicates=%d missing=%d out-of-order=%d" % (nd, dups, missing, order_bad), pool))
            walks.append((ln, graph))
        for tok in head0.split():
            if tok.startswith("prune"):
                hist["prune_runs"] = hist.get("prune_runs", 0) + 1
                kind, val = tok.split("=")
                cl, unidx, miss = val.split(":")
                if cl != "1" or unidx != "0" or miss != "0":
                    viol.append(("after prune with %s repack: check clean=%s, packs not in the index=%s, referenced blobs missing=%s" % ("fast" if kind == "prune1" else "re-encoding", cl, unidx, miss), ln, tok, pool))
        t0, r0 = scheds[0]["tree"], scheds[0]["refs"]
        for j, s in enumerate(scheds):
            hist["schedules"] += 1
            hist["packs"] += len(s["packs"])
            ids = [i for _, p in s["packs"] for i in p]
            hist["dup_across_packs"] += len(ids) - len(set(ids))
            if s["tree"] != t0 or s["refs"] != r0:
                viol.append(("tree id / referenced blob set differs between schedules", ln, "schedule %d: %s/%s vs schedule 0: %s/%s" % (j, s["tree"], s["refs"], t0, r0), pool))
            if s["clean"] != "1":
                viol.append(("check reports an error after a backup under a perturbed schedule", ln, "schedule %d" % j, pool))
            if s["packs_unindexed"] != "0":
                viol.append(("a written pack is not referenced by the index", ln, "schedule %d: %s packs" % (j, s["packs_unindexed"]), pool))
            if s["missing_refs"] != "0":
                viol.append(("a referenced blob is not found in the index", ln, "schedule %d: %s blobs" % (j, s["missing_refs"]), pool))
            replays.append((ln, j, s["packs"]))
        if len(set(str(s["packs"]) for s in scheds)) > 1:
            nontriv.add(ln)
        if len(samples) < 2:
            samples.append({"case": ln, "rayon_threads": pool, "schedules": [{"tree": s["tree"], "packs": s["packs"][:6]} for s in scheds[:3]]})
    # replay the observed pack sequences through the extracted transition system
    mism = []
    nrand = 0
    if model:
        mlines = []
        for (ln, j, packs) in replays:
            mlines.append(" ".join([str(len(packs))] + ["%d %d %s" % (t, len(p), " ".join(map(str, p))) for t, p in packs]))
        mo = run_lines(model, mlines)
        for (ln, j, packs), o in zip(replays, mo):
            want = "ok final=true idx=[%s]" % " ".join("%s:%s" % ("dt"[t], ",".join(map(str, p))) for t, p in packs)
            if o.strip() != want.strip():
                mism.append((ln, j, o, want))
        # the walker model (capacities from the source, first-enabled scheduler) on the tree graph each real walk saw
        if walks:
            wo = run_lines(model, [g for _, g in walks], "walker")
            for (ln, g), o in zip(walks, wo):
                gt = g.split()
                nroots = int(gt[0]); ntrees = int(gt[1 + nroots]); i = 2 + nroots; real = []
                for _ in range(ntrees):
                    real.append(int(gt[i])); i += 2 + int(gt[i + 1])
                want = "stuck=false final=true delivered=%s" % ",".join(map(str, sorted(real)))
                if o.strip() != want:
                    mism.append((ln, "walker", o[:300], want[:300]))
        # random maximal runs of the model itself
        rl = ["%d %d %d" % (rng.randrange(10 ** 6), rng.choice([5, 20, 60]), rng.choice([3, 8, 30])) for _ in range(300 if ctx.thorough() else 60)]
        nrand = len(rl)
        for l, o in zip(rl, run_lines(model, rl, "random")):
            if "stuck=false final=true" not in o or "all_indexed=true" not in o or "written_indexed=true" not in o:
                mism.append((l, "random", o, "stuck=false final=true all_indexed=true written_indexed=true"))
    cov.update({"evaluations": len(lines) * nsched + nrand, "distinct_nontrivial": len(nontriv),
                "rule": "case = seeded source tree (6..60 entries, files up to 2..200 KB, rabin avg 8 KiB) backed up %d times from the same initial repository under schedules j: pack sizes from one blob per pack to 4 MB, seeded 0..400 us delays before every backend write (off for j%%3==0), RAYON_NUM_THREADS in {1,2,4,16}; in a few cases one more schedule with a 21 s stall of one pack write behind one-blob packs; every case also runs backup, backup of a reduced source, forget, prune --repack-all (fast and re-encoding) into one-blob packs under the watchdog, and the parallel tree walker over both snapshot roots (compared with the walker model; in a few cases over a directory with >= 1300 sub-directories); non-trivial = at least two schedules produced different pack layouts" % nsched,
                "samples": samples, "distribution": hist,
                "traces_validated_against_impl": len(replays), "model_random_runs": nrand,
                "disagreements_checked": len(mism) + len(viol), "model_impl_mismatches": len(mism), "oracle_violations": len(viol)})
    for what, ln, detail, pool in viol[:20]:
        ctx.violation(what, {"case": ln, "detail": detail, "RAYON_NUM_THREADS": pool,
                             "how_to_replay": "echo '<case>' | RAYON_NUM_THREADS=<n> .cache/target/debug/c13 -"})
    if mism and not viol:
        ctx.violation("correspondence broken: a pack sequence written by the real pipeline is not a run of the extracted transition system (%d cases)" % len(mism),
                      {"first": {"case": mism[0][0], "schedule": mism[0][1], "model": mism[0][2], "expected": mism[0][3]}}, no_input=True)
    vlib.finish_broken_obligations(ctx)
