(* C13 — property theorems about the packer pipeline, for EVERY interleaving of the
   producers, the pipeline stages of both packers, pack flushes and the two writer
   threads (a superset of the schedules the real thread pools can produce). *)
From Verif.Base Require Import Tactics.
From Verif.C13 Require Import Extracted Model Proofs Proofs2 Walker ProofsW ProofsW2 ProofsW3.
Local Open Scope nat_scope.

(* Every id handed to a packer can be found by the indexer at the end of every complete
   run ... *)
Theorem every_final_state_indexes_all : forall es s,
  run init es = Some s -> final s = true ->
  forall t i, In (t, i) (requested s) -> ix_has s t i = true.
Proof. exact final_all_indexed_lemma. Qed.
Print Assumptions every_final_state_indexes_all.

(* ... and lies in an indexed pack of its own type, provided the indexer distinguishes
   blob types (read from the source) or no id was requested under both types. *)
Theorem every_final_state_indexes_all_typed : forall es s,
  run init es = Some s -> final s = true ->
  (indexer_typed = true \/ no_cross s) ->
  forall t i, In (t, i) (requested s) -> exists pk, In (t, pk) (idx s) /\ In i pk.
Proof. exact final_typed_lookup_lemma. Qed.
Print Assumptions every_final_state_indexes_all_typed.

(* With an untyped indexer the typed statement is false: a complete run in which a tree
   blob is dropped because a data blob with the same id is already indexed. *)
Theorem typed_lookup_refuted_when_untyped :
  indexer_typed = false ->
  exists s, run init collision_run = Some s /\ final s = true /\ In (Tree, 7%N) (requested s) /\
            forall pk, In (Tree, pk) (idx s) -> ~ In 7%N pk.
Proof. exact typed_lookup_refuted_lemma. Qed.
Print Assumptions typed_lookup_refuted_when_untyped.

(* No blob of a written pack file is unreferenced by the index: at the end ... *)
Theorem no_written_pack_unindexed : forall es s,
  run init es = Some s -> final s = true ->
  forall t pk, In (t, pk) (written s) -> In (t, pk) (idx s).
Proof. exact final_written_indexed_lemma. Qed.
Print Assumptions no_written_pack_unindexed.

(* ... and at every moment of every run, except for the single pack the writer thread is
   just handing to the indexer. *)
Theorem written_indexed_or_in_hand : forall es s,
  run init es = Some s -> forall t pk, In (t, pk) (written s) -> In (t, pk) (idx s) \/ wip (get s t) = Some pk.
Proof. exact written_indexed_or_wip_lemma. Qed.
Print Assumptions written_indexed_or_in_hand.

(* The requests and their answerability do not depend on the schedule. *)
Theorem referenced_set_schedule_free : forall es1 es2 s1 s2,
  sends es1 = sends es2 ->
  run init es1 = Some s1 -> final s1 = true ->
  run init es2 = Some s2 -> final s2 = true ->
  requested s1 = requested s2 /\
  forall t i, In (t, i) (requested s1) -> ix_has s1 t i = true /\ ix_has s2 t i = true.
Proof. exact schedule_free_lemma. Qed.
Print Assumptions referenced_set_schedule_free.

(* The model's writer thread writes a pack file (WriteP) before it adds the pack to the indexer
   (IndexP); this is the order of FileWriterHandle::process / ::index in the source. *)
Theorem source_writes_pack_before_indexing : writer_writes_before_index = true.
Proof. reflexivity. Qed.
Print Assumptions source_writes_pack_before_indexing.

(* Hence every pack the indexer holds has been written to the backend, at every moment of every
   run. *)
Theorem indexed_pack_is_written : forall es s,
  run init es = Some s -> forall t pk, In (t, pk) (idx s) -> In (t, pk) (written s).
Proof. exact indexed_written_lemma. Qed.
Print Assumptions indexed_pack_is_written.

(* No deadlock: in every state that is not final some internal event is enabled (the
   writer queue has positive capacity in the source) ... *)
Theorem linear_pipeline_progress : forall s,
  0 < wq_cap -> final s = false -> enabled_internal s <> [].
Proof. exact progress_lemma. Qed.
Print Assumptions linear_pipeline_progress.

Theorem writer_queue_has_capacity : 0 < wq_cap.
Proof. unfold wq_cap. lia. Qed.
Print Assumptions writer_queue_has_capacity.

Theorem enabled_internal_sound : forall s e,
  In e (enabled_internal s) -> is_send e = false /\ exists s', step s e = Some s'.
Proof. exact enabled_internal_sound_lemma. Qed.
Print Assumptions enabled_internal_sound.

(* ... and every internal event strictly decreases a natural-number measure, so once the
   producers stop sending, every schedule reaches a final state after at most
   `measure s` steps. *)
Theorem internal_step_decreases : forall s e s',
  is_send e = false -> step s e = Some s' -> measure s' < measure s.
Proof. exact internal_step_decreases_lemma. Qed.
Print Assumptions internal_step_decreases.

(* ---- the parallel tree walker (blob/tree.rs TreeStreamerOnce: prune, check, copy) ----

   No deadlock: with the channel capacities and the number of loader threads found in the
   source (queue_in unbounded), in every reachable state of the walker - for every tree graph,
   every set of roots and every interleaving of the consumer and the loader threads - either
   the walk is complete or some thread can take a step. *)
Theorem tree_walker_never_stuck : forall ch roots s,
  wreach ch wcfg_src roots s -> wstuck ch wcfg_src s = false.
Proof. exact tree_walker_never_stuck_lemma. Qed.
Print Assumptions tree_walker_never_stuck.

(* ... for any number of loaders >= 1 and any result-queue capacity >= 1, as long as the
   pending queue is unbounded. *)
Theorem walker_never_stuck_any_capacities : forall ch c roots s,
  in_cap c = None -> 1 <= out_cap c -> 1 <= loaders c ->
  wreach ch c roots s -> wstuck ch c s = false.
Proof. exact walker_never_stuck_gen. Qed.
Print Assumptions walker_never_stuck_any_capacities.

(* A bounded pending queue can deadlock (the consumer is its only producer and the only
   consumer of the result queue): a reachable, non-final state in which no thread can move. *)
Theorem walker_bounded_in_queue_refuted :
  exists ch c roots s, in_cap c <> None /\ wreach ch c roots s /\ wstuck ch c s = true.
Proof. exact walker_bounded_in_queue_refuted_lemma. Qed.
Print Assumptions walker_bounded_in_queue_refuted.

(* Termination: over every finite tree graph (U closed under children, roots in U) every step
   of every thread strictly decreases a natural-number measure; together with
   tree_walker_never_stuck every schedule ends, after at most `wmeasure U ch (winit ..)`
   steps, in a final state. *)
Theorem walker_step_decreases : forall U ch c roots s e s',
  NoDup U -> incl roots U -> (forall x, In x U -> incl (ch x) U) ->
  wreach ch c roots s -> wstep ch c s e = Some s' ->
  wmeasure U ch s' < wmeasure U ch s.
Proof. exact walker_step_decreases_lemma. Qed.
Print Assumptions walker_step_decreases.

(* Each tree is handed to the caller at most once, only after it was registered as visited, and
   a delivered tree is never queued again - in every reachable state of every interleaving. *)
Theorem walker_delivers_once : forall ch c roots s,
  wreach ch c roots s ->
  NoDup (delivered s) /\ incl (delivered s) (visited s) /\
  (forall x, In x (delivered s) -> ~ In x (q_in s) /\ ~ In x (q_out s)).
Proof. exact walker_delivers_once_lemma. Qed.
Print Assumptions walker_delivers_once.
