(* C13 — extraction of the transition system (ExtrOcamlBasic only). *)
Require Extraction.
Require Import ExtrOcamlBasic.
From Verif.C13 Require Import Extracted Model Walker.
Extraction "model_ml.ml" init step run final enabled_internal measure indexer_typed wq_cap ix_has
  wcfg_src winit wrun_fuel wfinal wstuck.
