(* C13 — the tree walker terminates: every step strictly decreases a natural-number measure,
   for every finite tree graph (universe U closed under `children`, roots in U). *)
From Verif.Base Require Import Tactics.
From Verif.C13 Require Import Extracted Walker ProofsW.
Local Open Scope nat_scope.

Definition cw (ch : tid -> list tid) (x : tid) : nat := S (length (ch x)).
Definition sumw (f : tid -> nat) (l : list tid) : nat := fold_right (fun x a => f x + a) 0 l.
Definition held (l : list (option tid)) : list tid :=
  flat_map (fun o => match o with Some x => [x] | None => [] end) l.
Definition unv (U vis : list tid) : list tid := filter (fun x => negb (tmem x vis)) U.

Definition wmeasure (U : list tid) (ch : tid -> list tid) (s : wstate) : nat :=
  (match cons s with Idle => 0 | Pushing l => S (length l) end)
  + sumw (fun x => 4 + cw ch x) (unv U (visited s))
  + sumw (fun x => 3 + cw ch x) (q_in s)
  + sumw (fun x => 2 + cw ch x) (held (ldr s))
  + sumw (fun x => 1 + cw ch x) (q_out s).

Lemma sumw_app f a b : sumw f (a ++ b) = sumw f a + sumw f b.
Proof. induction a as [|x a IH]; cbn [sumw fold_right app]; [reflexivity|]. fold (sumw f (a ++ b)) (sumw f a). rewrite IH. lia. Qed.

Lemma sumw_cons f x l : sumw f (x :: l) = f x + sumw f l.
Proof. reflexivity. Qed.

Lemma held_cons o l : held (o :: l) = match o with Some x => [x] | None => [] end ++ held l.
Proof. reflexivity. Qed.

Lemma held_set_some f i x l : nth_error l i = Some None ->
  sumw f (held (set_nth i (Some x) l)) = sumw f (held l) + f x.
Proof.
  revert i; induction l as [|o t IH]; intros [|i] H; cbn [nth_error] in H; try discriminate.
  - inv H. cbn [set_nth]. rewrite !held_cons. cbn [app]. rewrite sumw_cons. lia.
  - cbn [set_nth]. rewrite !held_cons, !sumw_app. rewrite (IH i H). lia.
Qed.

Lemma held_set_none f i x l : nth_error l i = Some (Some x) ->
  sumw f (held (set_nth i None l)) + f x = sumw f (held l).
Proof.
  revert i; induction l as [|o t IH]; intros [|i] H; cbn [nth_error] in H; try discriminate.
  - inv H. cbn [set_nth]. rewrite !held_cons. cbn [app]. rewrite sumw_cons. lia.
  - cbn [set_nth]. rewrite !held_cons, !sumw_app. specialize (IH i H). lia.
Qed.

Lemma tmem_cons u x vis : tmem u (x :: vis) = N.eqb u x || tmem u vis.
Proof. reflexivity. Qed.

Lemma unv_notin U x vis : ~ In x U -> unv U (x :: vis) = unv U vis.
Proof.
  induction U as [|u U IH]; intros Hn; [reflexivity|].
  cbn [unv filter]. rewrite tmem_cons.
  assert (Hux : N.eqb u x = false).
  { apply N.eqb_neq. intros ->. apply Hn. left; reflexivity. }
  rewrite Hux. cbn [orb].
  fold (unv U (x :: vis)) (unv U vis). rewrite IH by (intros Hi; apply Hn; right; exact Hi).
  reflexivity.
Qed.

Lemma unv_visit f U x vis : NoDup U -> In x U -> tmem x vis = false ->
  sumw f (unv U (x :: vis)) + f x = sumw f (unv U vis).
Proof.
  induction U as [|u U IH]; intros Hnd Hin Hv; [destruct Hin|].
  inversion Hnd as [|? ? Hnu HndU]; subst.
  cbn [unv filter]. rewrite tmem_cons.
  fold (unv U (x :: vis)) (unv U vis).
  destruct (N.eqb u x) eqn:Hux.
  - apply N.eqb_eq in Hux. subst u. cbn [orb negb]. rewrite Hv. cbn [negb].
    rewrite (unv_notin U x vis Hnu). rewrite sumw_cons. lia.
  - cbn [orb].
    assert (HinU : In x U).
    { destruct Hin as [->|H]; [rewrite N.eqb_refl in Hux; discriminate|exact H]. }
    specialize (IH HndU HinU Hv).
    destruct (negb (tmem u vis)); [rewrite !sumw_cons|]; lia.
Qed.

(* everything in flight belongs to the (finite, closed) universe *)
Definition winv (U : list tid) (s : wstate) : Prop :=
  (forall l, cons s = Pushing l -> incl l U) /\ incl (q_in s) U /\
  (forall i x, nth_error (ldr s) i = Some (Some x) -> In x U) /\ incl (q_out s) U.

Lemma nth_error_set_nth {A} (l : list A) i j x :
  nth_error (set_nth i x l) j = if Nat.eqb i j then (match nth_error l i with Some _ => Some x | None => None end) else nth_error l j.
Proof.
  revert i j; induction l as [|h t IH]; intros [|i] [|j]; cbn [set_nth nth_error Nat.eqb]; try reflexivity;
    try (destruct (Nat.eqb i j); reflexivity).
  apply IH.
Qed.

Lemma winv_init U c roots : incl roots U -> winv U (winit c roots).
Proof.
  intros Hr. unfold winv, winit; cbn. repeat split.
  - intros l H; inv H; exact Hr.
  - intros x [].
  - intros i x H. apply nth_error_In in H. apply repeat_spec in H. discriminate.
  - intros x [].
Qed.

Lemma winv_step U ch c s e s' :
  (forall x, In x U -> incl (ch x) U) ->
  winv U s -> wstep ch c s e = Some s' -> winv U s'.
Proof.
  intros Hcl (Hp & Hi & Hl & Ho) H. unfold wstep in H.
  destruct e as [|i|i].
  - destruct (cons s) as [|[|x rest]] eqn:Hc.
    + destruct (q_out s) as [|t r] eqn:Hq; inv H. unfold winv; cbn. repeat split; auto.
      * intros l Hl'. inv Hl'. apply Hcl. apply Ho. left; reflexivity.
      * intros y Hy. apply Ho. right; exact Hy.
    + inv H. unfold winv; cbn. repeat split; auto. intros l Hl'; discriminate.
    + specialize (Hp _ eq_refl).
      destruct (tmem x (visited s)).
      * inv H. unfold winv; cbn. repeat split; auto.
        intros l Hl'. inv Hl'. intros y Hy. apply Hp. right; exact Hy.
      * destruct (room _ _); inv H. unfold winv; cbn. repeat split; auto.
        -- intros l Hl'. inv Hl'. intros y Hy. apply Hp. right; exact Hy.
        -- intros y Hy. apply in_app_or in Hy. destruct Hy as [Hy|[<-|[]]]; [apply Hi; exact Hy|apply Hp; left; reflexivity].
  - destruct (nth_error (ldr s) i) as [[y|]|] eqn:Hn; try discriminate.
    destruct (q_in s) as [|x r] eqn:Hq; inv H. unfold winv; cbn. repeat split; auto.
    + intros y Hy. apply Hi. right; exact Hy.
    + intros j z Hj. rewrite nth_error_set_nth in Hj.
      destruct (Nat.eqb i j).
      * rewrite Hn in Hj. inv Hj. apply Hi. left; reflexivity.
      * eapply Hl; eauto.
  - destruct (nth_error (ldr s) i) as [[y|]|] eqn:Hn; try discriminate.
    destruct (_ <? _); inv H. unfold winv; cbn. repeat split; auto.
    + intros j z Hj. rewrite nth_error_set_nth in Hj.
      destruct (Nat.eqb i j).
      * rewrite Hn in Hj. discriminate.
      * eapply Hl; eauto.
    + intros z Hz. apply in_app_or in Hz. destruct Hz as [Hz|[<-|[]]]; [apply Ho; exact Hz|eapply Hl; eauto].
Qed.

Lemma winv_reach U ch c roots s :
  incl roots U -> (forall x, In x U -> incl (ch x) U) ->
  wreach ch c roots s -> winv U s.
Proof.
  intros Hr Hcl. induction 1 as [|s e s' _ IH Hs].
  - apply winv_init; exact Hr.
  - eapply winv_step; eauto.
Qed.

Lemma wstep_decreases U ch c s e s' :
  NoDup U -> winv U s -> wstep ch c s e = Some s' -> wmeasure U ch s' < wmeasure U ch s.
Proof.
  intros Hnd (Hp & Hi & Hl & Ho) H. unfold wstep in H. unfold wmeasure.
  destruct e as [|i|i].
  - destruct (cons s) as [|[|x rest]] eqn:Hc.
    + destruct (q_out s) as [|t r] eqn:Hq; inv H. cbn [cons visited q_in ldr q_out].
      rewrite sumw_cons. unfold cw. lia.
    + inv H. cbn [cons visited q_in ldr q_out length]. lia.
    + specialize (Hp _ eq_refl).
      destruct (tmem x (visited s)) eqn:Hv.
      * inv H. cbn [cons visited q_in ldr q_out length]. lia.
      * destruct (room _ _); inv H. cbn [cons visited q_in ldr q_out length].
        rewrite sumw_app. cbn [sumw fold_right].
        pose proof (unv_visit (fun x => 4 + cw ch x) U x (visited s) Hnd (Hp x (or_introl eq_refl)) Hv) as Hu.
        cbn beta in Hu. lia.
  - destruct (nth_error (ldr s) i) as [[y|]|] eqn:Hn; try discriminate.
    destruct (q_in s) as [|x r] eqn:Hq; inv H. cbn [cons visited q_in ldr q_out].
    rewrite (held_set_some (fun x => 2 + cw ch x) i x (ldr s) Hn). rewrite sumw_cons. lia.
  - destruct (nth_error (ldr s) i) as [[y|]|] eqn:Hn; try discriminate.
    destruct (_ <? _); inv H. cbn [cons visited q_in ldr q_out].
    pose proof (held_set_none (fun x => 2 + cw ch x) i y (ldr s) Hn) as Hh. cbn beta in Hh.
    rewrite sumw_app. cbn [sumw fold_right]. lia.
Qed.

(* Termination: along every run of the walker over a finite tree graph each step strictly
   decreases the measure; with walker_never_stuck_gen: every maximal run is finite and ends
   in a final state. *)
Lemma walker_step_decreases_lemma : forall U ch c roots s e s',
  NoDup U -> incl roots U -> (forall x, In x U -> incl (ch x) U) ->
  wreach ch c roots s -> wstep ch c s e = Some s' ->
  wmeasure U ch s' < wmeasure U ch s.
Proof.
  intros U ch c roots s e s' Hnd Hr Hcl Hreach Hs.
  eapply wstep_decreases; eauto. eapply winv_reach; eauto.
Qed.
