(* C13 — proofs about the tree walker model (Walker.v). *)
From Verif.Base Require Import Tactics.
From Verif.C13 Require Import Extracted Walker.
Local Open Scope nat_scope.

Lemma set_nth_length {A} i (x : A) l : length (set_nth i x l) = length l.
Proof. revert i; induction l as [|h t IH]; intros [|i]; cbn [set_nth length]; auto. Qed.

Lemma wstep_ldr_length ch c s e s' : wstep ch c s e = Some s' -> length (ldr s') = length (ldr s).
Proof.
  unfold wstep; intros H.
  destruct e as [|i|i].
  - destruct (cons s) as [|[|x rest]].
    + destruct (q_out s); inv H; reflexivity.
    + inv H; reflexivity.
    + destruct (tmem x (visited s)); [inv H; reflexivity|].
      destruct (room _ _); inv H; reflexivity.
  - destruct (nth_error (ldr s) i) as [[y|]|]; try discriminate.
    destruct (q_in s); inv H. cbn. apply set_nth_length.
  - destruct (nth_error (ldr s) i) as [[y|]|]; try discriminate.
    destruct (_ <? _); inv H. cbn. apply set_nth_length.
Qed.

Lemma wreach_ldr_length ch c roots s : wreach ch c roots s -> length (ldr s) = loaders c.
Proof.
  induction 1 as [|s e s' _ IH Hs].
  - cbn. apply repeat_length.
  - rewrite (wstep_ldr_length _ _ _ _ _ Hs). exact IH.
Qed.

Lemma all_none_false l : all_none l = false -> exists i x, nth_error l i = Some (Some x).
Proof.
  induction l as [|[y|] t IH]; cbn; intros H; try discriminate.
  - exists 0, y; reflexivity.
  - destruct (IH H) as (i & x & Hi). exists (S i), x; exact Hi.
Qed.

Lemma all_none_true_hd l : all_none l = true -> 1 <= length l -> nth_error l 0 = Some None.
Proof. destruct l as [|[y|] t]; cbn; intros H Hl; try discriminate; try lia. reflexivity. Qed.

Lemma in_wevents_take s i : i < length (ldr s) -> In (Take i) (wevents s).
Proof.
  intros Hi. unfold wevents. right. apply in_or_app. left.
  apply in_map. apply in_seq. lia.
Qed.
Lemma in_wevents_send s i : i < length (ldr s) -> In (Send i) (wevents s).
Proof.
  intros Hi. unfold wevents. right. apply in_or_app. right.
  apply in_map. apply in_seq. lia.
Qed.

(* With an unbounded queue_in the walker is never stuck: in every reachable state that is
   not final some thread can take a step. *)
Lemma walker_never_stuck_gen ch c roots s :
  in_cap c = None -> 1 <= out_cap c -> 1 <= loaders c ->
  wreach ch c roots s -> wstuck ch c s = false.
Proof.
  intros Hin Hout Hld Hr.
  pose proof (wreach_ldr_length _ _ _ _ Hr) as Hlen.
  destruct (wstuck ch c s) eqn:Hst; [exfalso|reflexivity].
  unfold wstuck in Hst. apply andb_true_iff in Hst. destruct Hst as [Hnf Hall].
  apply negb_true_iff in Hnf.
  rewrite forallb_forall in Hall.
  assert (Hcons : wstep ch c s ConsStep = None).
  { specialize (Hall ConsStep (or_introl eq_refl)). destruct (wstep ch c s ConsStep); [discriminate|reflexivity]. }
  unfold wstep in Hcons. unfold wfinal in Hnf.
  destruct (cons s) as [|[|x rest]] eqn:Hc.
  - (* Idle *)
    destruct (q_out s) as [|t rest] eqn:Hq; [|discriminate].
    destruct (all_none (ldr s)) eqn:Han.
    + (* all loaders idle: queue_in must be non-empty *)
      cbn [is_nil_b andb] in Hnf. rewrite andb_true_r in Hnf.
      destruct (q_in s) as [|y qs] eqn:Hqi; [cbn in Hnf; discriminate|].
      assert (H0 : nth_error (ldr s) 0 = Some None) by (apply all_none_true_hd; [exact Han|lia]).
      specialize (Hall (Take 0) (in_wevents_take s 0 ltac:(lia))).
      unfold wstep in Hall. rewrite H0, Hqi in Hall. discriminate.
    + destruct (all_none_false _ Han) as (i & y & Hi).
      assert (Hil : i < length (ldr s)) by (apply nth_error_Some; rewrite Hi; discriminate).
      specialize (Hall (Send i) (in_wevents_send s i Hil)).
      unfold wstep in Hall. rewrite Hi, Hq in Hall. cbn [length] in Hall.
      destruct (0 <? out_cap c) eqn:Hlt; [discriminate|].
      apply Nat.ltb_ge in Hlt. lia.
  - discriminate.
  - destruct (tmem x (visited s)); [discriminate|].
    rewrite Hin in Hcons. cbn [room] in Hcons. discriminate.
Qed.

(* ... instantiated with the capacities found in the source. *)
Lemma tree_walker_never_stuck_lemma : forall ch roots s,
  wreach ch wcfg_src roots s -> wstuck ch wcfg_src s = false.
Proof.
  intros ch roots s Hr.
  apply (walker_never_stuck_gen ch wcfg_src roots s); [reflexivity | vm_compute; lia | vm_compute; lia | exact Hr].
Qed.

(* A bounded queue_in can deadlock: capacity 1, one loader, result queue of 1, a root with
   four subtrees.  The consumer blocks pushing the fourth subtree while the loader blocks on
   the full result queue. *)
Definition ex_children (t : tid) : list tid := if N.eqb t 0 then [1; 2; 3; 4]%N else [].
Definition ex_cfg : wcfg := {| in_cap := Some 1; out_cap := 1; loaders := 1 |}.
Definition ex_sched : list wev :=
  [ConsStep; ConsStep; Take 0; Send 0; ConsStep; ConsStep; Take 0; ConsStep; Send 0; Take 0; ConsStep].

Lemma wrun_reach ch c roots evs s : wreach ch c roots s -> wreach ch c roots (wrun ch c s evs).
Proof.
  revert s; induction evs as [|e t IH]; intros s Hr; cbn [wrun fold_left]; [exact Hr|].
  change (wreach ch c roots (wrun ch c (match wstep ch c s e with Some s' => s' | None => s end) t)).
  apply IH. destruct (wstep ch c s e) eqn:Hs; [|exact Hr].
  eapply wr_step; eauto.
Qed.

Lemma walker_bounded_in_queue_refuted_lemma :
  exists ch c roots s, in_cap c <> None /\ wreach ch c roots s /\ wstuck ch c s = true.
Proof.
  exists ex_children, ex_cfg, [0%N], (wrun ex_children ex_cfg (winit ex_cfg [0%N]) ex_sched).
  split; [discriminate|]. split.
  - apply wrun_reach. constructor.
  - vm_compute. reflexivity.
Qed.

(* the same walk with the unbounded queue runs to the end under the first-enabled scheduler *)
Example ex_unbounded_finishes :
  let c := {| in_cap := None; out_cap := 1; loaders := 1 |} in
  let r := wrun_fuel ex_children c 100 (winit c [0%N]) in
  wfinal (fst r) = true /\ snd r = false /\ rev (delivered (fst r)) = [0; 1; 2; 3; 4]%N.
Proof. vm_compute. repeat split; reflexivity. Qed.
