(* C13 — the parallel tree walker (blob/tree.rs: TreeStreamerOnce) as a nondeterministic
   transition system.  prune (find_used_blobs), check and copy walk all trees of the
   snapshots with it.

   One consumer thread (the iterator: `new` pushes the snapshot roots, `next` receives one
   loaded tree from `queue_out` and pushes its not yet visited subtrees to `queue_in`) and
   `loaders` loader threads (take an id from `queue_in`, load the tree, send it to
   `queue_out`).  The consumer is the ONLY producer of `queue_in` and the only consumer of
   `queue_out`: if `queue_in` is bounded it can block in the middle of pushing the
   subtrees of one tree while every loader blocks on the full `queue_out`, which nobody
   drains any more.  Capacities and the number of loaders are read from the source
   (Extracted.v: walker_in_cap = None for `unbounded()`). *)
From Verif.Base Require Import Tactics.
From Verif.C13 Require Import Extracted.
Local Open Scope nat_scope.

Definition tid := N.
Definition tmem (x : tid) (l : list tid) : bool := existsb (N.eqb x) l.

Inductive cons_state :=
| Idle                              (* at `queue_out.recv()` (or finished) *)
| Pushing (todo : list tid).        (* inside the loop of add_pending calls *)

Record wstate := {
  visited : list tid;
  q_in : list tid;                  (* pending ids, oldest first *)
  ldr : list (option tid);          (* what each loader thread holds *)
  q_out : list tid;                 (* loaded trees, oldest first *)
  cons : cons_state;
  delivered : list tid              (* trees handed to the caller, newest first *)
}.

Record wcfg := { in_cap : option nat; out_cap : nat; loaders : nat }.

Definition winit (c : wcfg) (roots : list tid) : wstate :=
  {| visited := []; q_in := []; ldr := repeat None (loaders c); q_out := []; cons := Pushing roots; delivered := [] |}.

Inductive wev :=
| ConsStep                          (* the consumer thread takes its next step *)
| Take (i : nat)                    (* loader i takes the oldest pending id *)
| Send (i : nat).                   (* loader i hands its loaded tree to queue_out *)

Definition room (cap : option nat) (n : nat) : bool :=
  match cap with None => true | Some c => n <? c end.

Fixpoint set_nth {A} (i : nat) (x : A) (l : list A) : list A :=
  match l, i with
  | [], _ => []
  | _ :: t, O => x :: t
  | h :: t, S j => h :: set_nth j x t
  end.

(* None = the event is not enabled (the thread is blocked / has nothing to do) *)
Definition wstep (children : tid -> list tid) (c : wcfg) (s : wstate) (e : wev) : option wstate :=
  match e with
  | ConsStep =>
    match cons s with
    | Pushing [] => Some {| visited := visited s; q_in := q_in s; ldr := ldr s; q_out := q_out s; cons := Idle; delivered := delivered s |}
    | Pushing (x :: rest) =>
      if tmem x (visited s) then
        Some {| visited := visited s; q_in := q_in s; ldr := ldr s; q_out := q_out s; cons := Pushing rest; delivered := delivered s |}
      else if room (in_cap c) (length (q_in s)) then
        Some {| visited := x :: visited s; q_in := q_in s ++ [x]; ldr := ldr s; q_out := q_out s; cons := Pushing rest; delivered := delivered s |}
      else None
    | Idle =>
      match q_out s with
      | t :: rest => Some {| visited := visited s; q_in := q_in s; ldr := ldr s; q_out := rest; cons := Pushing (children t); delivered := t :: delivered s |}
      | [] => None
      end
    end
  | Take i =>
    match nth_error (ldr s) i, q_in s with
    | Some None, x :: rest => Some {| visited := visited s; q_in := rest; ldr := set_nth i (Some x) (ldr s); q_out := q_out s; cons := cons s; delivered := delivered s |}
    | _, _ => None
    end
  | Send i =>
    match nth_error (ldr s) i with
    | Some (Some x) =>
      if length (q_out s) <? out_cap c then
        Some {| visited := visited s; q_in := q_in s; ldr := set_nth i None (ldr s); q_out := q_out s ++ [x]; cons := cons s; delivered := delivered s |}
      else None
    | _ => None
    end
  end.

(* nothing in flight and the consumer at the top of `next`: the iterator returns None
   (all counters are zero), the command goes on *)
Definition all_none (l : list (option tid)) : bool := forallb (fun o => match o with None => true | Some _ => false end) l.
Definition wfinal (s : wstate) : bool :=
  match cons s with
  | Idle => is_nil_b (q_in s) && is_nil_b (q_out s) && all_none (ldr s)
  | Pushing _ => false
  end.

(* run a schedule; a disabled event is skipped *)
Definition wrun (children : tid -> list tid) (c : wcfg) (s : wstate) (evs : list wev) : wstate :=
  fold_left (fun s e => match wstep children c s e with Some s' => s' | None => s end) evs s.

Inductive wreach (children : tid -> list tid) (c : wcfg) (roots : list tid) : wstate -> Prop :=
| wr_init : wreach children c roots (winit c roots)
| wr_step s e s' : wreach children c roots s -> wstep children c s e = Some s' -> wreach children c roots s'.

(* all events that could be enabled in s *)
Definition wevents (s : wstate) : list wev :=
  ConsStep :: map Take (seq 0 (length (ldr s))) ++ map Send (seq 0 (length (ldr s))).
Definition wstuck (children : tid -> list tid) (c : wcfg) (s : wstate) : bool :=
  negb (wfinal s) && forallb (fun e => match wstep children c s e with None => true | Some _ => false end) (wevents s).

(* the configuration found in the source *)
Definition wcfg_src : wcfg := {| in_cap := walker_in_cap; out_cap := walker_out_cap; loaders := walker_loaders |}.

(* deterministic scheduler used by the driver: always the first enabled event *)
Fixpoint first_enabled (children : tid -> list tid) (c : wcfg) (s : wstate) (evs : list wev) : option wstate :=
  match evs with
  | [] => None
  | e :: t => match wstep children c s e with Some s' => Some s' | None => first_enabled children c s t end
  end.
Fixpoint wrun_fuel (children : tid -> list tid) (c : wcfg) (fuel : nat) (s : wstate) : wstate * bool (* stuck *) :=
  match fuel with
  | O => (s, false)
  | S f => if wfinal s then (s, false) else
           match first_enabled children c s (wevents s) with
           | Some s' => wrun_fuel children c f s'
           | None => (s, true)
           end
  end.
