(* C13 — the tree walker hands every tree to its caller at most once, and only trees it was
   asked for (roots or subtrees of delivered trees): no id is ever in flight twice. *)
From Coq Require Import Permutation.
From Verif.Base Require Import Tactics.
From Verif.C13 Require Import Extracted Walker ProofsW ProofsW2.
Local Open Scope nat_scope.

Definition flight (s : wstate) : list tid := q_in s ++ held (ldr s) ++ q_out s ++ delivered s.

Lemma held_set_some_perm i x l : nth_error l i = Some None ->
  Permutation (held (set_nth i (Some x) l)) (x :: held l).
Proof.
  revert i; induction l as [|o t IH]; intros [|i] H; cbn [nth_error] in H; try discriminate.
  - inv H. cbn [set_nth]. rewrite !held_cons. cbn [app]. reflexivity.
  - cbn [set_nth]. rewrite !held_cons. rewrite (IH i H).
    destruct o as [y|]; cbn [app]; [apply perm_swap|reflexivity].
Qed.

Lemma held_set_none_perm i x l : nth_error l i = Some (Some x) ->
  Permutation (x :: held (set_nth i None l)) (held l).
Proof.
  revert i; induction l as [|o t IH]; intros [|i] H; cbn [nth_error] in H; try discriminate.
  - inv H. cbn [set_nth]. rewrite !held_cons. cbn [app]. reflexivity.
  - cbn [set_nth]. rewrite !held_cons. specialize (IH i H).
    destruct o as [y|]; cbn [app].
    + rewrite perm_swap. apply perm_skip. exact IH.
    + exact IH.
Qed.

Lemma tmem_false_notin x l : tmem x l = false -> ~ In x l.
Proof.
  unfold tmem. intros H Hin.
  assert (existsb (N.eqb x) l = true) by (apply existsb_exists; exists x; split; [exact Hin|apply N.eqb_refl]).
  congruence.
Qed.

Lemma perm_move (y : tid) (H Q D : list tid) : Permutation (H ++ (Q ++ [y]) ++ D) (y :: H ++ Q ++ D).
Proof.
  rewrite <- app_assoc. cbn [app]. rewrite (app_assoc H Q (y :: D)), (app_assoc H Q D).
  symmetry. apply Permutation_middle.
Qed.

(* what a step does to the multiset of ids in flight *)
Lemma wstep_flight ch c s e s' : wstep ch c s e = Some s' ->
  (Permutation (flight s') (flight s) /\ visited s' = visited s) \/
  (exists x, tmem x (visited s) = false /\ visited s' = x :: visited s /\ Permutation (flight s') (x :: flight s)).
Proof.
  unfold wstep, flight; intros H.
  destruct e as [|i|i].
  - destruct (cons s) as [|[|x rest]].
    + destruct (q_out s) as [|t r] eqn:Hq; inv H. left. cbn [q_in ldr q_out delivered visited]. split; [|reflexivity].
      apply Permutation_app_head. apply Permutation_app_head. cbn [app]. symmetry. apply Permutation_middle.
    + inv H. left. split; reflexivity.
    + destruct (tmem x (visited s)) eqn:Hv; [inv H; left; split; reflexivity|].
      destruct (room _ _); inv H. right. exists x. cbn [q_in ldr q_out delivered visited].
      repeat split; auto. rewrite <- app_assoc. cbn [app]. symmetry. apply Permutation_middle.
  - destruct (nth_error (ldr s) i) as [[y|]|] eqn:Hn; try discriminate.
    destruct (q_in s) as [|x r] eqn:Hq; inv H. left. cbn [q_in ldr q_out delivered visited]. split; [|reflexivity].
    rewrite (held_set_some_perm i x (ldr s) Hn). cbn [app]. symmetry. apply Permutation_middle.
  - destruct (nth_error (ldr s) i) as [[y|]|] eqn:Hn; try discriminate.
    destruct (_ <? _); inv H. left. cbn [q_in ldr q_out delivered visited]. split; [|reflexivity].
    apply Permutation_app_head.
    rewrite perm_move. rewrite <- (held_set_none_perm i y (ldr s) Hn). reflexivity.
Qed.

Lemma nodup_app_r {A} (a b : list A) : NoDup (a ++ b) -> NoDup b.
Proof. induction a as [|x a IH]; cbn [app]; intros H; [exact H|]. inversion H; subst. apply IH; assumption. Qed.

Lemma nodup_app_disjoint {A} (a b : list A) x : NoDup (a ++ b) -> In x a -> In x b -> False.
Proof.
  induction a as [|y a IH]; cbn [app]; intros H Ha Hb; [destruct Ha|].
  inversion H as [|? ? Hn Hnd]; subst.
  destruct Ha as [->|Ha]; [apply Hn; apply in_or_app; right; exact Hb|exact (IH Hnd Ha Hb)].
Qed.

Definition once_inv (s : wstate) : Prop :=
  NoDup (visited s) /\ NoDup (flight s) /\ incl (flight s) (visited s).

Lemma once_inv_init c roots : once_inv (winit c roots).
Proof.
  unfold once_inv, flight, winit; cbn [visited q_in ldr q_out delivered].
  assert (Hh : held (repeat (@None tid) (loaders c)) = []).
  { induction (loaders c) as [|n IH]; [reflexivity|]. cbn [repeat]. rewrite held_cons. exact IH. }
  rewrite Hh. cbn. repeat split; [constructor|constructor|intros x []].
Qed.

Lemma once_inv_step ch c s e s' : once_inv s -> wstep ch c s e = Some s' -> once_inv s'.
Proof.
  intros (Hv & Hf & Hi) H.
  destruct (wstep_flight _ _ _ _ _ H) as [[Hp Hvis]|(x & Hx & Hvis & Hp)]; unfold once_inv; rewrite Hvis.
  - repeat split; auto.
    + eapply Permutation_NoDup; [symmetry; exact Hp|exact Hf].
    + intros y Hy. apply Hi. eapply Permutation_in; [exact Hp|exact Hy].
  - pose proof (tmem_false_notin _ _ Hx) as Hnx.
    repeat split.
    + constructor; assumption.
    + eapply Permutation_NoDup; [symmetry; exact Hp|]. constructor; [|exact Hf].
      intros Hin. apply Hnx. apply Hi. exact Hin.
    + intros y Hy. apply (Permutation_in _ Hp) in Hy. destruct Hy as [<-|Hy]; [left; reflexivity|right; apply Hi; exact Hy].
Qed.

Lemma walker_delivers_once_lemma : forall ch c roots s,
  wreach ch c roots s ->
  NoDup (delivered s) /\ incl (delivered s) (visited s) /\
  (forall x, In x (delivered s) -> ~ In x (q_in s) /\ ~ In x (q_out s)).
Proof.
  intros ch c roots s Hr.
  assert (Hinv : once_inv s).
  { induction Hr as [|s e s' _ IH Hs]; [apply once_inv_init|eapply once_inv_step; eauto]. }
  destruct Hinv as (_ & Hf & Hi). unfold flight in Hf, Hi.
  repeat split.
  - apply nodup_app_r in Hf. apply nodup_app_r in Hf. apply nodup_app_r in Hf. exact Hf.
  - intros x Hx. apply Hi. apply in_or_app; right. apply in_or_app; right. apply in_or_app; right. exact Hx.
  - intros Hq.
    assert (Hd : In x (held (ldr s) ++ q_out s ++ delivered s)) by (apply in_or_app; right; apply in_or_app; right; exact H).
    exact (nodup_app_disjoint _ _ x Hf Hq Hd).
  - intros Hq.
    apply nodup_app_r in Hf. apply nodup_app_r in Hf.
    exact (nodup_app_disjoint _ _ x Hf Hq H).
Qed.
