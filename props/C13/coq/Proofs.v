(* C13 — invariants of the packer pipeline for every interleaving. *)
From Verif.Base Require Import Tactics.
From Verif.C13 Require Import Extracted Model.
Local Open Scope nat_scope.

(* ------------------------------------------------------------------ lists *)
Lemma remove_at_in {A} (x : A) : forall n l, In x l -> In x (remove_at n l) \/ nth_error l n = Some x.
Proof.
  induction n as [|n IH]; intros l H; destruct l as [|a l]; try (inversion H; fail); cbn.
  - destruct H as [->|H]; [right; reflexivity | left; assumption].
  - destruct H as [->|H]; [left; left; reflexivity|].
    destruct (IH l H) as [H'|H']; [left; right; assumption | right; assumption].
Qed.
Lemma remove_at_incl {A} (x : A) : forall n l, In x (remove_at n l) -> In x l.
Proof.
  induction n as [|n IH]; intros l H; destruct l as [|a l]; cbn in *; try contradiction.
  - right; assumption.
  - destruct H as [->|H]; [left; reflexivity | right; apply IH; assumption].
Qed.
Lemma replace_at_in {A} (x y : A) : forall n l, In x l -> In x (replace_at n y l) \/ nth_error l n = Some x.
Proof.
  induction n as [|n IH]; intros l H; destruct l as [|a l]; try (inversion H; fail); cbn.
  - destruct H as [->|H]; [right; reflexivity | left; right; assumption].
  - destruct H as [->|H]; [left; left; reflexivity|].
    destruct (IH l H) as [H'|H']; [left; right; assumption | right; assumption].
Qed.
Lemma replace_at_new {A} (x y : A) : forall n l, nth_error l n = Some x -> In y (replace_at n y l).
Proof.
  induction n as [|n IH]; intros l H; destruct l as [|a l]; cbn in *; try discriminate.
  - left; reflexivity.
  - right; apply IH; assumption.
Qed.
Lemma replace_at_incl {A} (x y : A) : forall n l, In x (replace_at n y l) -> In x l \/ x = y.
Proof.
  induction n as [|n IH]; intros l H; destruct l as [|a l]; cbn in *; try contradiction.
  - destruct H as [<-|H]; [right; reflexivity | left; right; assumption].
  - destruct H as [->|H]; [left; left; reflexivity|].
    destruct (IH l H) as [H'|H']; [left; right; assumption | right; assumption].
Qed.

Lemma mem_In x l : mem x l = true <-> In x l.
Proof.
  unfold mem. rewrite existsb_exists. split.
  - intros [y [Hy E]]. apply N.eqb_eq in E. subst. assumption.
  - intro H. exists x. split; [assumption | apply N.eqb_refl].
Qed.

Lemma bt_eqb_eq a b : bt_eqb a b = true <-> a = b.
Proof. destruct a, b; cbn; split; intro H; try reflexivity; try discriminate. Qed.

(* ------------------------------------------------------------------ get / set *)
Lemma get_set_same s t p : get (set s t p) t = p.
Proof. destruct t; reflexivity. Qed.
Lemma get_set_other s t t' p : t <> t' -> get (set s t p) t' = get s t'.
Proof. destruct t, t'; intro H; try reflexivity; contradiction. Qed.
Lemma set_fields s t p :
  written (set s t p) = written s /\ idx (set s t p) = idx s /\
  indexed (set s t p) = indexed s /\ requested (set s t p) = requested s.
Proof. destruct t; repeat split. Qed.

Lemma get_mk s0 w i x r t' :
  get {| pd := pd s0; pt := pt s0; written := w; idx := i; indexed := x; requested := r |} t' = get s0 t'.
Proof. destruct t'; reflexivity. Qed.

(* where the ids of packer t currently are *)
Definition holds (p : packer) (i : id) : Prop :=
  In i (map fst (inflight p)) \/ In i (cur p) \/ (exists pk, In pk (wq p) /\ In i pk) \/
  (exists pk, wip p = Some pk /\ In i pk).

Definition ix_in (s : st) (t : bt) (i : id) : Prop :=
  exists e, In e (indexed s) /\ (indexer_typed = true -> fst e = t) /\ snd e = i.

Lemma ix_has_iff s t i : ix_has s t i = true <-> ix_in s t i.
Proof.
  unfold ix_has, ix_in. rewrite existsb_exists. split.
  - intros [e [He H]]. exists e. apply andb_true_iff in H. destruct H as [H1 H2].
    apply N.eqb_eq in H2. repeat split; try assumption.
    intro T. rewrite T in H1. apply bt_eqb_eq. assumption.
  - intros [e [He [H1 H2]]]. exists e. split; [assumption|]. apply andb_true_iff. split.
    + destruct indexer_typed; [|reflexivity]. apply bt_eqb_eq. apply H1. reflexivity.
    + apply N.eqb_eq. assumption.
Qed.

(* ------------------------------------------------------------------ invariant *)
Record Inv (s : st) : Prop := {
  (* every id handed to packer t is indexed (as the indexer sees it) or still held by packer t *)
  inv_req : forall t i, In (t, i) (requested s) -> ix_in s t i \/ holds (get s t) i;
  (* a written pack file is in the indexer, or is the one the writer thread is about to add *)
  inv_written : forall t pk, In (t, pk) (written s) -> In (t, pk) (idx s) \/ wip (get s t) = Some pk;
  (* the indexed set is exactly the content of the indexed packs *)
  inv_indexed : forall t i, In (t, i) (indexed s) <-> exists pk, In (t, pk) (idx s) /\ In i pk;
  (* whatever packer t holds or has indexed was requested for type t *)
  inv_origin_h : forall t i, holds (get s t) i -> In (t, i) (requested s);
  inv_origin_i : forall t pk i, In (t, pk) (idx s) -> In i pk -> In (t, i) (requested s)
}.

Lemma inv_init : Inv init.
Proof.
  constructor; cbn; intros.
  - contradiction.
  - contradiction.
  - split; [contradiction | intros [pk [[] _]]].
  - destruct t; unfold holds in H; cbn in H;
      destruct H as [[]|[[]|[[pk [[] _]]|[pk [E _]]]]]; discriminate.
  - contradiction.
Qed.

Lemma ix_in_mono s s' t i :
  (forall e, In e (indexed s) -> In e (indexed s')) -> ix_in s t i -> ix_in s' t i.
Proof. intros M [e [He H]]. exists e. split; [apply M; assumption | assumption]. Qed.

Ltac holds_cases H :=
  destruct H as [H|[H|[[?pk [?Hq H]]|[?pk [?Hw H]]]]].

Lemma step_inv s e s' : Inv s -> step s e = Some s' -> Inv s'.
Proof.
  intros I St. destruct e as [t i|t n|t|t|t]; cbn [step] in St.
  - (* Send *)
    injection St as <-. remember (get s t) as p.
    destruct (set_fields s t (with_inflight p (inflight p ++ [(i, 0)]))) as (Fw & Fi & Fx & Fr).
    constructor; cbn [pd pt written idx indexed requested]; intros.
    + assert (G : forall t', holds (get s t') i0 ->
                  holds (get {| pd := pd (set s t (with_inflight p (inflight p ++ [(i, 0)])));
                                pt := pt (set s t (with_inflight p (inflight p ++ [(i, 0)])));
                                written := written s; idx := idx s; indexed := indexed s;
                                requested := (t, i) :: requested s |} t') i0).
      { intros t' Hh. destruct t, t'; cbn in *; subst p; unfold holds in *; cbn;
          try assumption; holds_cases Hh; try (left; rewrite map_app; apply in_or_app; left; assumption);
          try (right; left; assumption); try (right; right; left; eexists; split; eassumption);
          try (right; right; right; eexists; split; eassumption). }
      rewrite Fr in H. destruct H as [H|H].
      * injection H as <- <-. right.
        destruct t; cbn; subst p; unfold holds; cbn; left; rewrite map_app; apply in_or_app; right; left; reflexivity.
      * destruct (inv_req s I t0 i0 H) as [Hx|Hh].
        -- left. destruct Hx as [e [He Hx]]. exists e. rewrite Fx. split; assumption.
        -- right. apply G. assumption.
    + rewrite Fw in H. rewrite Fi. destruct (inv_written s I t0 pk H) as [Hx|Hx]; [left; assumption|].
      right. destruct t, t0; cbn in *; subst p; cbn; assumption.
    + rewrite Fx, Fi. apply (inv_indexed s I).
    + rewrite Fr.
      assert (Hh : holds (get s t0) i0 \/ (t0 = t /\ i0 = i)).
      { destruct t, t0; cbn in H; subst p; unfold holds in *; cbn in *; holds_cases H;
          try (rewrite map_app in H; apply in_app_or in H; destruct H as [H|[H|[]]]; [left; left; assumption | right; split; [reflexivity | symmetry; assumption]]);
          try (left; left; assumption);
          try (left; right; left; assumption);
          try (left; right; right; left; eexists; split; eassumption);
          try (left; right; right; right; eexists; split; eassumption). }
      destruct Hh as [Hh|[-> ->]]; [right; apply (inv_origin_h s I); assumption | left; reflexivity].
    + rewrite Fi in H. rewrite Fr. right. eapply (inv_origin_i s I); eassumption.
  - (* Adv *)
    remember (get s t) as p.
    destruct (nth_error (inflight p) n) as [[i stg]|] eqn:Nth; [|discriminate].
    assert (Hin_i : In i (map fst (inflight p))).
    { apply in_map_iff. exists (i, stg). split; [reflexivity | eapply nth_error_In; eassumption]. }
    (* three shapes of successor *)
    assert (Cases :
      (s' = set s t (with_inflight p (remove_at n (inflight p))) /\ (ix_in s t i \/ In i (cur p))) \/
      (s' = set s t (with_inflight p (replace_at n (i, S stg) (inflight p)))) \/
      (s' = set s t {| inflight := remove_at n (inflight p);
                       cur := if mem i (cur p) then cur p else cur p ++ [i]; wq := wq p; wip := wip p |})).
    { destruct stg as [|[|[|[|stg]]]].
      - destruct (ix_has s t i) eqn:X; injection St as <-; [left; split; [reflexivity | left; apply ix_has_iff; assumption] | right; left; reflexivity].
      - destruct (mem i (cur p)) eqn:X; injection St as <-; [left; split; [reflexivity | right; apply mem_In; assumption] | right; left; reflexivity].
      - injection St as <-. right; left; reflexivity.
      - destruct (ix_has s t i) eqn:X; injection St as <-; [left; split; [reflexivity | left; apply ix_has_iff; assumption] | right; left; reflexivity].
      - injection St as <-. right; right; reflexivity. }
    clear St.
    assert (Other : forall q t', t' <> t -> get (set s t q) t' = get s t') by (intros; apply get_set_other; congruence).
    destruct Cases as [[-> Hdrop]|[->| ->]].
    + (* dropped *)
      set (q := with_inflight p (remove_at n (inflight p))).
      destruct (set_fields s t q) as (Fw & Fi & Fx & Fr).
      assert (HoldsQ : forall j, holds p j -> holds q j \/ j = i).
      { intros j Hj. unfold holds in *. subst q. cbn. holds_cases Hj.
        - apply in_map_iff in Hj. destruct Hj as [[j' sj] [E Hj]]. cbn in E. subst j'.
          destruct (remove_at_in _ n _ Hj) as [H'|H'].
          + left; left. apply in_map_iff. exists (j, sj). split; [reflexivity | assumption].
          + right. rewrite Nth in H'. congruence.
        - left; right; left; assumption.
        - left; right; right; left; eexists; split; eassumption.
        - left; right; right; right; eexists; split; eassumption. }
      assert (HoldsBack : forall j, holds q j -> holds p j).
      { intros j Hj. unfold holds in *. subst q. cbn in Hj. holds_cases Hj.
        - left. apply in_map_iff in Hj. destruct Hj as [x [E Hj]]. apply in_map_iff. exists x.
          split; [assumption | eapply remove_at_incl; eassumption].
        - right; left; assumption.
        - right; right; left; eexists; split; eassumption.
        - right; right; right; eexists; split; eassumption. }
      constructor; intros.
      * rewrite Fr in H. destruct (inv_req s I t0 i0 H) as [Hx|Hh].
        -- left. destruct Hx as [e [He Hx]]. exists e. rewrite Fx. split; assumption.
        -- destruct (bt_eqb t0 t) eqn:E.
           ++ apply bt_eqb_eq in E. subst t0. rewrite get_set_same. rewrite <- Heqp in Hh.
              destruct (HoldsQ _ Hh) as [Hq| ->]; [right; assumption|].
              destruct Hdrop as [Hd|Hd].
              ** left. destruct Hd as [e [He Hx]]. exists e. rewrite Fx. split; assumption.
              ** right. unfold holds. subst q. cbn. right; left; assumption.
           ++ right. rewrite Other; [assumption|]. intro; subst. destruct t; discriminate.
      * rewrite Fw in H. rewrite Fi. destruct (inv_written s I t0 pk H) as [Hx|Hx]; [left; assumption|].
        right. destruct (bt_eqb t0 t) eqn:E.
        -- apply bt_eqb_eq in E. subst t0. rewrite get_set_same. rewrite <- Heqp in Hx. subst q. assumption.
        -- rewrite Other; [assumption|]. intro; subst. destruct t; discriminate.
      * rewrite Fx, Fi. apply (inv_indexed s I).
      * rewrite Fr. apply (inv_origin_h s I). destruct (bt_eqb t0 t) eqn:E.
        -- apply bt_eqb_eq in E. subst t0. rewrite get_set_same in H. rewrite <- Heqp. apply HoldsBack. assumption.
        -- rewrite Other in H; [assumption|]. intro; subst. destruct t; discriminate.
      * rewrite Fi in H. rewrite Fr. eapply (inv_origin_i s I); eassumption.
    + (* advanced one stage *)
      set (q := with_inflight p (replace_at n (i, S stg) (inflight p))).
      destruct (set_fields s t q) as (Fw & Fi & Fx & Fr).
      assert (HoldsQ : forall j, holds p j -> holds q j).
      { intros j Hj. unfold holds in *. subst q. cbn. holds_cases Hj.
        - left. apply in_map_iff in Hj. destruct Hj as [[j' sj] [E Hj]]. cbn in E. subst j'.
          destruct (replace_at_in _ (i, S stg) n _ Hj) as [H'|H'].
          + apply in_map_iff. exists (j, sj). split; [reflexivity | assumption].
          + rewrite Nth in H'. injection H' as <- <-. apply in_map_iff. exists (i, S stg).
            split; [reflexivity | eapply replace_at_new; eassumption].
        - right; left; assumption.
        - right; right; left; eexists; split; eassumption.
        - right; right; right; eexists; split; eassumption. }
      assert (HoldsBack : forall j, holds q j -> holds p j).
      { intros j Hj. unfold holds in *. subst q. cbn in Hj. holds_cases Hj.
        - left. apply in_map_iff in Hj. destruct Hj as [x [E Hj]].
          destruct (replace_at_incl _ _ _ _ Hj) as [H'| ->].
          + apply in_map_iff. exists x. split; assumption.
          + cbn in E. subst j. assumption.
        - right; left; assumption.
        - right; right; left; eexists; split; eassumption.
        - right; right; right; eexists; split; eassumption. }
      constructor; intros.
      * rewrite Fr in H. destruct (inv_req s I t0 i0 H) as [Hx|Hh].
        -- left. destruct Hx as [e [He Hx]]. exists e. rewrite Fx. split; assumption.
        -- right. destruct (bt_eqb t0 t) eqn:E.
           ++ apply bt_eqb_eq in E. subst t0. rewrite get_set_same. rewrite <- Heqp in Hh. apply HoldsQ. assumption.
           ++ rewrite Other; [assumption|]. intro; subst. destruct t; discriminate.
      * rewrite Fw in H. rewrite Fi. destruct (inv_written s I t0 pk H) as [Hx|Hx]; [left; assumption|].
        right. destruct (bt_eqb t0 t) eqn:E.
        -- apply bt_eqb_eq in E. subst t0. rewrite get_set_same. rewrite <- Heqp in Hx. subst q. assumption.
        -- rewrite Other; [assumption|]. intro; subst. destruct t; discriminate.
      * rewrite Fx, Fi. apply (inv_indexed s I).
      * rewrite Fr. apply (inv_origin_h s I). destruct (bt_eqb t0 t) eqn:E.
        -- apply bt_eqb_eq in E. subst t0. rewrite get_set_same in H. rewrite <- Heqp. apply HoldsBack. assumption.
        -- rewrite Other in H; [assumption|]. intro; subst. destruct t; discriminate.
      * rewrite Fi in H. rewrite Fr. eapply (inv_origin_i s I); eassumption.
    + (* added to the current pack *)
      set (q := {| inflight := remove_at n (inflight p);
                   cur := if mem i (cur p) then cur p else cur p ++ [i]; wq := wq p; wip := wip p |}).
      destruct (set_fields s t q) as (Fw & Fi & Fx & Fr).
      assert (CurI : In i (cur q)).
      { subst q. cbn. destruct (mem i (cur p)) eqn:M; [apply mem_In; assumption | apply in_or_app; right; left; reflexivity]. }
      assert (CurMono : forall j, In j (cur p) -> In j (cur q)).
      { intros j Hj. subst q. cbn. destruct (mem i (cur p)); [assumption | apply in_or_app; left; assumption]. }
      assert (CurBack : forall j, In j (cur q) -> In j (cur p) \/ j = i).
      { intros j Hj. subst q. cbn in Hj. destruct (mem i (cur p)); [left; assumption|].
        apply in_app_or in Hj. destruct Hj as [Hj|[<-|[]]]; [left; assumption | right; reflexivity]. }
      assert (HoldsQ : forall j, holds p j -> holds q j).
      { intros j Hj. unfold holds in *. holds_cases Hj.
        - apply in_map_iff in Hj. destruct Hj as [[j' sj] [E Hj]]. cbn in E. subst j'.
          destruct (remove_at_in _ n _ Hj) as [H'|H'].
          + left. subst q. cbn. apply in_map_iff. exists (j, sj). split; [reflexivity | assumption].
          + rewrite Nth in H'. injection H' as <- <-. right; left. assumption.
        - right; left. apply CurMono. assumption.
        - right; right; left; eexists; split; eassumption.
        - right; right; right; eexists; split; eassumption. }
      assert (HoldsBack : forall j, holds q j -> holds p j).
      { intros j Hj. unfold holds in *. holds_cases Hj.
        - left. subst q. cbn in Hj. apply in_map_iff in Hj. destruct Hj as [x [E Hj]]. apply in_map_iff. exists x.
          split; [assumption | eapply remove_at_incl; eassumption].
        - destruct (CurBack _ Hj) as [H'| ->]; [right; left; assumption | left; assumption].
        - right; right; left; eexists; split; eassumption.
        - right; right; right; eexists; split; eassumption. }
      constructor; intros.
      * rewrite Fr in H. destruct (inv_req s I t0 i0 H) as [Hx|Hh].
        -- left. destruct Hx as [e [He Hx]]. exists e. rewrite Fx. split; assumption.
        -- right. destruct (bt_eqb t0 t) eqn:E.
           ++ apply bt_eqb_eq in E. subst t0. rewrite get_set_same. rewrite <- Heqp in Hh. apply HoldsQ. assumption.
           ++ rewrite Other; [assumption|]. intro; subst. destruct t; discriminate.
      * rewrite Fw in H. rewrite Fi. destruct (inv_written s I t0 pk H) as [Hx|Hx]; [left; assumption|].
        right. destruct (bt_eqb t0 t) eqn:E.
        -- apply bt_eqb_eq in E. subst t0. rewrite get_set_same. rewrite <- Heqp in Hx. subst q. assumption.
        -- rewrite Other; [assumption|]. intro; subst. destruct t; discriminate.
      * rewrite Fx, Fi. apply (inv_indexed s I).
      * rewrite Fr. apply (inv_origin_h s I). destruct (bt_eqb t0 t) eqn:E.
        -- apply bt_eqb_eq in E. subst t0. rewrite get_set_same in H. rewrite <- Heqp. apply HoldsBack. assumption.
        -- rewrite Other in H; [assumption|]. intro; subst. destruct t; discriminate.
      * rewrite Fi in H. rewrite Fr. eapply (inv_origin_i s I); eassumption.
  - (* Flush *)
    remember (get s t) as p.
    destruct (cur p) as [|c0 cs] eqn:Cur; [discriminate|].
    destruct (length (wq p) <? wq_cap); [|discriminate]. injection St as <-.
    set (q := {| inflight := inflight p; cur := []; wq := wq p ++ [c0 :: cs]; wip := wip p |}).
    destruct (set_fields s t q) as (Fw & Fi & Fx & Fr).
    assert (Other : forall t', t' <> t -> get (set s t q) t' = get s t') by (intros; apply get_set_other; congruence).
    assert (HoldsQ : forall j, holds p j <-> holds q j).
    { intros j. unfold holds. subst q. cbn. rewrite Cur. split; intro Hj; holds_cases Hj.
      - left; assumption.
      - right; right; left. exists (c0 :: cs). split; [apply in_or_app; right; left; reflexivity | assumption].
      - right; right; left. eexists. split; [apply in_or_app; left; eassumption | assumption].
      - right; right; right; eexists; split; eassumption.
      - left; assumption.
      - contradiction.
      - apply in_app_or in Hq. destruct Hq as [Hq|[<-|[]]].
        + right; right; left; eexists; split; eassumption.
        + right; left; assumption.
      - right; right; right; eexists; split; eassumption. }
    constructor; intros.
    + rewrite Fr in H. destruct (inv_req s I t0 i H) as [Hx|Hh].
      * left. destruct Hx as [e [He Hx]]. exists e. rewrite Fx. split; assumption.
      * right. destruct (bt_eqb t0 t) eqn:E.
        -- apply bt_eqb_eq in E. subst t0. rewrite get_set_same. rewrite <- Heqp in Hh. apply HoldsQ. assumption.
        -- rewrite Other; [assumption|]. intro; subst. destruct t; discriminate.
    + rewrite Fw in H. rewrite Fi. destruct (inv_written s I t0 pk H) as [Hx|Hx]; [left; assumption|].
      right. destruct (bt_eqb t0 t) eqn:E.
      * apply bt_eqb_eq in E. subst t0. rewrite get_set_same. rewrite <- Heqp in Hx. subst q. assumption.
      * rewrite Other; [assumption|]. intro; subst. destruct t; discriminate.
    + rewrite Fx, Fi. apply (inv_indexed s I).
    + rewrite Fr. apply (inv_origin_h s I). destruct (bt_eqb t0 t) eqn:E.
      * apply bt_eqb_eq in E. subst t0. rewrite get_set_same in H. rewrite <- Heqp. apply HoldsQ. assumption.
      * rewrite Other in H; [assumption|]. intro; subst. destruct t; discriminate.
    + rewrite Fi in H. rewrite Fr. eapply (inv_origin_i s I); eassumption.
  - (* WriteP *)
    remember (get s t) as p.
    destruct (wip p) eqn:Wip; [discriminate|]. destruct (wq p) as [|pk0 rest] eqn:Wq; [discriminate|].
    injection St as <-.
    set (q := {| inflight := inflight p; cur := cur p; wq := rest; wip := Some pk0 |}).
    destruct (set_fields s t q) as (Fw & Fi & Fx & Fr).
    assert (Other : forall t', t' <> t -> get (set s t q) t' = get s t') by (intros; apply get_set_other; congruence).
    assert (HoldsQ : forall j, holds p j <-> holds q j).
    { intros j. unfold holds. subst q. cbn. rewrite Wq, Wip. split; intro Hj; holds_cases Hj.
      - left; assumption.
      - right; left; assumption.
      - destruct Hq as [<-|Hq].
        + right; right; right. eexists. split; [reflexivity | assumption].
        + right; right; left; eexists; split; eassumption.
      - discriminate.
      - left; assumption.
      - right; left; assumption.
      - right; right; left; eexists; split; [right; eassumption | assumption].
      - injection Hw as <-. right; right; left. eexists. split; [left; reflexivity | assumption]. }
    constructor; cbn [written idx indexed requested]; intros.
    + rewrite Fr in H. destruct (inv_req s I t0 i H) as [Hx|Hh].
      * left. destruct Hx as [e [He Hx]]. exists e. cbn [indexed]. rewrite Fx. split; assumption.
      * right. rewrite get_mk. destruct (bt_eqb t0 t) eqn:E.
        -- apply bt_eqb_eq in E. subst t0. rewrite get_set_same. rewrite <- Heqp in Hh. apply HoldsQ. assumption.
        -- rewrite Other; [assumption|]. intro; subst. destruct t; discriminate.
    + rewrite Fw in H. rewrite Fi. rewrite get_mk. apply in_app_or in H. destruct H as [H|[H|[]]].
      * destruct (inv_written s I t0 pk H) as [Hx|Hx]; [left; assumption|].
        destruct (bt_eqb t0 t) eqn:E.
        -- apply bt_eqb_eq in E. subst t0. rewrite <- Heqp in Hx. congruence.
        -- right. rewrite Other; [assumption|]. intro; subst. destruct t; discriminate.
      * injection H as <- <-. right. rewrite get_set_same. reflexivity.
    + rewrite Fx, Fi. apply (inv_indexed s I).
    + rewrite Fr. apply (inv_origin_h s I). rewrite get_mk in H. destruct (bt_eqb t0 t) eqn:E.
      * apply bt_eqb_eq in E. subst t0. rewrite get_set_same in H. rewrite <- Heqp. apply HoldsQ. assumption.
      * rewrite Other in H; [assumption|]. intro; subst. destruct t; discriminate.
    + rewrite Fi in H. rewrite Fr. eapply (inv_origin_i s I); eassumption.
  - (* IndexP *)
    remember (get s t) as p.
    destruct (wip p) as [pk0|] eqn:Wip; [|discriminate]. injection St as <-.
    set (q := {| inflight := inflight p; cur := cur p; wq := wq p; wip := None |}).
    destruct (set_fields s t q) as (Fw & Fi & Fx & Fr).
    assert (Other : forall t', t' <> t -> get (set s t q) t' = get s t') by (intros; apply get_set_other; congruence).
    assert (HoldsQ : forall j, holds p j -> holds q j \/ In j pk0).
    { intros j Hj. unfold holds in *. subst q. cbn. rewrite Wip in Hj. holds_cases Hj.
      - left; left; assumption.
      - left; right; left; assumption.
      - left; right; right; left; eexists; split; eassumption.
      - injection Hw as <-. right; assumption. }
    assert (HoldsBack : forall j, holds q j -> holds p j).
    { intros j Hj. unfold holds in *. subst q. cbn in Hj. holds_cases Hj.
      - left; assumption.
      - right; left; assumption.
      - right; right; left; eexists; split; eassumption.
      - discriminate. }
    constructor; cbn [written idx indexed requested]; intros.
    + rewrite Fr in H. rewrite get_mk.
      assert (Mono : forall t1 i1, ix_in s t1 i1 ->
                 exists e, In e (map (fun i => (t, i)) pk0 ++ indexed (set s t q)) /\ (indexer_typed = true -> fst e = t1) /\ snd e = i1).
      { intros t1 i1 [e [He Hx]]. exists e. split; [apply in_or_app; right; rewrite Fx; assumption | assumption]. }
      destruct (inv_req s I t0 i H) as [Hx|Hh]; [left; apply Mono; assumption|].
      destruct (bt_eqb t0 t) eqn:E.
      * apply bt_eqb_eq in E. subst t0. rewrite get_set_same. rewrite <- Heqp in Hh.
        destruct (HoldsQ _ Hh) as [Hq|Hq]; [right; assumption|].
        left. exists (t, i). split; [apply in_or_app; left; apply in_map_iff; exists i; split; [reflexivity | assumption] | split; [reflexivity | reflexivity]].
      * right. rewrite Other; [assumption|]. intro; subst. destruct t; discriminate.
    + rewrite Fw in H. rewrite Fi. rewrite get_mk. destruct (inv_written s I t0 pk H) as [Hx|Hx].
      * left. apply in_or_app. left. assumption.
      * destruct (bt_eqb t0 t) eqn:E.
        -- apply bt_eqb_eq in E. subst t0. rewrite <- Heqp in Hx. rewrite Wip in Hx. injection Hx as <-.
           left. apply in_or_app. right. left. reflexivity.
        -- right. rewrite Other; [assumption|]. intro; subst. destruct t; discriminate.
    + rewrite Fx, Fi. split.
      * intro H. apply in_app_or in H. destruct H as [H|H].
        -- apply in_map_iff in H. destruct H as [j [E Hj]]. injection E as <- <-.
           exists pk0. split; [apply in_or_app; right; left; reflexivity | assumption].
        -- apply (inv_indexed s I) in H. destruct H as [pk [H1 H2]]. exists pk. split; [apply in_or_app; left; assumption | assumption].
      * intros [pk [H1 H2]]. apply in_app_or in H1. destruct H1 as [H1|[H1|[]]].
        -- apply in_or_app. right. apply (inv_indexed s I). exists pk. split; assumption.
        -- injection H1 as <- <-. apply in_or_app. left. apply in_map_iff. exists i. split; [reflexivity | assumption].
    + rewrite Fr. apply (inv_origin_h s I). rewrite get_mk in H. destruct (bt_eqb t0 t) eqn:E.
      * apply bt_eqb_eq in E. subst t0. rewrite get_set_same in H. rewrite <- Heqp. apply HoldsBack. assumption.
      * rewrite Other in H; [assumption|]. intro; subst. destruct t; discriminate.
    + rewrite Fi in H. rewrite Fr. apply in_app_or in H. destruct H as [H|[H|[]]].
      * eapply (inv_origin_i s I); eassumption.
      * injection H as <- <-. apply (inv_origin_h s I). rewrite <- Heqp. unfold holds. right; right; right.
        exists pk0. split; assumption.
Qed.

Lemma run_inv : forall es s s', Inv s -> run s es = Some s' -> Inv s'.
Proof.
  induction es as [|e es IH]; intros s s' I R; cbn in R.
  - injection R as <-. assumption.
  - destruct (step s e) as [s1|] eqn:St; [|discriminate]. eapply IH; [|eassumption]. eapply step_inv; eassumption.
Qed.
