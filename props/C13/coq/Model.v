(* C13 — the packer pipeline of one command run as a nondeterministic transition
   system (blob/packer.rs: Packer::new pipeline, RawPacker, Actor/FileWriterHandle;
   index/indexer.rs: Indexer.indexed).

   Two packers (data, tree) share one indexer.  An item sent to a packer passes the
   stages
     0 sent -> 1 passed `!indexer.has(id)` -> 2 passed `!raw_packer.has(id)`
       -> 3 processed (compress+encrypt) -> 4 passed the second `!indexer.has(id)`
       -> added to the current pack (skipped if the pack already holds the id).
   The model lets ANY in-flight item take its next stage at any moment (a superset of
   the real, order-preserving readahead/parallel_map schedules), lets a pack be
   flushed at any moment (should_save depends on size and wall-clock time), keeps the
   writer queue bounded by `wq_cap`, and splits the writer thread's work into
   "write pack file" and "add to indexer" so that other threads can run in between.
   Whether the indexer's `indexed` set is typed is read from the source (Extracted.v). *)
From Verif.Base Require Import Tactics.
From Verif.C13 Require Import Extracted.
Local Open Scope nat_scope.

Inductive bt := Data | Tree.
Definition bt_eqb (a b : bt) : bool := match a, b with Data, Data | Tree, Tree => true | _, _ => false end.

Definition id := N.
Definition mem (x : id) (l : list id) : bool := existsb (N.eqb x) l.

Record packer := {
  inflight : list (id * nat);      (* items in the pipeline with their stage 0..4 *)
  cur : list id;                   (* ids in the pack being assembled *)
  wq : list (list id);             (* packs handed to the file writer, oldest first *)
  wip : option (list id)           (* pack file written to the backend, not yet added to the indexer *)
}.

Record st := {
  pd : packer; pt : packer;
  written : list (bt * list id);   (* pack files present in the backend *)
  idx : list (bt * list id);       (* packs the indexer holds (these go to the index file) *)
  indexed : list (bt * id);        (* Indexer.indexed, filled by Indexer::add *)
  requested : list (bt * id)       (* history variable: every (type, id) ever handed to a packer *)
}.

Definition get (s : st) (t : bt) : packer := match t with Data => pd s | Tree => pt s end.
Definition set (s : st) (t : bt) (p : packer) : st :=
  match t with
  | Data => {| pd := p; pt := pt s; written := written s; idx := idx s; indexed := indexed s; requested := requested s |}
  | Tree => {| pd := pd s; pt := p; written := written s; idx := idx s; indexed := indexed s; requested := requested s |}
  end.

(* Indexer::has — typed or untyped according to the source *)
Definition ix_has (s : st) (t : bt) (i : id) : bool :=
  existsb (fun e => (if indexer_typed then bt_eqb (fst e) t else true) && N.eqb (snd e) i) (indexed s).

Definition init : st :=
  let e := {| inflight := []; cur := []; wq := []; wip := None |} in
  {| pd := e; pt := e; written := []; idx := []; indexed := []; requested := [] |}.

Fixpoint remove_at {A} (n : nat) (l : list A) : list A :=
  match n, l with
  | _, [] => []
  | O, _ :: l' => l'
  | S n', x :: l' => x :: remove_at n' l'
  end.
Fixpoint replace_at {A} (n : nat) (y : A) (l : list A) : list A :=
  match n, l with
  | _, [] => []
  | O, _ :: l' => y :: l'
  | S n', x :: l' => x :: replace_at n' y l'
  end.

Inductive ev :=
| Send (t : bt) (i : id)        (* Packer::add — the environment (archiver / copier) *)
| Adv (t : bt) (n : nat)        (* the n-th in-flight item of packer t takes its next stage *)
| Flush (t : bt)                (* RawPacker::save: current pack -> writer queue (should_save or finalize) *)
| WriteP (t : bt)               (* writer thread: FileWriterHandle::process (write_bytes) *)
| IndexP (t : bt).              (* writer thread: FileWriterHandle::index (Indexer::add) *)

Definition with_inflight (p : packer) (l : list (id * nat)) : packer :=
  {| inflight := l; cur := cur p; wq := wq p; wip := wip p |}.

(* None = the event is not enabled in this state *)
Definition step (s : st) (e : ev) : option st :=
  match e with
  | Send t i =>
      let p := get s t in
      let s' := set s t (with_inflight p (inflight p ++ [(i, 0)])) in
      Some {| pd := pd s'; pt := pt s'; written := written s'; idx := idx s'; indexed := indexed s';
              requested := (t, i) :: requested s' |}
  | Adv t n =>
      let p := get s t in
      match nth_error (inflight p) n with
      | None => None
      | Some (i, stg) =>
          let drop := Some (set s t (with_inflight p (remove_at n (inflight p)))) in
          let adv := Some (set s t (with_inflight p (replace_at n (i, S stg) (inflight p)))) in
          match stg with
          | 0 => if ix_has s t i then drop else adv
          | 1 => if mem i (cur p) then drop else adv
          | 2 => adv
          | 3 => if ix_has s t i then drop else adv
          | _ => (* BasicPacker::add_raw: skip if already in this pack *)
              Some (set s t {| inflight := remove_at n (inflight p);
                               cur := if mem i (cur p) then cur p else cur p ++ [i];
                               wq := wq p; wip := wip p |})
          end
      end
  | Flush t =>
      let p := get s t in
      match cur p with
      | [] => None
      | _ => if length (wq p) <? wq_cap
             then Some (set s t {| inflight := inflight p; cur := []; wq := wq p ++ [cur p]; wip := wip p |})
             else None
      end
  | WriteP t =>
      let p := get s t in
      match wip p, wq p with
      | None, pk :: rest =>
          let s' := set s t {| inflight := inflight p; cur := cur p; wq := rest; wip := Some pk |} in
          Some {| pd := pd s'; pt := pt s'; written := written s' ++ [(t, pk)]; idx := idx s';
                  indexed := indexed s'; requested := requested s' |}
      | _, _ => None
      end
  | IndexP t =>
      let p := get s t in
      match wip p with
      | Some pk =>
          let s' := set s t {| inflight := inflight p; cur := cur p; wq := wq p; wip := None |} in
          Some {| pd := pd s'; pt := pt s'; written := written s'; idx := idx s' ++ [(t, pk)];
                  indexed := map (fun i => (t, i)) pk ++ indexed s'; requested := requested s' |}
      | None => None
      end
  end.

Fixpoint run (s : st) (es : list ev) : option st :=
  match es with
  | [] => Some s
  | e :: es' => match step s e with Some s' => run s' es' | None => None end
  end.

Definition quiet (p : packer) : bool :=
  is_nil_b (inflight p) && is_nil_b (cur p) && is_nil_b (wq p) && match wip p with None => true | Some _ => false end.
Definition final (s : st) : bool := quiet (pd s) && quiet (pt s).

Definition is_send (e : ev) : bool := match e with Send _ _ => true | _ => false end.

(* progress measure: every internal event strictly decreases it *)
Definition item_w (x : id * nat) : nat := 10 - Nat.min (snd x) 5.
Definition packer_measure (p : packer) : nat :=
  list_sum (map item_w (inflight p)) + 4 * (if is_nil_b (cur p) then 0 else 1)
  + 3 * length (wq p) + match wip p with Some _ => 1 | None => 0 end.
Definition measure (s : st) : nat := packer_measure (pd s) + packer_measure (pt s).

(* an internal event that is enabled, if any: used for the progress theorem and
   extracted to drive random runs of the model *)
Definition enabled_internal (s : st) : list ev :=
  flat_map (fun t =>
    let p := get s t in
    map (fun n => Adv t n) (seq 0 (length (inflight p)))
    ++ (match cur p with [] => [] | _ => if length (wq p) <? wq_cap then [Flush t] else [] end)
    ++ (match wip p, wq p with None, _ :: _ => [WriteP t] | _, _ => [] end)
    ++ (match wip p with Some _ => [IndexP t] | None => [] end)) [Data; Tree].
