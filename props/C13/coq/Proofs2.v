(* C13 — consequences of the invariant in final states; progress and termination. *)
From Verif.Base Require Import Tactics.
From Verif.C13 Require Import Extracted Model Proofs.
Local Open Scope nat_scope.

Lemma quiet_not_holds p i : quiet p = true -> ~ holds p i.
Proof.
  unfold quiet. intro Q. repeat (apply andb_true_iff in Q; destruct Q as [Q ?]).
  destruct (inflight p) eqn:E1; [|discriminate]. destruct (cur p) eqn:E2; [|discriminate].
  destruct (wq p) eqn:E3; [|discriminate]. destruct (wip p) eqn:E4; [discriminate|].
  unfold holds. rewrite E1, E2, E3, E4. cbn.
  intros [[]|[[]|[[pk [[] _]]|[pk [E _]]]]]. discriminate.
Qed.

Lemma final_quiet s t : final s = true -> quiet (get s t) = true.
Proof. unfold final. intro F. apply andb_true_iff in F. destruct t; cbn; tauto. Qed.

(* every requested id can be found by the indexer's own test *)
Lemma final_all_indexed_lemma es s :
  run init es = Some s -> final s = true ->
  forall t i, In (t, i) (requested s) -> ix_has s t i = true.
Proof.
  intros R F t i H. pose proof (run_inv es init s inv_init R) as I.
  destruct (inv_req s I t i H) as [Hx|Hh]; [apply ix_has_iff; assumption|].
  exfalso. eapply quiet_not_holds; [apply final_quiet; eassumption | eassumption].
Qed.

(* and lies in an indexed, written pack: of its own type when the indexer is typed or
   no id was requested under both types *)
Definition no_cross (s : st) : Prop :=
  forall i, ~ (In (Data, i) (requested s) /\ In (Tree, i) (requested s)).

Lemma final_typed_lookup_lemma es s :
  run init es = Some s -> final s = true ->
  (indexer_typed = true \/ no_cross s) ->
  forall t i, In (t, i) (requested s) -> exists pk, In (t, pk) (idx s) /\ In i pk.
Proof.
  intros R F Hyp t i H. pose proof (run_inv es init s inv_init R) as I.
  pose proof (final_all_indexed_lemma es s R F t i H) as X.
  apply ix_has_iff in X. destruct X as [[t' i'] [He [Ht Hi]]]. cbn in Ht, Hi. subst i'.
  apply (inv_indexed s I) in He. destruct He as [pk [Hp Hi]].
  destruct Hyp as [Ty|NC].
  - rewrite (Ht Ty) in Hp. exists pk. split; assumption.
  - destruct (bt_eqb t' t) eqn:E.
    + apply bt_eqb_eq in E. subst t'. exists pk. split; assumption.
    + exfalso. pose proof (inv_origin_i s I t' pk i Hp Hi) as Ho.
      apply (NC i). destruct t, t'; try discriminate; split; assumption.
Qed.

(* no blob of a written pack file is missing from the index *)
Lemma final_written_indexed_lemma es s :
  run init es = Some s -> final s = true ->
  forall t pk, In (t, pk) (written s) -> In (t, pk) (idx s).
Proof.
  intros R F t pk H. pose proof (run_inv es init s inv_init R) as I.
  destruct (inv_written s I t pk H) as [Hx|Hx]; [assumption|].
  exfalso. pose proof (final_quiet s t F) as Q. unfold quiet in Q.
  rewrite Hx in Q. rewrite !andb_false_r in Q. discriminate.
Qed.

(* at every moment, also mid-run: a written pack is indexed or is the single pack the
   writer thread is just adding *)
Lemma written_indexed_or_wip_lemma es s :
  run init es = Some s -> forall t pk, In (t, pk) (written s) -> In (t, pk) (idx s) \/ wip (get s t) = Some pk.
Proof. intros R. apply (inv_written s (run_inv es init s inv_init R)). Qed.

(* every pack the indexer holds was written before *)
Lemma step_idx_written s e s' :
  (forall t pk, In (t, pk) (idx s) -> In (t, pk) (written s)) ->
  (forall t pk, wip (get s t) = Some pk -> In (t, pk) (written s)) ->
  step s e = Some s' ->
  (forall t pk, In (t, pk) (idx s') -> In (t, pk) (written s')) /\
  (forall t pk, wip (get s' t) = Some pk -> In (t, pk) (written s')).
Proof.
  intros HI HW St. destruct e as [t i|t n|t|t|t]; cbn [step] in St.
  - injection St as <-. destruct (set_fields s t (with_inflight (get s t) (inflight (get s t) ++ [(i, 0)]))) as (Fw & Fi & _ & _).
    split; intros t0 pk H; cbn [written idx] in *.
    + rewrite Fw. apply HI. rewrite <- Fi. exact H.
    + rewrite Fw. apply HW. rewrite get_mk in H. destruct t, t0; cbn in *; exact H.
  - destruct (nth_error (inflight (get s t)) n) as [[i stg]|]; [|discriminate].
    assert (G : forall q, wip q = wip (get s t) ->
       (forall t0 pk, In (t0, pk) (idx (set s t q)) -> In (t0, pk) (written (set s t q))) /\
       (forall t0 pk, wip (get (set s t q) t0) = Some pk -> In (t0, pk) (written (set s t q)))).
    { intros q Hq. destruct (set_fields s t q) as (Fw & Fi & _ & _). split; intros t0 pk H.
      - rewrite Fw. apply HI. rewrite <- Fi. exact H.
      - rewrite Fw. apply HW. destruct t, t0; cbn in *; try exact H; rewrite <- Hq; exact H. }
    destruct stg as [|[|[|[|stg]]]]; try destr_if; injection St as <-; apply G; reflexivity.
  - destruct (cur (get s t)); [discriminate|]. destr_if; [|discriminate]. injection St as <-.
    destruct (set_fields s t {| inflight := inflight (get s t); cur := []; wq := wq (get s t) ++ [i :: l]; wip := wip (get s t) |}) as (Fw & Fi & _ & _).
    split; intros t0 pk H.
    + rewrite Fw. apply HI. rewrite <- Fi. exact H.
    + rewrite Fw. apply HW. destruct t, t0; cbn in *; exact H.
  - destruct (wip (get s t)) eqn:W; [discriminate|]. destruct (wq (get s t)) as [|pk0 rest] eqn:Q; [discriminate|].
    injection St as <-.
    destruct (set_fields s t {| inflight := inflight (get s t); cur := cur (get s t); wq := rest; wip := Some pk0 |}) as (Fw & Fi & _ & _).
    split; intros t0 pk H; cbn [written idx] in *.
    + rewrite Fw. apply in_or_app. left. apply HI. rewrite <- Fi. exact H.
    + rewrite Fw. rewrite get_mk in H. destruct t, t0; cbn in H.
      * injection H as <-. apply in_or_app. right. left. reflexivity.
      * apply in_or_app. left. apply HW. exact H.
      * apply in_or_app. left. apply HW. exact H.
      * injection H as <-. apply in_or_app. right. left. reflexivity.
  - destruct (wip (get s t)) as [pk0|] eqn:W; [|discriminate]. injection St as <-.
    destruct (set_fields s t {| inflight := inflight (get s t); cur := cur (get s t); wq := wq (get s t); wip := None |}) as (Fw & Fi & _ & _).
    split; intros t0 pk H; cbn [written idx] in *.
    + rewrite Fw. rewrite Fi in H. apply in_app_or in H. destruct H as [H|[H|[]]].
      * apply HI. exact H.
      * injection H as <- <-. apply HW. exact W.
    + rewrite Fw. rewrite get_mk in H. destruct t, t0; cbn in H; try discriminate; apply HW; exact H.
Qed.

Lemma indexed_written_lemma es s :
  run init es = Some s -> forall t pk, In (t, pk) (idx s) -> In (t, pk) (written s).
Proof.
  assert (G : forall es s0 s1,
    (forall t pk, In (t, pk) (idx s0) -> In (t, pk) (written s0)) ->
    (forall t pk, wip (get s0 t) = Some pk -> In (t, pk) (written s0)) ->
    run s0 es = Some s1 -> forall t pk, In (t, pk) (idx s1) -> In (t, pk) (written s1)).
  { induction es0 as [|e es0 IH]; intros s0 s1 HI HW R; cbn in R.
    - injection R as <-. exact HI.
    - destruct (step s0 e) as [s2|] eqn:St; [|discriminate].
      destruct (step_idx_written s0 e s2 HI HW St) as [HI2 HW2]. eapply IH; eassumption. }
  intro R. eapply G; [| |exact R].
  - intros t pk []. 
  - intros t pk H. destruct t; discriminate.
Qed.

(* the history of requests depends on the Send events only *)
Fixpoint sends (es : list ev) : list (bt * id) :=
  match es with
  | [] => []
  | Send t i :: es' => (t, i) :: sends es'
  | _ :: es' => sends es'
  end.

Lemma step_requested s e s' : step s e = Some s' ->
  requested s' = match e with Send t i => (t, i) :: requested s | _ => requested s end.
Proof.
  intro St. destruct e as [t i|t n|t|t|t]; cbn [step] in St.
  - injection St as <-. destruct t; reflexivity.
  - destruct (nth_error (inflight (get s t)) n) as [[i stg]|]; [|discriminate].
    destruct stg as [|[|[|[|stg]]]]; try destr_if; injection St as <-; destruct t; reflexivity.
  - destruct (cur (get s t)); [discriminate|]. destr_if; [|discriminate]. injection St as <-. destruct t; reflexivity.
  - destruct (wip (get s t)); [discriminate|]. destruct (wq (get s t)); [discriminate|].
    injection St as <-. destruct t; reflexivity.
  - destruct (wip (get s t)); [|discriminate]. injection St as <-. destruct t; reflexivity.
Qed.

Lemma run_requested : forall es s s', run s es = Some s' -> requested s' = rev (sends es) ++ requested s.
Proof.
  induction es as [|e es IH]; intros s s' R; cbn in R.
  - injection R as <-. reflexivity.
  - destruct (step s e) as [s1|] eqn:St; [|discriminate].
    rewrite (IH _ _ R). rewrite (step_requested _ _ _ St).
    destruct e; cbn [sends]; try reflexivity. cbn [rev]. rewrite <- app_assoc. reflexivity.
Qed.

(* two complete runs fed the same requests end with the same requests, all of them
   answerable — whatever the interleavings were *)
Lemma schedule_free_lemma es1 es2 s1 s2 :
  sends es1 = sends es2 ->
  run init es1 = Some s1 -> final s1 = true ->
  run init es2 = Some s2 -> final s2 = true ->
  requested s1 = requested s2 /\
  forall t i, In (t, i) (requested s1) -> ix_has s1 t i = true /\ ix_has s2 t i = true.
Proof.
  intros E R1 F1 R2 F2.
  assert (Q : requested s1 = requested s2).
  { rewrite (run_requested _ _ _ R1), (run_requested _ _ _ R2), E. reflexivity. }
  split; [assumption|]. intros t i H. split.
  - eapply final_all_indexed_lemma; eassumption.
  - eapply final_all_indexed_lemma; try eassumption. rewrite <- Q. assumption.
Qed.

(* ------------------------------------------------------------------ progress *)
Lemma progress_lemma s : 0 < wq_cap -> final s = false -> enabled_internal s <> [].
Proof.
  intros Cap F. unfold final in F. apply andb_false_iff in F.
  assert (G : forall t, quiet (get s t) = false ->
     (map (fun n => Adv t n) (seq 0 (length (inflight (get s t))))
      ++ (match cur (get s t) with [] => [] | _ => if length (wq (get s t)) <? wq_cap then [Flush t] else [] end)
      ++ (match wip (get s t), wq (get s t) with None, _ :: _ => [WriteP t] | _, _ => [] end)
      ++ (match wip (get s t) with Some _ => [IndexP t] | None => [] end)) <> []).
  { intros t Q. unfold quiet in Q. set (p := get s t) in *.
    destruct (inflight p) as [|x xs]; [|cbn; discriminate]. cbn [length seq map app].
    destruct (wip p) as [pk|] eqn:W.
    - destruct (cur p); [|destruct (_ <? _)]; destruct (wq p); cbn; discriminate.
    - destruct (wq p) as [|w ws] eqn:Wq.
      + destruct (cur p) as [|c cs]; [cbn in Q; discriminate|].
        cbn [length]. destruct (0 <? wq_cap) eqn:E; [cbn; discriminate | lia].
      + destruct (cur p); [|destruct (_ <? _)]; cbn; discriminate. }
  unfold enabled_internal. cbn [flat_map]. rewrite app_nil_r. intro H.
  apply app_eq_nil in H. destruct H as [H1 H2].
  destruct F as [F|F]; [apply (G Data F); exact H1 | apply (G Tree F); exact H2].
Qed.

Lemma list_sum_remove_at (w : id * nat -> nat) : forall n l x,
  nth_error l n = Some x -> list_sum (map w (remove_at n l)) + w x = list_sum (map w l).
Proof.
  unfold list_sum. induction n as [|n IH]; intros l x H; destruct l as [|a l]; cbn in *; try discriminate.
  - injection H as ->. lia.
  - pose proof (IH l x H). lia.
Qed.
Lemma list_sum_replace_at (w : id * nat -> nat) : forall n l x y,
  nth_error l n = Some x -> list_sum (map w (replace_at n y l)) + w x = list_sum (map w l) + w y.
Proof.
  unfold list_sum. induction n as [|n IH]; intros l x y H; destruct l as [|a l]; cbn in *; try discriminate.
  - injection H as ->. lia.
  - pose proof (IH l x y H). lia.
Qed.

Lemma measure_set s t p : measure (set s t p) + packer_measure (get s t) = measure s + packer_measure p.
Proof. destruct t; unfold measure; cbn [set get pd pt]; lia. Qed.

Lemma measure_mk s0 w i x r :
  measure {| pd := pd s0; pt := pt s0; written := w; idx := i; indexed := x; requested := r |} = measure s0.
Proof. reflexivity. Qed.

Lemma item_w_pos x : 5 <= item_w x.
Proof. unfold item_w. lia. Qed.

(* every internal (non-Send) event strictly decreases the measure: no run of internal
   events is longer than the measure, hence every command run terminates once its
   producers have stopped sending *)
Lemma internal_step_decreases_lemma s e s' :
  is_send e = false -> step s e = Some s' -> measure s' < measure s.
Proof.
  intros NS St. destruct e as [t i|t n|t|t|t]; [discriminate| | | |]; cbn [step] in St.
  - set (p := get s t) in *.
    destruct (nth_error (inflight p) n) as [[i stg]|] eqn:Nth; [|discriminate].
    assert (Drop : measure (set s t (with_inflight p (remove_at n (inflight p)))) < measure s).
    { pose proof (measure_set s t (with_inflight p (remove_at n (inflight p)))) as M. fold p in M.
      pose proof (list_sum_remove_at item_w n _ _ Nth) as L. pose proof (item_w_pos (i, stg)).
      unfold packer_measure in *. cbn [with_inflight inflight cur wq wip] in *. lia. }
    assert (Advc : stg <= 3 -> measure (set s t (with_inflight p (replace_at n (i, S stg) (inflight p)))) < measure s).
    { intro Hs. pose proof (measure_set s t (with_inflight p (replace_at n (i, S stg) (inflight p)))) as M. fold p in M.
      pose proof (list_sum_replace_at item_w n _ _ (i, S stg) Nth) as L.
      unfold packer_measure, item_w in *. cbn [with_inflight inflight cur wq wip fst snd] in *. lia. }
    destruct stg as [|[|[|[|stg]]]].
    + destruct (ix_has s t i); injection St as <-; [exact Drop | apply Advc; lia].
    + destruct (mem i (cur p)); injection St as <-; [exact Drop | apply Advc; lia].
    + injection St as <-. apply Advc; lia.
    + destruct (ix_has s t i); injection St as <-; [exact Drop | apply Advc; lia].
    + injection St as <-.
      pose proof (measure_set s t {| inflight := remove_at n (inflight p);
          cur := if mem i (cur p) then cur p else cur p ++ [i]; wq := wq p; wip := wip p |}) as M. fold p in M.
      pose proof (list_sum_remove_at item_w n _ _ Nth) as L. pose proof (item_w_pos (i, S (S (S (S stg))))) as W.
      unfold packer_measure in *. cbn [inflight cur wq wip] in *.
      set (a := if is_nil_b (if mem i (cur p) then cur p else cur p ++ [i]) then 0 else 1) in *.
      set (b := if is_nil_b (cur p) then 0 else 1) in *.
      assert (a <= 1) by (unfold a; destruct (is_nil_b (if mem i (cur p) then cur p else cur p ++ [i])); lia).
      clearbody a b. lia.
  - set (p := get s t) in *. destruct (cur p) as [|c cs] eqn:C; [discriminate|].
    destr_if; [|discriminate]. injection St as <-.
    pose proof (measure_set s t {| inflight := inflight p; cur := []; wq := wq p ++ [c :: cs]; wip := wip p |}) as M.
    fold p in M. unfold packer_measure in *. cbn [inflight cur wq wip] in *. rewrite C in M.
    rewrite app_length in M. cbn in *. lia.
  - set (p := get s t) in *. destruct (wip p) eqn:W; [discriminate|]. destruct (wq p) as [|pk rest] eqn:Q; [discriminate|].
    injection St as <-. rewrite measure_mk.
    pose proof (measure_set s t {| inflight := inflight p; cur := cur p; wq := rest; wip := Some pk |}) as M.
    fold p in M. unfold packer_measure in *. cbn [inflight cur wq wip] in *. rewrite W, Q in M. cbn in *. lia.
  - set (p := get s t) in *. destruct (wip p) as [pk|] eqn:W; [|discriminate].
    injection St as <-. rewrite measure_mk.
    pose proof (measure_set s t {| inflight := inflight p; cur := cur p; wq := wq p; wip := None |}) as M.
    fold p in M. unfold packer_measure in *. cbn [inflight cur wq wip] in *. rewrite W in M. cbn in *. lia.
Qed.

(* every event listed by enabled_internal is enabled *)
Lemma enabled_internal_sound_lemma s e : In e (enabled_internal s) -> is_send e = false /\ exists s', step s e = Some s'.
Proof.
  unfold enabled_internal. rewrite in_flat_map. intros [t [_ H]].
  repeat (apply in_app_or in H; destruct H as [H|H]).
  - apply in_map_iff in H. destruct H as [n [<- Hn]]. split; [reflexivity|]. apply in_seq in Hn.
    cbn [step]. destruct (nth_error (inflight (get s t)) n) as [[i stg]|] eqn:E.
    + destruct stg as [|[|[|[|stg]]]]; try destr_if; eexists; reflexivity.
    + apply nth_error_None in E. lia.
  - destruct (cur (get s t)) eqn:C; [inversion H|]. destruct (_ <? _) eqn:L; [|inversion H].
    destruct H as [<-|[]]. split; [reflexivity|]. cbn [step]. rewrite C, L. eexists; reflexivity.
  - destruct (wip (get s t)) eqn:W; [inversion H|]. destruct (wq (get s t)) eqn:Q; [inversion H|].
    destruct H as [<-|[]]. split; [reflexivity|]. cbn [step]. rewrite W, Q. eexists; reflexivity.
  - destruct (wip (get s t)) eqn:W; [|inversion H]. destruct H as [<-|[]]. split; [reflexivity|].
    cbn [step]. rewrite W. eexists; reflexivity.
Qed.

(* ------------------------------------------------------------------ witnesses *)
(* non-vacuity: a complete two-packer run *)
Definition ex_run : list ev :=
  [Send Data 7%N; Send Tree 9%N; Adv Data 0; Adv Data 0; Adv Data 0; Adv Data 0; Adv Data 0;
   Send Data 8%N; Flush Data; Adv Tree 0; Adv Tree 0; WriteP Data; Adv Tree 0; Adv Tree 0; Adv Tree 0;
   Adv Data 0; Adv Data 0; IndexP Data; Adv Data 0; Adv Data 0; Adv Data 0; Flush Tree; Flush Data;
   WriteP Tree; WriteP Data; IndexP Tree; IndexP Data].
Example ex_run_final : exists s, run init ex_run = Some s /\ final s = true /\
  idx s = [(Data, [7%N]); (Tree, [9%N]); (Data, [8%N])] /\ length (requested s) = 3.
Proof. eexists. split; [vm_compute; reflexivity|]. split; [reflexivity|]. split; reflexivity. Qed.

(* With an UNTYPED indexer, a tree blob whose id equals an already indexed data blob is
   dropped by the first filter: the run completes, the tree blob is in no tree pack. *)
Definition collision_run : list ev :=
  [Send Data 7%N; Adv Data 0; Adv Data 0; Adv Data 0; Adv Data 0; Adv Data 0; Flush Data; WriteP Data; IndexP Data;
   Send Tree 7%N; Adv Tree 0].
Lemma typed_lookup_refuted_lemma :
  indexer_typed = false ->
  exists s, run init collision_run = Some s /\ final s = true /\ In (Tree, 7%N) (requested s) /\
            forall pk, In (Tree, pk) (idx s) -> ~ In 7%N pk.
Proof.
  intro H. unfold indexer_typed in H.
  first [ discriminate H
        | eexists; split; [vm_compute; reflexivity|]; split; [reflexivity|]; split; [cbn; tauto|];
          cbn; intros pk [E|[]]; discriminate ].
Qed.
