(* prelude: n nat *)
(* C12 driver.  Case line:  <cmp> <sched> <k> <tree>*k
   <tree> = <n> <node>*n ; <node> = <name> <kind> <mtime> <tag> <nc> <content>*nc [<tree> if kind = 1]
   (names are ranks in the order of the escaped node name).  Output: `ok wf=<0/1> <tree>`. *)
let rec rd_tree t =
  let n = ni t in
  ntimes n (fun () ->
    let name = ni t in let kind = ni t in let mtime = ni t in let tag = ni t in
    let nc = ni t in
    let content = ntimes nc (fun () -> n_of_int (ni t)) in
    let k = match kind with 0 -> KFile | 1 -> KDir | 2 -> KSymlink | 4 -> KDirNoSub | _ -> KOther in
    let sub = if kind = 1 then rd_tree t else [] in
    Node (n_of_int name, k, n_of_int mtime, n_of_int tag, content, sub))

let kind_num = function KFile -> 0 | KDir -> 1 | KSymlink -> 2 | KOther -> 3 | KDirNoSub -> 4

let rec pr_tree b tr =
  Buffer.add_string b (Printf.sprintf " %d" (List.length tr));
  List.iter (fun (Node (name, k, mtime, tag, content, sub)) ->
    Buffer.add_string b (Printf.sprintf " %d %d %d %d %d" (int_of_n name) (kind_num k) (int_of_n mtime) (int_of_n tag) (List.length content));
    List.iter (fun c -> Buffer.add_string b (Printf.sprintf " %d" (int_of_n c))) content;
    if k = KDir then pr_tree b sub) tr

let case line =
  let t = toks line in
  let c = ni t in let s = ni t in let k = ni t in
  let ts = ntimes k (fun () -> rd_tree t) in
  let cmp = match c with 0 -> cmp_mtime | 1 -> cmp_meta | 2 -> cmp_equal | _ -> cmp_dir_mtime in
  let sched = if s = 0 then sched_id else sched_rev in
  let wf = List.for_all wf_tree ts in
  (* sched 2 = the loop as written (merge_loop), defined on unsorted inputs as well *)
  let r = if s = 2 then merge_loop cmp ts else merge cmp sched ts in
  let b = Buffer.create 256 in
  Buffer.add_string b (Printf.sprintf "ok wf=%d" (if wf then 1 else 0));
  pr_tree b r;
  Buffer.contents b

(* rewrite: <nx> (<len> <name>*len)*nx <tree>   (nx paths on which the matcher says Ignore) *)
let rw_case line =
  let t = toks line in
  let nx = ni t in
  let ex = ntimes nx (fun () -> let l = ni t in ntimes l (fun () -> n_of_int (ni t))) in
  let tr = rd_tree t in
  let excl p _ = List.mem p ex in
  let modn n = (n, false) in
  let b = Buffer.create 256 in
  (match rewrite_tree excl modn [] tr with
   | Removed -> Buffer.add_string b "ok removed"
   | Unchanged -> Buffer.add_string b "ok unchanged"
   | Changed r -> Buffer.add_string b "ok changed"; pr_tree b r);
  Buffer.contents b

(* repair: <nl> <lost data id>*nl <nu> <unreadable tree>*nu <nm> (<name> <marked name>)*nm <tree> *)
let rp_case line =
  let t = toks line in
  let nl = ni t in
  let lost = ntimes nl (fun () -> n_of_int (ni t)) in
  let nu = ni t in
  let unread = ntimes nu (fun () -> rd_tree t) in
  let nm = ni t in
  let marks = ntimes nm (fun () -> let a = ni t in let b = ni t in (n_of_int a, n_of_int b)) in
  let tr = rd_tree t in
  let has_data i = not (List.mem i lost) in
  let readable x = not (List.mem x unread) in
  let mark a = try List.assoc a marks with Not_found -> a in
  let resize tg _ = tg in
  let b = Buffer.create 256 in
  (match repair_tree has_data mark resize readable tr with
   | Removed -> Buffer.add_string b "ok removed"
   | Unchanged -> Buffer.add_string b "ok unchanged"
   | Changed r -> Buffer.add_string b "ok changed"; pr_tree b r);
  Buffer.contents b

(* copy: <ntab> (<tree id> <tree>)*ntab <nsnap> <tree>*nsnap <nsrc> (<t> <id>)*nsrc <ndst> (<t> <id>)*ndst
   -> `ok <n> (<t> <id>)*n` = copy_order (needed tid src dst snaps)   (t: 0 data, 1 tree) *)
let cp_case line =
  let t = toks line in
  let ntab = ni t in
  let tab = ntimes ntab (fun () -> let i = ni t in let tr = rd_tree t in (tr, n_of_int i)) in
  let nsnap = ni t in
  let snaps = ntimes nsnap (fun () -> rd_tree t) in
  let rd_ix () = let n = ni t in ntimes n (fun () -> let ty = ni t in let i = ni t in ((if ty = 1 then Tree else Data), n_of_int i)) in
  let src = rd_ix () in
  let dst = rd_ix () in
  let tid x = try List.assoc x tab with Not_found -> failwith "tree without id" in
  let r = copy_order (needed tid src dst snaps) in
  let b = Buffer.create 256 in
  Buffer.add_string b (Printf.sprintf "ok %d" (List.length r));
  List.iter (fun (ty, i) -> Buffer.add_string b (Printf.sprintf " %d %d" (match ty with Tree -> 1 | Data -> 0) (int_of_n i))) r;
  Buffer.contents b

let () =
  let mode = if Array.length Sys.argv > 2 then Sys.argv.(2) else "merge" in
  main_loop (match mode with "rw" -> rw_case | "rp" -> rp_case | "cp" -> cp_case | _ -> case)
