(* prelude: n nat *)
(* C12 driver.  Case line:  <cmp> <sched> <k> <tree>*k
   <tree> = <n> <node>*n ; <node> = <name> <kind> <mtime> <tag> <nc> <content>*nc [<tree> if kind = 1]
   (names are ranks in the order of the escaped node name).  Output: `ok wf=<0/1> <tree>`. *)
let rec rd_tree t =
  let n = ni t in
  ntimes n (fun () ->
    let name = ni t in let kind = ni t in let mtime = ni t in let tag = ni t in
    let nc = ni t in
    let content = ntimes nc (fun () -> n_of_int (ni t)) in
    let k = match kind with 0 -> KFile | 1 -> KDir | 2 -> KSymlink | 4 -> KDirNoSub | _ -> KOther in
    let sub = if kind = 1 then rd_tree t else [] in
    Node (n_of_int name, k, n_of_int mtime, n_of_int tag, content, sub))

let kind_num = function KFile -> 0 | KDir -> 1 | KSymlink -> 2 | KOther -> 3 | KDirNoSub -> 4

let rec pr_tree b tr =
  Buffer.add_string b (Printf.sprintf " %d" (List.length tr));
  List.iter (fun (Node (name, k, mtime, tag, content, sub)) ->
    Buffer.add_string b (Printf.sprintf " %d %d %d %d %d" (int_of_n name) (kind_num k) (int_of_n mtime) (int_of_n tag) (List.length content));
    List.iter (fun c -> Buffer.add_string b (Printf.sprintf " %d" (int_of_n c))) content;
    if k = KDir then pr_tree b sub) tr

let case line =
  let t = toks line in
  let c = ni t in let s = ni t in let k = ni t in
  let ts = ntimes k (fun () -> rd_tree t) in
  let cmp = match c with 0 -> cmp_mtime | 1 -> cmp_meta | 2 -> cmp_equal | _ -> cmp_dir_mtime in
  let sched = if s = 0 then sched_id else sched_rev in
  let wf = List.for_all wf_tree ts in
  let r = merge cmp sched ts in
  let b = Buffer.create 256 in
  Buffer.add_string b (Printf.sprintf "ok wf=%d" (if wf then 1 else 0));
  pr_tree b r;
  Buffer.contents b

let () = main_loop case
