(* C12 — the merge loop as written (Model.loop / merge_trees_loop), for EVERY priority queue:
   whatever `push`/`pop` satisfy the priority-queue specification (pop returns an element of least
   name and leaves the others), the loop meets the same path specification as the abstract merge. *)
From Verif.Base Require Import Tactics.
From Verif.C12 Require Import Model Proofs.
Local Open Scope N_scope.

Definition tl_of (e : hnode) : tree := fst e :: snd e.
Definition geq (g : list node) (x : N) (ts : list tree) : Prop := forall y, In y g <-> In y (group x ts).

Lemma total_len_perm l l' : Permutation l l' -> total_len l = total_len l'.
Proof. induction 1; unfold total_len in *; cbn [fold_right] in *; lia. Qed.

Lemma group_cons x t ts y : In y (group x (t :: ts)) <-> In y (filter (namep x) t) \/ In y (group x ts).
Proof. unfold group. cbn [flat_map]. rewrite in_app_iff. reflexivity. Qed.

Lemma group_perm x ts ts' y : Permutation ts ts' -> (In y (group x ts) <-> In y (group x ts')).
Proof.
  intro H. rewrite !group_in. split; intros [t [Ht R]]; exists t; (split; [|exact R]).
  - eapply Permutation_in; eassumption.
  - eapply Permutation_in; [apply Permutation_sym; eassumption | assumption].
Qed.

Lemma geq_transfer g x ts ts' : (forall y, In y (group x ts) <-> In y (group x ts')) -> geq g x ts -> geq g x ts'.
Proof. intros H G y. rewrite (G y). apply H. Qed.

Lemma geq_step x n' r' ts g' :
  geq g' x (r' :: ts) -> geq (if x =? n_name n' then n' :: g' else g') x ((n' :: r') :: ts).
Proof.
  intros H y. rewrite group_cons. specialize (H y). rewrite group_cons in H. cbn [filter]. unfold namep at 1.
  destruct (n_name n' =? x) eqn:E1; destruct (x =? n_name n') eqn:E2; try lia; cbn [In]; tauto.
Qed.

Lemma sorted_all_ge n r y : sorted (n :: r) -> In y (n :: r) -> n_name n <= n_name y.
Proof. intros Hs [<-|Hy]; [lia|]. destruct (sorted_inv _ _ Hs) as [_ H]. specialize (H y Hy). lia. Qed.

Section LoopProofs.
  Variable cmp : node -> node -> comparison.
  Variable hpush : list hnode -> hnode -> list hnode.
  Variable hpop : list hnode -> option (hnode * list hnode).
  (* the priority-queue specification, relative to a representation invariant (heap order for a binary heap) *)
  Variable Inv : list hnode -> Prop.
  Hypothesis Hinv0 : Inv [].
  Hypothesis Hpush : forall h x, Inv h -> Inv (hpush h x) /\ Permutation (hpush h x) (x :: h).
  Hypothesis Hpop_none : forall h, hpop h = None -> h = [].
  Hypothesis Hpop_some : forall h x h', Inv h -> hpop h = Some (x, h') ->
    Inv h' /\ Permutation h (x :: h') /\ forall y, In y h' -> n_name (fst x) <= n_name (fst y).

  Lemma merge_nodes_nonempty rec a g : exists n0, merge_nodes cmp rec (a :: g) = Some n0.
  Proof. unfold merge_nodes. cbn [max_by]. eexists. reflexivity. Qed.

  Lemma merge_nodes_named rec g n0 m : (forall y, In y g -> n_name y = m) -> merge_nodes cmp rec g = Some n0 -> n_name n0 = m.
  Proof.
    intros H E. destruct (merge_nodes_some _ _ _ _ E) as [w [_ [Hw [Hn _]]]]. rewrite Hn. apply H. exact Hw.
  Qed.

  (* the heap after `push_next`, as a list *)
  Definition pushed (rc : tree) (heap : list hnode) : list hnode :=
    match rc with s :: r => (s, r) :: heap | [] => heap end.

  Lemma push_next_perm rc heap : Inv heap -> Permutation (push_next hpush rc heap) (pushed rc heap).
  Proof. intro Hi. destruct rc as [|s r]; cbn [push_next pushed]; [apply Permutation_refl | apply Hpush; exact Hi]. Qed.
  Lemma push_next_inv rc heap : Inv heap -> Inv (push_next hpush rc heap).
  Proof. intro Hi. destruct rc as [|s r]; cbn [push_next]; [exact Hi | apply Hpush; exact Hi]. Qed.

  Lemma group_pushed x rc heap y :
    In y (group x (rc :: map tl_of heap)) <-> In y (group x (map tl_of (pushed rc heap))).
  Proof.
    destruct rc as [|s r]; cbn [pushed map]; [|reflexivity].
    rewrite group_cons. cbn [filter In]. tauto.
  Qed.

  Lemma total_len_pushed rc heap : total_len (map tl_of (pushed rc heap)) = (total_len (map tl_of heap) + length rc)%nat.
  Proof. destruct rc as [|s r]; cbn [pushed map]; unfold total_len; cbn [fold_right tl_of fst snd length]; lia. Qed.

  Lemma loop_find rec : forall fuel c rc nodes heap,
    Inv heap ->
    sorted (c :: rc) ->
    (forall e, In e heap -> sorted (tl_of e)) ->
    (forall e, In e heap -> n_name c <= n_name (fst e)) ->
    (forall y, In y nodes -> n_name y = n_name c) ->
    (total_len (map tl_of heap) + length rc < fuel)%nat ->
    forall x, exists g, geq g x (rc :: map tl_of heap) /\
      find (namep x) (loop cmp hpush hpop fuel rec (c, rc) nodes heap) =
      merge_nodes cmp rec (if x =? n_name c then nodes ++ c :: g else g).
  Proof.
    induction fuel as [|f IH]; intros c rc nodes heap Hinv Hsc Hsh Hmin Hnodes Hfuel x; [lia|].
    cbn [loop fst snd].
    pose proof (push_next_perm rc heap Hinv) as Pp1.
    pose proof (push_next_inv rc heap Hinv) as Hinv1.
    set (heap1 := push_next hpush rc heap) in *.
    (* facts about the pushed heap *)
    assert (forall e, In e heap1 -> sorted (tl_of e) /\ n_name c <= n_name (fst e)) as H1.
    { intros e He. apply (Permutation_in _ Pp1) in He. destruct rc as [|s r]; cbn [pushed] in He.
      - split; [apply Hsh | apply Hmin]; exact He.
      - destruct He as [<-|He]; [|split; [apply Hsh | apply Hmin]; exact He].
        destruct (sorted_inv _ _ Hsc) as [Hr Hlt]. split; [exact Hr|]. cbn [fst].
        specialize (Hlt s (or_introl eq_refl)). lia. }
    assert (forall y, In y (group x (rc :: map tl_of heap)) <-> In y (group x (map tl_of heap1))) as Hgrp1.
    { intro y. rewrite group_pushed. apply group_perm. apply Permutation_map. apply Permutation_sym. exact Pp1. }
    assert (total_len (map tl_of heap1) = total_len (map tl_of heap) + length rc)%nat as Hlen1.
    { rewrite <- total_len_pushed. apply total_len_perm. apply Permutation_map. exact Pp1. }
    assert (forall y, In y (nodes ++ [c]) -> n_name y = n_name c) as Hnodes'.
    { intros y Hy. apply in_app_or in Hy. destruct Hy as [Hy|[<-|[]]]; [apply Hnodes; exact Hy | reflexivity]. }
    destruct (merge_nodes_nonempty rec c []) as [nx0 _].
    assert (exists n0, merge_nodes cmp rec (nodes ++ [c]) = Some n0 /\ n_name n0 = n_name c) as [n0 [En0 Hn0]].
    { destruct (nodes ++ [c]) as [|a g0] eqn:Eg; [destruct nodes; discriminate|].
      destruct (merge_nodes_nonempty rec a g0) as [n0 En0]. exists n0. split; [exact En0|].
      eapply merge_nodes_named; [|exact En0]. exact Hnodes'. }
    destruct (hpop heap1) as [[[n' r'] heap2]|] eqn:Ep.
    - destruct (Hpop_some _ _ _ Hinv1 Ep) as [Hinv2 [Pp2 Hmin2]]. cbn [fst] in Hmin2.
      assert (In (n', r') heap1) as Hin' by (eapply Permutation_in; [apply Permutation_sym; exact Pp2 | left; reflexivity]).
      destruct (H1 _ Hin') as [Hs' Hm']. cbn [fst tl_of snd] in Hs', Hm'.
      assert (forall e, In e heap2 -> sorted (tl_of e)) as Hsh2.
      { intros e He. apply H1. eapply Permutation_in; [apply Permutation_sym; exact Pp2 | right; exact He]. }
      assert (total_len (map tl_of heap2) + length r' < f)%nat as Hfuel2.
      { pose proof (total_len_perm _ _ (Permutation_map tl_of Pp2)) as Hl. cbn [map] in Hl.
        change (tl_of (n', r')) with (n' :: r') in Hl.
        unfold total_len in Hl, Hlen1, Hfuel |- *. cbn [fold_right length] in Hl. lia. }
      assert (forall y, In y (group x (map tl_of heap1)) <-> In y (group x ((n' :: r') :: map tl_of heap2))) as Hgrp2.
      { intro y. apply (group_perm x _ _ y (Permutation_map tl_of Pp2)). }
      cbn [fst].
      destruct (n_name c =? n_name n') eqn:E.
      + (* same name: collect and go on *)
        assert (n_name c = n_name n') as Enm by lia.
        assert (forall y, In y (nodes ++ [c]) -> n_name y = n_name n') as Hn2 by (intros; rewrite <- Enm; auto).
        destruct (IH n' r' (nodes ++ [c]) heap2 Hinv2 Hs' Hsh2 Hmin2 Hn2 Hfuel2 x) as [g' [Hg' Hf']].
        exists (if x =? n_name n' then n' :: g' else g'). split.
        * eapply geq_transfer; [|apply geq_step; exact Hg']. intro y. rewrite Hgrp1, Hgrp2. reflexivity.
        * etransitivity; [exact Hf'|]. rewrite Enm. destruct (x =? n_name n'); [rewrite <- app_assoc; reflexivity | reflexivity].
      + (* a larger name: emit the collected group *)
        assert (n_name c < n_name n') as Hlt by lia.
        unfold emit. rewrite En0. cbn [find]. unfold namep at 1. rewrite Hn0.
        destruct (n_name c =? x) eqn:Ex.
        * assert (x = n_name c) as -> by lia. exists []. split.
          -- intro y. split; [intros []|]. intro Hy. exfalso. apply Hgrp1 in Hy. apply group_in in Hy.
             destruct Hy as [t [Ht [Hyt Hyn]]]. apply in_map_iff in Ht. destruct Ht as [e [<- He]].
             destruct (H1 e He) as [Hse _].
             assert (n_name n' <= n_name (fst e)) as Hge.
             { apply (Permutation_in _ Pp2) in He. destruct He as [<-|He]; [cbn [fst]; lia | apply Hmin2; exact He]. }
             pose proof (sorted_all_ge _ _ y Hse Hyt). lia.
          -- rewrite N.eqb_refl. symmetry. exact En0.
        * assert (forall y, In y ([] : list node) -> n_name y = n_name n') as Hn2 by (intros y []).
          destruct (IH n' r' [] heap2 Hinv2 Hs' Hsh2 Hmin2 Hn2 Hfuel2 x) as [g' [Hg' Hf']].
          exists (if x =? n_name n' then n' :: g' else g'). split.
          -- eapply geq_transfer; [|apply geq_step; exact Hg']. intro y. rewrite Hgrp1, Hgrp2. reflexivity.
          -- etransitivity; [exact Hf'|]. assert (x =? n_name c = false) as -> by lia. cbn [app]. reflexivity.
    - (* the heap is empty: last group *)
      apply Hpop_none in Ep.
      assert (forall y, ~ In y (group x (rc :: map tl_of heap))) as Hemp.
      { intros y Hy. apply Hgrp1 in Hy. rewrite Ep in Hy. destruct Hy. }
      unfold emit. rewrite En0. cbn [find]. unfold namep at 1. rewrite Hn0.
      exists []. split; [intro y; split; [intros [] | intro Hy; exfalso; exact (Hemp y Hy)]|].
      destruct (n_name c =? x) eqn:Ex.
      + assert (x = n_name c) as -> by lia. rewrite N.eqb_refl. symmetry. exact En0.
      + assert (x =? n_name c = false) as -> by lia. reflexivity.
  Qed.

  Lemma sorted_cons n r : (forall y, In y r -> n_name n < n_name y) -> sorted r -> sorted (n :: r).
  Proof.
    intros Hlt Hs. unfold sorted in *. destruct r as [|b r]; [reflexivity|]. cbn [map] in *.
    change (((n_name n <? n_name b) && sorted_names (n_name b :: map n_name r))%bool = true).
    rewrite Hs, andb_true_r. specialize (Hlt b (or_introl eq_refl)). lia.
  Qed.

  (* the output of the loop is strictly sorted by name and bounded below by the current name *)
  Lemma loop_sorted rec : forall fuel c rc nodes heap,
    Inv heap ->
    sorted (c :: rc) ->
    (forall e, In e heap -> sorted (tl_of e)) ->
    (forall e, In e heap -> n_name c <= n_name (fst e)) ->
    (forall y, In y nodes -> n_name y = n_name c) ->
    sorted (loop cmp hpush hpop fuel rec (c, rc) nodes heap) /\
    forall y, In y (loop cmp hpush hpop fuel rec (c, rc) nodes heap) -> n_name c <= n_name y.
  Proof.
    induction fuel as [|f IH]; intros c rc nodes heap Hinv Hsc Hsh Hmin Hnodes; [split; [apply sorted_nil | intros y []]|].
    cbn [loop fst snd].
    pose proof (push_next_perm rc heap Hinv) as Pp1.
    pose proof (push_next_inv rc heap Hinv) as Hinv1.
    set (heap1 := push_next hpush rc heap) in *.
    assert (forall e, In e heap1 -> sorted (tl_of e) /\ n_name c <= n_name (fst e)) as H1.
    { intros e He. apply (Permutation_in _ Pp1) in He. destruct rc as [|s r]; cbn [pushed] in He.
      - split; [apply Hsh | apply Hmin]; exact He.
      - destruct He as [<-|He]; [|split; [apply Hsh | apply Hmin]; exact He].
        destruct (sorted_inv _ _ Hsc) as [Hr Hlt]. split; [exact Hr|]. cbn [fst].
        specialize (Hlt s (or_introl eq_refl)). lia. }
    assert (forall y, In y (nodes ++ [c]) -> n_name y = n_name c) as Hnodes'.
    { intros y Hy. apply in_app_or in Hy. destruct Hy as [Hy|[<-|[]]]; [apply Hnodes; exact Hy | reflexivity]. }
    assert (exists n0, merge_nodes cmp rec (nodes ++ [c]) = Some n0 /\ n_name n0 = n_name c) as [n0 [En0 Hn0]].
    { destruct (nodes ++ [c]) as [|a g0] eqn:Eg; [destruct nodes; discriminate|].
      destruct (merge_nodes_nonempty rec a g0) as [n0 En0]. exists n0. split; [exact En0|].
      eapply merge_nodes_named; [|exact En0]. exact Hnodes'. }
    destruct (hpop heap1) as [[[n' r'] heap2]|] eqn:Ep.
    - destruct (Hpop_some _ _ _ Hinv1 Ep) as [Hinv2 [Pp2 Hmin2]]. cbn [fst] in Hmin2.
      assert (In (n', r') heap1) as Hin' by (eapply Permutation_in; [apply Permutation_sym; exact Pp2 | left; reflexivity]).
      destruct (H1 _ Hin') as [Hs' Hm']. cbn [fst] in Hm'. change (tl_of (n', r')) with (n' :: r') in Hs'.
      assert (forall e, In e heap2 -> sorted (tl_of e)) as Hsh2.
      { intros e He. apply H1. eapply Permutation_in; [apply Permutation_sym; exact Pp2 | right; exact He]. }
      cbn [fst].
      destruct (n_name c =? n_name n') eqn:E.
      + assert (n_name c = n_name n') as Enm by lia.
        assert (forall y, In y (nodes ++ [c]) -> n_name y = n_name n') as Hn2 by (intros; rewrite <- Enm; auto).
        destruct (IH n' r' (nodes ++ [c]) heap2 Hinv2 Hs' Hsh2 Hmin2 Hn2) as [I1 I2].
        split; [exact I1|]. intros y Hy. specialize (I2 y Hy). lia.
      + assert (forall y, In y ([] : list node) -> n_name y = n_name n') as Hn2 by (intros y []).
        destruct (IH n' r' [] heap2 Hinv2 Hs' Hsh2 Hmin2 Hn2) as [I1 I2].
        unfold emit. rewrite En0. split.
        * apply sorted_cons; [|exact I1]. intros y Hy. specialize (I2 y Hy). lia.
        * intros y [<-|Hy]; [lia | specialize (I2 y Hy); lia].
    - unfold emit. rewrite En0. split; [reflexivity|]. intros y [<-|[]]. lia.
  Qed.

  (* the heap filled with the first elements *)
  Lemma first_elems_perm : forall ts h, Inv h ->
    Inv (first_elems hpush h ts) /\
    Permutation (map tl_of (first_elems hpush h ts)) (filter (fun t => match t with [] => false | _ => true end) ts ++ map tl_of h).
  Proof.
    induction ts as [|t ts IH]; intros h Hi; [split; [exact Hi | apply Permutation_refl]|]. cbn [first_elems filter].
    destruct t as [|n q].
    - apply IH. exact Hi.
    - destruct (Hpush h (n, q) Hi) as [Hi' Pp]. destruct (IH _ Hi') as [I1 P1]. split; [exact I1|].
      eapply Permutation_trans; [exact P1|]. cbn [app].
      eapply Permutation_trans; [apply Permutation_app_head; apply Permutation_map; exact Pp|].
      cbn [map]. change (tl_of (n, q)) with (n :: q). apply Permutation_sym. apply Permutation_middle.
  Qed.

  Lemma group_nonempty_filter x ts y :
    In y (group x (filter (fun t => match t with [] => false | _ => true end) ts)) <-> In y (group x ts).
  Proof.
    rewrite !group_in. split.
    - intros [t [Ht R]]. apply filter_In in Ht. exists t. split; [apply Ht | exact R].
    - intros [t [Ht [Hy R]]]. exists t. split; [|split; assumption]. apply filter_In. split; [exact Ht|].
      destruct t; [destruct Hy | reflexivity].
  Qed.

  Lemma total_len_nonempty_filter ts :
    total_len (filter (fun t => match t with [] => false | _ => true end) ts) = total_len ts.
  Proof.
    induction ts as [|t ts IH]; [reflexivity|]. cbn [filter]. destruct t; unfold total_len in *; cbn [fold_right length] in *; lia.
  Qed.

  (* one level of the loop: for every name, the node of the result is merge_nodes of a list holding exactly
     the same-named nodes of the inputs *)
  Lemma loop_level_find rec ts x : Forall sorted ts ->
    exists g, geq g x ts /\ find (namep x) (loop_level cmp hpush hpop rec ts) = merge_nodes cmp rec g.
  Proof.
    intro Hs. rewrite Forall_forall in Hs. unfold loop_level.
    destruct (first_elems_perm ts [] Hinv0) as [Hi0 P0]. cbn [map] in P0. rewrite app_nil_r in P0.
    set (h0 := first_elems hpush [] ts) in *.
    assert (forall y, In y (group x (map tl_of h0)) <-> In y (group x ts)) as Hg0.
    { intro y. rewrite (group_perm x _ _ y P0). apply group_nonempty_filter. }
    assert (forall e, In e h0 -> sorted (tl_of e)) as Hs0.
    { intros e He. apply Hs. assert (In (tl_of e) (map tl_of h0)) as Ht by (apply in_map; exact He).
      apply (Permutation_in _ P0) in Ht. apply filter_In in Ht. apply Ht. }
    destruct (hpop h0) as [[[c rc] h']|] eqn:Ep.
    - destruct (Hpop_some _ _ _ Hi0 Ep) as [Hi1 [Pp Hmin]]. cbn [fst] in Hmin.
      assert (sorted (c :: rc)) as Hsc.
      { apply (Hs0 (c, rc)). eapply Permutation_in; [apply Permutation_sym; exact Pp | left; reflexivity]. }
      assert (forall e, In e h' -> sorted (tl_of e)) as Hsh.
      { intros e He. apply Hs0. eapply Permutation_in; [apply Permutation_sym; exact Pp | right; exact He]. }
      assert (total_len (map tl_of h') + length rc < S (total_len ts))%nat as Hfuel.
      { pose proof (total_len_perm _ _ (Permutation_map tl_of Pp)) as Hl. cbn [map] in Hl.
        pose proof (total_len_perm _ _ P0) as Hl0. rewrite total_len_nonempty_filter in Hl0.
        change (tl_of (c, rc)) with (c :: rc) in Hl.
        unfold total_len in Hl, Hl0 |- *. cbn [fold_right length] in Hl. lia. }
      destruct (loop_find rec (S (total_len ts)) c rc [] h' Hi1 Hsc Hsh Hmin (fun y (H : In y []) => match H with end) Hfuel x) as [g [Hg Hf]].
      exists (if x =? n_name c then c :: g else g). split.
      + eapply geq_transfer; [|apply geq_step; exact Hg]. intro y. rewrite <- Hg0.
        symmetry. apply (group_perm x _ _ y (Permutation_map tl_of Pp)).
      + etransitivity; [exact Hf|]. cbn [app]. reflexivity.
    - apply Hpop_none in Ep. exists []. split; [|reflexivity].
      intro y. split; [intros []|]. intro Hy. apply Hg0 in Hy. rewrite Ep in Hy. destruct Hy.
  Qed.

  Lemma loop_level_sorted rec ts : Forall sorted ts -> sorted (loop_level cmp hpush hpop rec ts).
  Proof.
    intro Hs. rewrite Forall_forall in Hs. unfold loop_level.
    destruct (first_elems_perm ts [] Hinv0) as [Hi0 P0]. cbn [map] in P0. rewrite app_nil_r in P0.
    set (h0 := first_elems hpush [] ts) in *.
    assert (forall e, In e h0 -> sorted (tl_of e)) as Hs0.
    { intros e He. apply Hs. assert (In (tl_of e) (map tl_of h0)) as Ht by (apply in_map; exact He).
      apply (Permutation_in _ P0) in Ht. apply filter_In in Ht. apply Ht. }
    destruct (hpop h0) as [[[c rc] h']|] eqn:Ep; [|apply sorted_nil].
    destruct (Hpop_some _ _ _ Hi0 Ep) as [Hi1 [Pp Hmin]]. cbn [fst] in Hmin.
    apply loop_sorted.
    - exact Hi1.
    - apply (Hs0 (c, rc)). eapply Permutation_in; [apply Permutation_sym; exact Pp | left; reflexivity].
    - intros e He. apply Hs0. eapply Permutation_in; [apply Permutation_sym; exact Pp | right; exact He].
    - exact Hmin.
    - intros y [].
  Qed.

  Lemma merge_loop_sorted_gen ts : Forall (fun t => wf_tree t = true) ts -> sorted (merge_loop_gen cmp hpush hpop ts).
  Proof.
    intro Hwf. unfold merge_loop_gen. cbn [merge_trees_loop]. apply loop_level_sorted.
    rewrite Forall_forall in *. intros t Ht. apply wft_sorted. apply Hwf. exact Ht.
  Qed.

  Hypothesis Hpre : preorder cmp.

  (* the path specification, for the loop as written *)
  Lemma loop_paths_lemma : forall d ts, Forall wft ts -> (depths ts <= d)%nat ->
    forall p, p <> [] -> spec_at cmp ts (merge_trees_loop cmp hpush hpop d ts) p.
  Proof.
    induction d as [|d IH]; intros ts Hwf Hd p Hp.
    - unfold spec_at. cbn [merge_trees_loop]. destruct p as [|x q]; [congruence|]. cbn [lookup find].
      left. apply cands_nil_iff. intros t Ht. assert (t = []) as -> by (apply (depths_zero ts); [lia | exact Ht]).
      reflexivity.
    - assert (Forall sorted ts) as Hs.
      { rewrite Forall_forall in *. intros t Ht. apply wft_sorted. apply Hwf. exact Ht. }
      destruct p as [|x q]; [congruence|].
      set (r := merge_trees_loop cmp hpush hpop (S d) ts).
      destruct (loop_level_find (merge_trees_loop cmp hpush hpop d) ts x Hs) as [g [Hg Hfind]].
      change (loop_level cmp hpush hpop (merge_trees_loop cmp hpush hpop d) ts) with r in Hfind.
      unfold geq in Hg.
      destruct (merge_nodes cmp (merge_trees_loop cmp hpush hpop d) g) as [n|] eqn:En.
      + destruct (merge_nodes_some _ _ _ _ En) as [w [Hmax [Hw [Hname [Hdir Heq]]]]].
        pose proof (max_by_max cmp Hpre g w Hmax) as Hmaxw.
        destruct q as [|y q].
        * unfold spec_at. rewrite lookup_one, Hfind. exists w. rewrite cands_one by exact Hs.
          split; [apply Hg; exact Hw|]. split; [intros y Hy; apply Hmaxw; apply Hg; exact Hy|].
          rewrite Heq. destruct (is_dir w); [rewrite set_sub_sub; reflexivity | reflexivity].
        * unfold spec_at. rewrite lookup_cons, Hfind.
          destruct (is_dir n) eqn:Dn.
          -- rewrite <- Hdir in Heq.
            set (subs := map n_sub (filter is_dir g)) in *.
            assert (n_sub n = merge_trees_loop cmp hpush hpop d subs) as Hsub by (rewrite Heq; apply set_sub_sub).
            assert (Forall wft subs) as Hwfs.
            { rewrite Forall_forall in *. intros s Hs0. apply in_map_iff in Hs0. destruct Hs0 as [m [<- Hm]].
              apply filter_In in Hm. destruct Hm as [Hm _]. apply Hg in Hm. apply group_in in Hm.
              destruct Hm as [t [Ht [Hmt _]]]. apply (wft_sub t m); [apply Hwf; exact Ht | exact Hmt]. }
            assert (depths subs <= d)%nat as Hds.
            { apply depths_le. intros s Hs0. apply in_map_iff in Hs0. destruct Hs0 as [m [<- Hm]].
              apply filter_In in Hm. destruct Hm as [Hm _]. apply Hg in Hm. apply group_in in Hm.
              destruct Hm as [t [Ht [Hmt _]]]. pose proof (depth_in _ _ Hmt). pose proof (depths_in _ _ Ht).
              pose proof (depth_sub m). lia. }
            assert (forall z, In z (cands ts (x :: y :: q)) <-> In z (cands subs (y :: q))) as Hc.
            { intro z. rewrite in_cands_cons by exact Hs. rewrite !in_cands. unfold subs.
              split; intros [s [Hs0 L]]; exists s; (split; [|exact L]);
                apply in_map_iff in Hs0; destruct Hs0 as [m [<- Hm]]; apply in_map; apply filter_In;
                apply filter_In in Hm; destruct Hm as [Hm D]; (split; [apply Hg; exact Hm | exact D]). }
            specialize (IH subs Hwfs Hds (y :: q) ltac:(discriminate)). unfold spec_at in IH.
            rewrite Hsub. destruct (lookup (merge_trees_loop cmp hpush hpop d subs) (y :: q)) as [n'|] eqn:L.
            ++ destruct IH as [w' [Hw' [Hmx Hn']]]. exists w'. split; [apply Hc; exact Hw'|].
               split; [intros z Hz; apply Hmx; apply Hc; exact Hz | exact Hn'].
            ++ destruct IH as [E|[q' [s' [n0 [Hq [Hq' [Hs' [L0 D0]]]]]]]].
               ** left. destruct (cands ts (x :: y :: q)) as [|z l] eqn:Ez; [reflexivity|].
                  assert (In z (cands subs (y :: q))) as Hz by (apply Hc; left; reflexivity).
                  rewrite E in Hz. destruct Hz.
               ** right. exists (x :: q'), s', n0. split; [cbn [app]; rewrite <- Hq; reflexivity|].
                  split; [discriminate|]. split; [exact Hs'|]. split; [|exact D0].
                  destruct q' as [|a q']; [congruence|]. rewrite lookup_cons. fold r. rewrite Hfind.
                  rewrite Dn. rewrite Hsub. exact L0.
          -- right. exists [x], (y :: q), n. split; [reflexivity|]. split; [discriminate|]. split; [discriminate|].
             split; [|exact Dn]. rewrite lookup_one. fold r. rewrite Hfind. reflexivity.
      + assert (group x ts = []) as Eg.
        { unfold merge_nodes in En. destruct (max_by cmp g) eqn:Emax; [discriminate|].
          apply max_by_none in Emax. subst g. destruct (group x ts) as [|z l] eqn:Ez; [reflexivity|].
          exfalso. apply (proj2 (Hg z)). left. reflexivity. }
        unfold spec_at. destruct q as [|y q].
        * rewrite lookup_one, Hfind. left. rewrite cands_one by exact Hs. exact Eg.
        * rewrite lookup_cons, Hfind. left. destruct (cands ts (x :: y :: q)) as [|z l] eqn:Ez; [reflexivity|].
          assert (In z (cands ts (x :: y :: q))) as Hz by (rewrite Ez; left; reflexivity).
          rewrite in_cands_cons in Hz by exact Hs. rewrite Eg in Hz. cbn in Hz. destruct Hz.
  Qed.

  Lemma loop_paths_top : forall ts, Forall (fun t => wf_tree t = true) ts ->
    forall p, p <> [] -> spec_at cmp ts (merge_loop_gen cmp hpush hpop ts) p.
  Proof. intros ts Hwf p Hp. apply loop_paths_lemma; [exact Hwf | unfold depths; lia | exact Hp]. Qed.
End LoopProofs.

(* the priority-queue specification as one proposition *)
Definition pq_spec (hpush : list hnode -> hnode -> list hnode) (hpop : list hnode -> option (hnode * list hnode)) : Prop :=
  (forall h x, Permutation (hpush h x) (x :: h)) /\
  (forall h, hpop h = None -> h = []) /\
  (forall h x h', hpop h = Some (x, h') ->
     Permutation h (x :: h') /\ forall y, In y h' -> n_name (fst x) <= n_name (fst y)).

(* a simple priority queue meeting the specification: push = cons, pop = first element of least name *)
Fixpoint pop_min (h : list hnode) : option (hnode * list hnode) :=
  match h with
  | [] => None
  | x :: r =>
      match pop_min r with
      | None => Some (x, [])
      | Some (y, r') => if n_name (fst y) <? n_name (fst x) then Some (y, x :: r') else Some (x, r)
      end
  end.

Lemma pop_min_spec : forall h x h', pop_min h = Some (x, h') ->
  Permutation h (x :: h') /\ forall y, In y h' -> n_name (fst x) <= n_name (fst y).
Proof.
  induction h as [|a r IH]; intros x h' H; [discriminate|]. cbn [pop_min] in H.
  destruct (pop_min r) as [[y r']|] eqn:E.
  - destruct (IH y r' eq_refl) as [P M]. destruct (n_name (fst y) <? n_name (fst a)) eqn:L; inv H.
    + split.
      * eapply Permutation_trans; [apply perm_skip; exact P|]. apply perm_swap.
      * intros z [<-|Hz]; [lia | apply M; exact Hz].
    + split; [apply Permutation_refl|]. intros z Hz. apply (Permutation_in _ P) in Hz.
      destruct Hz as [<-|Hz]; [lia | specialize (M z Hz); lia].
  - inv H. destruct r; [|cbn [pop_min] in E; destruct (pop_min r); [destruct p; destruct (_ <? _)|]; discriminate].
    split; [apply Permutation_refl | intros z []].
Qed.

Lemma pq_spec_satisfiable : pq_spec (fun h x => x :: h) pop_min.
Proof.
  split; [intros; apply Permutation_refl|]. split; [|exact pop_min_spec].
  intros h H. destruct h as [|a r]; [reflexivity|]. cbn [pop_min] in H.
  destruct (pop_min r) as [[y r']|]; [destruct (_ <? _)|]; discriminate.
Qed.

(* the specification relative to a representation invariant *)
Definition pq_spec_inv (Inv : list hnode -> Prop) (hpush : list hnode -> hnode -> list hnode)
           (hpop : list hnode -> option (hnode * list hnode)) : Prop :=
  Inv [] /\
  (forall h x, Inv h -> Inv (hpush h x) /\ Permutation (hpush h x) (x :: h)) /\
  (forall h, hpop h = None -> h = []) /\
  (forall h x h', Inv h -> hpop h = Some (x, h') ->
     Inv h' /\ Permutation h (x :: h') /\ forall y, In y h' -> n_name (fst x) <= n_name (fst y)).

Lemma pq_spec_is_inv hpush hpop : pq_spec hpush hpop -> pq_spec_inv (fun _ => True) hpush hpop.
Proof.
  intros [H1 [H2 H3]]. split; [exact I|]. split; [intros; split; [exact I | apply H1]|]. split; [exact H2|].
  intros h x h' _ E. split; [exact I | apply H3; exact E].
Qed.

Lemma merge_loop_sorted_inv : forall cmp Inv hpush hpop, pq_spec_inv Inv hpush hpop ->
  forall ts, Forall (fun t => wf_tree t = true) ts -> sorted (merge_loop_gen cmp hpush hpop ts).
Proof. intros cmp Inv hpush hpop [H0 [H1 [H2 H3]]]. apply (merge_loop_sorted_gen cmp hpush hpop Inv); assumption. Qed.

Lemma merge_loop_paths_inv : forall cmp Inv hpush hpop, pq_spec_inv Inv hpush hpop -> preorder cmp ->
  forall ts, Forall (fun t => wf_tree t = true) ts ->
  forall p, p <> [] -> spec_at cmp ts (merge_loop_gen cmp hpush hpop ts) p.
Proof. intros cmp Inv hpush hpop [H0 [H1 [H2 H3]]] Hp. apply (loop_paths_top cmp hpush hpop Inv); assumption. Qed.

Lemma merge_loop_sorted_top : forall cmp hpush hpop, pq_spec hpush hpop ->
  forall ts, Forall (fun t => wf_tree t = true) ts -> sorted (merge_loop_gen cmp hpush hpop ts).
Proof. intros cmp hpush hpop H. apply (merge_loop_sorted_inv cmp _ _ _ (pq_spec_is_inv _ _ H)). Qed.

Lemma merge_loop_paths_top : forall cmp hpush hpop, pq_spec hpush hpop -> preorder cmp ->
  forall ts, Forall (fun t => wf_tree t = true) ts ->
  forall p, p <> [] -> spec_at cmp ts (merge_loop_gen cmp hpush hpop ts) p.
Proof. intros cmp hpush hpop H. apply (merge_loop_paths_inv cmp _ _ _ (pq_spec_is_inv _ _ H)). Qed.
