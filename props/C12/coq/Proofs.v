(* C12 — proofs about merge_trees / merge_nodes (blob/tree.rs). *)
From Verif.Base Require Import Tactics.
From Verif.C12 Require Import Model.
Local Open Scope N_scope.

Definition namep (x : N) (n : node) : bool := n_name n =? x.
Definition group (x : N) (ts : list tree) : list node := flat_map (filter (namep x)) ts.
Definition sorted (t : tree) : Prop := sorted_names (map n_name t) = true.
Definition opt_list {A} (o : option A) : list A := match o with Some a => [a] | None => [] end.
(* the nodes found at path p in the inputs (descending through directories only) *)
Definition cands (ts : list tree) (p : list N) : list node := flat_map (fun t => opt_list (lookup t p)) ts.

(* cmp is a total preorder: what `max_by` needs to return a greatest element *)
Definition preorder (cmp : node -> node -> comparison) : Prop :=
  (forall a, cmp a a <> Gt) /\
  (forall a b, cmp a b = Gt -> cmp b a <> Gt) /\
  (forall a b c, cmp a b <> Gt -> cmp b c <> Gt -> cmp a c <> Gt).

(* ------------------------------------------------------------------ sorted lists *)

Lemma sorted_names_inv a r :
  sorted_names (a :: r) = true -> sorted_names r = true /\ (forall b, In b r -> a < b).
Proof.
  revert a. induction r as [|b r IH]; intros a H.
  - split; [reflexivity | intros b []].
  - change (((a <? b) && sorted_names (b :: r))%bool = true) in H.
    apply andb_true_iff in H. destruct H as [Hab Hs].
    split; [exact Hs|]. destruct (IH b Hs) as [_ Hf].
    intros c [<-|Hc]; [lia|]. specialize (Hf c Hc). lia.
Qed.

Lemma sorted_inv n r : sorted (n :: r) -> sorted r /\ (forall x, In x r -> n_name n < n_name x).
Proof.
  unfold sorted. cbn [map]. intro H. apply sorted_names_inv in H. destruct H as [Hs Hf].
  split; [exact Hs|]. intros x Hx. apply Hf. apply in_map. exact Hx.
Qed.

Lemma sorted_nil : sorted []. Proof. reflexivity. Qed.

Lemma filter_none {A} (f : A -> bool) l : (forall x, In x l -> f x = false) -> filter f l = [].
Proof.
  induction l as [|a l IH]; intro H; [reflexivity|]. cbn [filter].
  rewrite (H a (or_introl eq_refl)). apply IH. intros x Hx. apply H. right. exact Hx.
Qed.

Lemma find_filter_sorted x t : sorted t -> opt_list (find (namep x) t) = filter (namep x) t.
Proof.
  induction t as [|n r IH]; intro Hs; [reflexivity|].
  destruct (sorted_inv _ _ Hs) as [Hr Hlt]. cbn [find filter].
  destruct (namep x n) eqn:E.
  - cbn [opt_list]. rewrite filter_none; [reflexivity|].
    intros y Hy. specialize (Hlt y Hy). unfold namep in *. lia.
  - apply IH. exact Hr.
Qed.

Lemma sorted_find_in t n : sorted t -> In n t -> find (namep (n_name n)) t = Some n.
Proof.
  induction t as [|a r IH]; intros Hs Hin; [destruct Hin|].
  destruct (sorted_inv _ _ Hs) as [Hr Hlt]. cbn [find].
  destruct Hin as [->|Hin].
  - unfold namep. rewrite N.eqb_refl. reflexivity.
  - specialize (Hlt n Hin). unfold namep at 1. destruct (n_name a =? n_name n) eqn:E; [lia|].
    apply IH; assumption.
Qed.

Lemma find_some_in {A} (f : A -> bool) l a : find f l = Some a -> In a l /\ f a = true.
Proof. apply find_some. Qed.

  Lemma group_in x ts n : In n (group x ts) <-> exists t, In t ts /\ In n t /\ n_name n = x.
  Proof.
    unfold group. rewrite in_flat_map. split.
    - intros [t [Ht Hn]]. apply filter_In in Hn. destruct Hn as [Hn E]. exists t. unfold namep in E. repeat split; [assumption..|lia].
    - intros [t [Ht [Hn E]]]. exists t. split; [exact Ht|]. apply filter_In. split; [exact Hn|]. unfold namep. lia.
  Qed.

  Lemma set_sub_name w s : n_name (set_sub w s) = n_name w. Proof. destruct w; reflexivity. Qed.
  Lemma set_sub_is_dir w s : is_dir (set_sub w s) = is_dir w. Proof. destruct w; reflexivity. Qed.
  Lemma set_sub_sub w s : n_sub (set_sub w s) = s. Proof. destruct w; reflexivity. Qed.
  Lemma set_sub_id w : set_sub w (n_sub w) = w. Proof. destruct w; reflexivity. Qed.

(* ------------------------------------------------------------------ max_by *)

Section WithCmp.
  Variable cmp : node -> node -> comparison.
  Variable sched : list node -> list node.
  Hypothesis Hsched : forall l, Permutation (sched l) l.

  Lemma fold_max_in r : forall x, In (fold_left (max_step cmp) r x) (x :: r).
  Proof.
    induction r as [|y r IH]; intro x; [left; reflexivity|].
    cbn [fold_left]. specialize (IH (max_step cmp x y)).
    assert (max_step cmp x y = x \/ max_step cmp x y = y) as Hz
      by (unfold max_step; destruct (cmp x y); auto).
    destruct IH as [H|H].
    - rewrite <- H. destruct Hz as [->| ->]; [left | right; left]; reflexivity.
    - right. right. exact H.
  Qed.

  Lemma max_by_in g w : max_by cmp g = Some w -> In w g.
  Proof. destruct g as [|x r]; [discriminate|]. intro H. inv H. apply fold_max_in. Qed.

  Lemma fold_max_max (Hp : preorder cmp) r :
    forall x, cmp x (fold_left (max_step cmp) r x) <> Gt /\
              forall y, In y r -> cmp y (fold_left (max_step cmp) r x) <> Gt.
  Proof.
    destruct Hp as [Hrefl [Hasym Htrans]].
    induction r as [|z r IH]; intro x.
    - cbn [fold_left]. split; [apply Hrefl | intros y []].
    - cbn [fold_left]. destruct (IH (max_step cmp x z)) as [H1 H2].
      unfold max_step in H1 at 1. unfold max_step at 1 3.
      destruct (cmp x z) eqn:E.
      + split; [eapply Htrans; [|exact H1]; congruence|].
        intros y [<-|Hy]; [exact H1 | apply H2; exact Hy].
      + split; [eapply Htrans; [|exact H1]; congruence|].
        intros y [<-|Hy]; [exact H1 | apply H2; exact Hy].
      + split; [exact H1|].
        intros y [<-|Hy]; [eapply Htrans; [apply Hasym; exact E | exact H1] | apply H2; exact Hy].
  Qed.

  Lemma max_by_max (Hp : preorder cmp) g w : max_by cmp g = Some w -> forall y, In y g -> cmp y w <> Gt.
  Proof.
    destruct g as [|x r]; [discriminate|]. intro H. inv H. intros y Hy.
    destruct (fold_max_max Hp r x) as [H1 H2]. destruct Hy as [<-|Hy]; [exact H1 | apply H2; exact Hy].
  Qed.

  Lemma max_by_none g : max_by cmp g = None -> g = [].
  Proof. destruct g; [reflexivity | discriminate]. Qed.

  Lemma sched_nil : sched [] = [].
  Proof. apply Permutation_nil. apply Permutation_sym. apply Hsched. Qed.

  Lemma sched_in l x : In x (sched l) <-> In x l.
  Proof. split; apply Permutation_in; [apply Hsched | apply Permutation_sym, Hsched]. Qed.

  (* ---------------------------------------------------------------- one level *)

  Lemma min_name_some ts m : min_name ts = Some m ->
    (exists t n r, In t ts /\ t = n :: r /\ n_name n = m) /\
    (forall t n r, In t ts -> t = n :: r -> m <= n_name n).
  Proof.
    revert m. induction ts as [|t ts IH]; intros m H; [discriminate|].
    cbn [min_name] in H. destruct t as [|n r]; cbn [head_name] in H.
    - destruct (IH m H) as [[t' [n' [r' [Hin [Ht Hn]]]]] Hlb]. split.
      + exists t', n', r'. split; [right; exact Hin | split; assumption].
      + intros t0 n0 r0 [<-|Hin0] Ht0; [discriminate | eapply Hlb; eassumption].
    - destruct (min_name ts) as [b|] eqn:Eb.
      + inv H. destruct (IH b eq_refl) as [[t' [n' [r' [Hin [Ht Hn]]]]] Hlb]. split.
        * destruct (N.leb_spec (n_name n) b).
          -- exists (n :: r), n, r. split; [left; reflexivity | split; [reflexivity | lia]].
          -- exists t', n', r'. split; [right; exact Hin | split; [exact Ht | lia]].
        * intros t0 n0 r0 [<-|Hin0] Ht0.
          -- inv Ht0. lia.
          -- specialize (Hlb t0 n0 r0 Hin0 Ht0). lia.
      + inv H. split.
        * exists (n :: r), n, r. split; [left; reflexivity | split; reflexivity].
        * intros t0 n0 r0 [<-|Hin0] Ht0; [inv Ht0; lia|].
          clear IH. exfalso. revert Eb Hin0 Ht0. clear. revert t0.
          induction ts as [|t ts IH]; intros t0 Eb Hin Ht; [destruct Hin|].
          cbn [min_name] in Eb. destruct t as [|a q]; cbn [head_name] in Eb.
          ++ destruct Hin as [<-|Hin]; [discriminate | eapply IH; eassumption].
          ++ destruct (min_name ts); discriminate.
  Qed.

  Lemma min_name_none ts : min_name ts = None -> forall t, In t ts -> t = [].
  Proof.
    induction ts as [|t ts IH]; intros H t0 Hin; [destruct Hin|].
    cbn [min_name] in H. destruct t as [|a q]; cbn [head_name] in H.
    - destruct Hin as [<-|Hin]; [reflexivity | apply IH; assumption].
    - destruct (min_name ts); discriminate.
  Qed.

  Lemma group_all_nil x ts : (forall t, In t ts -> t = []) -> group x ts = [].
  Proof.
    induction ts as [|t ts IH]; intro H; [reflexivity|]. unfold group. cbn [flat_map].
    rewrite (H t (or_introl eq_refl)). cbn [filter app]. apply IH. intros; apply H; right; assumption.
  Qed.

  Lemma total_len_zero ts : total_len ts = O -> forall t, In t ts -> t = [].
  Proof.
    induction ts as [|t ts IH]; intros H t0 Hin; [destruct Hin|]. cbn [total_len fold_right] in H.
    destruct Hin as [<-|Hin].
    - destruct t; [reflexivity | cbn [length] in H; lia].
    - apply IH; [|exact Hin]. unfold total_len. lia.
  Qed.

  Lemma take_head_filter m t : sorted t -> (forall n r, t = n :: r -> m <= n_name n) ->
    take_head m t = filter (namep m) t.
  Proof.
    intros Hs Hlb. destruct t as [|n r]; [reflexivity|].
    destruct (sorted_inv _ _ Hs) as [_ Hlt]. specialize (Hlb n r eq_refl).
    cbn [take_head filter]. unfold namep at 1.
    rewrite (filter_none (namep m) r).
    - destruct (n_name n =? m); reflexivity.
    - intros y Hy. specialize (Hlt y Hy). unfold namep. lia.
  Qed.

  Lemma heads_eq_group m ts : Forall sorted ts -> min_name ts = Some m -> heads m ts = group m ts.
  Proof.
    intros Hs Hm. unfold heads, group. apply flat_map_ext_In. intros t Ht.
    rewrite Forall_forall in Hs. apply take_head_filter; [apply Hs; exact Ht|].
    intros n r E. destruct (min_name_some _ _ Hm) as [_ Hlb]. eapply Hlb; eassumption.
  Qed.

  Lemma heads_nonempty m ts : min_name ts = Some m -> heads m ts <> [].
  Proof.
    intro Hm. destruct (min_name_some _ _ Hm) as [[t [n [r [Hin [Ht Hn]]]]] _].
    intro E. assert (In n (heads m ts)) as Hc.
    { unfold heads. apply in_flat_map. exists t. split; [exact Hin|]. subst t. cbn [take_head].
      rewrite Hn, N.eqb_refl. left; reflexivity. }
    rewrite E in Hc. destruct Hc.
  Qed.

  Lemma drop_head_filter x m t : x <> m -> filter (namep x) (drop_head m t) = filter (namep x) t.
  Proof.
    intro Hne. destruct t as [|n r]; [reflexivity|]. cbn [drop_head].
    destruct (n_name n =? m) eqn:E; [|reflexivity]. cbn [filter]. unfold namep at 2.
    destruct (n_name n =? x) eqn:E2; [lia | reflexivity].
  Qed.

  Lemma drops_group_other x m ts : x <> m -> group x (drops m ts) = group x ts.
  Proof.
    intro Hne. unfold group, drops. induction ts as [|t ts IH]; [reflexivity|].
    cbn [map flat_map]. rewrite IH, drop_head_filter by exact Hne. reflexivity.
  Qed.

  Lemma drop_head_sorted m t : sorted t -> sorted (drop_head m t).
  Proof.
    intro Hs. destruct t as [|n r]; [exact Hs|]. cbn [drop_head].
    destruct (n_name n =? m); [apply (sorted_inv _ _ Hs) | exact Hs].
  Qed.

  Lemma drops_sorted m ts : Forall sorted ts -> Forall sorted (drops m ts).
  Proof.
    intro H. unfold drops. rewrite Forall_forall in *. intros t Ht.
    apply in_map_iff in Ht. destruct Ht as [t0 [<- Ht0]]. apply drop_head_sorted. apply H. exact Ht0.
  Qed.

  Lemma drop_head_len m t : (length (drop_head m t) <= length t)%nat.
  Proof. destruct t as [|n r]; [cbn; lia|]. cbn [drop_head]. destruct (n_name n =? m); cbn [length]; lia. Qed.

  Lemma total_len_drops_le m ts : (total_len (drops m ts) <= total_len ts)%nat.
  Proof.
    induction ts as [|t ts IH]; [cbn; lia|]. cbn [drops map total_len fold_right].
    pose proof (drop_head_len m t). unfold total_len, drops in IH. lia.
  Qed.

  Lemma total_len_drops_lt m ts t n r : In t ts -> t = n :: r -> n_name n = m ->
    (total_len (drops m ts) < total_len ts)%nat.
  Proof.
    induction ts as [|t0 ts IH]; intros Hin Ht Hn; [destruct Hin|].
    cbn [drops map total_len fold_right]. destruct Hin as [->|Hin].
    - subst t. cbn [drop_head]. rewrite Hn, N.eqb_refl. cbn [length].
      pose proof (total_len_drops_le m ts). unfold total_len, drops in H. lia.
    - specialize (IH Hin Ht Hn). pose proof (drop_head_len m t0). unfold total_len, drops in IH. lia.
  Qed.

  Lemma drops_names_gt m ts : Forall sorted ts -> (forall t n r, In t ts -> t = n :: r -> m <= n_name n) ->
    forall t x, In t (drops m ts) -> In x t -> m < n_name x.
  Proof.
    intros Hs Hlb t x Ht Hx. unfold drops in Ht. apply in_map_iff in Ht. destruct Ht as [t0 [<- Ht0]].
    rewrite Forall_forall in Hs. specialize (Hs t0 Ht0). destruct t0 as [|n r]; [destruct Hx|].
    specialize (Hlb _ n r Ht0 eq_refl). destruct (sorted_inv _ _ Hs) as [_ Hlt]. cbn [drop_head] in Hx.
    destruct (n_name n =? m) eqn:E.
    - specialize (Hlt x Hx). lia.
    - destruct Hx as [<-|Hx]; [lia | specialize (Hlt x Hx); lia].
  Qed.

  Lemma drops_names_sub m ts t x : In t (drops m ts) -> In x t -> exists t0, In t0 ts /\ In x t0.
  Proof.
    intros Ht Hx. unfold drops in Ht. apply in_map_iff in Ht. destruct Ht as [t0 [<- Ht0]].
    exists t0. split; [exact Ht0|]. destruct t0 as [|n r]; [destruct Hx|]. cbn [drop_head] in Hx.
    destruct (n_name n =? m); [right; exact Hx | exact Hx].
  Qed.

  Lemma merge_nodes_some rec g n' : merge_nodes cmp rec g = Some n' ->
    exists w, max_by cmp g = Some w /\ In w g /\ n_name n' = n_name w /\ is_dir n' = is_dir w /\
              n' = (if is_dir w then set_sub w (rec (map n_sub (filter is_dir g))) else w).
  Proof.
    unfold merge_nodes. destruct (max_by cmp g) as [w|] eqn:E; [|discriminate]. intro H. inv H.
    exists w. split; [reflexivity|]. split; [eapply max_by_in; exact E|].
    destruct (is_dir w) eqn:D; rewrite ?set_sub_name, ?set_sub_is_dir; auto.
  Qed.

  Lemma merge_level_names rec : forall f ts n', In n' (merge_level cmp sched f rec ts) ->
    exists t n0, In t ts /\ In n0 t /\ n_name n0 = n_name n'.
  Proof.
    induction f as [|f IH]; intros ts n' H; [destruct H|]. cbn [merge_level] in H.
    destruct (min_name ts) as [m|] eqn:Em; [|destruct H].
    assert (forall n', In n' (merge_level cmp sched f rec (drops m ts)) -> exists t n0, In t ts /\ In n0 t /\ n_name n0 = n_name n') as Hrest.
    { intros n1 H1. destruct (IH _ _ H1) as [t [n0 [Ht [Hn0 E]]]].
      destruct (drops_names_sub _ _ _ _ Ht Hn0) as [t0 [Ht0 Hx]]. exists t0, n0. auto. }
    destruct (merge_nodes cmp rec (sched (heads m ts))) as [n|] eqn:En; [|apply Hrest; exact H].
    destruct H as [<-|H]; [|apply Hrest; exact H].
    destruct (merge_nodes_some _ _ _ En) as [w [_ [Hw [Hname _]]]].
    apply (proj1 (sched_in _ _)) in Hw. unfold heads in Hw. apply in_flat_map in Hw. destruct Hw as [t [Ht Hw]].
    exists t, w. split; [exact Ht|]. split; [|symmetry; exact Hname].
    destruct t as [|a r]; [destruct Hw|]. cbn [take_head] in Hw. destruct (n_name a =? m); [|destruct Hw].
    destruct Hw as [<-|[]]. left; reflexivity.
  Qed.

  Lemma merge_nodes_heads_name rec m ts n : merge_nodes cmp rec (sched (heads m ts)) = Some n -> n_name n = m.
  Proof.
    intro En. destruct (merge_nodes_some _ _ _ En) as [w [_ [Hw [Hname _]]]].
    apply (proj1 (sched_in _ _)) in Hw. unfold heads in Hw. apply in_flat_map in Hw. destruct Hw as [t [Ht Hw]].
    destruct t as [|a r]; [destruct Hw|]. cbn [take_head] in Hw. destruct (n_name a =? m) eqn:E; [|destruct Hw].
    destruct Hw as [<-|[]]. lia.
  Qed.

  Lemma merge_level_find rec : forall f ts x, Forall sorted ts -> (total_len ts <= f)%nat ->
    find (namep x) (merge_level cmp sched f rec ts) = merge_nodes cmp rec (sched (group x ts)).
  Proof.
    induction f as [|f IH]; intros ts x Hs Hf.
    - cbn [merge_level find]. rewrite group_all_nil, sched_nil; [reflexivity|].
      apply total_len_zero. lia.
    - cbn [merge_level]. destruct (min_name ts) as [m|] eqn:Em.
      + destruct (min_name_some _ _ Em) as [[t [n [r [Hin [Ht Hn]]]]] Hlb].
        assert (total_len (drops m ts) <= f)%nat as Hf'.
        { pose proof (total_len_drops_lt m ts t n r Hin Ht Hn). lia. }
        pose proof (IH (drops m ts) x (drops_sorted m ts Hs) Hf') as IHx.
        destruct (merge_nodes cmp rec (sched (heads m ts))) as [n1|] eqn:En.
        * pose proof (merge_nodes_heads_name _ _ _ _ En) as Hn1. cbn [find]. unfold namep at 1. rewrite Hn1.
          destruct (m =? x) eqn:E.
          -- assert (m = x) by lia. subst x. rewrite <- heads_eq_group by assumption. symmetry; exact En.
          -- rewrite IHx. rewrite drops_group_other by lia. reflexivity.
        * exfalso. unfold merge_nodes in En. destruct (max_by cmp (sched (heads m ts))) eqn:Emax; [discriminate|].
          apply max_by_none in Emax. apply (heads_nonempty m ts Em).
          apply Permutation_nil. rewrite <- Emax. apply Hsched.
      + cbn [find]. rewrite group_all_nil, sched_nil; [reflexivity|]. apply min_name_none. exact Em.
  Qed.

  Lemma merge_level_sorted rec : forall f ts, Forall sorted ts -> (total_len ts <= f)%nat ->
    sorted (merge_level cmp sched f rec ts).
  Proof.
    induction f as [|f IH]; intros ts Hs Hf; [apply sorted_nil|]. cbn [merge_level].
    destruct (min_name ts) as [m|] eqn:Em; [|apply sorted_nil].
    destruct (min_name_some _ _ Em) as [[t [n [r [Hin [Ht Hn]]]]] Hlb].
    assert (total_len (drops m ts) <= f)%nat as Hf'.
    { pose proof (total_len_drops_lt m ts t n r Hin Ht Hn). lia. }
    pose proof (IH (drops m ts) (drops_sorted m ts Hs) Hf') as IHs.
    destruct (merge_nodes cmp rec (sched (heads m ts))) as [n1|] eqn:En; [|exact IHs].
    pose proof (merge_nodes_heads_name _ _ _ _ En) as Hn1.
    unfold sorted in *. cbn [map].
    remember (merge_level cmp sched f rec (drops m ts)) as rest eqn:Er.
    destruct rest as [|b rest]; [reflexivity|].
    change (((n_name n1 <? n_name b) && sorted_names (map n_name (b :: rest)))%bool = true).
    rewrite IHs, andb_true_r.
    assert (In b (merge_level cmp sched f rec (drops m ts))) as Hb by (rewrite <- Er; left; reflexivity).
    destruct (merge_level_names _ _ _ _ Hb) as [t0 [n0 [Ht0 [Hn0 E0]]]].
    pose proof (drops_names_gt m ts Hs Hlb t0 n0 Ht0 Hn0). lia.
  Qed.
End WithCmp.

(* ------------------------------------------------------------------ paths *)

Lemma in_cands ts p w : In w (cands ts p) <-> exists t, In t ts /\ lookup t p = Some w.
Proof.
  unfold cands. rewrite in_flat_map. split.
  - intros [t [Ht Hw]]. exists t. split; [exact Ht|]. destruct (lookup t p); cbn in Hw; [destruct Hw as [<-|[]]; reflexivity | destruct Hw].
  - intros [t [Ht Hw]]. exists t. split; [exact Ht|]. rewrite Hw. left; reflexivity.
Qed.

Lemma cands_nil_iff ts p : cands ts p = [] <-> forall t, In t ts -> lookup t p = None.
Proof.
  split.
  - intros E t Ht. destruct (lookup t p) eqn:L; [|reflexivity].
    assert (In n (cands ts p)) by (apply in_cands; eauto). rewrite E in H. destruct H.
  - intro H. destruct (cands ts p) as [|w l] eqn:E; [reflexivity|].
    assert (In w (cands ts p)) by (rewrite E; left; reflexivity).
    apply in_cands in H0. destruct H0 as [t [Ht L]]. rewrite (H t Ht) in L. discriminate.
Qed.

Lemma lookup_one t x : lookup t [x] = find (namep x) t.
Proof. cbn [lookup]. unfold namep. destruct (find (fun n => n_name n =? x) t); reflexivity. Qed.

Lemma lookup_cons t x y q : lookup t (x :: y :: q) =
  match find (namep x) t with
  | Some n => if is_dir n then lookup (n_sub n) (y :: q) else None
  | None => None
  end.
Proof. reflexivity. Qed.

(* proper prefixes of a found path are directories *)
Lemma lookup_prefix : forall q t s n, q <> [] -> s <> [] -> lookup t (q ++ s) = Some n ->
  exists m, lookup t q = Some m /\ is_dir m = true.
Proof.
  induction q as [|x q IH]; intros t s n Hq Hs H; [congruence|].
  destruct q as [|y q].
  - destruct s as [|z s]; [congruence|]. cbn [app] in H. rewrite lookup_cons in H. rewrite lookup_one.
    destruct (find (namep x) t) as [m|]; [|discriminate]. exists m. split; [reflexivity|].
    destruct (is_dir m); [reflexivity | discriminate].
  - change ((x :: y :: q) ++ s) with (x :: y :: (q ++ s)) in H. rewrite lookup_cons in *.
    destruct (find (namep x) t) as [m|]; [|discriminate].
    destruct (is_dir m); [|discriminate].
    apply (IH (n_sub m) s n); [discriminate | exact Hs | exact H].
Qed.

Lemma depth_in t n : In n t -> (depth_node n <= depth t)%nat.
Proof.
  induction t as [|a r IH]; intro H; [destruct H|]. cbn [depth fold_right].
  destruct H as [->|H]; [lia|]. specialize (IH H). unfold depth in IH. lia.
Qed.
Lemma depths_in ts t : In t ts -> (depth t <= depths ts)%nat.
Proof.
  induction ts as [|a r IH]; intro H; [destruct H|]. cbn [depths fold_right].
  destruct H as [->|H]; [lia|]. specialize (IH H). unfold depths in IH. lia.
Qed.
Lemma depth_sub n : (S (depth (n_sub n)) = depth_node n)%nat.
Proof. destruct n. reflexivity. Qed.
Lemma depths_zero ts : depths ts = O -> forall t, In t ts -> t = [].
Proof.
  intros H t Ht. pose proof (depths_in _ _ Ht). destruct t as [|n r]; [reflexivity|].
  pose proof (depth_in (n :: r) n (or_introl eq_refl)). pose proof (depth_sub n). lia.
Qed.
Lemma depths_le ts d : (forall t, In t ts -> (depth t <= d)%nat) -> (depths ts <= d)%nat.
Proof.
  induction ts as [|a r IH]; intro H; [cbn; lia|]. cbn [depths fold_right].
  pose proof (H a (or_introl eq_refl)). assert (depths r <= d)%nat by (apply IH; intros; apply H; right; assumption).
  unfold depths in *. lia.
Qed.

Definition wft (t : tree) : Prop := wf_tree t = true.
Lemma wft_sorted t : wft t -> sorted t.
Proof. unfold wft, wf_tree, sorted. intro H. apply andb_true_iff in H. apply H. Qed.
Lemma wft_sub t n : wft t -> In n t -> wft (n_sub n) /\ n_kind n <> KDirNoSub.
Proof.
  unfold wft, wf_tree. intros H Hn. apply andb_true_iff in H. destruct H as [_ H].
  rewrite forallb_forall in H. specialize (H n Hn). destruct n as [a k m tg c s]. cbn [wf_node] in H.
  repeat (apply andb_true_iff in H; destruct H as [H ?]). cbn [n_sub n_kind]. split.
  - apply andb_true_iff. split; assumption.
  - intro E. subst k. discriminate.
Qed.

(* what the result holds at path p, in terms of the inputs *)
Definition spec_at (cmp : node -> node -> comparison) (ts : list tree) (r : tree) (p : list N) : Prop :=
  match lookup r p with
  | Some n' =>
      exists w, In w (cands ts p) /\ (forall y, In y (cands ts p) -> cmp y w <> Gt) /\
                n' = (if is_dir w then set_sub w (n_sub n') else w)
  | None =>
      cands ts p = [] \/
      exists q s n, p = q ++ s /\ q <> [] /\ s <> [] /\ lookup r q = Some n /\ is_dir n = false
  end.

Lemma cands_one ts x : Forall sorted ts -> cands ts [x] = group x ts.
Proof.
  intro Hs. unfold cands, group. apply flat_map_ext_In. intros t Ht. rewrite lookup_one.
  apply find_filter_sorted. rewrite Forall_forall in Hs. apply Hs. exact Ht.
Qed.

Lemma in_cands_cons ts x y q w : Forall sorted ts ->
  In w (cands ts (x :: y :: q)) <-> In w (cands (map n_sub (filter is_dir (group x ts))) (y :: q)).
Proof.
  intro Hs. rewrite !in_cands. rewrite Forall_forall in Hs. split.
  - intros [t [Ht L]]. rewrite lookup_cons in L. destruct (find (namep x) t) as [m|] eqn:F; [|discriminate].
    destruct (is_dir m) eqn:D; [|discriminate]. exists (n_sub m). split; [|exact L].
    apply in_map. apply filter_In. split; [|exact D]. apply (proj2 (group_in _ _ _)).
    apply find_some in F. destruct F as [Hm E]. exists t. unfold namep in E. repeat split; [assumption..|lia].
  - intros [s [Hsub L]]. apply in_map_iff in Hsub. destruct Hsub as [m [<- Hm]].
    apply filter_In in Hm. destruct Hm as [Hm D]. apply group_in in Hm. destruct Hm as [t [Ht [Hmt E]]].
    exists t. split; [exact Ht|]. rewrite lookup_cons. subst x.
    rewrite (sorted_find_in t m (Hs t Ht) Hmt). rewrite D. exact L.
Qed.

Section Paths.
  Variable cmp : node -> node -> comparison.
  Variable sched : list node -> list node.
  Hypothesis Hsched : forall l, Permutation (sched l) l.
  Hypothesis Hpre : preorder cmp.

  Lemma merge_trees_sorted d ts : Forall sorted ts -> sorted (merge_trees cmp sched d ts).
  Proof.
    intro Hs. destruct d as [|d]; [apply sorted_nil|]. cbn [merge_trees].
    apply merge_level_sorted; [exact Hsched | exact Hs | lia].
  Qed.

  Lemma merge_paths_lemma : forall d ts, Forall wft ts -> (depths ts <= d)%nat ->
    forall p, p <> [] -> spec_at cmp ts (merge_trees cmp sched d ts) p.
  Proof.
    induction d as [|d IH]; intros ts Hwf Hd p Hp.
    - unfold spec_at. cbn [merge_trees]. destruct p as [|x q]; [congruence|]. cbn [lookup find].
      left. apply cands_nil_iff. intros t Ht. assert (t = []) as -> by (apply (depths_zero ts); [lia | exact Ht]).
      reflexivity.
    - assert (Forall sorted ts) as Hs.
      { rewrite Forall_forall in *. intros t Ht. apply wft_sorted. apply Hwf. exact Ht. }
      destruct p as [|x q]; [congruence|].
      set (r := merge_trees cmp sched (S d) ts).
      assert (find (namep x) r = merge_nodes cmp (merge_trees cmp sched d) (sched (group x ts))) as Hfind.
      { unfold r. cbn [merge_trees]. apply merge_level_find; [exact Hsched | exact Hs | lia]. }
      set (g := sched (group x ts)) in *.
      assert (forall y, In y g <-> In y (group x ts)) as Hg by (intro; apply sched_in; exact Hsched).
      destruct (merge_nodes cmp (merge_trees cmp sched d) g) as [n|] eqn:En.
      + destruct (merge_nodes_some _ _ _ _ En) as [w [Hmax [Hw [Hname [Hdir Heq]]]]].
        pose proof (max_by_max cmp Hpre g w Hmax) as Hmaxw.
        destruct q as [|y q].
        * (* the node itself *)
          unfold spec_at. rewrite lookup_one, Hfind. exists w. rewrite cands_one by exact Hs.
          split; [apply Hg; exact Hw|]. split; [intros y Hy; apply Hmaxw; apply Hg; exact Hy|].
          rewrite Heq. destruct (is_dir w); [rewrite set_sub_sub; reflexivity | reflexivity].
        * unfold spec_at. rewrite lookup_cons, Hfind.
          destruct (is_dir n) eqn:Dn.
          -- (* descend: the subtree is the merge of all directory subtrees of the group *)
            rewrite <- Hdir in Heq.
            set (subs := map n_sub (filter is_dir g)) in *.
            assert (n_sub n = merge_trees cmp sched d subs) as Hsub by (rewrite Heq; apply set_sub_sub).
            assert (Forall wft subs) as Hwfs.
            { rewrite Forall_forall in *. intros s Hs0. apply in_map_iff in Hs0. destruct Hs0 as [m [<- Hm]].
              apply filter_In in Hm. destruct Hm as [Hm _]. apply Hg in Hm. apply group_in in Hm.
              destruct Hm as [t [Ht [Hmt _]]]. apply (wft_sub t m); [apply Hwf; exact Ht | exact Hmt]. }
            assert (depths subs <= d)%nat as Hds.
            { apply depths_le. intros s Hs0. apply in_map_iff in Hs0. destruct Hs0 as [m [<- Hm]].
              apply filter_In in Hm. destruct Hm as [Hm _]. apply Hg in Hm. apply group_in in Hm.
              destruct Hm as [t [Ht [Hmt _]]]. pose proof (depth_in _ _ Hmt). pose proof (depths_in _ _ Ht).
              pose proof (depth_sub m). lia. }
            assert (forall z, In z (cands ts (x :: y :: q)) <-> In z (cands subs (y :: q))) as Hc.
            { intro z. rewrite in_cands_cons by exact Hs. rewrite !in_cands. unfold subs.
              split; intros [s [Hs0 L]]; exists s; (split; [|exact L]);
                apply in_map_iff in Hs0; destruct Hs0 as [m [<- Hm]]; apply in_map; apply filter_In;
                apply filter_In in Hm; destruct Hm as [Hm D]; (split; [apply Hg; exact Hm | exact D]). }
            specialize (IH subs Hwfs Hds (y :: q) ltac:(discriminate)). unfold spec_at in IH.
            rewrite Hsub. destruct (lookup (merge_trees cmp sched d subs) (y :: q)) as [n'|] eqn:L.
            ++ destruct IH as [w' [Hw' [Hmx Hn']]]. exists w'. split; [apply Hc; exact Hw'|].
               split; [intros z Hz; apply Hmx; apply Hc; exact Hz | exact Hn'].
            ++ destruct IH as [E|[q' [s' [n0 [Hq [Hq' [Hs' [L0 D0]]]]]]]].
               ** left. destruct (cands ts (x :: y :: q)) as [|z l] eqn:Ez; [reflexivity|].
                  assert (In z (cands subs (y :: q))) as Hz by (apply Hc; left; reflexivity).
                  rewrite E in Hz. destruct Hz.
               ** right. exists (x :: q'), s', n0. split; [cbn [app]; rewrite <- Hq; reflexivity|].
                  split; [discriminate|]. split; [exact Hs'|]. split; [|exact D0].
                  destruct q' as [|a q']; [congruence|]. rewrite lookup_cons. fold r. rewrite Hfind.
                  rewrite Dn. rewrite Hsub. exact L0.
          -- right. exists [x], (y :: q), n. split; [reflexivity|]. split; [discriminate|]. split; [discriminate|].
             split; [|exact Dn]. rewrite lookup_one. fold r. rewrite Hfind. reflexivity.
      + (* no input has the name *)
        assert (group x ts = []) as Eg.
        { unfold merge_nodes in En. destruct (max_by cmp g) eqn:Emax; [discriminate|].
          apply max_by_none in Emax. apply Permutation_nil. rewrite <- Emax. apply Hsched. }
        unfold spec_at. destruct q as [|y q].
        * rewrite lookup_one, Hfind. left. rewrite cands_one by exact Hs. exact Eg.
        * rewrite lookup_cons, Hfind. left. destruct (cands ts (x :: y :: q)) as [|z l] eqn:Ez; [reflexivity|].
          assert (In z (cands ts (x :: y :: q))) as Hz by (rewrite Ez; left; reflexivity).
          rewrite in_cands_cons in Hz by exact Hs. rewrite Eg in Hz. cbn in Hz. destruct Hz.
  Qed.
End Paths.

(* top-level forms used by Props.v *)
Lemma merge_paths_top : forall cmp sched,
  preorder cmp -> (forall l, Permutation (sched l) l) ->
  forall ts, Forall (fun t => wf_tree t = true) ts ->
  forall p, p <> [] -> spec_at cmp ts (merge cmp sched ts) p.
Proof.
  intros cmp sched Hp Hs ts Hwf p Hne.
  apply (merge_paths_lemma cmp sched Hs Hp (S (depths ts)) ts Hwf); [lia | exact Hne].
Qed.

Lemma merge_sorted_top : forall cmp sched, (forall l, Permutation (sched l) l) ->
  forall ts, Forall (fun t => wf_tree t = true) ts -> sorted (merge cmp sched ts).
Proof.
  intros cmp sched Hs ts Hwf. apply merge_trees_sorted; [exact Hs|].
  rewrite Forall_forall in *. intros t Ht. apply wft_sorted. apply Hwf. exact Ht.
Qed.
