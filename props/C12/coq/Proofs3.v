(* C12 — repair (RepairState visitor through TreeModifier) and copy (closure of the destination). *)
From Verif.Base Require Import Tactics.
From Verif.C12 Require Import Extracted Model Proofs Proofs2.
From Verif.C13 Require Extracted Model Proofs Proofs2 Props.
Local Open Scope N_scope.

(* ------------------------------------------------------------------ repair *)

Lemma forallb_filter_id {A} (f : A -> bool) l : forallb f (filter f l) = true.
Proof.
  induction l as [|x r IH]; [reflexivity|]. cbn [filter]. destruct (f x) eqn:E; [cbn [forallb]; rewrite E, IH; reflexivity | exact IH].
Qed.
Lemma filter_all {A} (f : A -> bool) l : forallb f l = true -> filter f l = l.
Proof.
  induction l as [|x r IH]; [reflexivity|]. cbn [forallb filter]. intro H. apply andb_true_iff in H. destruct H as [H1 H2].
  rewrite H1, IH by exact H2. reflexivity.
Qed.

Section RepairProofs.
  Variable has_data : N -> bool.
  Variable mark : N -> N.
  Variable resize : N -> list N -> N.
  Variable readable : tree -> bool.

  Let mn := modify_node (rp_visit has_data mark resize) readable.
  Let mt := modify_tree (rp_visit has_data mark resize) readable.

  (* nothing is missing below this node: every chunk of every file is indexed, every subtree is
     readable, every directory has a subtree *)
  Fixpoint intact_node (n : node) : bool :=
    match n with
    | Node a k m t c s =>
        match k with
        | KFile => forallb has_data c
        | KDir => readable s && forallb intact_node s
        | KDirNoSub => false
        | _ => true
        end
    end.
  Definition intact (t : tree) : bool := readable t && forallb intact_node t.

  Lemma fold_flag_false f l : (forall x, In x l -> snd (f x) = false) -> snd (fold_nodes f l) = false.
  Proof.
    induction l as [|x r IH]; intro H; [reflexivity|]. rewrite fold_nodes_cons. cbn [snd].
    rewrite (H x (or_introl eq_refl)), IH by (intros; apply H; right; assumption). reflexivity.
  Qed.

  Lemma mt_unchanged_of_flag path s : readable s = true -> snd (fold_nodes (mn path) s) = false -> mt path s = Unchanged.
  Proof.
    intros Hr Hf. unfold mt, modify_tree. fold (mn path). destruct (fold_nodes (mn path) s) as [nt ch]. cbn [snd] in Hf.
    apply finish_flag; assumption.
  Qed.

  Lemma intact_node_flag : forall d n, (depth_node n <= d)%nat -> intact_node n = true -> forall path, snd (mn path n) = false.
  Proof.
    induction d as [|d IH]; intros n Hd Hi path; [pose proof (depth_sub n); lia|].
    destruct n as [a k m t c s].
    assert (forall x, In x s -> (depth_node x <= d)%nat) as Hch.
    { intros x Hx. pose proof (depth_in s x Hx) as Hdx. cbn [depth_node] in Hd. unfold depth in Hdx. lia. }
    unfold mn. rewrite modify_node_unfold. cbn [rp_visit intact_node] in *.
    destruct k; try discriminate; try reflexivity.
    - cbn [snd]. rewrite Hi. reflexivity.
    - apply andb_true_iff in Hi. destruct Hi as [Hr Hi]. rewrite forallb_forall in Hi.
      fold mt. rewrite mt_unchanged_of_flag; [reflexivity | exact Hr |].
      apply fold_flag_false. intros x Hx. apply IH; [apply Hch; exact Hx | apply Hi; exact Hx].
  Qed.

  (* RESULT 1: on a repository in which nothing is missing, repair returns Unchanged: no tree is
     written, the snapshot is left alone *)
  Lemma repair_identity_lemma t : intact t = true -> repair_tree has_data mark resize readable t = Unchanged.
  Proof.
    unfold intact. intro H. apply andb_true_iff in H. destruct H as [Hr Hi]. rewrite forallb_forall in Hi.
    unfold repair_tree. fold mt. apply mt_unchanged_of_flag; [exact Hr|].
    apply fold_flag_false. intros x Hx. eapply intact_node_flag; [apply Nat.le_refl | apply Hi; exact Hx].
  Qed.

  (* what repair guarantees about the regular files of its result, relative to the (path, node) list
     of the original: either the file is an original file at the same path with the same name and
     exactly its chunk list, all chunks present — or it is the marked remainder of an original file
     that had a missing chunk *)
  Definition files_ok (orig res : list (list N * node)) : Prop :=
    forall q n', In (q, n') res -> is_file n' = true ->
      forallb has_data (n_content n') = true /\
      ((exists n, In (q, n) orig /\ is_file n = true /\ n_content n' = n_content n /\ n_name n' = n_name n) \/
       (exists q0 n, In (q0 ++ [n_name n], n) orig /\ is_file n = true /\ forallb has_data (n_content n) = false /\
                     q = q0 ++ [mark (n_name n)] /\ n_content n' = filter has_data (n_content n))).

  Lemma files_ok_mono orig orig' res : incl orig orig' -> files_ok orig res -> files_ok orig' res.
  Proof.
    intros Hi H q n' Hin Hf. destruct (H q n' Hin Hf) as [H1 [[n [Hn R]]|[q0 [n [Hn R]]]]]; split; try exact H1.
    - left. exists n. split; [apply Hi; exact Hn | exact R].
    - right. exists q0, n. split; [apply Hi; exact Hn | exact R].
  Qed.
  Lemma files_ok_app orig r1 r2 : files_ok orig r1 -> files_ok orig r2 -> files_ok orig (r1 ++ r2).
  Proof. intros H1 H2 q n' Hin. apply in_app_or in Hin. destruct Hin; [apply H1 | apply H2]; assumption. Qed.
  Lemma files_ok_nil orig : files_ok orig [].
  Proof. intros q n' []. Qed.
  Lemma files_ok_cons_nonfile orig p n res : is_file n = false -> files_ok orig res -> files_ok orig ((p, n) :: res).
  Proof. intros Hn H q n' [E|Hin] Hf; [inv E; congruence | apply H; assumption]. Qed.

  Definition node_ok (n : node) : Prop := forall pre,
    files_ok (paths_node pre n) (flat_map (paths_node pre) (opt_list (fst (mn pre n)))) /\
    (snd (mn pre n) = false -> files_ok (paths_node pre n) (paths_node pre n)).

  Lemma fold_files_ok pre l : (forall x, In x l -> node_ok x) ->
    files_ok (paths pre l) (paths pre (fst (fold_nodes (mn pre) l))) /\
    (snd (fold_nodes (mn pre) l) = false -> files_ok (paths pre l) (paths pre l)).
  Proof.
    induction l as [|x r IH]; intro H; [split; intros; apply files_ok_nil|].
    destruct (IH (fun y Hy => H y (or_intror Hy))) as [IH1 IH2].
    destruct (H x (or_introl eq_refl) pre) as [H1 H2].
    rewrite fold_nodes_cons. cbn [fst snd]. rewrite paths_cons. split.
    - match goal with |- files_ok _ ?R =>
        assert (R = flat_map (paths_node pre) (opt_list (fst (mn pre x))) ++ paths pre (fst (fold_nodes (mn pre) r))) as E end.
      { destruct (fst (mn pre x)); cbn [opt_list flat_map app]; [rewrite app_nil_r; reflexivity | reflexivity]. }
      rewrite E. apply files_ok_app.
      + eapply files_ok_mono; [|exact H1]. apply incl_appl. apply incl_refl.
      + eapply files_ok_mono; [|exact IH1]. apply incl_appr. apply incl_refl.
    - intro Hf. apply orb_false_iff in Hf. destruct Hf as [Hf1 Hf2]. apply files_ok_app.
      + eapply files_ok_mono; [|apply H2; exact Hf1]. apply incl_appl. apply incl_refl.
      + eapply files_ok_mono; [|apply IH2; exact Hf2]. apply incl_appr. apply incl_refl.
  Qed.

  Lemma tree_files_ok pre s : (forall x, In x s -> node_ok x) ->
    files_ok (paths pre s) (paths pre (result_tree s (mt pre s))).
  Proof.
    intro H. destruct (fold_files_ok pre s H) as [H1 H2]. unfold mt, modify_tree. fold (mn pre).
    destruct (fold_nodes (mn pre) s) as [nt ch]. cbn [fst snd] in *. rewrite finish_value.
    destruct (readable s); [|apply files_ok_nil]. destruct ch; [|apply H2; reflexivity].
    (* the stable sort only reorders siblings: the (path, node) pairs are the same *)
    intros q n' Hin. apply H1. unfold paths in *. apply in_flat_map in Hin. destruct Hin as [x [Hx Hq]].
    apply in_flat_map. exists x. split; [apply sort_tree_in; exact Hx | exact Hq].
  Qed.

  Lemma node_ok_all : forall d n, (depth_node n <= d)%nat -> node_ok n.
  Proof.
    induction d as [|d IH]; intros n Hd; [pose proof (depth_sub n); lia|].
    destruct n as [a k m t c s].
    assert (forall x, In x s -> node_ok x) as Hch.
    { intros x Hx. apply IH. pose proof (depth_in s x Hx) as Hdx. cbn [depth_node] in Hd. unfold depth in Hdx. lia. }
    intro pre. unfold mn. destruct k.
    - (* regular file *)
      rewrite modify_node_unfold. cbn [rp_visit fst snd opt_list flat_map paths_node app].
      destruct (forallb has_data c) eqn:Eall; cbn [negb].
      + rewrite (filter_all has_data c Eall).
        assert (files_ok [(pre ++ [a], Node a KFile m t c s)] [(pre ++ [a], Node a KFile m (resize t c) c s)]) as Hok.
        { intros q n' [E|[]] _. inv E. cbn [n_content n_name]. split; [exact Eall|]. left.
          exists (Node a KFile m t c s). split; [left; reflexivity|]. repeat split. }
        split; [exact Hok|]. intros _ q n' [E|[]] _. inv E. cbn [n_content n_name]. split; [exact Eall|]. left.
        exists (Node a KFile m t c s). split; [left; reflexivity|]. repeat split.
      + split; [|discriminate]. intros q n' [E|[]] _. inv E. cbn [n_content n_name].
        split; [apply forallb_filter_id|]. right. exists pre, (Node a KFile m t c s). cbn [n_name n_content].
        split; [left; reflexivity|]. repeat split. exact Eall.
    - (* directory *)
      assert (rp_visit has_data mark resize (pre ++ [a]) (Node a KDir m t c s) = AVisit (Node a KDir m t c s) false) as Hv by reflexivity.
      pose proof (tree_files_ok (pre ++ [a]) s Hch) as Ht. split.
      + rewrite (modify_node_visit_value _ _ _ _ _ _ _ _ _ _ _ Hv eq_refl). fold mt.
        cbn [opt_list flat_map set_sub]. rewrite app_nil_r. rewrite !paths_node_dir.
        apply files_ok_cons_nonfile; [reflexivity|]. eapply files_ok_mono; [|exact Ht]. apply incl_tl. apply incl_refl.
      + intro Hf. destruct (modify_node_visit_flag _ _ _ _ _ _ _ _ _ _ _ Hv Hf) as [_ Hu]. fold mt in Hu.
        rewrite Hu in Ht. cbn [result_tree] in Ht. rewrite paths_node_dir.
        apply files_ok_cons_nonfile; [reflexivity|]. eapply files_ok_mono; [|exact Ht]. apply incl_tl. apply incl_refl.
    - (* directory without subtree: an empty tree is created *)
      rewrite modify_node_unfold. cbn [rp_visit fst snd opt_list flat_map set_sub app]. split; [|discriminate].
      rewrite app_nil_r. rewrite paths_node_dir. apply files_ok_cons_nonfile; [reflexivity | apply files_ok_nil].
    - rewrite modify_node_unfold. cbn [rp_visit fst snd opt_list flat_map app]. rewrite app_nil_r. cbn [paths_node].
      split; intros; (apply files_ok_cons_nonfile; [reflexivity | apply files_ok_nil]).
    - rewrite modify_node_unfold. cbn [rp_visit fst snd opt_list flat_map app]. rewrite app_nil_r. cbn [paths_node].
      split; intros; (apply files_ok_cons_nonfile; [reflexivity | apply files_ok_nil]).
  Qed.

  (* RESULT 2 *)
  Lemma repair_kept_files_lemma t :
    files_ok (paths [] t) (paths [] (result_tree t (repair_tree has_data mark resize readable t))).
  Proof.
    unfold repair_tree. fold mt. apply tree_files_ok. intros x _. eapply node_ok_all. apply Nat.le_refl.
  Qed.
  (* RESULT 4: missing subtrees.  A directory whose subtree cannot be loaded stays in its parent, with its name and
     metadata, as an EMPTY directory; a directory node without subtree id gets an empty tree; both flag a change.
     A directory whose subtree loads keeps name and metadata and gets the repaired subtree. *)
  Lemma repair_missing_subtree_lemma path a m t c s :
    (readable s = false ->
       mn path (Node a KDir m t c s) = (Some (Node a KDir m t c []), negb (tree_eqb [] s)) \/
       mn path (Node a KDir m t c s) = (Some (Node a KDir m t c s), false) /\ s = []) /\
    mn path (Node a KDirNoSub m t c s) = (Some (Node a KDir m t c []), true) /\
    (readable s = true ->
       fst (mn path (Node a KDir m t c s)) = Some (Node a KDir m t c (result_tree s (mt (path ++ [a]) s)))).
  Proof.
    split; [|split].
    - intro Hr. unfold mn. rewrite modify_node_unfold. cbn [rp_visit]. unfold modify_tree. rewrite Hr. unfold finish.
      change modifier_sorts_changed_trees with true. cbv iota. change (sort_tree []) with ([] : tree). cbn [andb].
      destruct (tree_eqb [] s) eqn:E; cbn [negb].
      + right. split; [reflexivity|]. symmetry. apply tree_eqb_sound. exact E.
      + left. reflexivity.
    - unfold mn. rewrite modify_node_unfold. reflexivity.
    - intros _. assert (rp_visit has_data mark resize (path ++ [a]) (Node a KDir m t c s) = AVisit (Node a KDir m t c s) false) as Hv by reflexivity.
      unfold mn. rewrite (modify_node_visit_value _ _ _ _ _ _ _ _ _ _ _ Hv eq_refl). reflexivity.
  Qed.

  (* RESULT 3: a tree written by repair is in name order again (the marker suffix can move a file) *)
  Lemma repair_result_sorted_lemma t st :
    repair_tree has_data mark resize readable t = Changed st -> sorted_le st.
  Proof. unfold repair_tree, modify_tree. apply finish_changed_sorted. Qed.
End RepairProofs.

(* ------------------------------------------------------------------ copy *)

Module P13 := Verif.C13.Model.

Definition conv (b : bt * N) : P13.bt * N := (match fst b with Data => P13.Data | Tree => P13.Tree end, snd b).
(* the (type, id) pairs of the packs the copy run's indexer holds at the end *)
Definition indexed_blobs (s : P13.st) : list (bt * N) :=
  flat_map (fun e => map (fun i => (match fst e with P13.Data => Data | P13.Tree => Tree end, i)) (snd e)) (P13.idx s).

Lemma has_app ix1 ix2 b : has (ix1 ++ ix2) b = (has ix1 b || has ix2 b)%bool.
Proof. unfold has. apply existsb_app. Qed.

Lemma has_in ix t i : In (t, i) ix -> has ix (t, i) = true.
Proof.
  intro H. unfold has. apply existsb_exists. exists (t, i). split; [exact H|]. cbn [fst snd].
  rewrite N.eqb_refl. destruct t; reflexivity.
Qed.

(* the walk covers the whole reachable set — provable only when it starts from every snapshot root *)
Lemma seen_covers_reach tid dst snaps b : In b (flat_map (reach tid) snaps) -> In b (seen tid dst snaps).
Proof.
  intro H. unfold seen, walked.
  change copy_walk_from_all_snapshot_trees with true. cbv iota.
  apply in_flat_map in H. destruct H as [t [Ht Hb]]. apply in_or_app. destruct Hb as [<-|Hb].
  - left. apply (in_map (fun t => (Tree, tid t))). exact Ht.
  - right. apply in_flat_map. exists t. split; assumption.
Qed.

(* copy from ANY source (closed or not): every reachable blob the source index knows ends up in the destination
   index — the destination is exactly as closed as the source; ids unknown to the source are skipped *)
Lemma copy_closed_relative_lemma : forall tid src dst snaps es s,
  P13.run P13.init es = Some s -> P13.final s = true ->
  (forall b, In b (needed tid src dst snaps) -> In (conv b) (P13.requested s)) ->
  (forall b, In b (flat_map (reach tid) snaps) -> has src b = true -> has (dst ++ indexed_blobs s) b = true) /\
  (forall b, In b (needed tid src dst snaps) -> has src b = true /\ has dst b = false).
Proof.
  intros tid src dst snaps es s Hrun Hfin Hreq. split.
  - intros b Hb Hs. rewrite has_app. destruct (has dst b) eqn:Ed; [reflexivity|]. cbn [orb].
    assert (In b (needed tid src dst snaps)) as Hn.
    { unfold needed. apply filter_In. split; [apply seen_covers_reach; exact Hb|].
      change copy_skips_ids_unknown_to_source with true. cbv iota. rewrite Ed, Hs. reflexivity. }
    specialize (Hreq b Hn). destruct b as [t i]. unfold conv in Hreq. cbn [fst snd] in Hreq.
    destruct (Verif.C13.Props.every_final_state_indexes_all_typed es s Hrun Hfin (or_introl eq_refl) _ _ Hreq) as [pk [Hpk Hi]].
    apply has_in. unfold indexed_blobs. apply in_flat_map.
    eexists. split; [exact Hpk|]. cbn [fst snd]. apply in_map_iff. exists i. split; [|exact Hi].
    destruct t; reflexivity.
  - intros b Hb. unfold needed in Hb. apply filter_In in Hb. destruct Hb as [_ Hb].
    change copy_skips_ids_unknown_to_source with true in Hb. cbv iota in Hb.
    apply andb_true_iff in Hb. destruct Hb as [H1 H2]. split; [exact H2|]. destruct (has dst b); [discriminate | reflexivity].
Qed.

Lemma copy_closed_lemma : forall tid src dst snaps es s,
  (forall b, In b (flat_map (reach tid) snaps) -> has src b = true) ->
  P13.run P13.init es = Some s -> P13.final s = true ->
  (forall b, In b (needed tid src dst snaps) -> In (conv b) (P13.requested s)) ->
  forall b, In b (flat_map (reach tid) snaps) -> has (dst ++ indexed_blobs s) b = true.
Proof.
  intros tid src dst snaps es s Hsrc Hrun Hfin Hreq b Hb. rewrite has_app.
  destruct (has dst b) eqn:Ed; [reflexivity|]. cbn [orb].
  assert (In b (needed tid src dst snaps)) as Hn.
  { unfold needed. apply filter_In. split; [apply seen_covers_reach; exact Hb|].
    change copy_skips_ids_unknown_to_source with true. cbv iota. rewrite Ed, (Hsrc b Hb). reflexivity. }
  specialize (Hreq b Hn). destruct b as [t i]. unfold conv in Hreq. cbn [fst snd] in Hreq.
  destruct (Verif.C13.Props.every_final_state_indexes_all_typed es s Hrun Hfin (or_introl eq_refl) _ _ Hreq) as [pk [Hpk Hi]].
  apply has_in. unfold indexed_blobs. apply in_flat_map.
  eexists. split; [exact Hpk|]. cbn [fst snd]. apply in_map_iff. exists i. split; [|exact Hi].
  destruct t; reflexivity.
Qed.
