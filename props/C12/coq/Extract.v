(* C12 — extraction of the executable merge model (ExtrOcamlBasic only). *)
Require Extraction.
Require Import ExtrOcamlBasic.
From Verif.C12 Require Import Model.
Extraction "model_ml.ml" merge merge_loop merge_trees cmp_mtime cmp_meta cmp_equal cmp_dir_mtime sched_id sched_rev wf_tree depths
  lookup paths rewrite_tree repair_tree result_tree needed copy_order.
