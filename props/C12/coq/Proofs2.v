(* C12 — merging copies of one tree returns the tree; TreeModifier: rewrite and repair. *)
From Verif.Base Require Import Tactics.
From Verif.C12 Require Import Extracted Model Proofs.
Local Open Scope N_scope.

(* ------------------------------------------------------------------ merge of k copies *)

Lemma perm_repeat {A} (a : A) k l : Permutation l (repeat a k) -> l = repeat a k.
Proof.
  intro H. pose proof (Permutation_length H) as Hl. rewrite repeat_length in Hl. subst k.
  assert (forall x, In x l -> x = a) as Hall.
  { intros x Hx. eapply repeat_spec. eapply Permutation_in; eassumption. }
  clear H. induction l as [|x l IH]; [reflexivity|]. cbn [length repeat].
  rewrite (Hall x (or_introl eq_refl)). f_equal. apply IH. intros; apply Hall; right; assumption.
Qed.

Section Repeat.
  Variable cmp : node -> node -> comparison.
  Variable sched : list node -> list node.
  Hypothesis Hsched : forall l, Permutation (sched l) l.

  Lemma min_name_repeat_nil k : min_name (repeat ([] : tree) k) = None.
  Proof. induction k as [|k IH]; [reflexivity|]. cbn [repeat min_name head_name]. exact IH. Qed.

  Lemma min_name_repeat n r k : min_name (repeat (n :: r) (S k)) = Some (n_name n).
  Proof.
    induction k as [|k IH]; [reflexivity|].
    change (repeat (n :: r) (S (S k))) with ((n :: r) :: repeat (n :: r) (S k)).
    cbn [min_name head_name]. rewrite IH. rewrite N.min_id. reflexivity.
  Qed.

  Lemma heads_repeat n r k : heads (n_name n) (repeat (n :: r) k) = repeat n k.
  Proof.
    induction k as [|k IH]; [reflexivity|]. unfold heads in *. cbn [repeat flat_map take_head].
    rewrite N.eqb_refl, IH. reflexivity.
  Qed.

  Lemma drops_repeat n r k : drops (n_name n) (repeat (n :: r) k) = repeat r k.
  Proof.
    induction k as [|k IH]; [reflexivity|]. unfold drops in *. cbn [repeat map drop_head].
    rewrite N.eqb_refl, IH. reflexivity.
  Qed.

  Lemma fold_max_repeat n k : fold_left (max_step cmp) (repeat n k) n = n.
  Proof.
    induction k as [|k IH]; [reflexivity|]. cbn [repeat fold_left].
    replace (max_step cmp n n) with n; [exact IH|]. unfold max_step. destruct (cmp n n); reflexivity.
  Qed.

  Lemma filter_repeat {A} (f : A -> bool) a k : filter f (repeat a k) = if f a then repeat a k else [].
  Proof.
    induction k as [|k IH]; [destruct (f a); reflexivity|]. cbn [repeat filter]. rewrite IH.
    destruct (f a); reflexivity.
  Qed.

  Lemma map_repeat' {A B} (f : A -> B) a k : map f (repeat a k) = repeat (f a) k.
  Proof. induction k as [|k IH]; [reflexivity|]. cbn [repeat map]. rewrite IH. reflexivity. Qed.

  Lemma total_len_repeat (t : tree) k : total_len (repeat t k) = (k * length t)%nat.
  Proof. induction k as [|k IH]; [reflexivity|]. cbn [repeat total_len fold_right]. unfold total_len in IH. lia. Qed.

  Definition resub (rec : list tree -> tree) (k : nat) (n : node) : node :=
    if is_dir n then set_sub n (rec (repeat (n_sub n) k)) else n.

  Lemma merge_level_repeat rec k : forall t f, (S k * length t <= f)%nat ->
    merge_level cmp sched f rec (repeat t (S k)) = map (resub rec (S k)) t.
  Proof.
    induction t as [|n r IH]; intros f Hf.
    - destruct f; [reflexivity|]. cbn [merge_level]. rewrite min_name_repeat_nil. reflexivity.
    - destruct f as [|f]; [cbn [length] in Hf; lia|].
      cbn [merge_level]. rewrite min_name_repeat, heads_repeat, drops_repeat.
      rewrite (perm_repeat n (S k) _ (Hsched _)).
      unfold merge_nodes. change (max_by cmp (repeat n (S k))) with (Some (fold_left (max_step cmp) (repeat n k) n)).
      rewrite fold_max_repeat. rewrite filter_repeat, IH by (cbn [length] in Hf; lia).
      cbn [map]. f_equal. unfold resub. destruct (is_dir n); [|reflexivity].
      rewrite map_repeat'. reflexivity.
  Qed.

  Lemma merge_trees_repeat k : forall d t, (depth t <= d)%nat -> merge_trees cmp sched d (repeat t (S k)) = t.
  Proof.
    induction d as [|d IH]; intros t Hd.
    - destruct t as [|n r]; [reflexivity|]. pose proof (depth_in (n :: r) n (or_introl eq_refl)).
      pose proof (depth_sub n). lia.
    - cbn [merge_trees]. rewrite merge_level_repeat by (rewrite total_len_repeat; lia).
      rewrite <- (map_id t) at 2. apply map_ext_in. intros n Hn. unfold resub.
      destruct (is_dir n); [|reflexivity]. rewrite IH; [apply set_sub_id|].
      pose proof (depth_in t n Hn). pose proof (depth_sub n). lia.
  Qed.

  Lemma depths_repeat t k : (depth t <= depths (repeat t (S k)))%nat.
  Proof. apply depths_in. left. reflexivity. Qed.

  Lemma merge_repeat_top k t : merge cmp sched (repeat t (S k)) = t.
  Proof. unfold merge. apply merge_trees_repeat. pose proof (depths_repeat t k). lia. Qed.
End Repeat.

Lemma merge_single_top cmp sched : (forall l, Permutation (sched l) l) -> forall t, merge cmp sched [t] = t.
Proof. intros H t. apply (merge_repeat_top cmp sched H 0 t). Qed.
Lemma merge_idempotent_top cmp sched : (forall l, Permutation (sched l) l) -> forall t, merge cmp sched [t; t] = t.
Proof. intros H t. apply (merge_repeat_top cmp sched H 1 t). Qed.

(* ------------------------------------------------------------------ equality test is sound *)

Lemma list_eqb_sound {A} (e : A -> A -> bool) l1 :
  (forall x, In x l1 -> forall y, e x y = true -> x = y) -> forall l2, list_eqb e l1 l2 = true -> l1 = l2.
Proof.
  induction l1 as [|x r IH]; intros He l2 H; destruct l2 as [|y r2]; try discriminate; [reflexivity|].
  cbn [list_eqb] in H. apply andb_true_iff in H. destruct H as [H1 H2].
  f_equal; [apply He; [left; reflexivity | exact H1] | apply IH; [intros; apply He; [right; assumption | assumption] | exact H2]].
Qed.

Lemma node_eqb_unfold n1 k1 m1 t1 c1 s1 n2 k2 m2 t2 c2 s2 :
  node_eqb (Node n1 k1 m1 t1 c1 s1) (Node n2 k2 m2 t2 c2 s2) =
  ((n1 =? n2) && kind_eqb k1 k2 && (m1 =? m2) && (t1 =? t2) && list_eqb N.eqb c1 c2 && list_eqb node_eqb s1 s2)%bool.
Proof.
  cbn [node_eqb]. f_equal. revert s2. induction s1 as [|x r IH]; intros [|y r2]; try reflexivity.
  cbn [list_eqb]. rewrite <- IH. reflexivity.
Qed.

Lemma kind_eqb_sound a b : kind_eqb a b = true -> a = b.
Proof. destruct a, b; cbn; congruence. Qed.

Lemma node_eqb_sound : forall d a, (depth_node a <= d)%nat -> forall b, node_eqb a b = true -> a = b.
Proof.
  induction d as [|d IH]; intros a Hd b H.
  - pose proof (depth_sub a). lia.
  - destruct a as [n1 k1 m1 t1 c1 s1], b as [n2 k2 m2 t2 c2 s2]. rewrite node_eqb_unfold in H.
    repeat (apply andb_true_iff in H; destruct H as [H ?]).
    apply N.eqb_eq in H. apply kind_eqb_sound in H4. apply N.eqb_eq in H3. apply N.eqb_eq in H2.
    assert (c1 = c2) by (eapply list_eqb_sound; [|eassumption]; intros; apply N.eqb_eq; assumption).
    assert (s1 = s2).
    { eapply list_eqb_sound; [|eassumption]. intros x Hx y Hxy. apply IH; [|exact Hxy].
      pose proof (depth_in s1 x Hx) as Hdx. cbn [depth_node] in Hd. unfold depth in Hdx. lia. }
    subst. reflexivity.
Qed.

Lemma tree_eqb_sound a b : tree_eqb a b = true -> a = b.
Proof.
  unfold tree_eqb. apply list_eqb_sound. intros x _ y H. eapply node_eqb_sound; [|exact H]. apply Nat.le_refl.
Qed.

(* ------------------------------------------------------------------ TreeModifier, value level *)

(* insertion sort: permutation, identity on sorted lists *)
Lemma insert_in n l x : In x (insert_node n l) <-> x = n \/ In x l.
Proof.
  induction l as [|a l IH]; cbn [insert_node]; [cbn; intuition|].
  destruct (n_name n <=? n_name a); cbn [In]; [intuition|]. rewrite IH. intuition.
Qed.
Lemma sort_tree_in t x : In x (sort_tree t) <-> In x t.
Proof.
  induction t as [|a t IH]; [reflexivity|]. unfold sort_tree in *. cbn [fold_right]. rewrite insert_in, IH. cbn [In]. intuition.
Qed.
Lemma sort_sorted_id t : sorted t -> sort_tree t = t.
Proof.
  induction t as [|n r IH]; intro Hs; [reflexivity|]. destruct (sorted_inv _ _ Hs) as [Hr Hlt].
  unfold sort_tree in *. cbn [fold_right]. rewrite (IH Hr). destruct r as [|x r']; [reflexivity|].
  cbn [insert_node]. specialize (Hlt x (or_introl eq_refl)).
  destruct (n_name n <=? n_name x) eqn:E; [reflexivity | lia].
Qed.

(* non-strict sortedness (a renamed node may collide with a sibling's name) *)
Fixpoint sorted_le_names (l : list N) : bool :=
  match l with
  | [] => true
  | a :: r => match r with [] => true | b :: _ => (a <=? b) && sorted_le_names r end
  end.
Definition sorted_le (t : tree) : Prop := sorted_le_names (map n_name t) = true.

Lemma insert_sorted_le n l : sorted_le l -> sorted_le (insert_node n l).
Proof.
  unfold sorted_le. induction l as [|a l IH]; intro H; [reflexivity|]. cbn [insert_node].
  destruct (n_name n <=? n_name a) eqn:E.
  - cbn [map]. change (((n_name n <=? n_name a) && sorted_le_names (map n_name (a :: l)))%bool = true).
    rewrite E, H. reflexivity.
  - assert (sorted_le_names (map n_name l) = true) as Hl.
    { cbn [map] in H. destruct l as [|b l']; [reflexivity|]. cbn [map] in H.
      change (((n_name a <=? n_name b) && sorted_le_names (map n_name (b :: l')))%bool = true) in H.
      apply andb_true_iff in H. apply H. }
    specialize (IH Hl). cbn [map]. destruct (insert_node n l) as [|b r] eqn:Ei; [reflexivity|].
    cbn [map]. change (((n_name a <=? n_name b) && sorted_le_names (map n_name (b :: r)))%bool = true).
    rewrite IH, andb_true_r.
    assert (In b (insert_node n l)) as Hb by (rewrite Ei; left; reflexivity).
    apply insert_in in Hb. destruct Hb as [->|Hb]; [lia|].
    destruct l as [|b' l']; [destruct Hb|]. cbn [insert_node] in Ei.
    destruct (n_name n <=? n_name b'); inv Ei; [lia|].
    cbn [map] in H. change (((n_name a <=? n_name b) && sorted_le_names (map n_name (b :: l')))%bool = true) in H.
    apply andb_true_iff in H. destruct H as [H _]. lia.
Qed.

Lemma sort_tree_sorted_le t : sorted_le (sort_tree t).
Proof. induction t as [|a t IH]; [reflexivity|]. unfold sort_tree in *. cbn [fold_right]. apply insert_sorted_le. exact IH. Qed.

Lemma finish_changed_sorted rd old res st : finish rd old res = Changed st -> sorted_le st.
Proof.
  unfold finish. change modifier_sorts_changed_trees with true. cbv iota.
  destruct (if rd then res else ([], true)) as [nt ch].
  destruct (ch && negb (tree_eqb (sort_tree nt) old))%bool; [|discriminate]. intro H. inv H. apply sort_tree_sorted_le.
Qed.

Lemma finish_value rd old nt ch :
  result_tree old (finish rd old (nt, ch)) = if rd then (if ch then sort_tree nt else old) else [].
Proof.
  unfold finish. change modifier_sorts_changed_trees with true. cbv iota. destruct rd.
  - destruct ch; cbn [andb]; [|reflexivity].
    destruct (tree_eqb (sort_tree nt) old) eqn:E; cbn [negb result_tree]; [symmetry; apply tree_eqb_sound; exact E | reflexivity].
  - cbn [andb]. change (sort_tree []) with ([] : tree).
    destruct (tree_eqb [] old) eqn:E; cbn [negb result_tree]; [symmetry; apply tree_eqb_sound; exact E | reflexivity].
Qed.

Lemma finish_not_removed rd old res : finish rd old res <> Removed.
Proof.
  unfold finish. destruct (if rd then res else ([], true)) as [nt ch].
  destruct (ch && negb (tree_eqb _ old))%bool; discriminate.
Qed.

Lemma finish_flag rd old nt ch : rd = true -> ch = false -> finish rd old (nt, ch) = Unchanged.
Proof. intros -> ->. reflexivity. Qed.

Lemma fold_nodes_cons f x r :
  fold_nodes f (x :: r) =
  (match fst (f x) with Some y => y :: fst (fold_nodes f r) | None => fst (fold_nodes f r) end,
   (snd (f x) || snd (fold_nodes f r))%bool).
Proof. cbn [fold_nodes]. destruct (f x) as [x' cx]. destruct (fold_nodes f r) as [r' cr]. reflexivity. Qed.

Lemma fold_nodes_ext f g l : (forall x, In x l -> f x = g x) -> fold_nodes f l = fold_nodes g l.
Proof.
  induction l as [|x r IH]; intro H; [reflexivity|]. rewrite !fold_nodes_cons.
  rewrite (H x (or_introl eq_refl)), IH by (intros; apply H; right; assumption). reflexivity.
Qed.

(* the value a directory node takes after its subtree was visited *)
Lemma modify_node_unfold visit readable path a k m t c s :
  modify_node visit readable path (Node a k m t c s) =
  match visit (path ++ [a]) (Node a k m t c s) with
  | ANode n' ch => (Some n', ch)
  | ARemoved => (None, true)
  | ACreate n' => (Some (set_sub n' []), true)
  | AVisit n' ch =>
      match modify_tree visit readable (path ++ [a]) s with
      | Removed => (None, true)
      | Unchanged => (Some n', ch)
      | Changed s' => (Some (set_sub n' s'), true)
      end
  end.
Proof. reflexivity. Qed.

Lemma modify_node_visit_value visit readable path a k m t c s n' ch :
  visit (path ++ [a]) (Node a k m t c s) = AVisit n' ch -> n_sub n' = s ->
  fst (modify_node visit readable path (Node a k m t c s)) =
  Some (set_sub n' (result_tree s (modify_tree visit readable (path ++ [a]) s))).
Proof.
  intros Hv Hs. rewrite modify_node_unfold, Hv.
  pose proof (finish_not_removed (readable s) s (fold_nodes (modify_node visit readable (path ++ [a])) s)) as Hnr.
  fold (modify_tree visit readable (path ++ [a]) s) in Hnr.
  destruct (modify_tree visit readable (path ++ [a]) s); [congruence | reflexivity |].
  cbn [fst result_tree]. rewrite <- Hs. rewrite set_sub_id. reflexivity.
Qed.

Lemma paths_cons pre n r : paths pre (n :: r) = paths_node pre n ++ paths pre r.
Proof. reflexivity. Qed.

Lemma paths_node_dir pre a m t c s : paths_node pre (Node a KDir m t c s) = (pre ++ [a], Node a KDir m t c s) :: paths (pre ++ [a]) s.
Proof. reflexivity. Qed.

Lemma modify_node_visit_flag visit readable path a k m t c s n' ch :
  visit (path ++ [a]) (Node a k m t c s) = AVisit n' ch ->
  snd (modify_node visit readable path (Node a k m t c s)) = false ->
  ch = false /\ modify_tree visit readable (path ++ [a]) s = Unchanged.
Proof.
  intros Hv. rewrite modify_node_unfold, Hv.
  destruct (modify_tree visit readable (path ++ [a]) s); cbn [snd]; intro H; try discriminate. auto.
Qed.

Lemma fold_nodes_spec (f : node -> option node * bool) (g : node -> option node) l :
  (forall x, In x l -> fst (f x) = g x /\ (snd (f x) = false -> g x = Some x)) ->
  fst (fold_nodes f l) = flat_map (fun x => opt_list (g x)) l /\
  (snd (fold_nodes f l) = false -> flat_map (fun x => opt_list (g x)) l = l).
Proof.
  induction l as [|x r IH]; intro H; [split; reflexivity|].
  destruct (IH (fun y Hy => H y (or_intror Hy))) as [IH1 IH2].
  destruct (H x (or_introl eq_refl)) as [H1 H2].
  rewrite fold_nodes_cons. cbn [fst snd flat_map]. rewrite H1, IH1. split.
  - destruct (g x); reflexivity.
  - intro Hf. apply orb_false_iff in Hf. destruct Hf as [Hf1 Hf2].
    rewrite (H2 Hf1), (IH2 Hf2). reflexivity.
Qed.

(* ------------------------------------------------------------------ rewrite *)

Section RewriteProofs.
  Variable excl : list N -> bool -> bool.
  Variable modn : node -> node * bool.
  (* NodeModification only touches metadata; an unflagged node is unchanged *)
  Hypothesis Hframe : forall n, n_name (fst (modn n)) = n_name n /\ n_kind (fst (modn n)) = n_kind n /\
                                n_content (fst (modn n)) = n_content n /\ n_sub (fst (modn n)) = n_sub n.
  Hypothesis Hflag : forall n, snd (modn n) = false -> fst (modn n) = n.

  (* the declarative result: drop a node iff its path is matched; keep every other node (modified by
     modn only), directories with their pruned subtree *)
  Fixpoint prune_node (path : list N) (n : node) {struct n} : option node :=
    match n with
    | Node a k m t c s =>
        let p := path ++ [a] in
        if excl p (is_dir (Node a k m t c s)) then None
        else let n' := fst (modn (Node a k m t c s)) in
             match k with
             | KDir => Some (set_sub n' (flat_map (fun x => opt_list (prune_node p x)) s))
             | _ => Some n'
             end
    end.
  Definition prune (path : list N) (t : tree) : tree := flat_map (fun x => opt_list (prune_node path x)) t.

  Let mn := modify_node (rw_visit excl modn) (fun _ => true).
  Let mt := modify_tree (rw_visit excl modn) (fun _ => true).

  Lemma rw_visit_unfold p n :
    rw_visit excl modn p n =
    if excl p (is_dir n) then ARemoved
    else match n_kind (fst (modn n)) with
         | KDir => AVisit (fst (modn n)) (snd (modn n))
         | _ => ANode (fst (modn n)) (snd (modn n))
         end.
  Proof. unfold rw_visit. destruct (modn n); reflexivity. Qed.

  Lemma prune_node_name path n n' : prune_node path n = Some n' -> n_name n' = n_name n.
  Proof.
    destruct n as [a k m t c s]. cbn [prune_node]. destruct (excl _ _); [discriminate|].
    destruct (Hframe (Node a k m t c s)) as [F1 _]. destruct k; intro H; inv H; rewrite ?set_sub_name; exact F1.
  Qed.

  (* pruning keeps names and order: a strictly sorted level stays strictly sorted *)
  Lemma prune_sorted path s : sorted s -> sorted (prune path s) /\
    forall y, In y (prune path s) -> exists x, In x s /\ n_name y = n_name x.
  Proof.
    induction s as [|n r IH]; intro Hs; [split; [apply sorted_nil | intros y []]|].
    destruct (sorted_inv _ _ Hs) as [Hr Hlt]. destruct (IH Hr) as [I1 I2].
    unfold prune in *. cbn [flat_map]. destruct (prune_node path n) as [n'|] eqn:E; cbn [opt_list app].
    - pose proof (prune_node_name _ _ _ E) as Hn. split.
      + unfold sorted in *. cbn [map]. destruct (flat_map (fun x => opt_list (prune_node path x)) r) as [|b l] eqn:Eb; [reflexivity|].
        change (((n_name n' <? n_name b) && sorted_names (map n_name (b :: l)))%bool = true).
        rewrite I1, andb_true_r. destruct (I2 b (or_introl eq_refl)) as [x [Hx Ex]]. specialize (Hlt x Hx). lia.
      + intros y [<-|Hy]; [exists n; split; [left; reflexivity | exact Hn]|].
        destruct (I2 y Hy) as [x [Hx Ex]]. exists x. split; [right; exact Hx | exact Ex].
    - split; [exact I1|]. intros y Hy. destruct (I2 y Hy) as [x [Hx Ex]]. exists x. split; [right; exact Hx | exact Ex].
  Qed.

  Lemma rw_tree_from_fold path s : sorted s ->
    (fst (fold_nodes (mn path) s) = prune path s /\ (snd (fold_nodes (mn path) s) = false -> prune path s = s)) ->
    result_tree s (mt path s) = prune path s.
  Proof.
    intros Hs [H1 H2]. unfold mt, modify_tree. fold (mn path).
    destruct (fold_nodes (mn path) s) as [nt ch] eqn:E. cbn [fst snd] in *.
    rewrite finish_value. destruct ch; [|symmetry; apply H2; reflexivity].
    rewrite H1. apply sort_sorted_id. apply prune_sorted. exact Hs.
  Qed.

  Lemma rw_node_value : forall d n, (depth_node n <= d)%nat -> wf_node n = true -> forall path,
    fst (mn path n) = prune_node path n /\ (snd (mn path n) = false -> prune_node path n = Some n).
  Proof.
    induction d as [|d IH]; intros n Hd Hwf path; [pose proof (depth_sub n); lia|].
    destruct n as [a k m t c s].
    assert (sorted s /\ forall x, In x s -> wf_node x = true) as [Hss Hwfc].
    { cbn [wf_node] in Hwf. repeat (apply andb_true_iff in Hwf; destruct Hwf as [Hwf ?]).
      split; [assumption | apply forallb_forall; assumption]. }
    assert (forall x, In x s -> (depth_node x <= d)%nat) as Hch.
    { intros x Hx. pose proof (depth_in s x Hx) as Hdx. cbn [depth_node] in Hd. unfold depth in Hdx. lia. }
    assert (result_tree s (mt (path ++ [a]) s) = prune (path ++ [a]) s) as Hsub.
    { apply rw_tree_from_fold; [exact Hss|]. apply fold_nodes_spec. intros x Hx. apply IH; [apply Hch; exact Hx | apply Hwfc; exact Hx]. }
    destruct (Hframe (Node a k m t c s)) as [F1 [F2 [F3 F4]]].
    pose proof (Hflag (Node a k m t c s)) as Hfl.
    unfold mn. rewrite modify_node_unfold. rewrite rw_visit_unfold.
    cbn [prune_node]. fold (prune (path ++ [a]) s).
    destruct (excl (path ++ [a]) (is_dir (Node a k m t c s))) eqn:Ex; [split; [reflexivity | discriminate]|].
    cbn [n_kind n_sub] in F2, F4. rewrite F2.
    destruct k; try (split; [reflexivity | cbn [snd]; intro Hc; f_equal; apply Hfl; exact Hc]).
    (* directory *)
    fold mt.
    pose proof (finish_not_removed true s (fold_nodes (mn (path ++ [a])) s)) as Hnr.
    change (finish true s (fold_nodes (mn (path ++ [a])) s)) with (mt (path ++ [a]) s) in Hnr.
    destruct (mt (path ++ [a]) s) as [|s'|] eqn:Emt; [congruence | |]; cbn [result_tree] in Hsub; cbn [fst snd].
    - split; [subst s'; reflexivity | discriminate].
    - rewrite <- Hsub. remember (fst (modn (Node a KDir m t c s))) as n' eqn:En'. split.
      + f_equal. rewrite <- F4. symmetry. apply set_sub_id.
      + intro Hc. rewrite (Hfl Hc). reflexivity.
  Qed.

  (* RESULT: the tree a rewritten snapshot points to is the input pruned of exactly the matched paths *)
  Lemma rewrite_value path t : wf_tree t = true -> path = [] \/ excl path true = false ->
    result_tree t (rewrite_tree excl modn path t) = prune path t.
  Proof.
    intros Hwf Hroot. unfold wf_tree in Hwf. apply andb_true_iff in Hwf. destruct Hwf as [Hs Hwf]. rewrite forallb_forall in Hwf.
    assert (result_tree t (mt path t) = prune path t) as H.
    { apply rw_tree_from_fold; [exact Hs|]. apply fold_nodes_spec.
      intros x Hx. eapply rw_node_value; [apply Nat.le_refl | apply Hwf; exact Hx]. }
    unfold rewrite_tree. change rewrite_root_is_matched with false. cbn [andb].
    destruct Hroot as [-> | Hroot]; [exact H|]. destruct path; [exact H|]. rewrite Hroot. exact H.
  Qed.

  (* path view of `prune`: the kept (path, node) pairs — a node is listed iff neither it nor an ancestor
     directory is matched *)
  Fixpoint kept_node (path : list N) (n : node) {struct n} : list (list N * node) :=
    match n with
    | Node a k m t c s =>
        let p := path ++ [a] in
        if excl p (is_dir (Node a k m t c s)) then []
        else (p, Node a k m t c s) :: match k with KDir => flat_map (kept_node p) s | _ => [] end
    end.
  Definition kept (path : list N) (t : tree) := flat_map (kept_node path) t.

  (* a node without its subtree: what `ls` shows apart from the subtree id *)
  Definition strip (n : node) : node := set_sub n [].
  Definition strip_mod (n : node) : node := strip (fst (modn n)).

  Lemma strip_set_sub n s : strip (set_sub n s) = strip n. Proof. destruct n; reflexivity. Qed.

  Lemma prune_paths_node : forall d n, (depth_node n <= d)%nat -> forall path,
    map (fun pn => (fst pn, strip (snd pn))) (flat_map (paths_node path) (opt_list (prune_node path n))) =
    map (fun pn => (fst pn, strip_mod (snd pn))) (kept_node path n).
  Proof.
    induction d as [|d IH]; intros n Hd path; [pose proof (depth_sub n); lia|].
    destruct n as [a k m t c s].
    assert (forall x, In x s -> (depth_node x <= d)%nat) as Hch.
    { intros x Hx. pose proof (depth_in s x Hx) as Hdx. cbn [depth_node] in Hd. unfold depth in Hdx. lia. }
    cbn [prune_node kept_node].
    destruct (excl (path ++ [a]) (is_dir (Node a k m t c s))); [reflexivity|].
    destruct (Hframe (Node a k m t c s)) as [F1 [F2 [F3 F4]]].
    assert (strip_mod (Node a k m t c s) = strip (fst (modn (Node a k m t c s)))) as Hsm by reflexivity.
    destruct (fst (modn (Node a k m t c s))) as [a' k' m' t' c' s'] eqn:Em.
    cbn [n_name n_kind n_sub] in F1, F2, F4. subst a' k' s'.
    destruct k; cbn [opt_list flat_map app set_sub paths_node map fst snd]; rewrite ?app_nil_r, ?Hsm; try reflexivity.
    cbn [map fst snd].
    f_equal. fold (paths (path ++ [a])).
    assert (forall l, (forall x, In x l -> (depth_node x <= d)%nat) ->
      map (fun pn => (fst pn, strip (snd pn))) (paths (path ++ [a]) (flat_map (fun x => opt_list (prune_node (path ++ [a]) x)) l)) =
      map (fun pn => (fst pn, strip_mod (snd pn))) (flat_map (kept_node (path ++ [a])) l)) as Hl.
    { induction l as [|x r IHl]; intro Hx; [reflexivity|]. cbn [flat_map]. unfold paths in *. rewrite flat_map_app, !map_app.
      rewrite IHl by (intros; apply Hx; right; assumption). f_equal. apply IH. apply Hx. left. reflexivity. }
    apply Hl. exact Hch.
  Qed.

  Lemma prune_paths path t :
    map (fun pn => (fst pn, strip (snd pn))) (paths path (prune path t)) =
    map (fun pn => (fst pn, strip_mod (snd pn))) (kept path t).
  Proof.
    unfold prune, kept, paths. induction t as [|x r IH]; [reflexivity|]. cbn [flat_map].
    rewrite flat_map_app, !map_app, IH. f_equal. eapply prune_paths_node. apply Nat.le_refl.
  Qed.
  Lemma rewrite_top path t : wf_tree t = true -> path = [] \/ excl path true = false ->
    let r := result_tree t (rewrite_tree excl modn path t) in
    r = prune path t /\
    map (fun pn => (fst pn, strip (snd pn))) (paths path r) =
    map (fun pn => (fst pn, strip_mod (snd pn))) (kept path t).
  Proof.
    intros Hwf H. cbv zeta. rewrite (rewrite_value path t Hwf H). split; [reflexivity | apply prune_paths].
  Qed.
End RewriteProofs.
