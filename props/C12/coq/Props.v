(* C12 — property theorems.  Statements closed by `exact`, each followed by Print Assumptions.
   Model.v mirrors blob/tree.rs (merge_trees / merge_nodes), blob/tree/modify.rs (TreeModifier),
   blob/tree/rewrite.rs (RewriteVisitor), commands/repair/snapshots.rs (RepairState) and
   commands/copy.rs. *)
From Verif.Base Require Import Tactics.
From Verif.C12 Require Import Model Proofs.
Local Open Scope N_scope.

(* MERGE.  For every comparison that is a total preorder, every order in which the heap delivers
   equally named nodes, every list of well-formed input trees (every level strictly sorted by name)
   and every non-empty path p, with r the merged tree:
   - if r has a node n' at p, then n' is a cmp-greatest node w among ALL nodes the inputs have at p
     (`cands`: found by descending through directories only), unchanged except that a directory
     winner carries the merged subtree;
   - if r has nothing at p, then no input has anything at p, or a proper prefix of p was resolved to
     a winner that is not a directory.
   Since cands at p ++ [x] collects the x entries of EVERY input directory at p, the first clause
   also says that a directory winner merges all same-named directories. *)
Theorem merge_paths : forall cmp sched,
  preorder cmp -> (forall l, Permutation (sched l) l) ->
  forall ts, Forall (fun t => wf_tree t = true) ts ->
  forall p, p <> [] ->
  match lookup (merge cmp sched ts) p with
  | Some n' =>
      exists w, In w (cands ts p) /\ (forall y, In y (cands ts p) -> cmp y w <> Gt) /\
                n' = (if is_dir w then set_sub w (n_sub n') else w)
  | None =>
      cands ts p = [] \/
      exists q s n, p = q ++ s /\ q <> [] /\ s <> [] /\ lookup (merge cmp sched ts) q = Some n /\ is_dir n = false
  end.
Proof. exact merge_paths_top. Qed.
Print Assumptions merge_paths.

(* the converse half of "iff": a path that is found has candidates and only directory prefixes *)
Theorem merge_paths_found : forall (r : tree) q s n, q <> [] -> s <> [] ->
  lookup r (q ++ s) = Some n -> exists m, lookup r q = Some m /\ is_dir m = true.
Proof. exact (fun r q s n => lookup_prefix q r s n). Qed.
Print Assumptions merge_paths_found.

(* every level of the result is strictly sorted by name (no duplicates) *)
Theorem merge_sorted : forall cmp sched, (forall l, Permutation (sched l) l) ->
  forall ts, Forall (fun t => wf_tree t = true) ts -> sorted (merge cmp sched ts).
Proof. exact merge_sorted_top. Qed.
Print Assumptions merge_sorted.
