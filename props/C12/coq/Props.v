(* C12 — property theorems.  Statements closed by `exact`, each followed by Print Assumptions.
   Model.v mirrors blob/tree.rs (merge_trees / merge_nodes), blob/tree/modify.rs (TreeModifier),
   blob/tree/rewrite.rs (RewriteVisitor), commands/repair/snapshots.rs (RepairState) and
   commands/copy.rs. *)
From Verif.Base Require Import Tactics.
From Verif.C12 Require Import Model Proofs.
Local Open Scope N_scope.

(* MERGE.  For every comparison that is a total preorder, every order in which the heap delivers
   equally named nodes, every list of well-formed input trees (every level strictly sorted by name)
   and every non-empty path p, with r the merged tree:
   - if r has a node n' at p, then n' is a cmp-greatest node w among ALL nodes the inputs have at p
     (`cands`: found by descending through directories only), unchanged except that a directory
     winner carries the merged subtree;
   - if r has nothing at p, then no input has anything at p, or a proper prefix of p was resolved to
     a winner that is not a directory.
   Since cands at p ++ [x] collects the x entries of EVERY input directory at p, the first clause
   also says that a directory winner merges all same-named directories. *)
Theorem merge_paths : forall cmp sched,
  preorder cmp -> (forall l, Permutation (sched l) l) ->
  forall ts, Forall (fun t => wf_tree t = true) ts ->
  forall p, p <> [] ->
  match lookup (merge cmp sched ts) p with
  | Some n' =>
      exists w, In w (cands ts p) /\ (forall y, In y (cands ts p) -> cmp y w <> Gt) /\
                n' = (if is_dir w then set_sub w (n_sub n') else w)
  | None =>
      cands ts p = [] \/
      exists q s n, p = q ++ s /\ q <> [] /\ s <> [] /\ lookup (merge cmp sched ts) q = Some n /\ is_dir n = false
  end.
Proof. exact merge_paths_top. Qed.
Print Assumptions merge_paths.

(* the converse half of "iff": a path that is found has candidates and only directory prefixes *)
Theorem merge_paths_found : forall (r : tree) q s n, q <> [] -> s <> [] ->
  lookup r (q ++ s) = Some n -> exists m, lookup r q = Some m /\ is_dir m = true.
Proof. exact (fun r q s n => lookup_prefix q r s n). Qed.
Print Assumptions merge_paths_found.

(* every level of the result is strictly sorted by name (no duplicates) *)
Theorem merge_sorted : forall cmp sched, (forall l, Permutation (sched l) l) ->
  forall ts, Forall (fun t => wf_tree t = true) ts -> sorted (merge cmp sched ts).
Proof. exact merge_sorted_top. Qed.
Print Assumptions merge_sorted.

From Verif.C12 Require Import Proofs2 Proofs3 Examples.

(* merging one tree, a tree with itself, or any number k+1 of copies returns the tree (no
   well-formedness needed) *)
Theorem merge_single : forall cmp sched, (forall l, Permutation (sched l) l) -> forall t, merge cmp sched [t] = t.
Proof. exact merge_single_top. Qed.
Print Assumptions merge_single.

Theorem merge_idempotent : forall cmp sched, (forall l, Permutation (sched l) l) -> forall t, merge cmp sched [t; t] = t.
Proof. exact merge_idempotent_top. Qed.
Print Assumptions merge_idempotent.

Theorem merge_copies : forall cmp sched, (forall l, Permutation (sched l) l) ->
  forall k t, merge cmp sched (repeat t (S k)) = t.
Proof. exact merge_repeat_top. Qed.
Print Assumptions merge_copies.

(* REWRITE.  For every exclusion predicate (the glob matcher's verdict on (path, is_dir)) and every node
   modification that only touches metadata and reports a change whenever it makes one: the tree of the
   rewritten snapshot is the input with exactly the matched nodes (and everything below a matched
   directory) removed — `prune` — and nothing else changed: listed as (path, node without subtree)
   pairs, the result is the list of the input's pairs whose path has no matched prefix (`kept`), each
   node passed through the modification.  The root path [] (the only one the command uses) carries no
   premise: the nameless root is not matched against the globs (fix "rewrite does not treat the nameless
   snapshot root as excludable"); the input is well-formed (every level sorted), so the modifier's sort of a
   changed tree is the identity here. *)
Theorem rewrite_removes_exactly_excluded : forall excl modn,
  (forall n, n_name (fst (modn n)) = n_name n /\ n_kind (fst (modn n)) = n_kind n /\
             n_content (fst (modn n)) = n_content n /\ n_sub (fst (modn n)) = n_sub n) ->
  (forall n, snd (modn n) = false -> fst (modn n) = n) ->
  forall path t, wf_tree t = true -> path = [] \/ excl path true = false ->
    let r := result_tree t (rewrite_tree excl modn path t) in
    r = prune excl modn path t /\
    map (fun pn => (fst pn, strip (snd pn))) (paths path r) =
    map (fun pn => (fst pn, strip_mod modn (snd pn))) (kept excl path t).
Proof. exact rewrite_top. Qed.
Print Assumptions rewrite_removes_exactly_excluded.

(* REPAIR.  Nothing missing (every chunk of every file indexed, every subtree readable) => the
   modifier reports Unchanged for the root: no tree is written and the snapshot is not touched. *)
Theorem repair_identity_on_intact : forall has_data mark resize readable t,
  intact has_data readable t = true -> repair_tree has_data mark resize readable t = Unchanged.
Proof. exact repair_identity_lemma. Qed.
Print Assumptions repair_identity_on_intact.

(* Every regular file of the repaired tree is either an original file at the same path with the same
   name and exactly its original chunk list, all of whose chunks are present — or the marked (renamed)
   remainder of an original file that had a missing chunk, holding exactly the present chunks. *)
Theorem repair_kept_files_intact : forall has_data mark resize readable t,
  files_ok has_data mark (paths [] t) (paths [] (result_tree t (repair_tree has_data mark resize readable t))).
Proof. exact repair_kept_files_lemma. Qed.
Print Assumptions repair_kept_files_intact.

(* COPY.  The requests of copy (`needed`: reachable from the snapshots, not in the destination's typed
   index, known to the source) go through the two packers sharing one indexer (the C13 transition
   system; `indexer_typed` is read from the source).  For EVERY complete interleaving: if the source is
   closed, every (type, id) reachable from a copied snapshot is in the destination index afterwards.
   No NoCrossTypeCollision premise: the proof uses that Indexer.indexed is typed. *)
Theorem copy_closed : forall tid src dst snaps es s,
  (forall b, In b (flat_map (reach tid) snaps) -> has src b = true) ->
  Verif.C13.Model.run Verif.C13.Model.init es = Some s -> Verif.C13.Model.final s = true ->
  (forall b, In b (needed tid src dst snaps) -> In (conv b) (Verif.C13.Model.requested s)) ->
  forall b, In b (flat_map (reach tid) snaps) -> has (dst ++ indexed_blobs s) b = true.
Proof. exact copy_closed_lemma. Qed.
Print Assumptions copy_closed.

From Verif.C12 Require Import Proofs4.

(* MERGE, THE LOOP AS WRITTEN.  `merge_loop_gen` is the loop of tree::merge_trees statement by statement
   (fill the heap with the first node of every tree; pop; push the successor of the popped node's tree
   BEFORE the next pop; collect equal names; merge_nodes on a name change) over an arbitrary priority
   queue.  For EVERY push/pop meeting the priority-queue specification (`pq_spec`: push adds, pop
   returns an element of least name and leaves the rest) it satisfies the same path specification as
   `merge` (`spec_at` is the match of theorem merge_paths).  The instance extracted and compared with
   the implementation case by case, ties included, is std's BinaryHeap algorithm (Model.heap_push /
   heap_pop); that this instance meets `pq_spec` is NOT proved (trusted: BinaryHeap is a priority queue). *)
Theorem merge_loop_paths : forall cmp hpush hpop, pq_spec hpush hpop -> preorder cmp ->
  forall ts, Forall (fun t => wf_tree t = true) ts ->
  forall p, p <> [] -> spec_at cmp ts (merge_loop_gen cmp hpush hpop ts) p.
Proof. exact merge_loop_paths_top. Qed.
Print Assumptions merge_loop_paths.

(* ... and its result is strictly sorted by name at the top level (no name twice) — what the unfixed code
   violated on backup-written trees with names that need escaping, where the premise wf_tree (sorted in the
   order the merge compares) failed. *)
Theorem merge_loop_sorted : forall cmp hpush hpop, pq_spec hpush hpop ->
  forall ts, Forall (fun t => wf_tree t = true) ts -> sorted (merge_loop_gen cmp hpush hpop ts).
Proof. exact merge_loop_sorted_top. Qed.
Print Assumptions merge_loop_sorted.

(* the priority-queue specification is satisfiable (push = cons, pop = first element of least name) *)
Theorem pq_spec_nonvacuous : pq_spec (fun h x => x :: h) pop_min.
Proof. exact pq_spec_satisfiable. Qed.
Print Assumptions pq_spec_nonvacuous.

From Verif.C12 Require Import Proofs5.

(* a tree written by repair is in name order (non-strictly: a marked name may coincide with a sibling) *)
Theorem repair_result_sorted : forall has_data mark resize readable t st,
  repair_tree has_data mark resize readable t = Changed st -> sorted_le st.
Proof. exact repair_result_sorted_lemma. Qed.
Print Assumptions repair_result_sorted.

(* THE HEAP.  Model.heap_push / heap_pop transcribe std's BinaryHeap (Vec push + sift_up; pop last, swap with
   the root, sift_down_to_bottom, sift_up).  With the heap order as representation invariant they meet the
   priority-queue specification: push and pop preserve the invariant and the multiset, pop returns None only
   on the empty vector and otherwise an element of least name. *)
Theorem heap_meets_pq_spec : pq_spec_inv heap_ok heap_push heap_pop.
Proof. exact heap_meets_pq_spec_lemma. Qed.
Print Assumptions heap_meets_pq_spec.

(* Hence the loop as written, over the heap as transcribed — the executable that reproduces the
   implementation case by case, ties included — meets the path specification of merge_paths and yields
   strictly sorted output, with no premise about the priority queue. *)
Theorem merge_loop_paths_binary_heap : forall cmp, preorder cmp ->
  forall ts, Forall (fun t => wf_tree t = true) ts ->
  forall p, p <> [] -> spec_at cmp ts (merge_loop cmp ts) p.
Proof. exact merge_loop_paths_binary_heap_lemma. Qed.
Print Assumptions merge_loop_paths_binary_heap.

Theorem merge_loop_sorted_binary_heap : forall cmp ts,
  Forall (fun t => wf_tree t = true) ts -> sorted (merge_loop cmp ts).
Proof. exact merge_loop_sorted_binary_heap_lemma. Qed.
Print Assumptions merge_loop_sorted_binary_heap.

From Verif.C12 Require Import Proofs6.

(* COPY PRESERVES CONTENT.  Composition with C08: the repacker (BlobCopier::copy over coalesced reads, C08
   `repack_preserves_blobs`) hands the target packer, for every entry, the decoded bytes of that entry's own
   source location; the target packer (C08 `packer_pack_wellformed`) writes them - encoded by the
   destination's Packer::add (`denc`: compress + encrypt under the destination key) - into packs whose index
   entries have contiguous offsets.  For EVERY list of needed entries with distinct ids, every save pattern,
   every source decoder and every destination encoder/decoder pair with `ddec (denc x) = Some x` (AEAD and zstd
   round trip, as C08 states them; header encryption adds 32 bytes): each entry's blob is indexed in a
   written destination pack at a location whose bytes decode to exactly the source blob's decoded bytes. *)
Theorem copy_preserves_content : forall sstore sdecode denc dulen ddec enc,
  (forall x, ddec (denc x) (dulen x) = Some x) ->
  (forall x, length (enc x) = (length x + 32)%nat) ->
  forall tpe es out saves packs,
    NoDup (map Verif.C08.Repack.ce_id es) ->
    Verif.C08.Repack.repack true sstore sdecode es = Verif.C08.Model.Ok out ->
    Forall Verif.C08.Spec.wf_op (dest_ops denc dulen out saves) ->
    Verif.C08.Model.packer_run enc tpe (dest_ops denc dulen out saves) = Verif.C08.Model.Ok packs ->
    forall e, In e es ->
      exists pd f bs b,
        Verif.C08.Repack.expected_of sstore sdecode e
          = Some (Verif.C08.Repack.ce_id e, pd, Verif.C08.Repack.l_ulen (Verif.C08.Repack.ce_loc e)) /\
        In (f, bs) packs /\ In b bs /\ Verif.C08.Model.bid b = Verif.C08.Repack.ce_id e /\
        Verif.C08.Model.btpe b = tpe /\
        ddec (Verif.C08.Model.slice f (Verif.C08.Model.boff b) (Verif.C08.Model.blen b)) (Verif.C08.Model.bulen b) = Some pd.
Proof. exact copy_preserves_content_lemma. Qed.
Print Assumptions copy_preserves_content.

(* ... hence, with content addressing for the blobs the destination already had, every reachable blob reads
   the same bytes in the destination as in the source, and every file of every copied snapshot restores to
   the same bytes (same chunk list, same plaintext per chunk). *)
Theorem copy_restores_identically : forall tid src dst snaps (src_plain dst_plain : bt * N -> option (list N)),
  (forall b, In b (flat_map (reach tid) snaps) -> has src b = true) ->
  (forall b, In b (flat_map (reach tid) snaps) -> has dst b = true -> dst_plain b = src_plain b) ->
  (forall b, In b (needed tid src dst snaps) -> dst_plain b = src_plain b) ->
  (forall b, In b (flat_map (reach tid) snaps) -> dst_plain b = src_plain b) /\
  forall t p n, In t snaps -> In (p, n) (paths [] t) -> n_kind n = KFile ->
    map (fun i => dst_plain (Data, i)) (n_content n) = map (fun i => src_plain (Data, i)) (n_content n).
Proof. exact copy_restores_identically_lemma. Qed.
Print Assumptions copy_restores_identically.

(* COPY FROM ANY SOURCE.  Without the premise that the source is closed: every reachable blob the source index
   knows ends up in the destination index, and copy requests only blobs the source knows and the destination
   lacks (ids unknown to the source are skipped by `filter_map` — read from copy.rs): the destination becomes
   exactly as closed as the source.  copy_closed is the special case of a closed source. *)
Theorem copy_closed_relative : forall tid src dst snaps es s,
  Verif.C13.Model.run Verif.C13.Model.init es = Some s -> Verif.C13.Model.final s = true ->
  (forall b, In b (needed tid src dst snaps) -> In (conv b) (Verif.C13.Model.requested s)) ->
  (forall b, In b (flat_map (reach tid) snaps) -> has src b = true -> has (dst ++ indexed_blobs s) b = true) /\
  (forall b, In b (needed tid src dst snaps) -> has src b = true /\ has dst b = false).
Proof. exact copy_closed_relative_lemma. Qed.
Print Assumptions copy_closed_relative.

(* REPAIR, MISSING SUBTREES.  One step of the modifier on a directory node (any path, any metadata): if the
   subtree cannot be loaded the directory stays, with its name and metadata, as an EMPTY directory (flagged as a
   change unless the lost tree was the empty tree); a directory node without subtree id becomes a directory with
   the empty tree; a directory whose subtree loads keeps name and metadata and carries the repaired subtree. *)
Theorem repair_missing_subtree : forall has_data mark resize readable path a m t c s,
  (readable s = false ->
     modify_node (rp_visit has_data mark resize) readable path (Node a KDir m t c s)
       = (Some (Node a KDir m t c []), negb (tree_eqb [] s)) \/
     modify_node (rp_visit has_data mark resize) readable path (Node a KDir m t c s)
       = (Some (Node a KDir m t c s), false) /\ s = []) /\
  modify_node (rp_visit has_data mark resize) readable path (Node a KDirNoSub m t c s)
    = (Some (Node a KDir m t c []), true) /\
  (readable s = true ->
     fst (modify_node (rp_visit has_data mark resize) readable path (Node a KDir m t c s))
       = Some (Node a KDir m t c (result_tree s (modify_tree (rp_visit has_data mark resize) readable (path ++ [a]) s)))).
Proof. exact repair_missing_subtree_lemma. Qed.
Print Assumptions repair_missing_subtree.
