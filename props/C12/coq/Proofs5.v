(* C12 — the transcription of std's BinaryHeap (Model.heap_push / heap_pop: Vec push + sift_up;
   pop last, swap with the root, sift_down_to_bottom, sift_up) is a priority queue on heap-ordered
   vectors: the heap order is an invariant, push/pop preserve the multiset, pop returns an element of
   least name.  Hence the merge loop theorems hold for the transcription without a PQ premise. *)
From Verif.Base Require Import Tactics.
From Verif.C12 Require Import Model Proofs Proofs4.
Local Open Scope nat_scope.

Definition key (e : hnode) : N := n_name (fst e).
Definition par (i : nat) : nat := (i - 1) / 2.

Lemma hle_key a b : hle a b = (key b <=? key a)%N.
Proof. reflexivity. Qed.

(* ------------------------------------------------------------------ vectors as lists *)

Lemma set_nth_length {A} i (v : A) l : length (set_nth i v l) = length l.
Proof. revert i; induction l as [|x l IH]; intros [|i]; cbn [set_nth length]; auto. Qed.

Lemma nth_set_nth_eq {A} i (v d : A) l : i < length l -> nth i (set_nth i v l) d = v.
Proof.
  revert i; induction l as [|x l IH]; intros [|i] H; cbn [length] in H; try lia; cbn [set_nth nth]; [reflexivity|].
  apply IH. lia.
Qed.

Lemma nth_set_nth_neq {A} i j (v d : A) l : i <> j -> nth j (set_nth i v l) d = nth j l d.
Proof.
  revert i j; induction l as [|x l IH]; intros [|i] [|j] H; cbn [set_nth nth]; try reflexivity; try lia.
  apply IH. lia.
Qed.

Fixpoint del {A} (i : nat) (l : list A) : list A :=
  match i, l with
  | _, [] => []
  | O, _ :: r => r
  | S j, x :: r => x :: del j r
  end.

Lemma perm_del {A} i (d : A) l : i < length l -> Permutation l (nth i l d :: del i l).
Proof.
  revert i; induction l as [|x l IH]; intros [|i] H; cbn [length] in H; try lia; cbn [nth del].
  - apply Permutation_refl.
  - eapply Permutation_trans; [apply perm_skip; apply (IH i); lia | apply perm_swap].
Qed.

Lemma perm_set_nth {A} i (v : A) l : i < length l -> Permutation (set_nth i v l) (v :: del i l).
Proof.
  revert i; induction l as [|x l IH]; intros [|i] H; cbn [length] in H; try lia; cbn [set_nth del].
  - apply Permutation_refl.
  - eapply Permutation_trans; [apply perm_skip; apply (IH i); lia | apply perm_swap].
Qed.

(* moving the element at j into the hole at i moves the hole to j *)
Lemma del_move {A} i j (d : A) l : i <> j -> i < length l -> j < length l ->
  Permutation (del j (set_nth i (nth j l d) l)) (del i l).
Proof.
  intros Hne Hi Hj.
  pose proof (perm_del j d (set_nth i (nth j l d) l)) as P1. rewrite set_nth_length in P1. specialize (P1 Hj).
  rewrite nth_set_nth_neq in P1 by exact Hne.
  pose proof (perm_set_nth i (nth j l d) l Hi) as P2.
  eapply Permutation_cons_inv. eapply Permutation_trans; [apply Permutation_sym; exact P1 | exact P2].
Qed.

Lemma del_last {A} (l : list A) x : del (length l) (l ++ [x]) = l.
Proof. induction l as [|a l IH]; cbn [length app del]; [reflexivity | rewrite IH; reflexivity]. Qed.

Lemma nth_app_l {A} i (l r : list A) d : i < length l -> nth i (l ++ r) d = nth i l d.
Proof. intro H. apply app_nth1. exact H. Qed.

Lemma par_lt i : 0 < i -> par i < i.
Proof. unfold par. intro H. apply Nat.div_lt_upper_bound; lia. Qed.

Lemma par_children i p : 0 < i -> par i = p -> i = 2 * p + 1 \/ i = 2 * p + 2.
Proof.
  unfold par. intros Hi H. pose proof (Nat.div_mod (i - 1) 2 ltac:(lia)) as E. rewrite H in E.
  pose proof (Nat.mod_upper_bound (i - 1) 2 ltac:(lia)). lia.
Qed.

Lemma par_of_children p : par (2 * p + 1) = p /\ par (2 * p + 2) = p.
Proof.
  unfold par. split.
  - replace (2 * p + 1 - 1) with (p * 2) by lia. apply Nat.div_mul. lia.
  - replace (2 * p + 2 - 1) with (1 + p * 2) by lia. rewrite Nat.div_add by lia. reflexivity.
Qed.

(* ------------------------------------------------------------------ multiset *)

Lemma sift_up_perm : forall f data pos elt, pos < length data ->
  Permutation (sift_up f data pos elt) (elt :: del pos data).
Proof.
  induction f as [|f IH]; intros data pos elt Hp; cbn [sift_up]; [apply perm_set_nth; exact Hp|].
  destruct pos as [|p]; [apply perm_set_nth; exact Hp|].
  fold (par (S p)). pose proof (par_lt (S p) ltac:(lia)) as Hlt.
  destruct (hle elt (nth (par (S p)) data elt)); [apply perm_set_nth; exact Hp|].
  eapply Permutation_trans; [apply IH; rewrite set_nth_length; lia|].
  apply perm_skip. apply del_move; lia.
Qed.

Lemma heap_push_perm data x : Permutation (heap_push data x) (x :: data).
Proof.
  unfold heap_push. eapply Permutation_trans; [apply sift_up_perm; rewrite app_length; cbn; lia|].
  rewrite del_last. apply Permutation_refl.
Qed.

Lemma sift_down_perm : forall f data pos d, pos < length data ->
  let r := sift_down f data pos (length data) d in
  length (fst r) = length data /\ snd r < length data /\ Permutation (del (snd r) (fst r)) (del pos data).
Proof.
  induction f as [|f IH]; intros data pos d Hp; cbn [sift_down]; [cbn [fst snd]; repeat split; auto|].
  destruct (2 * pos + 1 + 2 <=? length data) eqn:E2.
  - apply Nat.leb_le in E2.
    set (c := if hle (nth (2 * pos + 1) data d) (nth (2 * pos + 1 + 1) data d) then 2 * pos + 1 + 1 else 2 * pos + 1).
    assert (pos < c /\ c < length data) as [Hc1 Hc2] by (unfold c; destruct (hle _ _); lia).
    pose proof (IH (set_nth pos (nth c data d) data) c d) as H. rewrite set_nth_length in H.
    specialize (H Hc2). cbv zeta in H |- *. destruct H as [H1 [H2 H3]].
    split; [exact H1|]. split; [exact H2|].
    eapply Permutation_trans; [exact H3|]. apply del_move; lia.
  - destruct (2 * pos + 1 + 1 =? length data) eqn:E1.
    + apply Nat.eqb_eq in E1. cbn [fst snd]. rewrite set_nth_length. split; [reflexivity|]. split; [lia|].
      apply del_move; lia.
    + cbn [fst snd]. repeat split; auto.
Qed.

(* ------------------------------------------------------------------ heap order *)

Definition heap_ok (data : list hnode) : Prop :=
  forall i d, 0 < i < length data -> (key (nth (par i) data d) <= key (nth i data d))%N.
(* heap order everywhere except at pairs touching the hole *)
Definition hole_ok (data : list hnode) (pos : nat) : Prop :=
  forall i d, 0 < i < length data -> i <> pos -> par i <> pos ->
    (key (nth (par i) data d) <= key (nth i data d))%N.

Lemma place_ok data pos elt : pos < length data -> hole_ok data pos ->
  (forall i d, 0 < i < length data -> par i = pos -> (key elt <= key (nth i data d))%N) ->
  (0 < pos -> forall d, (key (nth (par pos) data d) <= key elt)%N) ->
  heap_ok (set_nth pos elt data).
Proof.
  intros Hp Hh Hc Hpar i d Hi. rewrite set_nth_length in Hi.
  destruct (Nat.eq_dec i pos) as [->|Hne].
  - rewrite nth_set_nth_eq by exact Hp. pose proof (par_lt pos ltac:(lia)).
    rewrite nth_set_nth_neq by lia. apply Hpar. lia.
  - rewrite (nth_set_nth_neq pos i) by lia. destruct (Nat.eq_dec (par i) pos) as [E|Hne2].
    + rewrite E. rewrite nth_set_nth_eq by exact Hp. apply Hc; assumption.
    + rewrite nth_set_nth_neq by lia. apply Hh; assumption.
Qed.

Lemma sift_up_ok : forall f data pos elt, pos < length data -> pos <= f -> hole_ok data pos ->
  (forall i d, 0 < i < length data -> par i = pos ->
     (key elt <= key (nth i data d))%N /\ (0 < pos -> (key (nth (par pos) data d) <= key (nth i data d))%N)) ->
  heap_ok (sift_up f data pos elt).
Proof.
  induction f as [|f IH]; intros data pos elt Hp Hf Hh Hc; cbn [sift_up].
  - apply place_ok; [exact Hp | exact Hh | intros i d Hi E; apply (Hc i d Hi E) | intro; lia].
  - destruct pos as [|p]; [apply place_ok; [exact Hp | exact Hh | intros i d Hi E; apply (Hc i d Hi E) | intro; lia]|].
    fold (par (S p)). pose proof (par_lt (S p) ltac:(lia)) as Hlt. set (q := par (S p)) in *.
    destruct (hle elt (nth q data elt)) eqn:E.
    + apply place_ok; [exact Hp | exact Hh | intros i d Hi Ei; apply (Hc i d Hi Ei)|].
      intros _ d. rewrite hle_key in E. rewrite (nth_indep data d elt) by lia. fold q. lia.
    + rewrite hle_key in E. assert (key elt < key (nth q data elt))%N as Hlt2 by lia.
      apply IH.
      * rewrite set_nth_length. lia.
      * lia.
      * (* hole_ok for the new hole q *)
        intros i d Hi Hne1 Hne2. rewrite set_nth_length in Hi.
        destruct (Nat.eq_dec i (S p)) as [->|Hn1]; [fold q in Hne2; lia|].
        rewrite (nth_set_nth_neq (S p) i) by lia.
        destruct (Nat.eq_dec (par i) (S p)) as [Ei|Hn2].
        -- rewrite Ei, nth_set_nth_eq by exact Hp. rewrite (nth_indep data elt d) by lia.
           destruct (Hc i d Hi Ei) as [_ H2]. apply H2. lia.
        -- rewrite nth_set_nth_neq by lia. apply Hh; assumption.
      * (* children of the new hole: the old hole position (now holding the parent) and its sibling *)
        intros i d Hi Ei. rewrite set_nth_length in Hi.
        assert (forall d', (key (nth q data elt) <= key (nth i (set_nth (S p) (nth q data elt) data) d'))%N) as Hge.
        { intro d'. destruct (Nat.eq_dec i (S p)) as [->|Hn1].
          - rewrite nth_set_nth_eq by exact Hp. lia.
          - rewrite nth_set_nth_neq by lia. pose proof (Hh i d' Hi Hn1 ltac:(lia)) as H. rewrite Ei in H.
            rewrite (nth_indep data elt d') by lia. exact H. }
        split; [specialize (Hge d); lia|].
        intro Hq. pose proof (par_lt q Hq) as Hlt3.
        rewrite (nth_set_nth_neq (S p) (par q)) by lia.
        pose proof (Hh q d ltac:(lia) ltac:(lia) ltac:(lia)) as H.
        specialize (Hge d). rewrite (@nth_indep _ data q d elt) in H by lia. lia.
Qed.

Lemma heap_ok_nil : heap_ok [].
Proof. intros i d H. cbn in H. lia. Qed.

Lemma heap_push_ok data x : heap_ok data -> heap_ok (heap_push data x).
Proof.
  intro H. unfold heap_push. apply sift_up_ok.
  - rewrite app_length. cbn. lia.
  - lia.
  - intros i d Hi Hne _. rewrite app_length in Hi. cbn [length] in Hi.
    pose proof (par_lt i ltac:(lia)). rewrite !nth_app_l by lia. apply H. lia.
  - intros i d Hi Ei. rewrite app_length in Hi. cbn [length] in Hi.
    destruct (par_children i (length data) ltac:(lia) Ei); lia.
Qed.

(* the prefix of a heap is a heap *)
Lemma heap_ok_prefix l r : heap_ok (l ++ r) -> heap_ok l.
Proof.
  intros H i d Hi. pose proof (par_lt i ltac:(lia)). specialize (H i d). rewrite app_length in H.
  rewrite !nth_app_l in H by lia. apply H. lia.
Qed.

(* the root is least *)
Lemma heap_root_least data : heap_ok data -> forall i d, i < length data -> (key (nth 0 data d) <= key (nth i data d))%N.
Proof.
  intros H i. induction i as [i IH] using lt_wf_ind. intros d Hi.
  destruct i as [|i]; [lia|]. pose proof (par_lt (S i) ltac:(lia)) as Hlt.
  specialize (IH (par (S i)) Hlt d ltac:(lia)). specialize (H (S i) d ltac:(lia)). lia.
Qed.

(* sift_down_to_bottom: the hole travels to a position without children, heap order elsewhere is kept *)
Lemma sift_down_ok : forall f data pos d, pos < length data -> length data - pos <= f -> hole_ok data pos ->
  (0 < pos -> forall i d', 0 < i < length data -> par i = pos -> (key (nth (par pos) data d') <= key (nth i data d'))%N) ->
  let r := sift_down f data pos (length data) d in
  hole_ok (fst r) (snd r) /\ length data <= 2 * snd r + 1.
Proof.
  induction f as [|f IH]; intros data pos d Hp Hf Hh Hd; [lia|]. cbn [sift_down].
  destruct (2 * pos + 1 + 2 <=? length data) eqn:E2.
  - apply Nat.leb_le in E2.
    set (c1 := 2 * pos + 1) in *. set (c2 := c1 + 1).
    destruct (par_of_children pos) as [Pc1 Pc2]. fold c1 in Pc1. replace (2 * pos + 2) with c2 in Pc2 by (unfold c2, c1; lia).
    set (c := if hle (nth c1 data d) (nth c2 data d) then c2 else c1).
    assert ((c = c1 \/ c = c2) /\ (key (nth c data d) <= key (nth c1 data d))%N /\ (key (nth c data d) <= key (nth c2 data d))%N) as [Hcc [Hk1 Hk2]].
    { unfold c. rewrite hle_key. destruct (key (nth c2 data d) <=? key (nth c1 data d))%N eqn:E; split; auto; lia. }
    assert (par c = pos) as Pc by (destruct Hcc as [-> | ->]; assumption).
    assert (pos < c /\ c < length data) as [Hc1 Hc2] by (destruct Hcc as [-> | ->]; unfold c2, c1; lia).
    pose proof (IH (set_nth pos (nth c data d) data) c d) as HIH. rewrite set_nth_length in HIH.
    cbv zeta in HIH |- *. apply HIH; clear HIH; [exact Hc2 | lia | |].
    + (* hole_ok for the hole at c *)
      intros i d' Hi Hn1 Hn2. try rewrite set_nth_length in Hi.
      destruct (Nat.eq_dec i pos) as [->|Hn3].
      * rewrite nth_set_nth_eq by exact Hp. pose proof (par_lt pos ltac:(lia)).
        rewrite nth_set_nth_neq by lia. rewrite (nth_indep data d d') by lia.
        apply (Hd ltac:(lia) c d'); [lia | exact Pc].
      * rewrite (nth_set_nth_neq pos i) by lia. destruct (Nat.eq_dec (par i) pos) as [Ei|Hn4].
        -- rewrite Ei, nth_set_nth_eq by exact Hp.
           destruct (par_children i pos ltac:(lia) Ei) as [Ec|Ec]; fold c1 in Ec.
           ++ subst i. rewrite (nth_indep data d' d) by lia. exact Hk1.
           ++ replace (2 * pos + 2) with c2 in Ec by (unfold c2, c1; lia). subst i.
              rewrite (nth_indep data d' d) by lia. exact Hk2.
        -- rewrite nth_set_nth_neq by lia. apply Hh; assumption.
    + (* children of c against c's parent (the old hole, now holding data[c]) *)
      intros _ i d' Hi Ei. try rewrite set_nth_length in Hi. rewrite Pc.
      rewrite nth_set_nth_eq by exact Hp. pose proof (par_lt i ltac:(lia)).
      rewrite nth_set_nth_neq by lia. pose proof (Hh i d' Hi ltac:(lia) ltac:(lia)) as Hx. rewrite Ei in Hx.
      rewrite (nth_indep data d d') by lia. exact Hx.
  - apply Nat.leb_gt in E2. destruct (2 * pos + 1 + 1 =? length data) eqn:E1.
    + apply Nat.eqb_eq in E1. cbn [fst snd]. split; [|lia].
      set (c1 := 2 * pos + 1) in *. destruct (par_of_children pos) as [Pc1 _]. fold c1 in Pc1.
      intros i d' Hi Hn1 Hn2. try rewrite set_nth_length in Hi.
      destruct (Nat.eq_dec i pos) as [->|Hn3].
      * rewrite nth_set_nth_eq by exact Hp. pose proof (par_lt pos ltac:(lia)).
        rewrite nth_set_nth_neq by lia. rewrite (nth_indep data d d') by lia.
        apply (Hd ltac:(lia) c1 d'); [lia | exact Pc1].
      * rewrite (nth_set_nth_neq pos i) by lia. destruct (Nat.eq_dec (par i) pos) as [Ei|Hn4].
        -- destruct (par_children i pos ltac:(lia) Ei) as [Ec|Ec]; fold c1 in Ec; lia.
        -- rewrite nth_set_nth_neq by lia. apply Hh; assumption.
    + apply Nat.eqb_neq in E1. cbn [fst snd]. split; [exact Hh | lia].
Qed.

(* ------------------------------------------------------------------ pop *)

Lemma rev_split {A} (data : list A) last rrest : rev data = last :: rrest -> data = rev rrest ++ [last].
Proof. intro H. rewrite <- (rev_involutive data), H. reflexivity. Qed.

Lemma heap_pop_none data : heap_pop data = None -> data = [].
Proof.
  unfold heap_pop. destruct (rev data) as [|last rrest] eqn:E.
  - intros _. rewrite <- (rev_involutive data), E. reflexivity.
  - destruct (rev rrest); [discriminate|]. destruct (sift_down _ _ _ _ _). discriminate.
Qed.

Lemma heap_pop_some data x h' : heap_ok data -> heap_pop data = Some (x, h') ->
  heap_ok h' /\ Permutation data (x :: h') /\ forall y, In y h' -> (key x <= key y)%N.
Proof.
  intros Hok. unfold heap_pop. destruct (rev data) as [|last rrest] eqn:E; [discriminate|].
  apply rev_split in E. set (rest := rev rrest) in *. subst data.
  destruct rest as [|top tl] eqn:Er.
  - intro H. inv H. split; [apply heap_ok_nil|]. split; [apply Permutation_refl | intros y []].
  - rewrite <- Er in *.
    assert (0 < length rest) as Hn by (rewrite Er; cbn; lia).
    pose proof (heap_ok_prefix _ _ Hok) as Hrest.
    set (data1 := set_nth 0 last rest).
    assert (length data1 = length rest) as Hl1 by apply set_nth_length.
    pose proof (sift_down_perm (S (length rest)) data1 0 last ltac:(lia)) as Pd.
    pose proof (sift_down_ok (S (length rest)) data1 0 last ltac:(lia) ltac:(lia)) as Od.
    rewrite Hl1 in Pd, Od. cbv zeta in Pd, Od.
    destruct (sift_down (S (length rest)) data1 0 (length rest) last) as [data2 pos] eqn:Es.
    cbn [fst snd] in Pd, Od. destruct Pd as [Hl2 [Hpos Pperm]].
    assert (hole_ok data1 0) as Hh1.
    { intros i d Hi Hn1 Hn2. rewrite Hl1 in Hi. unfold data1. rewrite !nth_set_nth_neq by lia. apply Hrest. lia. }
    destruct (Od Hh1 ltac:(lia)) as [Hh2 Hleaf].
    remember (sift_up (S (length rest)) data2 pos last) as res eqn:Eres.
    intro H. injection H as Ex Eh. subst x h'. rewrite Eres. clear Eres res. split; [|split].
    + apply sift_up_ok; [lia | lia | exact Hh2|].
      intros i d Hi Ei. destruct (par_children i pos ltac:(lia) Ei); lia.
    + (* multiset *)
      assert (Permutation (sift_up (S (length rest)) data2 pos last) (last :: tl)) as P2.
      { eapply Permutation_trans; [apply sift_up_perm; lia|]. apply perm_skip.
        eapply Permutation_trans; [exact Pperm|]. unfold data1. rewrite Er. cbn [set_nth del]. apply Permutation_refl. }
      eapply Permutation_trans; [|apply perm_skip; apply Permutation_sym; exact P2].
      rewrite Er. cbn [app]. apply perm_skip. apply Permutation_sym. apply Permutation_cons_append.
    + intros y Hy.
      assert (Permutation (sift_up (S (length rest)) data2 pos last) (last :: tl)) as P2.
      { eapply Permutation_trans; [apply sift_up_perm; lia|]. apply perm_skip.
        eapply Permutation_trans; [exact Pperm|]. unfold data1. rewrite Er. cbn [set_nth del]. apply Permutation_refl. }
      apply (Permutation_in _ P2) in Hy.
      assert (In y (rest ++ [last])) as Hy2.
      { rewrite Er. cbn [app]. right. destruct Hy as [<-|Hy]; [apply in_or_app; right; left; reflexivity | apply in_or_app; left; exact Hy]. }
      destruct (In_nth _ _ top Hy2) as [i [Hi Ei]].
      pose proof (heap_root_least _ Hok i top Hi) as Hr. rewrite Ei in Hr.
      rewrite Er in Hr. cbn [app nth] in Hr. exact Hr.
Qed.

(* ------------------------------------------------------------------ the priority-queue specification *)

Lemma heap_meets_pq_spec_lemma : pq_spec_inv heap_ok heap_push heap_pop.
Proof.
  split; [exact heap_ok_nil|]. split; [intros h x H; split; [apply heap_push_ok; exact H | apply heap_push_perm]|].
  split; [exact heap_pop_none|]. intros h x h' H E. apply heap_pop_some; assumption.
Qed.

Lemma merge_loop_paths_binary_heap_lemma : forall cmp, preorder cmp ->
  forall ts, Forall (fun t => wf_tree t = true) ts ->
  forall p, p <> [] -> spec_at cmp ts (merge_loop cmp ts) p.
Proof. intros cmp Hp. unfold merge_loop. apply (merge_loop_paths_inv cmp heap_ok _ _ heap_meets_pq_spec_lemma Hp). Qed.

Lemma merge_loop_sorted_binary_heap_lemma : forall cmp ts,
  Forall (fun t => wf_tree t = true) ts -> sorted (merge_loop cmp ts).
Proof. intros cmp. unfold merge_loop. apply (merge_loop_sorted_inv cmp heap_ok _ _ heap_meets_pq_spec_lemma). Qed.
