(* C12 — executable model of the tree operations behind merge, rewrite, repair and copy.

   Trees are lists of nodes; a directory node carries its subtree (the value that
   `Tree::from_backend(node.subtree)` would return).  Names are numbers whose order is the
   order of `Node.name` (the escaped name, a Rust `String`, compared bytewise).

   Anchors:
     blob/tree.rs            merge_trees / merge_nodes            -> merge_trees, merge_nodes
     blob/tree/modify.rs     TreeModifier::modify_tree            -> modify_node, modify_tree, finish
     blob/tree/rewrite.rs    RewriteVisitor, Rewriter::rewrite_tree -> rw_visit, rewrite_tree
     commands/repair/snapshots.rs  RepairState (Visitor)          -> rp_visit, repair_tree
     commands/copy.rs        copy                                  -> reach, needed, copy_sends  *)
From Verif.Base Require Import Tactics.
From Verif.C12 Require Import Extracted.
Local Open Scope N_scope.

Inductive kind := KFile | KDir | KDirNoSub | KSymlink | KOther.
(* KDirNoSub: a node of type "dir" whose `subtree` field is None (never written by a backup;
   repair turns it into a directory with an empty tree, merge would panic on it). *)

Definition kind_eqb (a b : kind) : bool :=
  match a, b with
  | KFile, KFile | KDir, KDir | KDirNoSub, KDirNoSub | KSymlink, KSymlink | KOther, KOther => true
  | _, _ => false
  end.

(* name, type, modification time, all other metadata (one number), content (data blob ids), subtree *)
Inductive node := Node (name : N) (k : kind) (mtime : N) (meta : N) (content : list N) (sub : list node).
Definition tree := list node.

Definition n_name (n : node) := match n with Node a _ _ _ _ _ => a end.
Definition n_kind (n : node) := match n with Node _ k _ _ _ _ => k end.
Definition n_mtime (n : node) := match n with Node _ _ m _ _ _ => m end.
Definition n_meta (n : node) := match n with Node _ _ _ m _ _ => m end.
Definition n_content (n : node) := match n with Node _ _ _ _ c _ => c end.
Definition n_sub (n : node) : tree := match n with Node _ _ _ _ _ s => s end.
Definition is_dir (n : node) : bool := match n_kind n with KDir | KDirNoSub => true | _ => false end.
Definition is_file (n : node) : bool := match n_kind n with KFile => true | _ => false end.
Definition set_sub (n : node) (s : tree) : node :=
  match n with Node a k m t c _ => Node a k m t c s end.
Definition set_name (n : node) (a : N) : node :=
  match n with Node _ k m t c s => Node a k m t c s end.

Fixpoint list_eqb {A} (e : A -> A -> bool) (l1 l2 : list A) : bool :=
  match l1, l2 with
  | [], [] => true
  | x :: r1, y :: r2 => e x y && list_eqb e r1 r2
  | _, _ => false
  end.

(* equality of nodes / trees: stands for equality of the serialised tree's SHA-256 id *)
Fixpoint node_eqb (a b : node) {struct a} : bool :=
  match a, b with
  | Node n1 k1 m1 t1 c1 s1, Node n2 k2 m2 t2 c2 s2 =>
      (n1 =? n2) && kind_eqb k1 k2 && (m1 =? m2) && (t1 =? t2) && list_eqb N.eqb c1 c2 &&
      (fix go (l1 l2 : list node) {struct l1} : bool :=
         match l1, l2 with
         | [], [] => true
         | x :: r1, y :: r2 => node_eqb x y && go r1 r2
         | _, _ => false
         end) s1 s2
  end.
Definition tree_eqb (a b : tree) : bool := list_eqb node_eqb a b.

Fixpoint depth_node (n : node) : nat :=
  match n with Node _ _ _ _ _ s => S (fold_right (fun x a => Nat.max (depth_node x) a) O s) end.
Definition depth (t : tree) : nat := fold_right (fun x a => Nat.max (depth_node x) a) O t.
Definition depths (ts : list tree) : nat := fold_right (fun t a => Nat.max (depth t) a) O ts.

(* ------------------------------------------------------------------ merge *)

Section Merge.
  (* the comparison handed to merge_trees (`cmp(n1, n2)`), e.g. last_modified_node *)
  Variable cmp : node -> node -> comparison.
  (* the order in which the BinaryHeap (ordered by name only) delivers nodes of EQUAL name;
     the theorems hold for every permutation *)
  Variable sched : list node -> list node.

  (* Iterator::max_by: `fold(first, |x, y| match cmp(&x, &y) { Greater => x, _ => y })` — the last maximum *)
  Definition max_step (m x : node) : node := match cmp m x with Gt => m | _ => x end.
  Definition max_by (l : list node) : option node :=
    match l with [] => None | x :: r => Some (fold_left max_step r x) end.

  Definition head_name (t : tree) : option N := match t with [] => None | n :: _ => Some (n_name n) end.
  (* the name the heap pops next: the least name among the current heads of all trees *)
  Fixpoint min_name (ts : list tree) : option N :=
    match ts with
    | [] => None
    | t :: r => match head_name t, min_name r with
                | None, m => m
                | Some a, None => Some a
                | Some a, Some b => Some (N.min a b)
                end
    end.
  Definition take_head (m : N) (t : tree) : list node :=
    match t with n :: _ => if n_name n =? m then [n] else [] | [] => [] end.
  Definition drop_head (m : N) (t : tree) : tree :=
    match t with n :: r => if n_name n =? m then r else t | [] => [] end.
  (* the nodes collected in `nodes` until a different name is popped, and the iterators afterwards *)
  Definition heads (m : N) (ts : list tree) : list node := flat_map (take_head m) ts.
  Definition drops (m : N) (ts : list tree) : list tree := map (drop_head m) ts.

  (* merge_nodes: subtrees of ALL directories of the group, winner by max_by; a directory winner
     gets the merge of all those subtrees *)
  Definition merge_nodes (rec : list tree -> tree) (g : list node) : option node :=
    match max_by g with
    | None => None
    | Some w => Some (if is_dir w then set_sub w (rec (map n_sub (filter is_dir g))) else w)
    end.

  (* the loop of merge_trees; fuel = number of nodes still in the iterators *)
  Fixpoint merge_level (fuel : nat) (rec : list tree -> tree) (ts : list tree) : tree :=
    match fuel with
    | O => []
    | S f =>
        match min_name ts with
        | None => []
        | Some m =>
            match merge_nodes rec (sched (heads m ts)) with
            | Some n => n :: merge_level f rec (drops m ts)
            | None => merge_level f rec (drops m ts)
            end
        end
    end.

  Definition total_len (ts : list tree) : nat := fold_right (fun t a => (length t + a)%nat) O ts.

  (* merge_trees, recursion depth bounded by d (use d > depths ts) *)
  Fixpoint merge_trees (d : nat) (ts : list tree) : tree :=
    match d with
    | O => []
    | S d' => merge_level (total_len ts) (merge_trees d') ts
    end.

  Definition merge (ts : list tree) : tree := merge_trees (S (depths ts)) ts.
End Merge.

(* ------------------------------------------------------------------ merge, the loop as written

   The loop of `tree::merge_trees` literally: the heap holds (node, tree number); after a pop the successor
   of the popped node in ITS tree is pushed BEFORE the next pop.  On trees sorted in the compared order
   the successor is larger than the current name, so the nodes collected for one name are exactly
   `heads`; on unsorted trees (the pre-fix situation for names that need escaping) the two differ — this
   literal version reproduces the duplicates.  Used by the correspondence (also on unsorted inputs) and
   compared with `merge` on every sorted case; the refinement is not proved (see NOTES). *)
(* A heap element: the node together with the rest of its tree's iterator.  (The code keeps the iterators
   in `tree_iters` and stores the tree number in the element; `tree_iters[num]` is only advanced when the
   element of tree `num` has been popped, so carrying the iterator's remainder with the element is the same
   data, and the heap never looks at it: `Ord for SortedNode` compares names only.) *)
Definition hnode := (node * tree)%type.

Fixpoint set_nth {A} (i : nat) (v : A) (l : list A) : list A :=
  match i, l with
  | _, [] => []
  | O, _ :: r => v :: r
  | S j, x :: r => x :: set_nth j v r
  end.

(* std::collections::BinaryHeap (a max-heap on a Vec) under `Ord for SortedNode` = reversed name order:
   `hle a b` is `a <= b` there.  push = Vec::push + sift_up(0, old_len); pop = Vec::pop, swap with the
   root, sift_down_to_bottom(0) (children move up, picking the right child on `<=`), then sift_up. *)
Definition hle (a b : hnode) : bool := n_name (fst b) <=? n_name (fst a).

Fixpoint sift_up (fuel : nat) (data : list hnode) (pos : nat) (elt : hnode) : list hnode :=
  match fuel with
  | O => set_nth pos elt data
  | S f =>
      match pos with
      | O => set_nth O elt data
      | _ =>
          let parent := Nat.div (pos - 1) 2 in
          let p := nth parent data elt in
          if hle elt p then set_nth pos elt data else sift_up f (set_nth pos p data) parent elt
      end
  end.

Definition heap_push (data : list hnode) (x : hnode) : list hnode :=
  sift_up (S (length data)) (data ++ [x]) (length data) x.

Fixpoint sift_down (fuel : nat) (data : list hnode) (pos end_ : nat) (d : hnode) : list hnode * nat :=
  match fuel with
  | O => (data, pos)
  | S f =>
      let child := (2 * pos + 1)%nat in
      if (child + 2 <=? end_)%nat then
        let c := if hle (nth child data d) (nth (child + 1) data d) then (child + 1)%nat else child in
        sift_down f (set_nth pos (nth c data d) data) c end_ d
      else if (child + 1 =? end_)%nat then (set_nth pos (nth child data d) data, child)
      else (data, pos)
  end.

Definition heap_pop (data : list hnode) : option (hnode * list hnode) :=
  match rev data with
  | [] => None
  | last :: rrest =>
      let rest := rev rrest in
      match rest with
      | [] => Some (last, [])
      | top :: _ =>
          let '(data2, pos) := sift_down (S (length rest)) (set_nth O last rest) O (length rest) last in
          Some (top, sift_up (S (length rest)) data2 pos last)
      end
  end.

Section MergeLoop.
  Variable cmp : node -> node -> comparison.
  (* the priority queue: BinaryHeap::push / BinaryHeap::pop.  The theorems about the loop (Proofs4.v) hold
     for every pair satisfying the priority-queue specification; extraction uses heap_push / heap_pop *)
  Variable hpush : list hnode -> hnode -> list hnode.
  Variable hpop : list hnode -> option (hnode * list hnode).

  (* `if let Some(next_node) = tree_iters[num].next() { elems.push(SortedNode(next_node, num)) }` *)
  Definition push_next (rest : tree) (heap : list hnode) : list hnode :=
    match rest with
    | n :: r => hpush heap (n, r)
    | [] => heap
    end.

  Definition emit (rec : list tree -> tree) (g : list node) (rest : tree) : tree :=
    match merge_nodes cmp rec g with Some n => n :: rest | None => rest end.

  Fixpoint loop (fuel : nat) (rec : list tree -> tree) (cur : hnode) (nodes : list node)
                (heap : list hnode) : tree :=
    match fuel with
    | O => []
    | S f =>
        match hpop (push_next (snd cur) heap) with
        | None => emit rec (nodes ++ [fst cur]) []
        | Some (nx, heap2) =>
            if n_name (fst cur) =? n_name (fst nx)
            then loop f rec nx (nodes ++ [fst cur]) heap2
            else emit rec (nodes ++ [fst cur]) (loop f rec nx [] heap2)
        end
    end.

  (* fill the heap with the first element of every tree, in tree order *)
  Fixpoint first_elems (h : list hnode) (ts : list tree) : list hnode :=
    match ts with
    | [] => h
    | t :: r => first_elems (match t with n :: q => hpush h (n, q) | [] => h end) r
    end.

  Definition loop_level (rec : list tree -> tree) (ts : list tree) : tree :=
    match hpop (first_elems [] ts) with
    | None => []
    | Some (c, h') => loop (S (total_len ts)) rec c [] h'
    end.

  Fixpoint merge_trees_loop (d : nat) (ts : list tree) : tree :=
    match d with
    | O => []
    | S d' => loop_level (merge_trees_loop d') ts
    end.

  Definition merge_loop_gen (ts : list tree) : tree := merge_trees_loop (S (depths ts)) ts.
End MergeLoop.

Definition merge_loop (cmp : node -> node -> comparison) (ts : list tree) : tree :=
  merge_loop_gen cmp heap_push heap_pop ts.

(* the comparisons used by the correspondence *)
Definition cmp_mtime (a b : node) : comparison := N.compare (n_mtime a) (n_mtime b).
Definition cmp_meta (a b : node) : comparison := N.compare (n_meta a) (n_meta b).
Definition cmp_equal (a b : node) : comparison := Eq.
Definition cmp_dir_mtime (a b : node) : comparison :=
  match is_dir a, is_dir b with
  | true, false => Gt
  | false, true => Lt
  | _, _ => N.compare (n_mtime a) (n_mtime b)
  end.
Definition sched_id (l : list node) : list node := l.
Definition sched_rev (l : list node) : list node := rev l.

(* paths *)
Fixpoint lookup (t : tree) (p : list N) {struct p} : option node :=
  match p with
  | [] => None
  | x :: q =>
      match find (fun n => n_name n =? x) t with
      | None => None
      | Some n => match q with
                  | [] => Some n
                  | _ => if is_dir n then lookup (n_sub n) q else None
                  end
      end
  end.

(* all (path, node) pairs of a tree, directories before their contents *)
Fixpoint paths_node (pre : list N) (n : node) : list (list N * node) :=
  match n with
  | Node a k m t c s =>
      (pre ++ [a], n) ::
      (match k with KDir => flat_map (paths_node (pre ++ [a])) s | _ => [] end)
  end.
Definition paths (pre : list N) (t : tree) : list (list N * node) := flat_map (paths_node pre) t.

Fixpoint sorted_names (l : list N) : bool :=
  match l with
  | [] => true
  | a :: r => match r with [] => true | b :: _ => (a <? b) && sorted_names r end
  end.
(* every level strictly sorted by name, no directory without subtree, only directories have subtrees *)
Fixpoint wf_node (n : node) : bool :=
  match n with
  | Node _ k _ _ _ s =>
      negb (kind_eqb k KDirNoSub) &&
      (match k with KDir => true | _ => match s with [] => true | _ => false end end) &&
      sorted_names (map n_name s) && forallb wf_node s
  end.
Definition wf_tree (t : tree) : bool := sorted_names (map n_name t) && forallb wf_node t.

(* ------------------------------------------------------------------ TreeModifier *)

(* Vec::sort_by(|a, b| a.name().cmp(&b.name())): stable sort by name (insertion sort) *)
Fixpoint insert_node (n : node) (l : tree) : tree :=
  match l with
  | [] => [n]
  | x :: r => if n_name n <=? n_name x then n :: l else x :: insert_node n r
  end.
Definition sort_tree (t : tree) : tree := fold_right insert_node [] t.

Inductive change := Removed | Changed (t : tree) | Unchanged.
Inductive action :=
| ANode (n : node) (changed : bool)        (* NodeAction::Node *)
| ARemoved                                  (* NodeAction::Removed *)
| AVisit (n : node) (changed : bool)        (* NodeAction::VisitTree(node.subtree, node, changed) *)
| ACreate (n : node).                       (* NodeAction::CreateTree *)

Section Modifier.
  (* Visitor::process_node on (path of the node, node) *)
  Variable visit : list N -> node -> action.
  (* does Tree::from_backend succeed on this tree?  (rewrite: an error aborts — modelled as
     readable; repair: ProcessChangedTree(Tree::new())) *)
  Variable readable : tree -> bool.

  Definition fold_nodes (f : node -> option node * bool) : list node -> tree * bool :=
    fix go (l : list node) : tree * bool :=
      match l with
      | [] => ([], false)
      | x :: r =>
          let '(x', cx) := f x in
          let '(r', cr) := go r in
          (match x' with Some y => y :: r' | None => r' end, cx || cr)
      end.

  (* the tail of modify_tree: `if changed { new_tree.nodes.sort_by(name); save; (new_id != id).then_some(new_id) }
     else None` — the sort keeps a tree in name order when a visitor renamed nodes (repair's marker suffix);
     whether the source has it is read by extract.py (Extracted.modifier_sorts_changed_trees) *)
  Definition finish (rd : bool) (old : tree) (res : tree * bool) : change :=
    let '(nt, ch) := if rd then res else ([], true) in
    let st := if modifier_sorts_changed_trees then sort_tree nt else nt in
    if ch && negb (tree_eqb st old) then Changed st else Unchanged.

  (* one iteration of the `for node in tree` loop, including the recursive modify_tree *)
  Fixpoint modify_node (path : list N) (n : node) {struct n} : option node * bool :=
    match n with
    | Node a k m t c s =>
        let p := path ++ [a] in
        match visit p (Node a k m t c s) with
        | ANode n' ch => (Some n', ch)
        | ARemoved => (None, true)
        | ACreate n' => (Some (set_sub n' []), true)
        | AVisit n' ch =>
            match finish (readable s) s (fold_nodes (modify_node p) s) with
            | Removed => (None, true)
            | Unchanged => (Some n', ch)
            | Changed s' => (Some (set_sub n' s'), true)
            end
        end
    end.

  Definition modify_tree (path : list N) (t : tree) : change :=
    finish (readable t) t (fold_nodes (modify_node path) t).

  (* the tree a snapshot points to afterwards *)
  Definition result_tree (old : tree) (c : change) : tree :=
    match c with Changed t => t | _ => old end.
End Modifier.

(* ------------------------------------------------------------------ rewrite *)

Section Rewrite.
  (* `overrides.matched(path, is_dir)` is `Match::Ignore` — the glob matcher is not modelled *)
  Variable excl : list N -> bool -> bool.
  (* NodeModification::modify_node (| all_trees): new node and change flag *)
  Variable modn : node -> node * bool.

  Definition rw_visit (p : list N) (n : node) : action :=
    if excl p (is_dir n) then ARemoved
    else let '(n', ch) := modn n in
         match n_kind n' with KDir => AVisit n' ch | _ => ANode n' ch end.

  (* Rewriter::rewrite_tree: the nameless root (empty path) is not matched against the globs
     (Extracted.rewrite_root_is_matched = false, read from the source) *)
  Definition rewrite_tree (path : list N) (t : tree) : change :=
    match path with
    | [] => if rewrite_root_is_matched && excl path true then Removed
            else modify_tree rw_visit (fun _ => true) path t
    | _ => if excl path true then Removed else modify_tree rw_visit (fun _ => true) path t
    end.
End Rewrite.

(* ------------------------------------------------------------------ repair *)

Section Repair.
  (* index.get_data(id) is Some *)
  Variable has_data : N -> bool.
  (* name + opts.suffix *)
  Variable mark : N -> N.
  (* metadata after `node.meta.size = new_size` *)
  Variable resize : N -> list N -> N.
  Variable readable : tree -> bool.

  Definition rp_visit (p : list N) (n : node) : action :=
    match n with
    | Node a k m t c s =>
        match k with
        | KFile =>
            let c' := filter has_data c in
            let file_changed := negb (forallb has_data c) in
            ANode (Node (if file_changed then mark a else a) KFile m (resize t c') c' s) file_changed
        | KDir => AVisit n false
        | KDirNoSub => ACreate (Node a KDir m t c s)
        | _ => ANode n false
        end
    end.

  Definition repair_tree (t : tree) : change := modify_tree rp_visit readable [] t.
End Repair.

(* ------------------------------------------------------------------ copy *)

Inductive bt := Data | Tree.
Definition bt_eqb (a b : bt) : bool := match a, b with Data, Data | Tree, Tree => true | _, _ => false end.

Section Copy.
  (* id of a tree blob = SHA-256 of its serialisation *)
  Variable tid : tree -> N.

  (* every (type, id) a restore of the tree reads *)
  Fixpoint reach_node (n : node) : list (bt * N) :=
    match n with
    | Node _ k _ _ c s =>
        match k with
        | KFile => map (fun i => (Data, i)) c
        | KDir => (Tree, tid s) :: flat_map reach_node s
        | _ => []
        end
    end.
  Definition reach (t : tree) : list (bt * N) := (Tree, tid t) :: flat_map reach_node t.

  Definition has (ix : list (bt * N)) (b : bt * N) : bool :=
    existsb (fun e => bt_eqb (fst e) (fst b) && (snd e =? snd b)) ix.

  (* copy.rs "finding needed blobs": the root tree ids of the snapshots, plus whatever the tree walk
     (`TreeStreamerOnce`) sees below the trees it is started from.  The code must start it from ALL
     snapshot root trees — the destination may hold a root tree without everything below it; where the
     walk starts is read from the source (Extracted.copy_walk_from_all_snapshot_trees). *)
  Definition walked (dst : list (bt * N)) (snaps : list tree) : list tree :=
    if copy_walk_from_all_snapshot_trees then snaps
    else filter (fun t => negb (has dst (Tree, tid t))) snaps.
  Definition seen (dst : list (bt * N)) (snaps : list tree) : list (bt * N) :=
    map (fun t => (Tree, tid t)) snaps ++ flat_map (flat_map reach_node) (walked dst snaps).
  (* of those: ids not in the destination's TYPED index, and known to the source index
     (filter_map on index.get_data / get_tree: ids the source does not know are skipped silently —
     Extracted.copy_skips_ids_unknown_to_source, read from the source) *)
  Definition needed (src dst : list (bt * N)) (snaps : list tree) : list (bt * N) :=
    filter (fun b => negb (has dst b) && (if copy_skips_ids_unknown_to_source then has src b else true)) (seen dst snaps).
  (* data blobs first, then tree blobs *)
  Definition copy_order (l : list (bt * N)) : list (bt * N) :=
    filter (fun b => bt_eqb (fst b) Data) l ++ filter (fun b => bt_eqb (fst b) Tree) l.
End Copy.
